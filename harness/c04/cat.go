package c04

// Correspondence and oracles for the entry points that start from the trailer
// (Model/XrefTrailer.lean): Trailer(), NumObjects(), GetCatalog(), GetInfo(), Version() on
// files of one to three revisions whose trailers differ - the newest one counts.

import (
	"fmt"
	"os"
	"path/filepath"
	"strings"

	"github.com/tsawler/tabula/core"
	"github.com/tsawler/tabula/reader"

	"verifharness/hx"
	"verifharness/writers"
)

// catCase: per revision the trailer entries (without /Size and /Prev, which the writer
// adds) and the objects it (re)defines: number -> body ("" = deleted).
type catCase struct {
	Cat     []catRev `json:"cat"`
	Version string   `json:"version"` // "1.4", …
	Ops     []string `json:"ops"`
}

type catRev struct {
	Trailer string         `json:"trailer"`
	Objs    map[int]string `json:"objs"`
	Stream  bool           `json:"stream,omitempty"`
	Size    string         `json:"size"` // the /Size entry as written ("" = none)
}

func buildCat(k catCase) ([]byte, []writers.InflatePair) {
	p := writers.NewPDF("\n")
	p.Tr = &writers.Trace{}
	prev := int64(-1)
	for ri, rev := range k.Cat {
		entries := map[int]writers.XEntry{}
		if ri == 0 {
			entries[0] = writers.XEntry{Type: 0, F1: 0, F2: 65535}
		}
		nums := make([]int, 0, len(rev.Objs))
		for n := range rev.Objs {
			nums = append(nums, n)
		}
		sortInts(nums)
		for _, n := range nums {
			if rev.Objs[n] == "" {
				entries[n] = writers.XEntry{Type: 0, F1: 0, F2: 1}
			} else {
				entries[n] = writers.XEntry{Type: 1, F1: p.Obj(n, 0, rev.Objs[n])}
			}
		}
		tr := rev.Trailer
		if rev.Stream {
			// the stream dictionary is the trailer; /Size is mandatory there
			prev = p.XrefStream(20+ri, entries, tr, prev, [3]int{1, 4, 2}, ri%2 == 0, 0, 30)
		} else {
			if rev.Size != "" {
				tr += " /Size " + rev.Size
			}
			prev = p.XrefTable(entries, tr, prev, " \n")
		}
	}
	data := p.Buf.Bytes()
	if k.Version != "" {
		data = append([]byte("%PDF-"+k.Version), data[8:]...)
	}
	return data, p.Tr.Inflate
}

func sortInts(a []int) {
	for i := 1; i < len(a); i++ {
		for j := i; j > 0 && a[j-1] > a[j]; j-- {
			a[j-1], a[j] = a[j], a[j-1]
		}
	}
}

func genCat(r *hx.Rng) catCase {
	k := catCase{Version: hx.Pick(r, []string{"1.4", "1.7", "2.0", "1.0", "9.9"})}
	body := func() string {
		switch r.Intn(6) {
		case 0:
			return fmt.Sprint(r.Intn(100))
		case 1:
			return "[ 1 2 ]"
		case 2:
			return "<< /Type /Catalog /Pages 3 0 R >>"
		case 3:
			return fmt.Sprintf("<< /Title (t%d) /N %d >>", r.Intn(10), r.Intn(100))
		}
		return fmt.Sprintf("<< /K %d >>", r.Intn(1000))
	}
	trailer := func() string {
		var parts []string
		switch c := r.Intn(10); {
		case c < 6:
			parts = append(parts, fmt.Sprintf("/Root %d 0 R", r.Range(1, 5)))
		case c < 7:
			parts = append(parts, fmt.Sprintf("/Root %d %d R", r.Range(1, 5), r.Range(1, 2)))
		case c < 8:
			parts = append(parts, "/Root << /Type /Catalog >>")
		case c < 9:
			parts = append(parts, "/Root 7")
		}
		switch c := r.Intn(10); {
		case c < 4:
			parts = append(parts, fmt.Sprintf("/Info %d 0 R", r.Range(1, 5)))
		case c < 5:
			parts = append(parts, "/Info << /Title (direct) >>")
		case c < 6:
			parts = append(parts, "/Info null")
		}
		if r.Chance(1, 4) {
			// a hybrid-reference file names a cross-reference stream here; tabula does not read it
			parts = append(parts, fmt.Sprintf("/XRefStm %d", r.Intn(400)))
		}
		if r.Chance(1, 4) {
			parts = append(parts, "/ID [ <01> <02> ]")
		}
		hx.Shuffle(r, parts)
		return strings.Join(parts, " ")
	}
	for ri, nrev := 0, r.Range(1, 3); ri < nrev; ri++ {
		rev := catRev{Trailer: trailer(), Objs: map[int]string{}, Stream: r.Chance(1, 4)}
		rev.Size = hx.Pick(r, []string{"6", "6", "6", "12", "", "6.0", "(6)", "-3", "9223372036854775807"})
		for n := 1; n <= 5; n++ {
			switch {
			case ri == 0 && r.Chance(4, 5), ri > 0 && r.Chance(1, 3):
				rev.Objs[n] = body()
			case ri > 0 && r.Chance(1, 6):
				rev.Objs[n] = ""
			}
		}
		k.Cat = append(k.Cat, rev)
	}
	kinds := []string{"C", "C", "I", "I", "N", "T", "g", "g"}
	for i, m := 0, r.Range(3, 10); i < m; i++ {
		switch kd := hx.Pick(r, kinds); {
		case r.Chance(1, 8):
			k.Ops = append(k.Ops, "c")
		case kd == "g":
			k.Ops = append(k.Ops, fmt.Sprintf("g%d", r.Range(0, 6)))
		default:
			k.Ops = append(k.Ops, kd)
		}
	}
	return k
}

func catDo(rd *reader.Reader, op string) string {
	switch op[0] {
	case 'c':
		rd.ClearCache()
		return "-"
	case 'C':
		d, err := rd.GetCatalog()
		if err != nil {
			return "e"
		}
		return renderDeep(d)
	case 'I':
		d, err := rd.GetInfo()
		if err != nil {
			return "e"
		}
		if d == nil {
			return "nil"
		}
		return renderDeep(d)
	case 'N':
		return fmt.Sprintf("#%d", rd.NumObjects())
	case 'T':
		return renderDeep(rd.Trailer())
	}
	var n int
	fmt.Sscanf(op[1:], "%d", &n)
	return renderDeepLookup(rd.GetObject(n))
}

func runCat(c *hx.Ctx, k catCase) {
	data, infl := buildCat(k)
	path := filepath.Join(c.OutDir, "c04-cat.pdf")
	os.WriteFile(path, data, 0o644)
	defer os.Remove(path)
	var answers []string
	alone := map[string]string{}
	ver := ""
	opened := false
	if !c.Guard("C04", k, 20, func() {
		rd, err := reader.Open(path)
		if err != nil {
			return
		}
		opened = true
		defer rd.Close()
		v := rd.Version()
		ver = fmt.Sprintf("ver=%d.%d", v.Major, v.Minor)
		for _, op := range k.Ops {
			answers = append(answers, catDo(rd, op))
		}
		for _, op := range k.Ops {
			if _, done := alone[op]; done || op == "c" {
				continue
			}
			f, err := reader.Open(path)
			if err != nil {
				alone[op] = "open-error"
				continue
			}
			alone[op] = catDo(f, op)
			f.Close()
		}
	}) {
		return
	}
	out := "open-err"
	if opened {
		out = ver + " " + strings.Join(answers, ",")
	}
	c.Op(fmt.Sprintf("c04.cat %s %s %s", inflateTable(append(infl, scanInflate(data)...)), hx.Hex(data), strings.Join(k.Ops, ",")), out)
	if !opened {
		c.Count("cat-open-error")
		c.Case(fmt.Sprintf("cat%+v", k), false)
		return
	}
	// the logical file: newest body per object, newest trailer
	newest := map[int]string{}
	for _, rev := range k.Cat {
		for n, b := range rev.Objs {
			newest[n] = b
		}
	}
	last := k.Cat[len(k.Cat)-1]
	nontrivial := false
	for i, op := range k.Ops {
		if op == "c" {
			continue
		}
		i, op := i, op
		c.Count("cat-op=" + op[:1])
		c.Check("C04/answer-depends-on-earlier-lookups", answers[i] == alone[op], k, func() string {
			return fmt.Sprintf("call #%d (%s) = %s after the earlier calls, but %s as the only call on a freshly opened reader (ops %v)", i+1, op, answers[i], alone[op], k.Ops)
		})
		if op == "C" && !last.Stream {
			// "the newest revision": the catalog is what the NEWEST trailer's /Root names, in its newest definition
			var n, g int
			want := "e"
			if m := strings.Index(last.Trailer, "/Root "); m >= 0 {
				if cnt, _ := fmt.Sscanf(last.Trailer[m:], "/Root %d %d R", &n, &g); cnt == 2 {
					if b, ok := newest[n]; ok && strings.HasPrefix(b, "<<") {
						want = "dict"
					}
				}
			}
			got := "e"
			if answers[i] != "e" {
				got = "dict"
				nontrivial = true
			}
			c.Check("C04/catalog-not-newest-revision", got == want, k, func() string {
				return fmt.Sprintf("GetCatalog = %s, the newest trailer %q and the newest definitions say %s", answers[i], last.Trailer, want)
			})
			if want == "dict" {
				c.Check("C04/catalog-not-newest-revision", answers[i] == renderDeepLookup(parseBody(newest[n])), k, func() string {
					return fmt.Sprintf("GetCatalog = %s, object %d is now %s", answers[i], n, newest[n])
				})
			}
		}
	}
	c.Case(fmt.Sprintf("cat%+v", k), nontrivial)
}

// parseBody parses a body the generator wrote (they are plain objects).
func parseBody(b string) (core.Object, error) {
	return core.NewParser(strings.NewReader(b)).ParseObject()
}

func catOps(c *hx.Ctx) {
	base := hx.NewRng(c.Seed ^ 0x636174)
	for i, n := 0, c.N(400, 6000); i < n; i++ {
		r := base.Fork(uint64(i))
		k := genCat(r)
		c.Count(fmt.Sprintf("cat-revisions=%d", len(k.Cat)))
		runCat(c, k)
	}
}
