package c10

// Life-cycle automaton, error classes, in-memory HTML bases and the per-format dispatch of the
// terminal operations: the harness side of the ops c10.auto, c10.ecls, c10.rerr, c10.mem and
// c10.disp, with the statement-level oracles that go with them.

import (
	"crypto/sha256"
	"encoding/hex"
	"errors"
	"fmt"
	"os"
	"path/filepath"
	"regexp"
	"sort"
	"strconv"
	"strings"

	"github.com/tsawler/tabula"
	"github.com/tsawler/tabula/docx"
	"github.com/tsawler/tabula/epubdoc"
	"github.com/tsawler/tabula/htmldoc"
	"github.com/tsawler/tabula/layout"
	"github.com/tsawler/tabula/model"
	"github.com/tsawler/tabula/odt"
	"github.com/tsawler/tabula/pptx"
	"github.com/tsawler/tabula/rag"
	"github.com/tsawler/tabula/xlsx"

	"verifharness/hx"
	"verifharness/writers"
)

// ---- life-cycle states ---------------------------------------------------------------------------

// lifeStates: one letter per extractor from its ownsReader / readerOpened flags:
// I (nothing), H (opened and owned), B (opened, not owned); ? for a combination that the code
// should never produce (owned but not opened).
func lifeStates(exts []*tabula.Extractor) string {
	var b strings.Builder
	for _, x := range exts {
		s := x.VerifState()
		switch {
		case s.ReaderOpened && s.OwnsReader:
			b.WriteByte('H')
		case s.ReaderOpened:
			b.WriteByte('B')
		case s.OwnsReader:
			b.WriteByte('?')
		default:
			b.WriteByte('I')
		}
	}
	return b.String()
}

// ownersField: ownsReader of every extractor, as 0/1; "unscoped" when some operation of the
// history named an extractor that did not exist yet, "lent" for a FromReader family.
func ownersField(exts []*tabula.Extractor, ops []seqOp, lent bool) string {
	if lent {
		return "lent"
	}
	n := 1
	for _, op := range ops {
		if op.E >= n {
			return "unscoped"
		}
		if op.K == "d" {
			n++
		}
	}
	var b strings.Builder
	for _, x := range exts {
		if x.VerifState().OwnsReader {
			b.WriteByte('1')
		} else {
			b.WriteByte('0')
		}
	}
	return b.String()
}

func isTerminalLetter(k string) bool {
	for _, t := range allTerminals {
		if t == k {
			return true
		}
	}
	return false
}

// releaseOracle, from the statement alone: after a terminal operation (successful or failed)
// or a Close, the receiver owns no reader; a configuration method leaves the receiver's flags
// alone and gives the new extractor no reader of its own.
func (e *env) releaseOracle(kase interface{}, exts []*tabula.Extractor, op seqOp, prefix []string, borrowedBase bool) {
	if op.E >= len(exts) {
		return
	}
	switch {
	case op.K == "d":
		s := exts[len(exts)-1].VerifState()
		e.c.Check("C10/derived-owns-reader", !s.OwnsReader, kase, func() string {
			return fmt.Sprintf("after %v: the extractor returned by the configuration method owns a reader (ownsReader=%v readerOpened=%v)", prefix, s.OwnsReader, s.ReaderOpened)
		})
	case isTerminalLetter(op.K) || op.K == "x":
		s := exts[op.E].VerifState()
		e.c.Check("C10/owns-after-terminal", !s.OwnsReader && (borrowedBase || !s.ReaderOpened), kase, func() string {
			return fmt.Sprintf("after %v: the receiver still has ownsReader=%v readerOpened=%v", prefix, s.OwnsReader, s.ReaderOpened)
		})
	}
}

// ---- error classes ----------------------------------------------------------------------------------

var (
	reBuilder = regexp.MustCompile(`^invalid page range (-?\d+)-(-?\d+): start is after end`)
	reRange   = regexp.MustCompile(`^page (-?\d+) out of range \(1-(\d+)\)`)
)

// errClass reads the class of an error off its message (the texts are those of extractor.go).
func errClass(err error) string {
	if err == nil {
		return "ok"
	}
	m := err.Error()
	if g := reBuilder.FindStringSubmatch(m); g != nil {
		return "builder:" + g[1] + ":" + g[2]
	}
	if g := reRange.FindStringSubmatch(m); g != nil {
		return "range:" + g[1] + ":" + g[2]
	}
	switch {
	case strings.HasPrefix(m, "no filename specified"):
		return "nofile"
	case strings.HasPrefix(m, "failed to open file"):
		return "open:missing"
	case strings.HasPrefix(m, "failed to detect file format"):
		return "open:detect"
	case strings.HasPrefix(m, "file format mismatch"):
		return "open:mismatch"
	case strings.HasPrefix(m, "unsupported file format"):
		return "open:unsupported"
	case strings.HasPrefix(m, "failed to open "):
		return "open:parse"
	case strings.HasPrefix(m, "operation is only supported for PDF"):
		return "pdfonly"
	case strings.HasPrefix(m, "failed to get page count"):
		return "count"
	case strings.HasPrefix(m, "no pages to process"):
		return "nopages"
	}
	return "other"
}

// firstOutside: the first page number of the chain, in call order, that is outside 1..n
// (ranges expanded); ok=false when there is none.  From the property text: "a page number
// outside the document is an error".
func firstOutside(cs []call, n int) (int, bool) {
	for _, c := range cs {
		switch c.K {
		case "P":
			for _, a := range c.A {
				if a < 1 || a > n {
					return a, true
				}
			}
		case "R":
			for p := c.A[0]; p <= c.A[1]; p++ {
				if p < 1 || p > n {
					return p, true
				}
			}
		}
	}
	return 0, false
}

func firstInvertedCall(cs []call) (call, bool) {
	for _, c := range cs {
		if c.K == "R" && c.A[0] > c.A[1] {
			return c, true
		}
	}
	return call{}, false
}

// errClassOracle: on a usable PDF, a chain without inverted range that names a page outside the
// document makes every terminal operation fail with THE range error, naming an outside page of
// the chain and the true page count; a chain with an inverted range fails with the builder's
// error for an inverted range of the chain.
func (e *env) errClassOracle(kase interface{}, op seqOp, info opInfo, err error, cs []call, n int, isPDF, usable bool, prefix []string) {
	if !isPDF || !usable || op.K == "x" {
		return
	}
	cl := errClass(err)
	if inv, has := firstInvertedCall(cs); has {
		// any inverted range of the chain is an acceptable culprit
		ok := false
		if strings.HasPrefix(cl, "builder:") {
			for _, c := range cs {
				if c.K == "R" && c.A[0] > c.A[1] && cl == fmt.Sprintf("builder:%d:%d", c.A[0], c.A[1]) {
					ok = true
				}
			}
		}
		e.c.Check("C10/inverted-range-error-class", ok, kase, func() string {
			return fmt.Sprintf("%v: %s on a chain %q with the inverted range %s returned %q (%v), want the invalid-page-range error", prefix, info.name, callsTokens(cs), inv.token(), cl, err)
		})
		return
	}
	if !info.terminal {
		return
	}
	if p, out := firstOutside(cs, n); out {
		ok := false
		if g := reRange.FindStringSubmatch(fmt.Sprint(err)); g != nil {
			q, _ := strconv.Atoi(g[1])
			m, _ := strconv.Atoi(g[2])
			ok = m == n && (q < 1 || q > n) && chainNames(cs, q)
		}
		e.c.Check("C10/out-of-range-error-names-page", ok, kase, func() string {
			return fmt.Sprintf("%v: %s on a chain %q over a %d-page PDF (page %d is outside) returned %q (%v), want \"page p out of range (1-%d)\" for an outside page p of the chain", prefix, info.name, callsTokens(cs), n, p, cl, err, n)
		})
	}
}

func chainNames(cs []call, q int) bool {
	for _, c := range cs {
		switch c.K {
		case "P":
			for _, a := range c.A {
				if a == q {
					return true
				}
			}
		case "R":
			if c.A[0] <= q && q <= c.A[1] {
				return true
			}
		}
	}
	return false
}

// rerrCase: Fragments of a one-shot chain on a good n-page PDF: ok or which error.
func (e *env) rerrCase(d docParams, cs []call) {
	c := e.c
	kase := map[string]interface{}{"mode": "rerr", "doc": d, "calls": cs}
	x := chainExt(tabula.Open(e.path(d)), cs)
	var err error
	before := fdCount()
	if p := hx.Safe(func() { _, _, err = x.Fragments() }); p != "" {
		c.Check("C10/panic", false, kase, func() string { return "Fragments: " + p })
		return
	}
	after := fdCount()
	c.Check("C10/fd-leak", after == before, kase, func() string {
		return fmt.Sprintf("one-shot Fragments (error: %v): %d descriptors before, %d after", err, before, after)
	})
	cl := errClass(err)
	sp := specOf(cs, d.N)
	// statement: outside page => error; valid spelling => no error
	c.Check("C10/out-of-range-error", !(sp.mustErr && err == nil), kase, func() string {
		return fmt.Sprintf("selection %q on a %d-page PDF names a page outside it, but no error was returned", callsTokens(cs), d.N)
	})
	if !sp.mustErr && !sp.mayErr && (len(sp.pages) > 0 || d.N == 0) {
		c.Check("C10/valid-selection-refused", err == nil, kase, func() string {
			return fmt.Sprintf("selection %q on a %d-page PDF is valid but Fragments failed: %v", callsTokens(cs), d.N, err)
		})
	}
	e.errClassOracle(kase, seqOp{K: "g"}, lifeOps["g"], err, cs, d.N, true, true, []string{callsTokens(cs)})
	c.Op(fmt.Sprintf("c10.rerr %d %s", d.N, callsTokens(cs)), cl)
	c.Count("rerr:" + strings.SplitN(cl, ":", 2)[0])
	c.Case("rerr|"+d.key()+"|"+callsTokens(cs), err == nil)
}

// ---- in-memory HTML bases --------------------------------------------------------------------------

type memParams struct {
	Kind  string `json:"kind"`  // string reader failing deep
	Units int    `json:"units"` // paragraphs
	Tag   string `json:"tag"`
}

type failingReader struct{}

func (failingReader) Read([]byte) (int, error) { return 0, errors.New("c10: reader fails") }

func (m memParams) html() string {
	if m.Kind == "deep" {
		// deeper than htmldoc accepts: OpenReader refuses it
		return "<html><body>" + strings.Repeat("<i>", 10050) + m.Tag + "</body></html>"
	}
	return string(htmlBytes(m.Tag, m.Units))
}

func (m memParams) base() *tabula.Extractor {
	switch m.Kind {
	case "reader":
		return tabula.FromHTMLReader(strings.NewReader(m.html()))
	case "failing":
		return tabula.FromHTMLReader(failingReader{})
	}
	return tabula.FromHTMLString(m.html())
}

func (e *env) memCase(m memParams, ops []seqOp) {
	c := e.c
	kase := map[string]interface{}{"mode": "mem", "mem": m, "ops": ops}
	fail := func(key string, detail func() string) { c.Check(key, false, kase, detail) }
	bad := m.Kind == "failing" || m.Kind == "deep"
	count := "x"
	refText := ""
	if !bad {
		if r, err := htmldoc.OpenReader(strings.NewReader(m.html())); err == nil {
			if n, err := r.PageCount(); err == nil {
				count = strconv.Itoa(n)
			}
			refText, _ = r.TextWithOptions(htmldoc.ExtractOptions{})
		}
	}
	baseline := fdCount()
	var base *tabula.Extractor
	if p := hx.Safe(func() { base = m.base() }); p != "" {
		fail("C10/panic", func() string { return "base: " + p })
		return
	}
	if st := base.VerifState(); st.HasErr != bad {
		fail("C10/html-base-error", func() string {
			return fmt.Sprintf("%s base: HasErr=%v, want %v", m.Kind, st.HasErr, bad)
		})
	}
	exts := []*tabula.Extractor{base}
	calls := [][]call{nil}
	spent := []bool{bad} // what the documentation lets one expect: used up by a terminal operation or Close
	var results []string
	opsStr := make([]string, len(ops))
	nontrivial := false
	for i, op := range ops {
		opsStr[i] = op.token()
		if op.E >= len(exts) {
			results = append(results, "bad")
			continue
		}
		x := exts[op.E]
		before := make([]string, len(exts))
		for j, y := range exts {
			o, l := stateStr(y)
			before[j] = o + l
		}
		fdBefore := fdCount()
		res := ""
		if op.K == "d" {
			var nx *tabula.Extractor
			if p := hx.Safe(func() { nx = applyCall(x, *op.C) }); p != "" {
				fail("C10/panic", func() string { return "derive: " + p })
				return
			}
			exts = append(exts, nx)
			calls = append(calls, append(append([]call(nil), calls[op.E]...), *op.C))
			spent = append(spent, spent[op.E])
			res = "-"
		} else {
			info := lifeOps[op.K]
			payload, err, panicked := runLifeOp(x, op.K)
			if panicked != "" {
				fail("C10/panic", func() string { return fmt.Sprintf("op %s (%s): panic: %s", op.token(), info.name, panicked) })
				return
			}
			switch {
			case err != nil:
				res = "err"
			case info.terminal:
				res = "ok"
			default:
				res = payload
			}
			if op.K == "x" && err != nil {
				fail("C10/close-twice", func() string { return fmt.Sprintf("op %d (%s): Close returned %v", i, op.token(), err) })
			}
			_, inverted := firstInvertedCall(calls[op.E])
			if !spent[op.E] && !inverted && !info.pdfOnly && op.K != "x" {
				// an extractor that was never the receiver of a terminal operation or Close (nor
				// derived from one that was) still works, whatever happened to its relatives
				if err != nil {
					fail("C10/html-relative-consumed", func() string {
						return fmt.Sprintf("op %d (%s = %s) of %v on an in-memory HTML extractor that was never used up failed: %v", i, op.token(), info.name, opsStr[:i+1], err)
					})
				} else if op.K == "t" {
					nontrivial = true
					if payload != refText {
						fail("C10/html-relative-consumed", func() string {
							return fmt.Sprintf("op %d (%s) of %v: Text differs from the reader's own text; %s", i, op.token(), opsStr[:i+1], firstDiff(refText, payload))
						})
					}
				}
			}
			if info.pdfOnly && err == nil {
				fail("C10/sequence-result", func() string {
					return fmt.Sprintf("op %d (%s = %s) on an HTML extractor returned no error", i, op.token(), info.name)
				})
			}
			if info.terminal && !info.pdfOnly && !inverted || op.K == "x" {
				spent[op.E] = true
			}
			if op.K == "w" { // ToMarkdown does not look at the builder error of an HTML extractor
				spent[op.E] = true
			}
		}
		results = append(results, res)
		if d := fdCount() - fdBefore; d != 0 {
			fail("C10/fd-leak-html-reader", func() string {
				return fmt.Sprintf("op %d (%s) of %v on an in-memory HTML family changed the descriptor count by %d", i, op.token(), opsStr[:i+1], d)
			})
		}
		for j := range before {
			if j == op.E && op.K != "d" {
				continue
			}
			o, l := stateStr(exts[j])
			if o+l != before[j] {
				jj := j
				fail("C10/parent-changed", func() string {
					return fmt.Sprintf("op %d (%s) of %v changed extractor %d from %s to %s", i, op.token(), opsStr[:i+1], jj, before[jj], o+l)
				})
			}
		}
	}
	var dump []string
	for _, x := range exts {
		o, l := stateStr(x)
		dump = append(dump, o+l)
	}
	for j, x := range exts {
		for round := 0; round < 2; round++ {
			if o := runOp(x, "x"); o.failed() {
				jj := j
				fail("C10/close-twice", func() string {
					return fmt.Sprintf("after %v: Close of extractor %d: %v %s", opsStr, jj, o.err, o.panic)
				})
			}
		}
	}
	if end := fdCount(); end != baseline {
		fail("C10/fd-leak-html-reader", func() string {
			return fmt.Sprintf("after %v and closing everything: %d descriptors, %d before", opsStr, end, baseline)
		})
	}
	b := "ok"
	if bad {
		b = "bad"
	}
	c.Op("c10.mem "+b+","+count+" "+strings.Join(opsStr, " "), strings.Join(results, " ")+" | "+strings.Join(dump, " "))
	c.Count("mem:" + m.Kind)
	c.Case("mem|"+m.Kind+"|"+m.Tag+"|"+strconv.Itoa(m.Units)+"|"+strings.Join(opsStr, " "), nontrivial)
}

func genMem(r *hx.Rng) memParams {
	m := memParams{Units: r.Range(1, 3), Tag: fmt.Sprintf("t%x", r.Intn(8))}
	switch x := r.Intn(10); {
	case x < 5:
		m.Kind = "string"
	case x < 8:
		m.Kind = "reader"
	case x < 9:
		m.Kind = "failing"
	default:
		m.Kind = "deep"
	}
	return m
}

// ---- per-format dispatch ---------------------------------------------------------------------------

type dispParams struct {
	Format string `json:"format"` // docx odt xlsx pptx html epub pdf
	Units  int    `json:"units"`
	Tag    string `json:"tag"`
	Op     string `json:"op"` // letter of a terminal operation
}

func short(s string) string {
	h := sha256.Sum256([]byte(s))
	return hex.EncodeToString(h[:5])
}

func hdrText(tag string) string { return "RUNNING HEAD " + tag }
func ftrText(tag string) string { return "RUNNING FOOT " + tag }

const relHeader = "http://schemas.openxmlformats.org/officeDocument/2006/relationships/header"
const relFooter = "http://schemas.openxmlformats.org/officeDocument/2006/relationships/footer"
const wNS = `xmlns:w="http://schemas.openxmlformats.org/wordprocessingml/2006/main"`

// richDocx: body paragraphs among which the header's and the footer's text occur (what
// ExcludeHeaders / ExcludeFooters remove), with header and footer parts.
func richDocx(tag string, units int) []byte {
	var b strings.Builder
	b.WriteString(xmlDecl + `<w:document ` + wNS + `><w:body>`)
	para := func(s string) { fmt.Fprintf(&b, `<w:p><w:r><w:t xml:space="preserve">%s</w:t></w:r></w:p>`, s) }
	para(hdrText(tag))
	for i := 0; i < units; i++ {
		para(unitToken(tag, i) + " word text")
	}
	para(ftrText(tag))
	b.WriteString(`<w:sectPr/></w:body></w:document>`)
	part := func(root, s string) []byte {
		return []byte(xmlDecl + `<w:` + root + ` ` + wNS + `><w:p><w:r><w:t>` + s + `</w:t></w:r></w:p></w:` + root + `>`)
	}
	return writers.Zip([]writers.Member{
		{Name: "[Content_Types].xml", Data: opcContentTypes([][2]string{
			{"/word/document.xml", "application/vnd.openxmlformats-officedocument.wordprocessingml.document.main+xml"},
			{"/word/header1.xml", "application/vnd.openxmlformats-officedocument.wordprocessingml.header+xml"},
			{"/word/footer1.xml", "application/vnd.openxmlformats-officedocument.wordprocessingml.footer+xml"}})},
		{Name: "_rels/.rels", Data: opcRels([][3]string{{"rId1", relOfficeDocument, "word/document.xml"}})},
		{Name: "word/document.xml", Data: []byte(b.String())},
		{Name: "word/_rels/document.xml.rels", Data: opcRels([][3]string{{"rId1", relHeader, "header1.xml"}, {"rId2", relFooter, "footer1.xml"}})},
		{Name: "word/header1.xml", Data: part("hdr", hdrText(tag))},
		{Name: "word/footer1.xml", Data: part("ftr", ftrText(tag))},
	})
}

func richOdt(tag string, units int) []byte {
	const decl = `<?xml version="1.0" encoding="UTF-8"?>` + "\n"
	const ns = `xmlns:office="urn:oasis:names:tc:opendocument:xmlns:office:1.0" xmlns:style="urn:oasis:names:tc:opendocument:xmlns:style:1.0" xmlns:text="urn:oasis:names:tc:opendocument:xmlns:text:1.0" xmlns:table="urn:oasis:names:tc:opendocument:xmlns:table:1.0"`
	var paras strings.Builder
	p := func(s string) { paras.WriteString(`<text:p text:style-name="Standard">` + s + `</text:p>`) }
	p(hdrText(tag))
	for i := 0; i < units; i++ {
		p(unitToken(tag, i) + " odt text")
	}
	p(ftrText(tag))
	content := decl + `<office:document-content ` + ns + ` office:version="1.2"><office:automatic-styles/><office:body><office:text>` +
		paras.String() + `</office:text></office:body></office:document-content>`
	styles := decl + `<office:document-styles ` + ns + ` office:version="1.2"><office:master-styles><style:master-page style:name="Standard">` +
		`<style:header><text:p>` + hdrText(tag) + `</text:p></style:header><style:footer><text:p>` + ftrText(tag) + `</text:p></style:footer>` +
		`</style:master-page></office:master-styles></office:document-styles>`
	return writers.Zip([]writers.Member{
		{Name: "mimetype", Data: []byte(odtMimeType), Store: true},
		{Name: "content.xml", Data: []byte(content)},
		{Name: "styles.xml", Data: []byte(styles)},
		{Name: "meta.xml", Data: []byte(decl + `<office:document-meta xmlns:office="urn:oasis:names:tc:opendocument:xmlns:office:1.0" office:version="1.2"><office:meta/></office:document-meta>`)},
		{Name: "META-INF/manifest.xml", Data: []byte(decl +
			`<manifest:manifest xmlns:manifest="urn:oasis:names:tc:opendocument:xmlns:manifest:1.0" manifest:version="1.2"><manifest:file-entry manifest:full-path="/" manifest:version="1.2" manifest:media-type="` + odtMimeType + `"/><manifest:file-entry manifest:full-path="content.xml" manifest:media-type="text/xml"/><manifest:file-entry manifest:full-path="styles.xml" manifest:media-type="text/xml"/><manifest:file-entry manifest:full-path="meta.xml" manifest:media-type="text/xml"/></manifest:manifest>`)},
	})
}

// richPptx: every slide has a title, a body, a header placeholder and a footer placeholder.
func richPptx(tag string, units int) []byte {
	const ns = `xmlns:a="http://schemas.openxmlformats.org/drawingml/2006/main" xmlns:r="http://schemas.openxmlformats.org/officeDocument/2006/relationships" xmlns:p="http://schemas.openxmlformats.org/presentationml/2006/main"`
	pres := xmlDecl + `<p:presentation ` + ns + `><p:sldIdLst>`
	var prels [][3]string
	ct := [][2]string{{"/ppt/presentation.xml", "application/vnd.openxmlformats-officedocument.presentationml.presentation.main+xml"}}
	var slides []writers.Member
	shape := func(id int, ph, text string) string {
		return fmt.Sprintf(`<p:sp><p:nvSpPr><p:cNvPr id="%d" name="S%d"/><p:cNvSpPr/><p:nvPr><p:ph type="%s"/></p:nvPr></p:nvSpPr><p:spPr/><p:txBody><a:bodyPr/><a:p><a:r><a:t>%s</a:t></a:r></a:p></p:txBody></p:sp>`, id, id, ph, text)
	}
	for i := 1; i <= units; i++ {
		pres += fmt.Sprintf(`<p:sldId id="%d" r:id="rId%d"/>`, 255+i, i)
		prels = append(prels, [3]string{fmt.Sprintf("rId%d", i), "http://schemas.openxmlformats.org/officeDocument/2006/relationships/slide", fmt.Sprintf("slides/slide%d.xml", i)})
		ct = append(ct, [2]string{fmt.Sprintf("/ppt/slides/slide%d.xml", i), "application/vnd.openxmlformats-officedocument.presentationml.slide+xml"})
		s := xmlDecl + `<p:sld ` + ns + `><p:cSld><p:spTree><p:nvGrpSpPr><p:cNvPr id="1" name=""/><p:cNvGrpSpPr/><p:nvPr/></p:nvGrpSpPr><p:grpSpPr/>` +
			shape(2, "title", fmt.Sprintf("Title %d %s", i, tag)) +
			shape(3, "body", unitToken(tag, i-1)+" slide text") +
			shape(4, "hdr", hdrText(tag)) +
			shape(5, "ftr", ftrText(tag)) +
			`</p:spTree></p:cSld></p:sld>`
		slides = append(slides, writers.Member{Name: fmt.Sprintf("ppt/slides/slide%d.xml", i), Data: []byte(s)})
		slides = append(slides, writers.Member{Name: fmt.Sprintf("ppt/slides/_rels/slide%d.xml.rels", i), Data: opcRels(nil)})
	}
	pres += `</p:sldIdLst><p:sldSz cx="9144000" cy="6858000"/></p:presentation>`
	ms := []writers.Member{
		{Name: "[Content_Types].xml", Data: opcContentTypes(ct)},
		{Name: "_rels/.rels", Data: opcRels([][3]string{{"rId1", relOfficeDocument, "ppt/presentation.xml"}})},
		{Name: "ppt/presentation.xml", Data: []byte(pres)},
		{Name: "ppt/_rels/presentation.xml.rels", Data: opcRels(prels)},
	}
	return writers.Zip(append(ms, slides...))
}

func richHTML(tag string, units int) []byte {
	var b strings.Builder
	b.WriteString("<!DOCTYPE html>\n<html><head><title>T " + tag + "</title></head><body>\n")
	b.WriteString("<header><p>" + hdrText(tag) + "</p></header>\n<nav><a href=\"#a\">Menu " + tag + "</a></nav>\n<main><h1>Heading " + tag + "</h1>\n")
	for i := 0; i < units; i++ {
		b.WriteString("<p>" + unitToken(tag, i) + " html text</p>\n")
	}
	b.WriteString("</main>\n<footer><p>" + ftrText(tag) + "</p></footer>\n</body></html>\n")
	return []byte(b.String())
}

func richEpub(tag string, units int) []byte {
	// the chapters of epubBytes with a <nav> block in front of the text
	const decl = `<?xml version="1.0" encoding="UTF-8"?>` + "\n"
	var manifest, spine strings.Builder
	var chapters []writers.Member
	for i := 0; i < units; i++ {
		name := fmt.Sprintf("ch%d.xhtml", i+1)
		fmt.Fprintf(&manifest, `<item id="c%d" href="%s" media-type="application/xhtml+xml"/>`, i+1, name)
		fmt.Fprintf(&spine, `<itemref idref="c%d"/>`, i+1)
		chapters = append(chapters, writers.Member{Name: "OEBPS/" + name, Data: []byte(decl + `<!DOCTYPE html>` + "\n" +
			`<html xmlns="http://www.w3.org/1999/xhtml"><head><title>` + fmt.Sprintf("Chapter %d", i+1) + `</title></head><body><nav><p>Menu ` + tag + `</p></nav><h1>` + fmt.Sprintf("Chapter %d", i+1) + `</h1><p>` + unitToken(tag, i) + ` epub chapter text</p></body></html>`)})
	}
	ncx := decl + `<ncx xmlns="http://www.daisy.org/z3986/2005/ncx/" version="2005-1"><head><meta name="dtb:uid" content="urn:uuid:c10"/></head><docTitle><text>T</text></docTitle><navMap><navPoint id="n1" playOrder="1"><navLabel><text>Start</text></navLabel><content src="ch1.xhtml"/></navPoint></navMap></ncx>`
	opf := decl + `<package xmlns="http://www.idpf.org/2007/opf" version="2.0" unique-identifier="uid"><metadata xmlns:dc="http://purl.org/dc/elements/1.1/"><dc:identifier id="uid">urn:uuid:c10-` + tag + `</dc:identifier><dc:title>Title ` + tag + `</dc:title><dc:language>en</dc:language></metadata><manifest>` +
		manifest.String() + `<item id="ncx" href="toc.ncx" media-type="application/x-dtbncx+xml"/></manifest><spine toc="ncx">` + spine.String() + `</spine></package>`
	ms := []writers.Member{
		{Name: "mimetype", Data: []byte("application/epub+zip"), Store: true},
		{Name: "META-INF/container.xml", Data: []byte(decl + `<container version="1.0" xmlns="urn:oasis:names:tc:opendocument:xmlns:container"><rootfiles><rootfile full-path="OEBPS/content.opf" media-type="application/oebps-package+xml"/></rootfiles></container>`)},
		{Name: "OEBPS/content.opf", Data: []byte(opf)},
		{Name: "OEBPS/toc.ncx", Data: []byte(ncx)},
	}
	return writers.Zip(append(ms, chapters...))
}

func (d dispParams) bytes() []byte {
	switch d.Format {
	case "docx":
		return richDocx(d.Tag, d.Units)
	case "odt":
		return richOdt(d.Tag, d.Units)
	case "pptx":
		return richPptx(d.Tag, d.Units)
	case "html":
		return richHTML(d.Tag, d.Units)
	case "epub":
		return richEpub(d.Tag, d.Units)
	}
	return formatBytes(d.Format, d.Tag, d.Units)
}

func (e *env) dispPath(d dispParams) string {
	k := fmt.Sprintf("disp-%s-%d-%s", d.Format, d.Units, d.Tag)
	if p, ok := e.files[k]; ok {
		return p
	}
	p := filepath.Join(e.dir, fmt.Sprintf("r%04d.%s", len(e.files), d.Format))
	if err := os.WriteFile(p, d.bytes(), 0o644); err != nil {
		panic(err)
	}
	e.files[k] = p
	return p
}

// the rag.MarkdownOptions and chunker configuration the dispatch cases pass: not the defaults, so
// that a result computed with them differs from one computed without
func dispMdOpts() rag.MarkdownOptions {
	o := rag.DefaultMarkdownOptions()
	o.IncludeMetadata = true
	o.IncludeTableOfContents = true
	o.HeadingLevelOffset = 1
	return o
}

func dispChunkCfg() (rag.ChunkerConfig, rag.SizeConfig) {
	cfg := rag.DefaultChunkerConfig()
	cfg.TargetChunkSize, cfg.MaxChunkSize, cfg.MinChunkSize, cfg.OverlapSize = 40, 60, 10, 0
	sz := rag.DefaultSizeConfig()
	sz.Target.Value, sz.Max.Value, sz.Min.Value = 40, 60, 10
	return cfg, sz
}

func docPayload(d *model.Document, err error) string {
	if err != nil || d == nil {
		return "!"
	}
	return docCanon(d)
}

// dispTable calls the reader of the file's format directly in every way the extractor could:
// key = method letter (t Text, m Markdown, d Document, k ChunkDocument, q ChunkDocumentWithConfig)
// + ExcludeHeaders + ExcludeFooters + extra + rag options passed, value = hash of the result.
func (e *env) dispTable(d dispParams) (map[string]string, bool) {
	path := e.dispPath(d)
	tbl := map[string]string{}
	put := func(k string, s string, err error) {
		if err != nil {
			s = "!"
		}
		tbl[k] = short(s)
	}
	bit := func(v bool) string {
		if v {
			return "1"
		}
		return "0"
	}
	md := dispMdOpts()
	cfg, sz := dispChunkCfg()
	docs := func(doc *model.Document, err error) {
		put("d0000", docPayload(doc, err), nil)
		if err == nil && doc != nil {
			put("k0000", chunksCanon(rag.ChunkDocument(doc)), nil)
			put("q0000", chunksCanon(rag.ChunkDocumentWithConfig(doc, cfg, sz)), nil)
		}
	}
	ok := true
	p := hx.Safe(func() {
		bools := []bool{false, true}
		switch d.Format {
		case "docx":
			r, err := docx.Open(path)
			if err != nil {
				ok = false
				return
			}
			defer r.Close()
			for _, h := range bools {
				for _, f := range bools {
					o := docx.ExtractOptions{ExcludeHeaders: h, ExcludeFooters: f}
					s, err := r.TextWithOptions(o)
					put("t"+bit(h)+bit(f)+"00", s, err)
					s, err = r.MarkdownWithRAGOptions(o, md)
					put("m"+bit(h)+bit(f)+"01", s, err)
					s, err = r.MarkdownWithOptions(o)
					put("m"+bit(h)+bit(f)+"00", s, err)
				}
			}
			docs(r.Document())
		case "odt":
			r, err := odt.Open(path)
			if err != nil {
				ok = false
				return
			}
			defer r.Close()
			for _, h := range bools {
				for _, f := range bools {
					o := odt.ExtractOptions{ExcludeHeaders: h, ExcludeFooters: f}
					s, err := r.TextWithOptions(o)
					put("t"+bit(h)+bit(f)+"00", s, err)
					s, err = r.MarkdownWithRAGOptions(o, md)
					put("m"+bit(h)+bit(f)+"01", s, err)
					s, err = r.MarkdownWithOptions(o)
					put("m"+bit(h)+bit(f)+"00", s, err)
				}
			}
			docs(r.Document())
		case "xlsx":
			r, err := xlsx.Open(path)
			if err != nil {
				ok = false
				return
			}
			defer r.Close()
			for _, h := range bools {
				for _, f := range bools {
					o := xlsx.ExtractOptions{ExcludeHeaders: h, ExcludeFooters: f}
					s, err := r.TextWithOptions(o)
					put("t"+bit(h)+bit(f)+"00", s, err)
					s, err = r.MarkdownWithRAGOptions(o, md)
					put("m"+bit(h)+bit(f)+"01", s, err)
					s, err = r.MarkdownWithOptions(o)
					put("m"+bit(h)+bit(f)+"00", s, err)
				}
			}
			docs(r.Document())
		case "pptx":
			r, err := pptx.Open(path)
			if err != nil {
				ok = false
				return
			}
			defer r.Close()
			for _, h := range bools {
				for _, f := range bools {
					for _, x := range bools {
						o := pptx.ExtractOptions{ExcludeHeaders: h, ExcludeFooters: f, IncludeNotes: x, IncludeTitles: x}
						s, err := r.TextWithOptions(o)
						put("t"+bit(h)+bit(f)+bit(x)+"0", s, err)
						s, err = r.MarkdownWithRAGOptions(o, md)
						put("m"+bit(h)+bit(f)+bit(x)+"1", s, err)
						s, err = r.MarkdownWithOptions(o)
						put("m"+bit(h)+bit(f)+bit(x)+"0", s, err)
					}
				}
			}
			docs(r.Document())
		case "html":
			r, err := htmldoc.Open(path)
			if err != nil {
				ok = false
				return
			}
			defer r.Close()
			for _, h := range bools {
				for _, f := range bools {
					for _, x := range bools {
						o := htmldoc.ExtractOptions{ExcludeHeaders: h, ExcludeFooters: f}
						if x {
							o.NavigationExclusion = htmldoc.NavigationExclusionStandard
						}
						s, err := r.TextWithOptions(o)
						put("t"+bit(h)+bit(f)+bit(x)+"0", s, err)
						s, err = r.MarkdownWithRAGOptions(o, md)
						put("m"+bit(h)+bit(f)+bit(x)+"1", s, err)
						s, err = r.MarkdownWithOptions(o)
						put("m"+bit(h)+bit(f)+bit(x)+"0", s, err)
					}
				}
			}
			docs(r.Document())
		case "epub":
			r, err := epubdoc.Open(path)
			if err != nil {
				ok = false
				return
			}
			defer r.Close()
			for _, x := range bools {
				o := epubdoc.ExtractOptions{}
				if x {
					o.NavigationExclusion = int(htmldoc.NavigationExclusionStandard)
				}
				s, err := r.TextWithOptions(o)
				put("t00"+bit(x)+"0", s, err)
				s, err = r.MarkdownWithOptions(o)
				put("m00"+bit(x)+"0", s, err)
			}
			docs(r.Document())
		default:
			ok = false
		}
	})
	if p != "" {
		e.c.Note("dispatch table of %s: panic %s", d.Format, p)
		return nil, false
	}
	return tbl, ok
}

func tableField(tbl map[string]string) string {
	ks := make([]string, 0, len(tbl))
	for k := range tbl {
		ks = append(ks, k)
	}
	sort.Strings(ks)
	for i, k := range ks {
		ks[i] = k + "=" + tbl[k]
	}
	if len(ks) == 0 {
		return "-"
	}
	return strings.Join(ks, ",")
}

func (e *env) dispCase(d dispParams, cs []call) {
	c := e.c
	kase := map[string]interface{}{"mode": "disp", "disp": d, "calls": cs}
	var path string
	if d.Format == "pdf" {
		path = e.lifePath(fileParams{Content: "pdf", Ext: "pdf", Units: d.Units, Tag: d.Tag})
	} else {
		path = e.dispPath(d)
	}
	tbl := map[string]string{}
	if d.Format != "pdf" {
		t, ok := e.dispTable(d)
		if !ok {
			c.Note("dispatch: %s file of the rich writer could not be opened by its reader", d.Format)
			c.Count("disp:unreadable:" + d.Format)
			return
		}
		tbl = t
	}
	x := chainExt(tabula.Open(path), cs)
	info := lifeOps[d.Op]
	var payload string
	var err error
	before := fdCount()
	panicked := hx.Safe(func() {
		switch d.Op {
		case "w":
			payload, _, err = x.ToMarkdownWithOptions(dispMdOpts())
		case "q":
			cfg, sz := dispChunkCfg()
			var cc *rag.ChunkCollection
			cc, _, err = x.ChunksWithConfig(cfg, sz)
			if err == nil && cc != nil {
				payload = chunksCanon(cc)
			}
		default:
			payload, err = info.run(x)
		}
	})
	if panicked != "" {
		c.Check("C10/panic", false, kase, func() string { return info.name + ": " + panicked })
		return
	}
	after := fdCount()
	c.Check("C10/fd-leak", after == before, kase, func() string {
		return fmt.Sprintf("one-shot %s on a .%s file (error: %v): %d descriptors before, %d after", info.name, d.Format, err, before, after)
	})
	got := ""
	_, inverted := firstInvertedCall(cs)
	switch {
	case d.Format == "pdf":
		got = "pdf"
	case info.pdfOnly:
		got = "unsupported"
		c.Check("C10/sequence-result", err != nil, kase, func() string {
			return fmt.Sprintf("%s on a .%s file returned no error", info.name, d.Format)
		})
	case err != nil:
		got = "err"
		// a good file, a supported operation, a well-formed chain
		c.Check("C10/sequence-result", inverted, kase, func() string {
			return fmt.Sprintf("%s on a good .%s file with chain %q failed: %v", info.name, d.Format, callsTokens(cs), err)
		})
	default:
		h := short(payload)
		// name the call whose result this is: the model's key if it matches, else any matching key
		got = "?=" + h
		ks := make([]string, 0, len(tbl))
		for k := range tbl {
			ks = append(ks, k)
		}
		sort.Strings(ks)
		want := dispKey(d, cs)
		if tbl[want] == h {
			got = want + "=" + h
		} else {
			for _, k := range ks {
				if tbl[k] == h {
					got = k + "=" + h
					break
				}
			}
		}
	}
	if got == "err" {
		// the model has no failing reader calls on good files; an inverted range is the only way
		c.Count("disp:builder-error:" + d.Format)
		c.Case("disp|"+d.Format+"|"+d.Op+"|"+callsTokens(cs), false)
		return
	}
	distinct := map[string]bool{}
	for k, v := range tbl {
		if k[0] == 't' {
			distinct[v] = true
		}
	}
	c.Op(fmt.Sprintf("c10.disp %s %s %s %s", d.Format, d.Op, tableField(tbl), callsTokens(cs)), got)
	c.Count(fmt.Sprintf("disp:%s:%s:text-variants=%d", d.Format, info.name, len(distinct)))
	c.Case("disp|"+d.Format+"|"+d.Op+"|"+d.Tag+"|"+strconv.Itoa(d.Units)+"|"+callsTokens(cs), err == nil && d.Format != "pdf")
}

// dispKey: which reader call the documentation of the options promises (ExcludeHeaders /
// ExcludeFooters reach Text and ToMarkdown; everything else is the format's default) - used only
// to prefer, among table entries with equal results, the one to print.
func dispKey(d dispParams, cs []call) string {
	h, f := false, false
	for _, c := range cs {
		switch c.K {
		case "H":
			h = true
		case "F":
			f = true
		case "B":
			h, f = true, true
		}
	}
	b := func(v bool) string {
		if v {
			return "1"
		}
		return "0"
	}
	x := d.Format == "pptx"
	switch d.Op {
	case "t":
		if d.Format == "epub" {
			return "t0000"
		}
		return "t" + b(h) + b(f) + b(x) + "0"
	case "w":
		if d.Format == "epub" {
			return "m0000"
		}
		return "m" + b(h) + b(f) + b(x) + "1"
	case "u":
		return "d0000"
	case "k":
		return "k0000"
	case "q":
		return "q0000"
	}
	return ""
}

func genDisp(r *hx.Rng) (dispParams, []call) {
	d := dispParams{Units: r.Range(1, 3), Tag: fmt.Sprintf("t%x", r.Intn(8))}
	d.Format = hx.Pick(r, []string{"docx", "docx", "odt", "odt", "xlsx", "pptx", "pptx", "html", "html", "epub", "pdf"})
	if r.Chance(4, 5) {
		d.Op = hx.Pick(r, []string{"t", "t", "w", "w", "u", "k", "q"})
	} else {
		d.Op = hx.Pick(r, allTerminals)
	}
	var cs []call
	for i, k := 0, r.Intn(4); i < k; i++ {
		if r.Chance(2, 3) {
			cs = append(cs, call{K: hx.Pick(r, []string{"H", "F", "B", "H", "F", "J", "C", "L"})})
		} else {
			cs = append(cs, genBuilderCall(r, d.Units))
		}
	}
	// no inverted ranges here (they are the subject of c10.ecls / c10.rerr)
	var out []call
	for _, c := range cs {
		if c.K == "R" && c.A[0] > c.A[1] {
			continue
		}
		out = append(out, c)
	}
	return d, out
}

// ---- cross-page summaries of ReadingOrder and Analyze ---------------------------------------------

type pageSummary struct {
	cols, w, h int
	stats      [7]int // FragmentCount LineCount BlockCount ParagraphCount HeadingCount ListCount ElementCount
}

func statsVec(s layout.AnalysisStats) [7]int {
	return [7]int{s.FragmentCount, s.LineCount, s.BlockCount, s.ParagraphCount, s.HeadingCount, s.ListCount, s.ElementCount}
}

func vecStr(v [7]int) string {
	xs := make([]string, len(v))
	for i, x := range v {
		xs[i] = strconv.Itoa(x)
	}
	return strings.Join(xs, ".")
}

// intSize: a page dimension as an integer (the writer only makes integral sizes); -1 otherwise
func intSize(f float64) int {
	if f != float64(int(f)) {
		return -1
	}
	return int(f)
}

// combRefs: ReadingOrder and Analyze of every page on its own, under the flags of the chain.
func (e *env) combRefs(d docParams, fl []call) ([]pageSummary, bool) {
	key := "comb|" + flagsKey(d, fl)
	if v, ok := e.refS[key]; ok {
		return v, v != nil
	}
	out := []pageSummary{}
	for p := 1; p <= d.N; p++ {
		cs := append(append([]call(nil), fl...), call{K: "P", A: []int{p}})
		var ro *layout.ReadingOrderResult
		var ar *layout.AnalysisResult
		var err1, err2 error
		if pn := hx.Safe(func() {
			ro, err1 = chainExt(tabula.Open(e.path(d)), cs).ReadingOrder()
			ar, err2 = chainExt(tabula.Open(e.path(d)), cs).Analyze()
		}); pn != "" || err1 != nil || err2 != nil || ro == nil || ar == nil {
			e.refS[key] = nil
			return nil, false
		}
		ps := pageSummary{cols: ro.ColumnCount, w: intSize(ro.PageWidth), h: intSize(ro.PageHeight), stats: statsVec(ar.Stats)}
		if ps.w <= 0 || ps.h <= 0 || intSize(ar.PageWidth) != ps.w || intSize(ar.PageHeight) != ps.h {
			e.refS[key] = nil
			return nil, false
		}
		out = append(out, ps)
	}
	e.refS[key] = out
	return out, true
}

func (e *env) combCase(d docParams, cs []call) {
	c := e.c
	kase := map[string]interface{}{"mode": "comb", "doc": d, "calls": cs}
	refs, ok := e.combRefs(d, flagsOf(cs))
	if !ok {
		c.Note("summary references failed for %s", d.key())
		c.Count("comb:no-reference")
		return
	}
	sp := specOf(cs, d.N)
	var ro *layout.ReadingOrderResult
	var ar *layout.AnalysisResult
	var err1, err2 error
	before := fdCount()
	if p := hx.Safe(func() {
		ro, err1 = chainExt(tabula.Open(e.path(d)), cs).ReadingOrder()
		ar, err2 = chainExt(tabula.Open(e.path(d)), cs).Analyze()
	}); p != "" {
		c.Check("C10/panic", false, kase, func() string { return "ReadingOrder/Analyze: " + p })
		return
	}
	c.Check("C10/fd-leak", fdCount() == before, kase, func() string { return "ReadingOrder / Analyze left a descriptor open" })
	if sp.mustErr {
		c.Check("C10/out-of-range-error", err1 != nil && err2 != nil, kase, func() string {
			return fmt.Sprintf("selection %q names a page outside the %d-page document: ReadingOrder err=%v, Analyze err=%v", callsTokens(cs), d.N, err1, err2)
		})
	}
	impl := "err"
	if err1 == nil && err2 == nil && ro != nil && ar != nil {
		impl = fmt.Sprintf("ro %d %d %d | an %s %d %d %d", ro.ColumnCount, intSize(ro.PageWidth), intSize(ro.PageHeight),
			vecStr(statsVec(ar.Stats)), ar.Stats.ColumnCount, intSize(ar.PageWidth), intSize(ar.PageHeight))
		if !sp.mustErr && !sp.mayErr && len(sp.pages) > 0 {
			// from the statement: the results are those of the selected pages, each once
			var sum [7]int
			maxCols := 0
			for _, p := range sp.pages {
				for j := range sum {
					sum[j] += refs[p-1].stats[j]
				}
				if refs[p-1].cols > maxCols {
					maxCols = refs[p-1].cols
				}
			}
			c.Check("C10/analyze-stats-sum", statsVec(ar.Stats) == sum, kase, func() string {
				return fmt.Sprintf("selection %q (pages %v): Analyze().Stats = %s, the selected pages on their own add up to %s", callsTokens(cs), sp.pages, vecStr(statsVec(ar.Stats)), vecStr(sum))
			})
			c.Check("C10/readingorder-columncount", ro.ColumnCount == maxCols, kase, func() string {
				return fmt.Sprintf("selection %q (pages %v): ReadingOrder().ColumnCount = %d, the largest of the selected pages is %d", callsTokens(cs), sp.pages, ro.ColumnCount, maxCols)
			})
			first := refs[sp.pages[0]-1]
			c.Check("C10/summary-page-size", intSize(ro.PageWidth) == first.w && intSize(ro.PageHeight) == first.h &&
				intSize(ar.PageWidth) == first.w && intSize(ar.PageHeight) == first.h, kase, func() string {
				return fmt.Sprintf("selection %q (pages %v): page size reported %gx%g / %gx%g, the first selected page is %dx%d",
					callsTokens(cs), sp.pages, ro.PageWidth, ro.PageHeight, ar.PageWidth, ar.PageHeight, first.w, first.h)
			})
		}
	} else if (err1 == nil) != (err2 == nil) {
		impl = fmt.Sprintf("mixed ro=%v an=%v", err1, err2)
	}
	fields := make([]string, len(refs))
	distinctSizes := map[[2]int]bool{}
	for i, r := range refs {
		fields[i] = fmt.Sprintf("%d:%d:%d:%s", r.cols, r.w, r.h, vecStr(r.stats))
		distinctSizes[[2]int{r.w, r.h}] = true
	}
	pf := "0"
	if len(fields) > 0 {
		pf = strings.Join(fields, ";")
	}
	chain := callsTokens(cs)
	if chain != "" {
		chain = " " + chain
	}
	c.Op("c10.comb "+pf+chain, impl)
	c.Count(fmt.Sprintf("comb:page-sizes=%d:%s", len(distinctSizes), d.layoutClass()))
	c.Case("comb|"+d.key()+"|"+callsTokens(cs), impl != "err")
}

func genCombDoc(r *hx.Rng, thorough bool) docParams {
	d := genDoc(r, thorough)
	if d.Kind != "good" {
		d.Kind = "good"
	}
	if r.Chance(3, 4) {
		for p := 0; p < d.N; p++ {
			d.Sizes = append(d.Sizes, r.Intn(len(pageSizes)))
		}
	}
	return d
}
