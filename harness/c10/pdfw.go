package c10

import (
	"bytes"
	"fmt"
	"strings"
)

// A minimal PDF writer, written from the PDF 1.4 file structure (header, body
// of indirect objects, classic cross-reference table with 20-byte entries,
// trailer, startxref).  One Helvetica Type1 font; every page is a list of
// text lines, each shown by its own BT … Tj ET block (optionally one Tj per glyph).

// textLine is one shown string at a position.
type textLine struct {
	x, y   int
	s      string
	size   int  // font size in points (0 = 12)
	glyphs bool // one show operator per glyph (the text position advances by itself between them)
}

// pageSpec is the content of one page; no lines = a blank page.
type pageSpec struct {
	lines []textLine
	w, h  int // MediaBox size (0 = 612 x 792)
}

// docSpec describes a whole file.
type docSpec struct {
	pages    []pageSpec
	nested   bool // two-level page tree (intermediate /Pages nodes of up to 2 kids)
	noPages  bool // catalog without /Pages (PageCount fails after a successful open)
	infoDict bool
}

func pdfEscape(s string) string {
	r := strings.NewReplacer(`\`, `\\`, `(`, `\(`, `)`, `\)`)
	return r.Replace(s)
}

func contentStream(p pageSpec) string {
	var b strings.Builder
	for _, l := range p.lines {
		size := l.size
		if size == 0 {
			size = 12
		}
		if l.glyphs {
			fmt.Fprintf(&b, "BT /F1 %d Tf %d %d Td", size, l.x, l.y)
			for i := 0; i < len(l.s); i++ {
				fmt.Fprintf(&b, " (%s) Tj", pdfEscape(l.s[i:i+1]))
			}
			b.WriteString(" ET\n")
			continue
		}
		fmt.Fprintf(&b, "BT /F1 %d Tf %d %d Td (%s) Tj ET\n", size, l.x, l.y, pdfEscape(l.s))
	}
	return b.String()
}

// writePDF serialises the document.
func writePDF(d docSpec) []byte {
	// object numbering: 1 catalog, 2 root pages, 3 font, then per page
	// (page, contents), then intermediate nodes, then info.
	type obj struct {
		num  int
		body string
	}
	var objs []obj
	n := len(d.pages)
	pageObj := func(i int) int { return 4 + 2*i }
	next := 4 + 2*n
	parentOf := make([]int, n)
	var rootKids []string
	var inter []obj
	if d.nested && n > 0 {
		for i := 0; i < n; i += 2 {
			num := next
			next++
			var kids []string
			cnt := 0
			for j := i; j < i+2 && j < n; j++ {
				kids = append(kids, fmt.Sprintf("%d 0 R", pageObj(j)))
				parentOf[j] = num
				cnt++
			}
			inter = append(inter, obj{num, fmt.Sprintf("<< /Type /Pages /Parent 2 0 R /Kids [%s] /Count %d >>", strings.Join(kids, " "), cnt)})
			rootKids = append(rootKids, fmt.Sprintf("%d 0 R", num))
		}
	} else {
		for i := 0; i < n; i++ {
			parentOf[i] = 2
			rootKids = append(rootKids, fmt.Sprintf("%d 0 R", pageObj(i)))
		}
	}
	infoNum := 0
	if d.infoDict {
		infoNum = next
		next++
	}
	if d.noPages {
		objs = append(objs, obj{1, "<< /Type /Catalog >>"})
	} else {
		objs = append(objs, obj{1, "<< /Type /Catalog /Pages 2 0 R >>"})
	}
	objs = append(objs, obj{2, fmt.Sprintf("<< /Type /Pages /Kids [%s] /Count %d >>", strings.Join(rootKids, " "), n)})
	objs = append(objs, obj{3, "<< /Type /Font /Subtype /Type1 /BaseFont /Helvetica /Encoding /WinAnsiEncoding >>"})
	for i, p := range d.pages {
		pw, ph := p.w, p.h
		if pw == 0 {
			pw, ph = 612, 792
		}
		objs = append(objs, obj{pageObj(i), fmt.Sprintf(
			"<< /Type /Page /Parent %d 0 R /MediaBox [0 0 %d %d] /Resources << /Font << /F1 3 0 R >> >> /Contents %d 0 R >>",
			parentOf[i], pw, ph, pageObj(i)+1)})
		cs := contentStream(p)
		objs = append(objs, obj{pageObj(i) + 1, fmt.Sprintf("<< /Length %d >>\nstream\n%s\nendstream", len(cs), cs)})
	}
	objs = append(objs, inter...)
	if infoNum != 0 {
		objs = append(objs, obj{infoNum, "<< /Title (C10 selection document) /Producer (verif c10 writer) >>"})
	}

	var buf bytes.Buffer
	buf.WriteString("%PDF-1.4\n%\xe2\xe3\xcf\xd3\n")
	offsets := make(map[int]int)
	for _, o := range objs {
		offsets[o.num] = buf.Len()
		fmt.Fprintf(&buf, "%d 0 obj\n%s\nendobj\n", o.num, o.body)
	}
	xref := buf.Len()
	fmt.Fprintf(&buf, "xref\n0 %d\n", next)
	buf.WriteString("0000000000 65535 f \n")
	for i := 1; i < next; i++ {
		fmt.Fprintf(&buf, "%010d %05d n \n", offsets[i], 0)
	}
	fmt.Fprintf(&buf, "trailer\n<< /Size %d /Root 1 0 R", next)
	if infoNum != 0 {
		fmt.Fprintf(&buf, " /Info %d 0 R", infoNum)
	}
	fmt.Fprintf(&buf, " >>\nstartxref\n%d\n%%%%EOF\n", xref)
	return buf.Bytes()
}
