package c10

import (
	"fmt"
	"regexp"
	"strconv"
	"strings"

	"github.com/tsawler/tabula"
	"github.com/tsawler/tabula/layout"

	"verifharness/hx"
)

// Page-level metadata of the layout operations: Headings().PageIndex and the
// Index/ZOrder numbering of Analyze()/Elements().  The reference for every page is
// the same operation on an extractor opened for that single page.

var anyTokRe = regexp.MustCompile(`(?:PAGE|HEAD)-(\d+)-(t[0-9a-f]+)`)

// sourcePage: the one page whose tokens occur in s (0 when none or several).
func sourcePage(s, tag string) int {
	p := 0
	for _, m := range anyTokRe.FindAllStringSubmatch(s, -1) {
		if m[2] != tag {
			return 0
		}
		q, _ := strconv.Atoi(m[1])
		if p != 0 && q != p {
			return 0
		}
		p = q
	}
	return p
}

type metaRef struct {
	heads [][]string // per page: heading texts of a single-page extraction
	elems []int      // per page: number of elements of a single-page Analyze
	ok    bool
}

func (e *env) metaRefs(d docParams, fl []call) metaRef {
	var r metaRef
	for p := 1; p <= d.N; p++ {
		cs := append(append([]call(nil), fl...), call{K: "P", A: []int{p}})
		var hs []layout.Heading
		var ar *layout.AnalysisResult
		var err1, err2 error
		if pn := hx.Safe(func() {
			hs, err1 = chainExt(tabula.Open(e.path(d)), cs).Headings()
			ar, err2 = chainExt(tabula.Open(e.path(d)), cs).Analyze()
		}); pn != "" || err1 != nil || err2 != nil || ar == nil {
			return r
		}
		var ts []string
		for _, h := range hs {
			ts = append(ts, h.Text)
		}
		r.heads = append(r.heads, ts)
		r.elems = append(r.elems, len(ar.Elements))
	}
	r.ok = true
	return r
}

func countsField(xs []int) string {
	if len(xs) == 0 {
		return "-"
	}
	ys := make([]string, len(xs))
	for i, x := range xs {
		ys[i] = strconv.Itoa(x)
	}
	return strings.Join(ys, ".")
}

func (e *env) metaCase(d docParams, cs []call) {
	c := e.c
	kase := map[string]interface{}{"mode": "meta", "doc": d, "calls": cs}
	n := d.N
	sp := specOf(cs, n)
	fl := flagsOf(cs)
	chainStr := callsTokens(cs)
	if chainStr != "" {
		chainStr = " " + chainStr
	}
	ref := e.metaRefs(d, fl)
	if !ref.ok {
		c.Note("meta references failed for %s", d.key())
		return
	}
	mk := func() *tabula.Extractor { return chainExt(tabula.Open(e.path(d)), cs) }

	// Headings: every heading carries the index of the page it was found on
	var hs []layout.Heading
	var err error
	before := fdCount()
	if p := hx.Safe(func() { hs, err = mk().Headings() }); p != "" {
		c.Check("C10/panic", false, kase, func() string { return "Headings: panic: " + p })
		return
	}
	c.Check("C10/fd-leak", fdCount() == before, kase, func() string { return "Headings left a descriptor open" })
	headCounts := make([]int, n)
	for i := range headCounts {
		headCounts[i] = len(ref.heads[i])
	}
	impl := "err"
	if err == nil {
		seen := map[int]int{}
		var xs []string
		for _, h := range hs {
			j := seen[h.PageIndex]
			seen[h.PageIndex]++
			xs = append(xs, fmt.Sprintf("%d:%d", h.PageIndex, j))
			hh, jj := h, j
			okRef := hh.PageIndex >= 0 && hh.PageIndex < n && jj < len(ref.heads[hh.PageIndex]) && ref.heads[hh.PageIndex][jj] == hh.Text
			okTok := sourcePage(hh.Text, d.Tag) == 0 || sourcePage(hh.Text, d.Tag) == hh.PageIndex+1
			c.Check("C10/heading-page-index-true", okRef && okTok, kase, func() string {
				return fmt.Sprintf("selection %q on a %d-page document: heading %q carries PageIndex %d, but it is not heading #%d of that page (a single-page extraction of it gives %v)",
					callsTokens(cs), n, hh.Text, hh.PageIndex, jj, ref.heads)
			})
		}
		impl = "ok -"
		if len(xs) > 0 {
			impl = "ok " + strings.Join(xs, ",")
		}
		if !sp.mustErr && !sp.mayErr {
			want := 0
			for _, p := range sp.pages {
				want += len(ref.heads[p-1])
			}
			c.Check("C10/heading-page-index-true", len(hs) == want, kase, func() string {
				return fmt.Sprintf("selection %q: %d headings returned, the selected pages have %d", callsTokens(cs), len(hs), want)
			})
		}
	}
	if sp.mustErr {
		c.Check("C10/out-of-range-error", err != nil, kase, func() string { return "Headings: no error for a page outside the document" })
	}
	c.Op("c10.head "+countsField(headCounts)+chainStr, impl)

	// Analyze: Index and ZOrder number the combined list 0,1,2,…; the elements are those of the selected pages, ascending
	var ar *layout.AnalysisResult
	before = fdCount()
	if p := hx.Safe(func() { ar, err = mk().Analyze() }); p != "" {
		c.Check("C10/panic", false, kase, func() string { return "Analyze: panic: " + p })
		return
	}
	c.Check("C10/fd-leak", fdCount() == before, kase, func() string { return "Analyze left a descriptor open" })
	impl = "err"
	if err == nil && ar != nil {
		var xs []string
		seqOK, srcOK := true, true
		var pagesSeen []int
		for j, el := range ar.Elements {
			if el.Index != j || el.ZOrder != j {
				seqOK = false
			}
			src := sourcePage(el.Text, d.Tag)
			if src == 0 {
				srcOK = false
			}
			xs = append(xs, fmt.Sprintf("%d@%d", el.Index, src-1))
			pagesSeen = append(pagesSeen, src)
		}
		c.Check("C10/analyze-index-sequential", seqOK, kase, func() string {
			return fmt.Sprintf("selection %q: the elements of Analyze() are not numbered 0,1,2,… (Index@page: %v)", callsTokens(cs), xs)
		})
		if !sp.mustErr && !sp.mayErr && srcOK {
			var want []int
			for _, p := range sp.pages {
				for k := 0; k < ref.elems[p-1]; k++ {
					want = append(want, p)
				}
			}
			c.Check("C10/selection-other-terminal-pages", eqInts(pagesSeen, want), kase, func() string {
				return fmt.Sprintf("Analyze: selection %q on a %d-page document: elements come from pages %v, want %v", callsTokens(cs), n, pagesSeen, want)
			})
		}
		if srcOK {
			impl = "ok -"
			if len(xs) > 0 {
				impl = "ok " + strings.Join(xs, ",")
			}
		} else {
			impl = "unreadable"
		}
	}
	if impl != "unreadable" {
		c.Op("c10.anl "+countsField(ref.elems)+chainStr, impl)
	} else {
		c.Count("meta:analyze-element-without-token")
	}
	c.Count(fmt.Sprintf("meta:headings-on-%d-of-%d-pages", len(d.Head), n))
	c.Case("meta|"+d.key()+"|"+callsTokens(cs), err == nil)
}

func genMetaDoc(r *hx.Rng) docParams {
	d := docParams{Kind: "good", N: r.Range(1, 6), Lines: r.Range(2, 5), Nested: r.Chance(1, 3), Tag: fmt.Sprintf("t%x", r.Intn(1<<10))}
	d.HF = d.N >= 3 && r.Chance(1, 3)
	for p := 1; p <= d.N; p++ {
		if r.Chance(3, 5) {
			d.Head = append(d.Head, p)
		}
	}
	return d
}
