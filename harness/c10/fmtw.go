package c10

import (
	"fmt"
	"strings"

	"verifharness/writers"
)

// Minimal writers for the non-PDF formats, written from the container
// specifications (OPC parts and relationships for DOCX/XLSX/PPTX, the ODF
// package layout with its stored mimetype member, the EPUB OCF container with
// an OPF package document, plain HTML).  Every document carries `units` pieces
// of text (paragraphs / sheets / slides / chapters), each with a token.

const xmlDecl = `<?xml version="1.0" encoding="UTF-8" standalone="yes"?>` + "\n"

func opcContentTypes(overrides [][2]string) []byte {
	var b strings.Builder
	b.WriteString(xmlDecl)
	b.WriteString(`<Types xmlns="http://schemas.openxmlformats.org/package/2006/content-types">` +
		`<Default Extension="rels" ContentType="application/vnd.openxmlformats-package.relationships+xml"/>` +
		`<Default Extension="xml" ContentType="application/xml"/>`)
	for _, o := range overrides {
		fmt.Fprintf(&b, `<Override PartName="%s" ContentType="%s"/>`, o[0], o[1])
	}
	b.WriteString(`</Types>`)
	return []byte(b.String())
}

func opcRels(rs [][3]string) []byte {
	var b strings.Builder
	b.WriteString(xmlDecl)
	b.WriteString(`<Relationships xmlns="http://schemas.openxmlformats.org/package/2006/relationships">`)
	for _, r := range rs {
		fmt.Fprintf(&b, `<Relationship Id="%s" Type="%s" Target="%s"/>`, r[0], r[1], r[2])
	}
	b.WriteString(`</Relationships>`)
	return []byte(b.String())
}

const relOfficeDocument = "http://schemas.openxmlformats.org/officeDocument/2006/relationships/officeDocument"

func unitToken(tag string, i int) string { return fmt.Sprintf("UNIT-%d-%s", i+1, tag) }

func docxBytes(tag string, units int) []byte {
	var b strings.Builder
	b.WriteString(xmlDecl)
	b.WriteString(`<w:document xmlns:w="http://schemas.openxmlformats.org/wordprocessingml/2006/main"><w:body>`)
	for i := 0; i < units; i++ {
		fmt.Fprintf(&b, `<w:p><w:r><w:t xml:space="preserve">%s word text</w:t></w:r></w:p>`, unitToken(tag, i))
	}
	b.WriteString(`<w:sectPr/></w:body></w:document>`)
	return writers.Zip([]writers.Member{
		{Name: "[Content_Types].xml", Data: opcContentTypes([][2]string{
			{"/word/document.xml", "application/vnd.openxmlformats-officedocument.wordprocessingml.document.main+xml"},
			{"/word/styles.xml", "application/vnd.openxmlformats-officedocument.wordprocessingml.styles+xml"}})},
		{Name: "_rels/.rels", Data: opcRels([][3]string{{"rId1", relOfficeDocument, "word/document.xml"}})},
		{Name: "word/document.xml", Data: []byte(b.String())},
		{Name: "word/_rels/document.xml.rels", Data: opcRels([][3]string{{"rId1", "http://schemas.openxmlformats.org/officeDocument/2006/relationships/styles", "styles.xml"}})},
		{Name: "word/styles.xml", Data: []byte(xmlDecl + `<w:styles xmlns:w="http://schemas.openxmlformats.org/wordprocessingml/2006/main"/>`)},
	})
}

func xlsxBytes(tag string, units int) []byte {
	wb := writers.XWorkbook{}
	for i := 0; i < units; i++ {
		wb.Shared = append(wb.Shared, writers.XSI{Plain: unitToken(tag, i) + " cell"})
		wb.Sheets = append(wb.Sheets, writers.XSheet{
			Name: fmt.Sprintf("Sheet%d", i+1), Path: fmt.Sprintf("worksheets/sheet%d.xml", i+1), RID: fmt.Sprintf("rId%d", i+1),
			Rows: []writers.XRow{{R: 1, Cells: []writers.XCell{
				{Ref: "A1", T: "s", V: fmt.Sprint(i), HasV: true},
				{Ref: "B1", V: "42", HasV: true},
			}}}})
	}
	return writers.Zip(writers.XLSXMembers(wb))
}

func pptxBytes(tag string, units int) []byte {
	const ns = `xmlns:a="http://schemas.openxmlformats.org/drawingml/2006/main" xmlns:r="http://schemas.openxmlformats.org/officeDocument/2006/relationships" xmlns:p="http://schemas.openxmlformats.org/presentationml/2006/main"`
	pres := xmlDecl + `<p:presentation ` + ns + `><p:sldIdLst>`
	var prels [][3]string
	ct := [][2]string{{"/ppt/presentation.xml", "application/vnd.openxmlformats-officedocument.presentationml.presentation.main+xml"}}
	var slides []writers.Member
	for i := 1; i <= units; i++ {
		pres += fmt.Sprintf(`<p:sldId id="%d" r:id="rId%d"/>`, 255+i, i)
		prels = append(prels, [3]string{fmt.Sprintf("rId%d", i), "http://schemas.openxmlformats.org/officeDocument/2006/relationships/slide", fmt.Sprintf("slides/slide%d.xml", i)})
		ct = append(ct, [2]string{fmt.Sprintf("/ppt/slides/slide%d.xml", i), "application/vnd.openxmlformats-officedocument.presentationml.slide+xml"})
		s := xmlDecl + `<p:sld ` + ns + `><p:cSld><p:spTree><p:nvGrpSpPr><p:cNvPr id="1" name=""/><p:cNvGrpSpPr/><p:nvPr/></p:nvGrpSpPr><p:grpSpPr/>` +
			`<p:sp><p:nvSpPr><p:cNvPr id="2" name="Content 1"/><p:cNvSpPr/><p:nvPr><p:ph type="body" idx="1"/></p:nvPr></p:nvSpPr><p:spPr/><p:txBody><a:bodyPr/>` +
			`<a:p><a:r><a:t>` + unitToken(tag, i-1) + ` slide text</a:t></a:r></a:p></p:txBody></p:sp></p:spTree></p:cSld></p:sld>`
		slides = append(slides, writers.Member{Name: fmt.Sprintf("ppt/slides/slide%d.xml", i), Data: []byte(s)})
		slides = append(slides, writers.Member{Name: fmt.Sprintf("ppt/slides/_rels/slide%d.xml.rels", i), Data: opcRels(nil)})
	}
	pres += `</p:sldIdLst><p:sldSz cx="9144000" cy="6858000"/></p:presentation>`
	ms := []writers.Member{
		{Name: "[Content_Types].xml", Data: opcContentTypes(ct)},
		{Name: "_rels/.rels", Data: opcRels([][3]string{{"rId1", relOfficeDocument, "ppt/presentation.xml"}})},
		{Name: "ppt/presentation.xml", Data: []byte(pres)},
		{Name: "ppt/_rels/presentation.xml.rels", Data: opcRels(prels)},
	}
	return writers.Zip(append(ms, slides...))
}

const odtMimeType = "application/vnd.oasis.opendocument.text"

func odtBytes(tag string, units int) []byte {
	var paras strings.Builder
	for i := 0; i < units; i++ {
		paras.WriteString(`<text:p text:style-name="Standard">` + unitToken(tag, i) + ` odt text</text:p>`)
	}
	const decl = `<?xml version="1.0" encoding="UTF-8"?>` + "\n"
	content := decl + `<office:document-content xmlns:office="urn:oasis:names:tc:opendocument:xmlns:office:1.0" xmlns:style="urn:oasis:names:tc:opendocument:xmlns:style:1.0" xmlns:text="urn:oasis:names:tc:opendocument:xmlns:text:1.0" xmlns:table="urn:oasis:names:tc:opendocument:xmlns:table:1.0" office:version="1.2"><office:automatic-styles/><office:body><office:text>` +
		paras.String() + `</office:text></office:body></office:document-content>`
	return writers.Zip([]writers.Member{
		{Name: "mimetype", Data: []byte(odtMimeType), Store: true},
		{Name: "content.xml", Data: []byte(content)},
		{Name: "styles.xml", Data: []byte(decl + `<office:document-styles xmlns:office="urn:oasis:names:tc:opendocument:xmlns:office:1.0" office:version="1.2"/>`)},
		{Name: "meta.xml", Data: []byte(decl + `<office:document-meta xmlns:office="urn:oasis:names:tc:opendocument:xmlns:office:1.0" office:version="1.2"><office:meta/></office:document-meta>`)},
		{Name: "META-INF/manifest.xml", Data: []byte(decl +
			`<manifest:manifest xmlns:manifest="urn:oasis:names:tc:opendocument:xmlns:manifest:1.0" manifest:version="1.2"><manifest:file-entry manifest:full-path="/" manifest:version="1.2" manifest:media-type="` + odtMimeType + `"/><manifest:file-entry manifest:full-path="content.xml" manifest:media-type="text/xml"/><manifest:file-entry manifest:full-path="styles.xml" manifest:media-type="text/xml"/><manifest:file-entry manifest:full-path="meta.xml" manifest:media-type="text/xml"/></manifest:manifest>`)},
	})
}

func epubBytes(tag string, units int) []byte {
	const decl = `<?xml version="1.0" encoding="UTF-8"?>` + "\n"
	var manifest, spine strings.Builder
	var chapters []writers.Member
	for i := 0; i < units; i++ {
		name := fmt.Sprintf("ch%d.xhtml", i+1)
		fmt.Fprintf(&manifest, `<item id="c%d" href="%s" media-type="application/xhtml+xml"/>`, i+1, name)
		fmt.Fprintf(&spine, `<itemref idref="c%d"/>`, i+1)
		chapters = append(chapters, writers.Member{Name: "OEBPS/" + name, Data: []byte(decl + `<!DOCTYPE html>` + "\n" +
			`<html xmlns="http://www.w3.org/1999/xhtml"><head><title>` + fmt.Sprintf("Chapter %d", i+1) + `</title></head><body><h1>` + fmt.Sprintf("Chapter %d", i+1) + `</h1><p>` + unitToken(tag, i) + ` epub chapter text</p></body></html>`)})
	}
	ncx := decl + `<ncx xmlns="http://www.daisy.org/z3986/2005/ncx/" version="2005-1"><head><meta name="dtb:uid" content="urn:uuid:c10"/></head><docTitle><text>T</text></docTitle><navMap><navPoint id="n1" playOrder="1"><navLabel><text>Start</text></navLabel><content src="ch1.xhtml"/></navPoint></navMap></ncx>`
	opf := decl + `<package xmlns="http://www.idpf.org/2007/opf" version="2.0" unique-identifier="uid"><metadata xmlns:dc="http://purl.org/dc/elements/1.1/"><dc:identifier id="uid">urn:uuid:c10-` + tag + `</dc:identifier><dc:title>Title ` + tag + `</dc:title><dc:language>en</dc:language></metadata><manifest>` +
		manifest.String() + `<item id="ncx" href="toc.ncx" media-type="application/x-dtbncx+xml"/></manifest><spine toc="ncx">` + spine.String() + `</spine></package>`
	ms := []writers.Member{
		{Name: "mimetype", Data: []byte("application/epub+zip"), Store: true},
		{Name: "META-INF/container.xml", Data: []byte(decl + `<container version="1.0" xmlns="urn:oasis:names:tc:opendocument:xmlns:container"><rootfiles><rootfile full-path="OEBPS/content.opf" media-type="application/oebps-package+xml"/></rootfiles></container>`)},
		{Name: "OEBPS/content.opf", Data: []byte(opf)},
		{Name: "OEBPS/toc.ncx", Data: []byte(ncx)},
	}
	return writers.Zip(append(ms, chapters...))
}

func htmlBytes(tag string, units int) []byte {
	var b strings.Builder
	b.WriteString("<!DOCTYPE html>\n<html><head><title>T " + tag + "</title></head><body>\n")
	for i := 0; i < units; i++ {
		b.WriteString("<p>" + unitToken(tag, i) + " html text</p>\n")
	}
	b.WriteString("</body></html>\n")
	return []byte(b.String())
}

// formatBytes writes a good document of the given content format.
func formatBytes(format, tag string, units int) []byte {
	switch format {
	case "pdf":
		d := docParams{Kind: "good", N: units, Lines: 1, Tag: tag}
		return d.bytes()
	case "docx":
		return docxBytes(tag, units)
	case "odt":
		return odtBytes(tag, units)
	case "xlsx":
		return xlsxBytes(tag, units)
	case "pptx":
		return pptxBytes(tag, units)
	case "epub":
		return epubBytes(tag, units)
	case "html":
		return htmlBytes(tag, units)
	case "plain":
		return []byte("just some words " + tag + "\nno structure at all\n")
	case "emptyzip":
		// a valid ZIP archive that is no document of any kind
		return writers.Zip([]writers.Member{{Name: "readme.txt", Data: []byte("nothing " + tag)}})
	}
	panic("unknown content format " + format)
}
