package c10

import (
	"fmt"
	"sort"
	"strconv"
	"strings"

	"verifharness/hx"
)

// ---- documents -----------------------------------------------------------------

// docParams determines a generated file completely (so a case replays from it).
type docParams struct {
	Kind   string `json:"kind"`            // good | missing | garbage | zip | nopages
	N      int    `json:"n"`               // pages
	Blank  []int  `json:"blank,omitempty"` // 1-based blank pages
	Nested bool   `json:"nested,omitempty"`
	HF     bool   `json:"hf,omitempty"` // repeated header/footer lines on every non-blank page
	Lines  int    `json:"lines"`        // body lines per page
	Tag    string `json:"tag"`
}

func (d docParams) key() string {
	return fmt.Sprintf("%s-%d-%v-%v-%v-%d-%s", d.Kind, d.N, d.Blank, d.Nested, d.HF, d.Lines, d.Tag)
}

func (d docParams) isBlank(p int) bool {
	for _, b := range d.Blank {
		if b == p {
			return true
		}
	}
	return false
}

func (d docParams) hasBlank() bool { return len(d.Blank) > 0 }

var fillers = []string{"alpha", "beta gamma", "delta", "epsilon zeta eta", "theta"}

// token of body line j (0-based) of page p (1-based)
func (d docParams) token(p, j int) string { return fmt.Sprintf("PAGE-%d-%s-L%d", p, d.Tag, j) }

func (d docParams) spec() docSpec {
	ds := docSpec{nested: d.Nested, noPages: d.Kind == "nopages", infoDict: d.N%2 == 0}
	for p := 1; p <= d.N; p++ {
		var ps pageSpec
		if !d.isBlank(p) {
			if d.HF {
				ps.lines = append(ps.lines, textLine{72, 760, "Quarterly Report"})
			}
			for j := 0; j < d.Lines; j++ {
				ps.lines = append(ps.lines, textLine{72, 680 - 24*j, d.token(p, j) + " " + fillers[(p+j)%len(fillers)]})
			}
			if d.HF {
				ps.lines = append(ps.lines, textLine{72, 30, "Confidential"})
			}
		}
		ds.pages = append(ds.pages, ps)
	}
	return ds
}

func (d docParams) bytes() []byte {
	switch d.Kind {
	case "garbage":
		return []byte("%PDF-1.4\nthis is not a pdf body " + d.Tag + "\n")
	case "zip":
		// a ZIP local file header under a .pdf name (format mismatch)
		return append([]byte("PK\x03\x04\x14\x00\x00\x00\x00\x00"), make([]byte, 64)...)
	}
	return writePDF(d.spec())
}

func genDoc(r *hx.Rng, thorough bool) docParams {
	d := docParams{Kind: "good", Tag: fmt.Sprintf("t%x", r.Intn(1<<16))}
	maxN := 6
	if thorough {
		maxN = 9
	}
	d.N = r.Range(1, maxN)
	if r.Chance(1, 12) {
		d.N = 0
	}
	d.Lines = r.Range(1, 3)
	d.Nested = r.Chance(1, 3)
	d.HF = r.Chance(1, 3) && d.N >= 3
	if r.Chance(1, 3) {
		for p := 1; p <= d.N; p++ {
			if r.Chance(1, 3) {
				d.Blank = append(d.Blank, p)
			}
		}
	}
	return d
}

// ---- builder calls ----------------------------------------------------------------

// call is one configuration method: P(ages) R(ange) H F B J C L.
type call struct {
	K string `json:"k"`
	A []int  `json:"a,omitempty"`
}

func (c call) token() string {
	switch c.K {
	case "P", "R":
		xs := make([]string, len(c.A))
		for i, a := range c.A {
			xs[i] = strconv.Itoa(a)
		}
		return c.K + strings.Join(xs, ".")
	}
	return c.K
}

func callsTokens(cs []call) string {
	xs := make([]string, len(cs))
	for i, c := range cs {
		xs[i] = c.token()
	}
	return strings.Join(xs, " ")
}

func (c call) selecting() bool { return c.K == "P" || c.K == "R" }

// flagsOf returns the non-selecting calls (they determine per-page results).
func flagsOf(cs []call) []call {
	var out []call
	for _, c := range cs {
		if !c.selecting() {
			out = append(out, c)
		}
	}
	return out
}

// selSpec is what the property text says a chain of selecting calls denotes.
type selSpec struct {
	pages    []int // ascending 1-based pages of the denoted set (all pages when nothing was selected)
	mustErr  bool  // a page number outside the document
	mayErr   bool  // an inverted range: an error is an acceptable answer
	explicit bool
}

func specOf(cs []call, n int) selSpec {
	var s selSpec
	set := map[int]bool{}
	for _, c := range cs {
		switch c.K {
		case "P":
			for _, a := range c.A {
				s.explicit = true
				set[a] = true
			}
		case "R":
			s.explicit = true
			if c.A[0] > c.A[1] {
				s.mayErr = true
			}
			for i := c.A[0]; i <= c.A[1]; i++ {
				set[i] = true
			}
		}
	}
	if !s.explicit {
		for p := 1; p <= n; p++ {
			s.pages = append(s.pages, p)
		}
		return s
	}
	for p := range set {
		if p < 1 || p > n {
			s.mustErr = true
		}
		s.pages = append(s.pages, p)
	}
	sort.Ints(s.pages)
	return s
}

var flagKinds = []string{"H", "F", "B", "J", "C", "L"}

// genSelCalls spells a selection in one of many ways.
func genSelCalls(r *hx.Rng, n int) []call {
	var cs []call
	style := r.Intn(12)
	pick := func() int { return r.Range(1, max(n, 1)) }
	switch style {
	case 0: // nothing selected
	case 1: // Pages() without arguments
		cs = append(cs, call{K: "P"})
	case 2: // one Pages call, any order, duplicates
		k := r.Range(1, 6)
		var a []int
		for i := 0; i < k; i++ {
			a = append(a, pick())
		}
		cs = append(cs, call{K: "P", A: a})
	case 3: // chained single-page calls
		k := r.Range(2, 7)
		for i := 0; i < k; i++ {
			cs = append(cs, call{K: "P", A: []int{pick()}})
		}
	case 4: // a range
		s := pick()
		cs = append(cs, call{K: "R", A: []int{s, r.Range(s, max(n, s))}})
	case 5: // overlapping ranges and pages
		k := r.Range(2, 4)
		for i := 0; i < k; i++ {
			if r.Bool() {
				s := pick()
				cs = append(cs, call{K: "R", A: []int{s, r.Range(s, max(n, s))}})
			} else {
				cs = append(cs, call{K: "P", A: []int{pick(), pick()}})
			}
		}
	case 6: // inverted range alone
		s := r.Range(2, max(n, 2)+1)
		cs = append(cs, call{K: "R", A: []int{s, r.Range(0, s-1)}})
	case 7: // inverted range next to a valid selection
		s := r.Range(2, max(n, 2))
		cs = append(cs, call{K: "P", A: []int{pick()}}, call{K: "R", A: []int{s, s - 1}})
		if r.Bool() {
			cs[0], cs[1] = cs[1], cs[0]
		}
	case 8: // out of range: 0, negative, n+1, far
		bad := hx.Pick(r, []int{0, -1, n + 1, n + 2, -7, n + 100})
		a := []int{bad}
		if r.Bool() {
			a = append([]int{pick()}, a...)
		}
		if r.Bool() {
			a = append(a, pick())
		}
		cs = append(cs, call{K: "P", A: a})
	case 9: // range leaving the document
		if r.Bool() {
			cs = append(cs, call{K: "R", A: []int{r.Range(-1, 0), pick()}})
		} else {
			cs = append(cs, call{K: "R", A: []int{pick(), n + r.Range(1, 3)}})
		}
	case 10: // every page, reversed order, with duplicates
		var a []int
		for p := n; p >= 1; p-- {
			a = append(a, p)
			if r.Chance(1, 3) {
				a = append(a, p)
			}
		}
		cs = append(cs, call{K: "P", A: a})
	case 11: // permutation of a subset split over several calls, with an empty Pages() in between
		perm := make([]int, n)
		for i := range perm {
			perm[i] = i + 1
		}
		hx.Shuffle(r, perm)
		perm = perm[:r.Range(0, n)]
		for len(perm) > 0 {
			k := r.Range(1, len(perm))
			cs = append(cs, call{K: "P", A: append([]int(nil), perm[:k]...)})
			perm = perm[k:]
			if r.Chance(1, 4) {
				cs = append(cs, call{K: "P"})
			}
		}
	}
	return cs
}

// withFlags interleaves option calls into a chain.
func withFlags(r *hx.Rng, cs []call) []call {
	k := 0
	switch r.Intn(4) {
	case 0:
		k = 0
	case 1:
		k = 1
	default:
		k = r.Range(1, 3)
	}
	for i := 0; i < k; i++ {
		f := call{K: hx.Pick(r, flagKinds)}
		pos := r.Intn(len(cs) + 1)
		cs = append(cs[:pos], append([]call{f}, cs[pos:]...)...)
	}
	return cs
}

// ---- operation sequences ----------------------------------------------------------

// seqOp: d(erive) t(ext) g(fragments) u(document) k(chunks) c(PageCount) m(IsMultiColumn) x(Close)
type seqOp struct {
	K string `json:"k"`
	E int    `json:"e"`
	C *call  `json:"c,omitempty"`
}

func (o seqOp) token() string {
	if o.K == "d" {
		return fmt.Sprintf("d%d:%s", o.E, o.C.token())
	}
	return o.K + strconv.Itoa(o.E)
}

func genBuilderCall(r *hx.Rng, n int) call {
	switch r.Intn(10) {
	case 0, 1, 2:
		return call{K: "P", A: []int{r.Range(1, max(n, 1))}}
	case 3:
		return call{K: "P", A: []int{r.Range(1, max(n, 1)), r.Range(1, max(n, 1))}}
	case 4:
		s := r.Range(1, max(n, 1))
		return call{K: "R", A: []int{s, r.Range(s, max(n, s))}}
	case 5:
		if r.Chance(1, 2) {
			return call{K: "P", A: []int{hx.Pick(r, []int{0, n + 1, -2})}}
		}
		s := r.Range(2, max(n, 2))
		return call{K: "R", A: []int{s, s - 1}}
	case 6:
		return call{K: "P"}
	}
	return call{K: hx.Pick(r, flagKinds)}
}

func genSeq(r *hx.Rng, n int, thorough bool) []seqOp {
	var ops []seqOp
	next := 1 // number of extractors so far (0 = base)
	pattern := r.Intn(6)
	switch pattern {
	case 0: // siblings off one parent whose page list has spare capacity
		k := hx.Pick(r, []int{3, 5, 6, 7})
		cur := 0
		for i := 0; i < k; i++ {
			ops = append(ops, seqOp{K: "d", E: cur, C: &call{K: "P", A: []int{r.Range(1, max(n, 1))}}})
			cur = next
			next++
		}
		a, b := next, next+1
		ops = append(ops, seqOp{K: "d", E: cur, C: &call{K: "P", A: []int{r.Range(1, max(n, 1))}}})
		ops = append(ops, seqOp{K: "d", E: cur, C: &call{K: "P", A: []int{r.Range(1, max(n, 1))}}})
		next += 2
		ops = append(ops, seqOp{K: hx.Pick(r, []string{"t", "g", "u"}), E: a}, seqOp{K: "t", E: b}, seqOp{K: "t", E: cur})
	case 1: // parent opened by a non-terminal call, derived child used, parent used again
		ops = append(ops, seqOp{K: hx.Pick(r, []string{"c", "m"}), E: 0})
		c := genBuilderCall(r, n)
		ops = append(ops, seqOp{K: "d", E: 0, C: &c})
		ops = append(ops, seqOp{K: hx.Pick(r, []string{"t", "g", "u", "k", "x"}), E: 1})
		ops = append(ops, seqOp{K: hx.Pick(r, []string{"t", "c", "g", "m"}), E: 0})
		next = 2
	case 2: // parent opened, child derived, parent closed, child used
		ops = append(ops, seqOp{K: "c", E: 0})
		c := genBuilderCall(r, n)
		ops = append(ops, seqOp{K: "d", E: 0, C: &c})
		ops = append(ops, seqOp{K: hx.Pick(r, []string{"t", "x", "k"}), E: 0})
		ops = append(ops, seqOp{K: hx.Pick(r, []string{"t", "c", "g", "u"}), E: 1})
		next = 2
	}
	total := r.Range(3, 10)
	if thorough {
		total = r.Range(3, 16)
	}
	for len(ops) < total {
		e := r.Intn(next)
		switch x := r.Intn(20); {
		case x < 7:
			c := genBuilderCall(r, n)
			ops = append(ops, seqOp{K: "d", E: e, C: &c})
			next++
		case x < 9:
			ops = append(ops, seqOp{K: "c", E: e})
		case x < 10:
			ops = append(ops, seqOp{K: "m", E: e})
		case x < 13:
			ops = append(ops, seqOp{K: "t", E: e})
		case x < 14:
			ops = append(ops, seqOp{K: "g", E: e})
		case x < 15:
			ops = append(ops, seqOp{K: "u", E: e})
		case x < 16:
			ops = append(ops, seqOp{K: "k", E: e})
		case x < 18:
			ops = append(ops, seqOp{K: "x", E: e})
		default:
			ops = append(ops, seqOp{K: "x", E: e}, seqOp{K: "x", E: e})
		}
	}
	return ops
}
