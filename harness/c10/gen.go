package c10

import (
	"fmt"
	"sort"
	"strconv"
	"strings"

	"verifharness/hx"
)

// ---- documents -----------------------------------------------------------------

// docParams determines a generated file completely (so a case replays from it).
type docParams struct {
	Kind   string `json:"kind"`            // good | missing | garbage | zip | nopages
	N      int    `json:"n"`               // pages
	Blank  []int  `json:"blank,omitempty"` // 1-based blank pages
	Nested bool   `json:"nested,omitempty"`
	HF     bool   `json:"hf,omitempty"` // repeated header/footer lines on every non-blank page
	Lines  int    `json:"lines"`        // body lines per page
	Tag    string `json:"tag"`
	// Layout gives the layout of page p at index p-1 (missing entries = 0):
	// 0 = Lines full-width body lines, 2 = two columns of Rows lines each,
	// 3 = Lines full-width body lines shown one glyph per show operator.
	Layout []int `json:"layout,omitempty"`
	Rows   int   `json:"rows,omitempty"`   // lines per column on two-column pages
	ColMaj bool  `json:"colmaj,omitempty"` // two-column pages: content stream shows the left column first (else row by row)
	Head   []int `json:"head,omitempty"`   // 1-based pages that start with a heading line in a large font
	// Chap partitions the pages into chapters (lengths, in page order; pages beyond
	// the sum belong to no chapter).  Every non-blank page of chapter k carries the
	// chapter's own running head at the top (ChapHead) and/or running foot at the
	// bottom (ChapFoot): a line that repeats on the pages of that chapter only.
	Chap     []int `json:"chap,omitempty"`
	ChapHead bool  `json:"chaphead,omitempty"`
	ChapFoot bool  `json:"chapfoot,omitempty"`
	// Sizes gives the page size of page p at index p-1 as an index into pageSizes (missing = 0)
	Sizes []int `json:"sizes,omitempty"`
}

// pageSizes: MediaBox sizes (none smaller than Letter, so every text position stays on the page)
var pageSizes = [][2]int{{612, 792}, {700, 800}, {650, 900}, {800, 1000}}

func (d docParams) sizeOf(p int) (int, int) {
	if p-1 < len(d.Sizes) {
		s := pageSizes[d.Sizes[p-1]%len(pageSizes)]
		return s[0], s[1]
	}
	return 612, 792
}

const (
	laySingle = 0
	layTwoCol = 2
	layGlyphs = 3
)

func (d docParams) key() string {
	k := fmt.Sprintf("%s-%d-%v-%v-%v-%d-%s", d.Kind, d.N, d.Blank, d.Nested, d.HF, d.Lines, d.Tag)
	if d.mixed() {
		k += fmt.Sprintf("-%v-%d-%v", d.Layout, d.Rows, d.ColMaj)
	}
	if len(d.Head) > 0 {
		k += fmt.Sprintf("-head%v", d.Head)
	}
	if len(d.Chap) > 0 {
		k += fmt.Sprintf("-chap%v-%v-%v", d.Chap, d.ChapHead, d.ChapFoot)
	}
	if len(d.Sizes) > 0 {
		k += fmt.Sprintf("-sizes%v", d.Sizes)
	}
	return k
}

// chapterOf is the 0-based chapter of page p (-1 when the page is in none).
func (d docParams) chapterOf(p int) int {
	end := 0
	for k, n := range d.Chap {
		end += n
		if p >= 1 && p <= end {
			return k
		}
	}
	return -1
}

// chapterPages lists the pages (1-based, ascending) of chapter k.
func (d docParams) chapterPages(k int) []int {
	var out []int
	for p := 1; p <= d.N; p++ {
		if d.chapterOf(p) == k {
			out = append(out, p)
		}
	}
	return out
}

// names of chapters: words only, so that two chapters never differ by digits alone
var chapWords = []string{"One", "Two", "Three", "Four", "Five", "Six", "Seven", "Eight", "Nine", "Ten", "Eleven", "Twelve", "Thirteen", "Fourteen"}

func chapWord(k int) string { return chapWords[k%len(chapWords)] }

// runningHead / runningFoot: the line every page of chapter k repeats.
func (d docParams) runningHead(k int) string { return "Part " + chapWord(k) }
func (d docParams) runningFoot(k int) string { return "Notes to Part " + chapWord(k) }

func (d docParams) hasHead(p int) bool {
	for _, h := range d.Head {
		if h == p {
			return true
		}
	}
	return false
}

// headToken is the text token of the heading line of page p.
func (d docParams) headToken(p int) string { return fmt.Sprintf("HEAD-%d-%s", p, d.Tag) }

// layoutOf is the layout of page p (1-based).
func (d docParams) layoutOf(p int) int {
	if p >= 1 && p <= len(d.Layout) {
		return d.Layout[p-1]
	}
	return laySingle
}

// mixed: some page is not a plain single-column page.
func (d docParams) mixed() bool {
	for p := 1; p <= d.N; p++ {
		if d.layoutOf(p) != laySingle {
			return true
		}
	}
	return false
}

func (d docParams) hasGlyphPages() bool {
	for p := 1; p <= d.N; p++ {
		if d.layoutOf(p) == layGlyphs {
			return true
		}
	}
	return false
}

// linesOn is the number of token-carrying lines of page p (0 for a blank page).
func (d docParams) linesOn(p int) int {
	switch {
	case d.isBlank(p):
		return 0
	case d.layoutOf(p) == layTwoCol:
		return 2 * d.Rows
	}
	return d.Lines
}

// layoutClass names how the pages of the document differ from page 1.
func (d docParams) layoutClass() string {
	if !d.mixed() {
		return "uniform-single"
	}
	first, same := d.layoutOf(1), true
	for p := 2; p <= d.N; p++ {
		if d.layoutOf(p) != first {
			same = false
		}
	}
	if same {
		return fmt.Sprintf("uniform-%d", first)
	}
	return fmt.Sprintf("page1=%d-others-differ", first)
}

func (d docParams) isBlank(p int) bool {
	for _, b := range d.Blank {
		if b == p {
			return true
		}
	}
	return false
}

func (d docParams) hasBlank() bool { return len(d.Blank) > 0 }

// describe says in words what the document is (for failure details).
func (d docParams) describe() string {
	if d.Kind != "good" {
		return d.Kind + " file"
	}
	s := fmt.Sprintf("%d-page PDF", d.N)
	if len(d.Chap) > 0 {
		var cs []string
		for k := range d.Chap {
			if ps := d.chapterPages(k); len(ps) > 0 {
				cs = append(cs, fmt.Sprintf("%q on pages %d-%d", chapWord(k), ps[0], ps[len(ps)-1]))
			}
		}
		s += fmt.Sprintf(" with chapters %s (running head at the top: %v, running foot at the bottom: %v; document-wide header/footer: %v)", strings.Join(cs, ", "), d.ChapHead, d.ChapFoot, d.HF)
	}
	if !d.mixed() {
		return s + fmt.Sprintf(" (every page %d full-width lines)", d.Lines)
	}
	var ps []string
	for p := 1; p <= d.N; p++ {
		switch {
		case d.isBlank(p):
			ps = append(ps, fmt.Sprintf("page %d blank", p))
		case d.layoutOf(p) == layTwoCol:
			ps = append(ps, fmt.Sprintf("page %d two columns x %d lines", p, d.Rows))
		case d.layoutOf(p) == layGlyphs:
			ps = append(ps, fmt.Sprintf("page %d %d lines shown glyph by glyph", p, d.Lines))
		default:
			ps = append(ps, fmt.Sprintf("page %d %d full-width lines", p, d.Lines))
		}
	}
	return s + " (" + strings.Join(ps, ", ") + ")"
}

var fillers = []string{"alpha", "beta gamma", "delta", "epsilon zeta eta", "theta"}

// shorter fillers for column cells (a cell must stay inside its column)
var colFillers = []string{"iota kappa", "lambda", "mu nu xi", "omicron pi", "rho"}

// token of body line j (0-based) of page p (1-based)
func (d docParams) token(p, j int) string { return fmt.Sprintf("PAGE-%d-%s-L%d", p, d.Tag, j) }

func (d docParams) spec() docSpec {
	ds := docSpec{nested: d.Nested, noPages: d.Kind == "nopages", infoDict: d.N%2 == 0}
	for p := 1; p <= d.N; p++ {
		var ps pageSpec
		if len(d.Sizes) > 0 {
			ps.w, ps.h = d.sizeOf(p)
		}
		if !d.isBlank(p) {
			if d.HF {
				ps.lines = append(ps.lines, textLine{x: 72, y: 760, s: "Quarterly Report"})
			}
			// the chapter's running head: beside the document-wide header line when there is one
			chapX := 72
			if d.HF {
				chapX = 330
			}
			if k := d.chapterOf(p); k >= 0 && d.ChapHead {
				ps.lines = append(ps.lines, textLine{x: chapX, y: 760, s: d.runningHead(k)})
			}
			if d.hasHead(p) {
				ps.lines = append(ps.lines, textLine{x: 72, y: 720, s: d.headToken(p) + " Title", size: 22})
			}
			switch d.layoutOf(p) {
			case layTwoCol:
				// tokens 0..Rows-1 are the left column top to bottom, Rows..2*Rows-1 the right column
				cell := func(col, i int) textLine {
					j := col*d.Rows + i
					return textLine{x: 60 + 270*col, y: 680 - 14*i, s: d.token(p, j) + " " + colFillers[(p+j)%len(colFillers)], size: 10}
				}
				if d.ColMaj {
					for col := 0; col < 2; col++ {
						for i := 0; i < d.Rows; i++ {
							ps.lines = append(ps.lines, cell(col, i))
						}
					}
				} else {
					for i := 0; i < d.Rows; i++ {
						ps.lines = append(ps.lines, cell(0, i), cell(1, i))
					}
				}
			default:
				for j := 0; j < d.Lines; j++ {
					ps.lines = append(ps.lines, textLine{x: 72, y: 680 - 24*j, s: d.token(p, j) + " " + fillers[(p+j)%len(fillers)], glyphs: d.layoutOf(p) == layGlyphs})
				}
			}
			if k := d.chapterOf(p); k >= 0 && d.ChapFoot {
				ps.lines = append(ps.lines, textLine{x: chapX, y: 30, s: d.runningFoot(k)})
			}
			if d.HF {
				ps.lines = append(ps.lines, textLine{x: 72, y: 30, s: "Confidential"})
			}
		}
		ds.pages = append(ds.pages, ps)
	}
	return ds
}

func (d docParams) bytes() []byte {
	switch d.Kind {
	case "garbage":
		return []byte("%PDF-1.4\nthis is not a pdf body " + d.Tag + "\n")
	case "zip":
		// a ZIP local file header under a .pdf name (format mismatch)
		return append([]byte("PK\x03\x04\x14\x00\x00\x00\x00\x00"), make([]byte, 64)...)
	}
	return writePDF(d.spec())
}

func genDoc(r *hx.Rng, thorough bool) docParams {
	d := docParams{Kind: "good", Tag: fmt.Sprintf("t%x", r.Intn(1<<16))}
	maxN := 6
	if thorough {
		maxN = 9
	}
	d.N = r.Range(1, maxN)
	if r.Chance(1, 12) {
		d.N = 0
	}
	d.Lines = r.Range(1, 3)
	d.Nested = r.Chance(1, 3)
	d.HF = r.Chance(1, 3) && d.N >= 3
	if r.Chance(1, 3) {
		for p := 1; p <= d.N; p++ {
			if r.Chance(1, 3) {
				d.Blank = append(d.Blank, p)
			}
		}
	}
	if d.N >= 2 && r.Chance(1, 5) {
		genLayout(r, &d)
	}
	return d
}

// genLayout makes the pages of d differ in layout: page 1 full-width and later
// pages in two columns / glyph by glyph, the reverse, every page the same
// non-plain layout, or a free mix.  The number of lines per column ranges over
// short and long columns (a detector with a minimum-size rule sees both sides).
func genLayout(r *hx.Rng, d *docParams) {
	if d.N < 1 {
		return
	}
	d.Layout = make([]int, d.N)
	d.Rows = hx.Pick(r, []int{3, 8, 14, 20, 22, 26, 30, 34})
	d.ColMaj = r.Bool()
	odd := hx.Pick(r, []int{layTwoCol, layTwoCol, layTwoCol, layGlyphs})
	switch r.Intn(7) {
	case 0, 1, 2: // page 1 plain, one or more later pages not
		if d.N >= 2 {
			d.Layout[r.Range(2, d.N)-1] = odd
		}
		for p := 2; p <= d.N; p++ {
			if r.Chance(1, 3) {
				d.Layout[p-1] = odd
			}
		}
	case 3, 4: // page 1 not plain, one or more later pages plain
		for p := 1; p <= d.N; p++ {
			d.Layout[p-1] = odd
		}
		if d.N >= 2 {
			d.Layout[r.Range(2, d.N)-1] = laySingle
		}
		for p := 2; p <= d.N; p++ {
			if r.Chance(1, 2) {
				d.Layout[p-1] = laySingle
			}
		}
	case 5: // every page the same non-plain layout
		for p := 1; p <= d.N; p++ {
			d.Layout[p-1] = odd
		}
	default: // free mix of the three layouts
		for p := 1; p <= d.N; p++ {
			d.Layout[p-1] = hx.Pick(r, []int{laySingle, layTwoCol, layGlyphs})
		}
	}
}

// genChapDoc is a longer document divided into chapters whose pages repeat a
// running head and/or foot of their own: text at the page edge that recurs on a
// run of pages but not throughout the document (on a few pages, on about half of
// them, on most of them - the chapter lengths are a random partition).  With the
// Exclude* options the result for a page then depends on what counts as "repeated",
// and the statement says it may not depend on which other pages are selected.
func genChapDoc(r *hx.Rng, thorough bool) docParams {
	d := docParams{Kind: "good", Tag: fmt.Sprintf("t%x", r.Intn(1<<16))}
	maxN := 10
	if thorough {
		maxN = 14
	}
	d.N = r.Range(4, maxN)
	d.Lines = r.Range(1, 2)
	d.Nested = r.Chance(1, 3)
	d.HF = r.Chance(1, 4)
	if r.Chance(1, 6) {
		for p := 1; p <= d.N; p++ {
			if r.Chance(1, 5) {
				d.Blank = append(d.Blank, p)
			}
		}
	}
	if r.Chance(1, 8) {
		genLayout(r, &d)
		if d.Rows > 14 {
			d.Rows = 14
		}
	}
	// chapters: a partition of a prefix of the pages; short chapters are the common case
	left := d.N
	if r.Chance(1, 4) {
		left = r.Range(2, d.N) // trailing pages without a chapter
	}
	for left > 0 {
		n := r.Range(1, min(left, hx.Pick(r, []int{2, 3, 4, 5, d.N})))
		d.Chap = append(d.Chap, n)
		left -= n
	}
	switch r.Intn(3) {
	case 0:
		d.ChapHead = true
	case 1:
		d.ChapFoot = true
	default:
		d.ChapHead, d.ChapFoot = true, true
	}
	return d
}

// spellSet spells the page set ps (ascending, non-empty) in one of many ways:
// one range, several overlapping ranges, one Pages call in any order with
// duplicates, chained calls, a mixture.
func spellSet(r *hx.Rng, ps []int) []call {
	contiguous := ps[len(ps)-1]-ps[0] == len(ps)-1
	// maximal runs of consecutive pages
	var runs [][2]int
	for i := 0; i < len(ps); {
		j := i
		for j+1 < len(ps) && ps[j+1] == ps[j]+1 {
			j++
		}
		runs = append(runs, [2]int{ps[i], ps[j]})
		i = j + 1
	}
	shuffled := func() []int {
		a := append([]int(nil), ps...)
		for _, p := range ps {
			if r.Chance(1, 4) {
				a = append(a, p)
			}
		}
		hx.Shuffle(r, a)
		return a
	}
	var cs []call
	switch r.Intn(5) {
	case 0: // ranges, one per run (a single PageRange when the set is contiguous)
		for _, ru := range runs {
			cs = append(cs, call{K: "R", A: []int{ru[0], ru[1]}})
		}
		hx.Shuffle(r, cs)
	case 1: // one Pages call
		cs = append(cs, call{K: "P", A: shuffled()})
	case 2: // chained calls of one to three pages each
		a := shuffled()
		for len(a) > 0 {
			k := r.Range(1, min(3, len(a)))
			cs = append(cs, call{K: "P", A: append([]int(nil), a[:k]...)})
			a = a[k:]
		}
	case 3: // overlapping ranges that together cover a contiguous set, else runs and single pages mixed
		if contiguous && len(ps) >= 2 {
			m := r.Range(0, len(ps)-1)
			m2 := r.Range(0, m)
			cs = append(cs, call{K: "R", A: []int{ps[0], ps[m]}}, call{K: "R", A: []int{ps[m2], ps[len(ps)-1]}})
		} else {
			for _, ru := range runs {
				if ru[0] == ru[1] || r.Bool() {
					for p := ru[0]; p <= ru[1]; p++ {
						cs = append(cs, call{K: "P", A: []int{p}})
					}
				} else {
					cs = append(cs, call{K: "R", A: []int{ru[0], ru[1]}})
				}
			}
		}
		hx.Shuffle(r, cs)
	default: // a range for the first run, Pages for the rest, an empty Pages() in between
		cs = append(cs, call{K: "R", A: []int{runs[0][0], runs[0][1]}})
		if r.Bool() {
			cs = append(cs, call{K: "P"})
		}
		var rest []int
		for _, ru := range runs[1:] {
			for p := ru[0]; p <= ru[1]; p++ {
				rest = append(rest, p)
			}
		}
		if len(rest) > 0 {
			hx.Shuffle(r, rest)
			cs = append(cs, call{K: "P", A: rest})
		}
		if r.Bool() {
			hx.Shuffle(r, cs)
		}
	}
	return cs
}

// genChapSel selects pages of a chaptered document: a chapter with some of its
// neighbours, a window, a scattered subset, the whole document, a few pages -
// of every size from one page to all of them.
func genChapSel(r *hx.Rng, d docParams) []call {
	n := d.N
	var ps []int
	switch r.Intn(8) {
	case 0, 1, 2: // one chapter and up to three pages before and after it
		k := r.Intn(len(d.Chap))
		cp := d.chapterPages(k)
		lo, hi := cp[0]-r.Range(0, 3), cp[len(cp)-1]+r.Range(0, 3)
		for p := max(lo, 1); p <= min(hi, n); p++ {
			ps = append(ps, p)
		}
	case 3, 4: // a window of consecutive pages
		w := r.Range(1, n)
		lo := r.Range(1, n-w+1)
		for p := lo; p < lo+w; p++ {
			ps = append(ps, p)
		}
	case 5, 6: // a scattered subset: every page with probability 1/2 or 3/4
		num := r.Range(2, 3)
		for p := 1; p <= n; p++ {
			if r.Chance(num, 4) {
				ps = append(ps, p)
			}
		}
		if len(ps) == 0 {
			ps = []int{r.Range(1, n)}
		}
	default: // every page
		ps = allPages(n)
	}
	return spellSet(r, ps)
}

// withExclude puts one of ExcludeHeaders / ExcludeFooters / ExcludeHeadersAndFooters
// somewhere into the chain (before, between or after the selecting calls).
func withExclude(r *hx.Rng, cs []call) []call {
	f := call{K: hx.Pick(r, []string{"H", "F", "B"})}
	pos := r.Intn(len(cs) + 1)
	return append(cs[:pos:pos], append([]call{f}, cs[pos:]...)...)
}

// genSeqDoc is the document of an operation-sequence case: small, and with a
// small tag space so that per-page reference results are shared between cases.
func genSeqDoc(r *hx.Rng) docParams {
	d := docParams{Kind: "good", N: r.Range(1, 6), Lines: r.Range(1, 2), Nested: r.Chance(1, 3), Tag: fmt.Sprintf("t%x", r.Intn(1<<12))}
	if r.Chance(2, 5) {
		d.N = r.Range(2, 5)
		d.Tag = fmt.Sprintf("t%x", r.Intn(4))
		genLayout(r, &d)
	}
	return d
}

// ---- builder calls ----------------------------------------------------------------

// call is one configuration method: P(ages) R(ange) H F B J C L.
type call struct {
	K string `json:"k"`
	A []int  `json:"a,omitempty"`
}

func (c call) token() string {
	switch c.K {
	case "P", "R":
		xs := make([]string, len(c.A))
		for i, a := range c.A {
			xs[i] = strconv.Itoa(a)
		}
		return c.K + strings.Join(xs, ".")
	}
	return c.K
}

func callsTokens(cs []call) string {
	xs := make([]string, len(cs))
	for i, c := range cs {
		xs[i] = c.token()
	}
	return strings.Join(xs, " ")
}

func (c call) selecting() bool { return c.K == "P" || c.K == "R" }

// flagsOf returns the non-selecting calls (they determine per-page results).
func flagsOf(cs []call) []call {
	var out []call
	for _, c := range cs {
		if !c.selecting() {
			out = append(out, c)
		}
	}
	return out
}

// selSpec is what the property text says a chain of selecting calls denotes.
type selSpec struct {
	pages    []int // ascending 1-based pages of the denoted set (all pages when nothing was selected)
	mustErr  bool  // a page number outside the document
	mayErr   bool  // an inverted range: an error is an acceptable answer
	explicit bool
}

func specOf(cs []call, n int) selSpec {
	var s selSpec
	set := map[int]bool{}
	for _, c := range cs {
		switch c.K {
		case "P":
			for _, a := range c.A {
				s.explicit = true
				set[a] = true
			}
		case "R":
			s.explicit = true
			if c.A[0] > c.A[1] {
				s.mayErr = true
			}
			for i := c.A[0]; i <= c.A[1]; i++ {
				set[i] = true
			}
		}
	}
	if !s.explicit {
		for p := 1; p <= n; p++ {
			s.pages = append(s.pages, p)
		}
		return s
	}
	for p := range set {
		if p < 1 || p > n {
			s.mustErr = true
		}
		s.pages = append(s.pages, p)
	}
	sort.Ints(s.pages)
	return s
}

var flagKinds = []string{"H", "F", "B", "J", "C", "L"}

// genSelCalls spells a selection in one of many ways.
func genSelCalls(r *hx.Rng, n int) []call {
	var cs []call
	style := r.Intn(12)
	pick := func() int { return r.Range(1, max(n, 1)) }
	switch style {
	case 0: // nothing selected
	case 1: // Pages() without arguments
		cs = append(cs, call{K: "P"})
	case 2: // one Pages call, any order, duplicates
		k := r.Range(1, 6)
		var a []int
		for i := 0; i < k; i++ {
			a = append(a, pick())
		}
		cs = append(cs, call{K: "P", A: a})
	case 3: // chained single-page calls
		k := r.Range(2, 7)
		for i := 0; i < k; i++ {
			cs = append(cs, call{K: "P", A: []int{pick()}})
		}
	case 4: // a range
		s := pick()
		cs = append(cs, call{K: "R", A: []int{s, r.Range(s, max(n, s))}})
	case 5: // overlapping ranges and pages
		k := r.Range(2, 4)
		for i := 0; i < k; i++ {
			if r.Bool() {
				s := pick()
				cs = append(cs, call{K: "R", A: []int{s, r.Range(s, max(n, s))}})
			} else {
				cs = append(cs, call{K: "P", A: []int{pick(), pick()}})
			}
		}
	case 6: // inverted range alone
		s := r.Range(2, max(n, 2)+1)
		cs = append(cs, call{K: "R", A: []int{s, r.Range(0, s-1)}})
	case 7: // inverted range next to a valid selection
		s := r.Range(2, max(n, 2))
		cs = append(cs, call{K: "P", A: []int{pick()}}, call{K: "R", A: []int{s, s - 1}})
		if r.Bool() {
			cs[0], cs[1] = cs[1], cs[0]
		}
	case 8: // out of range: 0, negative, n+1, far
		bad := hx.Pick(r, []int{0, -1, n + 1, n + 2, -7, n + 100})
		a := []int{bad}
		if r.Bool() {
			a = append([]int{pick()}, a...)
		}
		if r.Bool() {
			a = append(a, pick())
		}
		cs = append(cs, call{K: "P", A: a})
	case 9: // range leaving the document
		if r.Bool() {
			cs = append(cs, call{K: "R", A: []int{r.Range(-1, 0), pick()}})
		} else {
			cs = append(cs, call{K: "R", A: []int{pick(), n + r.Range(1, 3)}})
		}
	case 10: // every page, reversed order, with duplicates
		var a []int
		for p := n; p >= 1; p-- {
			a = append(a, p)
			if r.Chance(1, 3) {
				a = append(a, p)
			}
		}
		cs = append(cs, call{K: "P", A: a})
	case 11: // permutation of a subset split over several calls, with an empty Pages() in between
		perm := make([]int, n)
		for i := range perm {
			perm[i] = i + 1
		}
		hx.Shuffle(r, perm)
		perm = perm[:r.Range(0, n)]
		for len(perm) > 0 {
			k := r.Range(1, len(perm))
			cs = append(cs, call{K: "P", A: append([]int(nil), perm[:k]...)})
			perm = perm[k:]
			if r.Chance(1, 4) {
				cs = append(cs, call{K: "P"})
			}
		}
	}
	return cs
}

// withFlags interleaves option calls into a chain.
func withFlags(r *hx.Rng, cs []call) []call {
	k := 0
	switch r.Intn(4) {
	case 0:
		k = 0
	case 1:
		k = 1
	default:
		k = r.Range(1, 3)
	}
	for i := 0; i < k; i++ {
		f := call{K: hx.Pick(r, flagKinds)}
		pos := r.Intn(len(cs) + 1)
		cs = append(cs[:pos], append([]call{f}, cs[pos:]...)...)
	}
	return cs
}

// ---- operation sequences ----------------------------------------------------------

// seqOp: d(erive) t(ext) g(fragments) u(document) k(chunks) c(PageCount) m(IsMultiColumn) h(IsCharacterLevel) x(Close)
type seqOp struct {
	K string `json:"k"`
	E int    `json:"e"`
	C *call  `json:"c,omitempty"`
}

// modelToken is the operation as sent to the builder model (IsCharacterLevel used to be
// sent as IsMultiColumn, whose frame it shares; the model now has it as an operation of
// its own).
func (o seqOp) modelToken() string { return o.token() }

func (o seqOp) token() string {
	if o.K == "d" {
		return fmt.Sprintf("d%d:%s", o.E, o.C.token())
	}
	return o.K + strconv.Itoa(o.E)
}

func genBuilderCall(r *hx.Rng, n int) call {
	switch r.Intn(10) {
	case 0, 1, 2:
		return call{K: "P", A: []int{r.Range(1, max(n, 1))}}
	case 3:
		return call{K: "P", A: []int{r.Range(1, max(n, 1)), r.Range(1, max(n, 1))}}
	case 4:
		s := r.Range(1, max(n, 1))
		return call{K: "R", A: []int{s, r.Range(s, max(n, s))}}
	case 5:
		if r.Chance(1, 2) {
			return call{K: "P", A: []int{hx.Pick(r, []int{0, n + 1, -2})}}
		}
		s := r.Range(2, max(n, 2))
		return call{K: "R", A: []int{s, s - 1}}
	case 6:
		return call{K: "P"}
	}
	return call{K: hx.Pick(r, flagKinds)}
}

var nonTerminals = []string{"c", "m", "m", "h"}
var terminals = []string{"t", "t", "t", "g", "u", "k"}

// genSelOrFlag: a derivation that selects pages (mostly) or sets an option.
func genSelOrFlag(r *hx.Rng, n int) call {
	if r.Chance(1, 4) {
		return call{K: hx.Pick(r, flagKinds)}
	}
	switch r.Intn(4) {
	case 0:
		s := r.Range(1, max(n, 1))
		return call{K: "R", A: []int{s, r.Range(s, max(n, s))}}
	case 1:
		return call{K: "P", A: []int{r.Range(1, max(n, 1)), r.Range(1, max(n, 1))}}
	}
	return call{K: "P", A: []int{r.Range(1, max(n, 1))}}
}

func genSeq(r *hx.Rng, n int, thorough bool) []seqOp {
	var ops []seqOp
	next := 1 // number of extractors so far (0 = base)
	derive := func(from int, c call) int {
		ops = append(ops, seqOp{K: "d", E: from, C: &c})
		next++
		return next - 1
	}
	pattern := r.Intn(10)
	switch pattern {
	case 3: // non-terminal calls on the base, then a selection derived from it is extracted, then the base itself
		for i, k := 0, r.Range(1, 3); i < k; i++ {
			ops = append(ops, seqOp{K: hx.Pick(r, nonTerminals), E: 0})
		}
		cur := derive(0, genSelOrFlag(r, n))
		if r.Bool() {
			ops = append(ops, seqOp{K: hx.Pick(r, nonTerminals), E: cur})
		}
		if r.Bool() {
			cur = derive(cur, genSelOrFlag(r, n))
		}
		ops = append(ops, seqOp{K: hx.Pick(r, terminals), E: cur})
		if r.Bool() {
			ops = append(ops, seqOp{K: hx.Pick(r, nonTerminals), E: 0})
		}
		ops = append(ops, seqOp{K: hx.Pick(r, terminals), E: 0})
	case 4: // one sibling derived before and one after the non-terminal call on their parent
		a := derive(0, genSelOrFlag(r, n))
		ops = append(ops, seqOp{K: hx.Pick(r, nonTerminals), E: 0})
		b := derive(0, genSelOrFlag(r, n))
		ops = append(ops, seqOp{K: hx.Pick(r, terminals), E: b}, seqOp{K: hx.Pick(r, terminals), E: a})
		ops = append(ops, seqOp{K: hx.Pick(r, nonTerminals), E: 0}, seqOp{K: hx.Pick(r, terminals), E: 0})
	case 5: // a non-terminal call on a derived extractor: its own children, its parent and a cousin are then used
		a := derive(0, genSelOrFlag(r, n))
		ops = append(ops, seqOp{K: hx.Pick(r, nonTerminals), E: a})
		b := derive(a, genSelOrFlag(r, n))
		cz := derive(0, genSelOrFlag(r, n))
		for _, x := range []int{b, cz, a, 0} {
			if r.Chance(3, 4) {
				ops = append(ops, seqOp{K: hx.Pick(r, terminals), E: x})
			}
		}
	case 6: // the same extractor answers a non-terminal call and then the terminal one (no derivation in between)
		cur := 0
		if r.Bool() {
			cur = derive(0, genSelOrFlag(r, n))
		}
		for i, k := 0, r.Range(1, 3); i < k; i++ {
			ops = append(ops, seqOp{K: hx.Pick(r, nonTerminals), E: cur})
		}
		ops = append(ops, seqOp{K: hx.Pick(r, terminals), E: cur})
	case 0: // siblings off one parent whose page list has spare capacity
		k := hx.Pick(r, []int{3, 5, 6, 7})
		cur := 0
		for i := 0; i < k; i++ {
			ops = append(ops, seqOp{K: "d", E: cur, C: &call{K: "P", A: []int{r.Range(1, max(n, 1))}}})
			cur = next
			next++
		}
		a, b := next, next+1
		ops = append(ops, seqOp{K: "d", E: cur, C: &call{K: "P", A: []int{r.Range(1, max(n, 1))}}})
		ops = append(ops, seqOp{K: "d", E: cur, C: &call{K: "P", A: []int{r.Range(1, max(n, 1))}}})
		next += 2
		ops = append(ops, seqOp{K: hx.Pick(r, []string{"t", "g", "u"}), E: a}, seqOp{K: "t", E: b}, seqOp{K: "t", E: cur})
	case 1: // parent opened by a non-terminal call, derived child used, parent used again
		ops = append(ops, seqOp{K: hx.Pick(r, []string{"c", "m", "h"}), E: 0})
		c := genBuilderCall(r, n)
		ops = append(ops, seqOp{K: "d", E: 0, C: &c})
		ops = append(ops, seqOp{K: hx.Pick(r, []string{"t", "g", "u", "k", "x"}), E: 1})
		ops = append(ops, seqOp{K: hx.Pick(r, []string{"t", "c", "g", "m"}), E: 0})
		next = 2
	case 2: // parent opened, child derived, parent closed, child used
		ops = append(ops, seqOp{K: "c", E: 0})
		c := genBuilderCall(r, n)
		ops = append(ops, seqOp{K: "d", E: 0, C: &c})
		ops = append(ops, seqOp{K: hx.Pick(r, []string{"t", "x", "k"}), E: 0})
		ops = append(ops, seqOp{K: hx.Pick(r, []string{"t", "c", "g", "u"}), E: 1})
		next = 2
	}
	total := r.Range(3, 10)
	if thorough {
		total = r.Range(3, 16)
	}
	for len(ops) < total {
		e := r.Intn(next)
		switch x := r.Intn(22) - 2; {
		case x < 0:
			ops = append(ops, seqOp{K: hx.Pick(r, []string{"m", "h"}), E: e})
		case x < 7:
			c := genBuilderCall(r, n)
			ops = append(ops, seqOp{K: "d", E: e, C: &c})
			next++
		case x < 9:
			ops = append(ops, seqOp{K: "c", E: e})
		case x < 10:
			ops = append(ops, seqOp{K: "m", E: e})
		case x < 13:
			ops = append(ops, seqOp{K: "t", E: e})
		case x < 14:
			ops = append(ops, seqOp{K: "g", E: e})
		case x < 15:
			ops = append(ops, seqOp{K: "u", E: e})
		case x < 16:
			ops = append(ops, seqOp{K: "k", E: e})
		case x < 18:
			ops = append(ops, seqOp{K: "x", E: e})
		default:
			ops = append(ops, seqOp{K: "x", E: e}, seqOp{K: "x", E: e})
		}
	}
	return ops
}
