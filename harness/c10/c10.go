// Package c10: page selection and option chaining are algebraic; handles are released.
package c10

import (
	"encoding/json"
	"fmt"
	"os"
	"path/filepath"
	"regexp"
	"runtime"
	"runtime/debug"
	"sort"
	"strconv"
	"strings"

	"github.com/tsawler/tabula"
	"github.com/tsawler/tabula/model"
	"github.com/tsawler/tabula/rag"
	"github.com/tsawler/tabula/reader"
	"github.com/tsawler/tabula/text"

	"verifharness/hx"
)

func init() { hx.Register("C10", Run, Replay) }

// ---- environment ----------------------------------------------------------------------

type env struct {
	extra int
	c     *hx.Ctx
	dir   string
	files map[string]string
	refT  map[string][]string      // doc+flags -> per-page Text (index p-1)
	refF  map[string][][]string    // doc+flags -> per-page fragment strings
	refB  map[string]int           // doc+calls+op -> IsMultiColumn/IsCharacterLevel of a fresh extractor (-1 failed, 0, 1)
	refC  map[string]string        // doc+calls+op -> canonical Document/Chunks of a fresh extractor
	refP  map[string][]string      // doc+flags+op -> per-page payload of a list-valued terminal operation
	refS  map[string][]pageSummary // doc+flags -> per-page ReadingOrder / Analyze summaries
}

func newEnv(c *hx.Ctx) *env {
	dir := filepath.Join(c.OutDir, "files")
	os.RemoveAll(dir)
	os.MkdirAll(dir, 0o755)
	return &env{c: c, dir: dir, files: map[string]string{}, refT: map[string][]string{}, refF: map[string][][]string{}, refB: map[string]int{}, refC: map[string]string{}, refP: map[string][]string{}, refS: map[string][]pageSummary{}}
}

// path writes the document (once) and returns its file name.
func (e *env) path(d docParams) string {
	k := d.key()
	if p, ok := e.files[k]; ok {
		return p
	}
	p := filepath.Join(e.dir, fmt.Sprintf("d%04d.pdf", len(e.files)))
	if d.Kind == "missing" {
		p = filepath.Join(e.dir, fmt.Sprintf("absent%04d.pdf", len(e.files)))
	} else if err := os.WriteFile(p, d.bytes(), 0o644); err != nil {
		panic(err)
	}
	e.files[k] = p
	return p
}

// fdCount counts the entries of /proc/self/fd (the directory handle used for
// the listing is part of every count, so differences are exact).
func fdCount() int {
	ents, err := os.ReadDir("/proc/self/fd")
	if err != nil {
		return -1
	}
	return len(ents)
}

// ---- adapter ---------------------------------------------------------------------------

func applyCall(x *tabula.Extractor, c call) *tabula.Extractor {
	switch c.K {
	case "P":
		return x.Pages(c.A...)
	case "R":
		return x.PageRange(c.A[0], c.A[1])
	case "H":
		return x.ExcludeHeaders()
	case "F":
		return x.ExcludeFooters()
	case "B":
		return x.ExcludeHeadersAndFooters()
	case "J":
		return x.JoinParagraphs()
	case "C":
		return x.ByColumn()
	case "L":
		return x.PreserveLayout()
	}
	panic("unknown call " + c.K)
}

func chainExt(x *tabula.Extractor, cs []call) *tabula.Extractor {
	for _, c := range cs {
		x = applyCall(x, c)
	}
	return x
}

type outcome struct {
	err    error
	panic  string
	text   string
	frags  []text.TextFragment
	doc    *model.Document
	chunks *rag.ChunkCollection
	count  int
	flag   bool
}

func (o outcome) failed() bool { return o.err != nil || o.panic != "" }

// runOp invokes one terminal / non-terminal / close operation.
func runOp(x *tabula.Extractor, k string) (o outcome) {
	o.panic = hx.Safe(func() {
		switch k {
		case "t":
			o.text, _, o.err = x.Text()
		case "g":
			o.frags, _, o.err = x.Fragments()
		case "u":
			o.doc, _, o.err = x.Document()
		case "k":
			o.chunks, _, o.err = x.Chunks()
		case "c":
			o.count, o.err = x.PageCount()
		case "m":
			o.flag, o.err = x.IsMultiColumn()
		case "h":
			o.flag, o.err = x.IsCharacterLevel()
		case "x":
			o.err = x.Close()
		default:
			panic("unknown op " + k)
		}
	})
	return o
}

// oneShot runs a terminal operation on a freshly built chain and checks that it
// leaves the descriptor count where it was (success or failure).
func (e *env) oneShot(x *tabula.Extractor, k string, kase interface{}) outcome {
	before := fdCount()
	o := runOp(x, k)
	after := fdCount()
	e.c.Check("C10/fd-leak", after == before, kase, func() string {
		return fmt.Sprintf("one-shot terminal operation %q (error: %v): %d descriptors before, %d after", k, o.err, before, after)
	})
	return o
}

// settle runs the collector between cases, so that no collection (and no
// finalizer closing a leaked file) happens inside a measured window.
func settle() {
	runtime.GC()
	runtime.Gosched()
}

// ---- reading results back ----------------------------------------------------------------

var tokRe = regexp.MustCompile(`PAGE-(\d+)-(t[0-9a-f]+)-L(\d+)`)

type tok struct{ p, j int }

func tokensIn(s, tag string) []tok {
	var out []tok
	for _, m := range tokRe.FindAllStringSubmatch(s, -1) {
		if m[2] != tag {
			out = append(out, tok{-1, -1})
			continue
		}
		p, _ := strconv.Atoi(m[1])
		j, _ := strconv.Atoi(m[3])
		out = append(out, tok{p, j})
	}
	return out
}

// pageToksOK: ts is what page p yields - every token of the page exactly once,
// in writing order on a full-width page; on a two-column page any order is
// accepted (which column is read first is not this property's subject, only
// that the page is complete and not mixed with another page).
func pageToksOK(d docParams, p int, ts []tok) bool {
	n := d.linesOn(p)
	if len(ts) != n {
		return false
	}
	if d.layoutOf(p) != layTwoCol {
		for j, t := range ts {
			if t.p != p || t.j != j {
				return false
			}
		}
		return true
	}
	seen := make([]bool, n)
	for _, t := range ts {
		if t.p != p || t.j < 0 || t.j >= n || seen[t.j] {
			return false
		}
		seen[t.j] = true
	}
	return true
}

// toksArePages: the token stream is exactly the listed pages, one whole page
// after the other (blank pages contribute nothing).
func toksArePages(d docParams, ts []tok, pages []int) bool {
	i := 0
	for _, p := range pages {
		n := d.linesOn(p)
		if i+n > len(ts) || !pageToksOK(d, p, ts[i:i+n]) {
			return false
		}
		i += n
	}
	return i == len(ts)
}

// pagesOfTokens groups a token stream into whole pages (0-based indices);
// ok=false when the stream is not a sequence of complete pages.
func pagesOfTokens(d docParams, ts []tok) ([]int, bool) {
	var out []int
	for i := 0; i < len(ts); {
		p := ts[i].p
		n := d.linesOn(p)
		if p < 1 || n == 0 || i+n > len(ts) || !pageToksOK(d, p, ts[i:i+n]) {
			return nil, false
		}
		out = append(out, p-1)
		i += n
	}
	return out, true
}

func intsStr(xs []int) string {
	if len(xs) == 0 {
		return "-"
	}
	ys := make([]string, len(xs))
	for i, x := range xs {
		ys[i] = strconv.Itoa(x)
	}
	return strings.Join(ys, ",")
}

func fragStrings(fs []text.TextFragment) []string {
	out := make([]string, len(fs))
	for i, f := range fs {
		out[i] = fmt.Sprintf("%s@%s,%s", f.Text, strconv.FormatFloat(f.X, 'f', -1, 64), strconv.FormatFloat(f.Y, 'f', -1, 64))
	}
	return out
}

// fragText lays the fragments out for the token reader: one fragment per line,
// except in documents with glyph-by-glyph pages, where a line of the page is
// many fragments and the fragments are therefore concatenated as they come.
func fragText(d docParams, fs []text.TextFragment) string {
	sep := "\n"
	if d.hasGlyphPages() {
		sep = ""
	}
	var b strings.Builder
	for _, f := range fs {
		b.WriteString(f.Text)
		b.WriteString(sep)
	}
	return b.String()
}

func pageText(p *model.Page) string {
	var b strings.Builder
	for _, el := range p.Elements {
		switch v := el.(type) {
		case *model.Paragraph:
			b.WriteString(v.Text)
		case *model.Heading:
			b.WriteString(v.Text)
		case *model.List:
			for _, it := range v.Items {
				b.WriteString(it.Text)
				b.WriteString("\n")
			}
		default:
			if te, ok := el.(model.TextElement); ok {
				b.WriteString(te.GetText())
			}
		}
		b.WriteString("\n")
	}
	return b.String()
}

// ---- per-page reference results (single-page extractions with the same options) -----------

func flagsKey(d docParams, fl []call) string { return d.key() + "|" + callsTokens(fl) }

func (e *env) refTexts(d docParams, fl []call) ([]string, bool) {
	k := flagsKey(d, fl)
	if r, ok := e.refT[k]; ok {
		return r, r != nil
	}
	var out []string
	for p := 1; p <= d.N; p++ {
		x := chainExt(tabula.Open(e.path(d)), append(append([]call(nil), fl...), call{K: "P", A: []int{p}}))
		o := runOp(x, "t")
		if o.failed() {
			e.c.Note("reference Text of page %d failed: %v %s", p, o.err, o.panic)
			e.refT[k] = nil
			return nil, false
		}
		out = append(out, o.text)
	}
	if out == nil {
		out = []string{}
	}
	e.refT[k] = out
	return out, true
}

func (e *env) refFrags(d docParams) ([][]string, bool) {
	k := d.key()
	if r, ok := e.refF[k]; ok {
		return r, r != nil
	}
	out := [][]string{}
	for p := 1; p <= d.N; p++ {
		o := runOp(tabula.Open(e.path(d)).Pages(p), "g")
		if o.failed() {
			e.c.Note("reference Fragments of page %d failed: %v %s", p, o.err, o.panic)
			e.refF[k] = nil
			return nil, false
		}
		out = append(out, fragStrings(o.frags))
	}
	e.refF[k] = out
	return out, true
}

// perPageList: the terminal operations whose result is a list built page by page
// (lines, paragraphs, blocks, elements of the selected pages one page after the
// other), so that the result for a selection is the concatenation of the
// per-page lists.
var perPageList = map[string]bool{"l": true, "a": true, "o": true, "e": true, "b": true}

// refPayloads: the texts of the list a terminal operation returns for every
// single page, extracted with the same options by an extractor of its own.
func (e *env) refPayloads(d docParams, fl []call, k string) ([]string, bool) {
	key := flagsKey(d, fl) + "|" + k
	if r, ok := e.refP[key]; ok {
		return r, r != nil
	}
	out := []string{}
	for p := 1; p <= d.N; p++ {
		x := chainExt(tabula.Open(e.path(d)), append(append([]call(nil), fl...), call{K: "P", A: []int{p}}))
		payload, err, pn := runLifeOp(x, k)
		if err != nil || pn != "" {
			e.c.Note("reference %s of page %d failed: %v %s", lifeOps[k].name, p, err, pn)
			runOp(x, "x")
			e.refP[key] = nil
			return nil, false
		}
		out = append(out, payload)
	}
	e.refP[key] = out
	return out, true
}

func joinNonEmpty(ts []string) string {
	var ne []string
	for _, t := range ts {
		if t != "" {
			ne = append(ne, t)
		}
	}
	return strings.Join(ne, "\n\n")
}

// ---- selection cases ------------------------------------------------------------------------

// pipeClass names what a c10.pipe case exercises.
func pipeClass(d docParams, fl []call) string {
	var xs []string
	if d.HF {
		xs = append(xs, "running-header-footer")
	}
	if d.mixed() {
		xs = append(xs, "layout-"+d.layoutClass())
	}
	if d.hasBlank() {
		xs = append(xs, "blank-pages")
	}
	if len(xs) == 0 {
		xs = append(xs, "plain")
	}
	return strings.Join(xs, "+") + ":flags=" + strings.ReplaceAll(callsTokens(fl), " ", "")
}

func allPages(n int) []int {
	out := make([]int, n)
	for i := range out {
		out[i] = i + 1
	}
	return out
}

func eqInts(a, b []int) bool {
	if len(a) != len(b) {
		return false
	}
	for i := range a {
		if a[i] != b[i] {
			return false
		}
	}
	return true
}

func (e *env) selCase(d docParams, cs []call) {
	c := e.c
	kase := map[string]interface{}{"mode": "sel", "doc": d, "calls": cs}
	path := e.path(d)
	n := d.N
	sp := specOf(cs, n)
	fl := flagsOf(cs)
	chainStr := callsTokens(cs)
	if chainStr != "" {
		chainStr = " " + chainStr
	}
	mk := func() *tabula.Extractor { return chainExt(tabula.Open(path), cs) }
	selectsAll := sp.mayErr && n > 0 && !eqInts(sp.pages, allPages(n))
	{
		// what the chain of calls configured: accumulated page list and the error flag
		o, _ := stateStr(mk())
		f := strings.Split(o, ";")
		c.Op("c10.sel"+chainStr, f[0]+";"+f[2])
	}

	// classify an answer: "" = fine, otherwise the oracle key that fails
	judge := func(o outcome, okKey string, matches func() bool, isAll func() bool, emptyMayErr bool) {
		if o.panic != "" {
			c.Check("C10/panic", false, kase, func() string { return okKey + ": panic: " + o.panic })
			return
		}
		if sp.mustErr {
			c.Check("C10/out-of-range-error", o.err != nil, kase, func() string {
				return fmt.Sprintf("%s: selection %q on a %d-page document names a page outside it, but no error was returned", okKey, callsTokens(cs), n)
			})
			return
		}
		if o.err != nil {
			ok := sp.mayErr || (emptyMayErr && len(sp.pages) == 0)
			c.Check(okKey, ok, kase, func() string {
				return fmt.Sprintf("selection %q on a %d-page document is valid (pages %v) but failed: %v", callsTokens(cs), n, sp.pages, o.err)
			})
			return
		}
		if selectsAll && isAll() {
			c.Check("C10/reversed-range-selects-all", false, kase, func() string {
				return fmt.Sprintf("selection %q denotes pages %v of a %d-page document (an inverted range is empty) but every page was returned", callsTokens(cs), sp.pages, n)
			})
			return
		}
		c.Check(okKey, matches(), kase, func() string {
			return fmt.Sprintf("selection %q on a %d-page document: result is not the ascending per-page results of pages %v", callsTokens(cs), n, sp.pages)
		})
	}

	// Text
	refs, refsOK := e.refTexts(d, fl)
	ot := e.oneShot(mk(), "t", kase)
	if refsOK {
		var want []string
		for _, p := range sp.pages {
			if p >= 1 && p <= n {
				want = append(want, refs[p-1])
			}
		}
		judge(ot, "C10/selection-text",
			func() bool {
				return ot.text == joinNonEmpty(want) && toksArePages(d, tokensIn(ot.text, d.Tag), sp.pages)
			},
			func() bool { return toksArePages(d, tokensIn(ot.text, d.Tag), allPages(n)) }, false)
		impl := "err"
		if !ot.failed() {
			impl = "ok " + hx.HexS(ot.text)
		}
		texts := "0"
		if n > 0 {
			texts = hx.HexList(refs)
		}
		c.Op("c10.text "+texts+chainStr, impl)
		// the same call against the model of the per-page pipeline (filter, OCR, assembler by options)
		if pipeOK(d) {
			if tbl := e.pipeTable(d); tbl != "" {
				c.Op(fmt.Sprintf("c10.pipe %d %s%s", n, tbl, chainStr), impl)
				c.Count("pipe:" + pipeClass(d, fl))
			}
		}
	}

	// Fragments
	rf, rfOK := e.refFrags(d)
	og := e.oneShot(mk(), "g", kase)
	if rfOK {
		var want []string
		for _, p := range sp.pages {
			if p >= 1 && p <= n {
				want = append(want, rf[p-1]...)
			}
		}
		got := fragStrings(og.frags)
		judge(og, "C10/selection-fragments",
			func() bool {
				return strings.Join(got, "\x00") == strings.Join(want, "\x00") &&
					toksArePages(d, tokensIn(fragText(d, og.frags), d.Tag), sp.pages)
			},
			func() bool { return toksArePages(d, tokensIn(fragText(d, og.frags), d.Tag), allPages(n)) }, false)
		pagesField := "0"
		if n > 0 {
			ps := make([]string, n)
			for i, fr := range rf {
				if len(fr) == 0 {
					ps[i] = "~"
				} else {
					hs := make([]string, len(fr))
					for j, s := range fr {
						hs[j] = hx.HexS(s)
					}
					ps[i] = strings.Join(hs, ".")
				}
			}
			pagesField = strings.Join(ps, ";")
		}
		impl := "err"
		if !og.failed() {
			if len(got) == 0 {
				impl = "ok ~"
			} else {
				hs := make([]string, len(got))
				for j, s := range got {
					hs[j] = hx.HexS(s)
				}
				impl = "ok " + strings.Join(hs, ".")
			}
		}
		c.Op("c10.frag "+pagesField+chainStr, impl)
	}
	if !d.hasBlank() {
		impl := "err"
		if !og.failed() {
			if ps, ok := pagesOfTokens(d, tokensIn(fragText(d, og.frags), d.Tag)); ok {
				impl = "ok " + intsStr(ps)
			} else {
				impl = "malformed-token-stream"
			}
		}
		c.Op(fmt.Sprintf("c10.psel %d%s", n, chainStr), impl)
	}

	// Document: page numbers
	od := e.oneShot(mk(), "u", kase)
	docNumbers := func(doc *model.Document) []int {
		var out []int
		for _, p := range doc.Pages {
			out = append(out, p.Number)
		}
		return out
	}
	judge(od, "C10/page-number-true",
		func() bool {
			if !eqInts(docNumbers(od.doc), sp.pages) {
				return false
			}
			for i, p := range od.doc.Pages {
				if !toksArePages(d, tokensIn(pageText(p), d.Tag), []int{sp.pages[i]}) {
					return false
				}
			}
			return true
		},
		func() bool { return len(od.doc.Pages) == n }, true)
	// the pages of the document are the pages of the single-page documents (same options), numbers and content
	if !od.failed() && od.doc != nil && !sp.mustErr && !sp.mayErr && (len(d.Chap) > 0 || (len(fl) > 0 && e.extra%2 == 0)) {
		if refs, ok := e.refPayloads(d, fl, "u"); ok {
			var w strings.Builder
			for _, pg := range sp.pages {
				w.WriteString(refs[pg-1])
			}
			want, got := w.String(), docCanon(od.doc)
			c.Check("C10/selection-document", got == want, kase, func() string {
				return fmt.Sprintf("Document: selection %q on a %s: the pages of the result are not pages %v of the document as each comes out when extracted on its own with the same options; %s",
					callsTokens(cs), d.describe(), sp.pages, firstDiff(want, got))
			})
			c.Count("per-page-list:Document")
		}
	}
	if !od.failed() && !sp.mustErr && od.doc != nil && !eqInts(docNumbers(od.doc), sp.pages) && len(od.doc.Pages) == len(sp.pages) {
		c.Count("doc-number-mismatch")
	}
	if !d.hasBlank() {
		impl := "err"
		if !od.failed() {
			var xs []string
			for _, p := range od.doc.Pages {
				src := "?"
				if ps, ok := pagesOfTokens(d, tokensIn(pageText(p), d.Tag)); ok && len(ps) == 1 {
					src = strconv.Itoa(ps[0])
				}
				xs = append(xs, fmt.Sprintf("%d@%s", p.Number, src))
			}
			impl = "ok " + strings.Join(xs, ",")
		}
		c.Op(fmt.Sprintf("c10.doc %d%s", n, chainStr), impl)
	}

	// Chunks: PageStart/PageEnd of every chunk is the page its text came from
	ok2 := e.oneShot(mk(), "k", kase)
	judge(ok2, "C10/page-number-true",
		func() bool {
			seen := map[int]bool{}
			for _, ch := range ok2.chunks.Chunks {
				ts := tokensIn(ch.Text, d.Tag)
				for _, t := range ts {
					if t.p != ch.Metadata.PageStart || t.p != ch.Metadata.PageEnd {
						return false
					}
					seen[t.p] = true
				}
			}
			for _, p := range sp.pages {
				if !d.isBlank(p) && !seen[p] {
					return false
				}
			}
			for p := range seen {
				if sort.SearchInts(sp.pages, p) >= len(sp.pages) || sp.pages[sort.SearchInts(sp.pages, p)] != p {
					return false
				}
			}
			return true
		},
		func() bool {
			seen := map[int]bool{}
			for _, ch := range ok2.chunks.Chunks {
				for _, t := range tokensIn(ch.Text, d.Tag) {
					seen[t.p] = true
				}
			}
			for p := 1; p <= n; p++ {
				if !d.isBlank(p) && !seen[p] {
					return false
				}
			}
			return true
		}, true)

	// every other terminal operation: same error rule, nothing left open, and - where the
	// result carries the body lines of the pages - exactly the selected pages in ascending order
	if e.extra%3 == 0 || len(cs) <= 1 {
		for _, k := range []string{"l", "a", "o", "z", "e", "s", "i", "b", "w", "q"} {
			info := lifeOps[k]
			x := mk()
			before := fdCount()
			payload, err, p := runLifeOp(x, k)
			after := fdCount()
			name := info.name
			if p != "" {
				c.Check("C10/panic", false, kase, func() string { return name + ": panic: " + p })
				runOp(x, "x")
				continue
			}
			c.Check("C10/fd-leak", after == before, kase, func() string {
				return fmt.Sprintf("one-shot terminal operation %s (error: %v): %d descriptors before, %d after", name, err, before, after)
			})
			if sp.mustErr {
				c.Check("C10/out-of-range-error", err != nil, kase, func() string {
					return fmt.Sprintf("%s: selection %q on a %d-page document names a page outside it, but no error was returned", name, callsTokens(cs), n)
				})
			} else if !sp.mayErr && len(sp.pages) > 0 {
				c.Check("C10/selection-other-terminal", err == nil, kase, func() string {
					return fmt.Sprintf("%s: valid selection %q (pages %v of %d) failed: %v", name, callsTokens(cs), sp.pages, n, err)
				})
			}
			// a list-valued result is the per-page lists of the selected pages, one after the other
			if perPageList[k] && err == nil && !sp.mustErr && !sp.mayErr && (len(d.Chap) > 0 || e.extra%2 == 0) {
				if refs, ok := e.refPayloads(d, fl, k); ok {
					var w strings.Builder
					for _, pg := range sp.pages {
						w.WriteString(refs[pg-1])
					}
					want := w.String()
					c.Check("C10/selection-"+strings.ToLower(name), payload == want, kase, func() string {
						return fmt.Sprintf("%s: selection %q on a %s: the result is not the results of pages %v, each extracted on its own with the same options, one after the other; %s",
							name, callsTokens(cs), d.describe(), sp.pages, firstDiff(want, payload))
					})
					c.Count("per-page-list:" + name)
				}
			}
			// the pages the operation worked on, read back from the tokens of its result
			if isPageBearing(k) && !d.mixed() && !d.hasBlank() {
				impl := "err"
				if err == nil {
					got, mal := pagesOrMal(d, tokensIn(payload, d.Tag))
					if mal {
						impl = "malformed-token-stream"
					} else {
						impl = "ok " + intsStr(got)
					}
					if !sp.mustErr && !sp.mayErr {
						want0 := make([]int, len(sp.pages))
						for j, pg := range sp.pages {
							want0[j] = pg - 1
						}
						c.Check("C10/selection-other-terminal-pages", !mal && eqInts(got, want0), kase, func() string {
							return fmt.Sprintf("%s: selection %q on a %d-page document returned the lines of page indices %v (well-formed: %v), want %v",
								name, callsTokens(cs), n, got, !mal, want0)
						})
					}
				}
				c.Op(fmt.Sprintf("c10.term %s %d%s", k, n, chainStr), impl)
				c.Count("term-pages:" + name)
			}
		}
		c.Count("sel:all-terminal-ops")
	}
	e.extra++

	switch {
	case sp.mustErr:
		c.Count("sel:out-of-range")
	case sp.mayErr:
		c.Count("sel:inverted-range")
	case !sp.explicit:
		c.Count("sel:none")
	default:
		c.Count(fmt.Sprintf("sel:valid-%d-of-%d", len(sp.pages), n))
	}
	if len(fl) > 0 {
		c.Count("sel:with-options")
	}
	if len(d.Chap) > 0 && !sp.mustErr && !sp.mayErr {
		excl := false
		for _, f := range fl {
			excl = excl || f.K == "H" || f.K == "F" || f.K == "B"
		}
		size := "1-3"
		switch {
		case len(sp.pages) == n:
			size = "all"
		case len(sp.pages) >= 4:
			size = "4+"
		}
		c.Count(fmt.Sprintf("chapters:exclude=%v:selected=%s-of-%d", excl, size, n))
	}
	c.Case("sel|"+d.key()+"|"+callsTokens(cs), !sp.mustErr && !ot.failed() && ot.text != "")
}

// ---- operation sequences on shared extractors ---------------------------------------------

func stateStr(x *tabula.Extractor) (opts string, life string) {
	s := x.VerifState()
	ps := "-"
	if len(s.Pages) > 0 {
		xs := make([]string, len(s.Pages))
		for i, p := range s.Pages {
			xs[i] = strconv.Itoa(p)
		}
		ps = strings.Join(xs, ".")
	}
	b := func(v bool) string {
		if v {
			return "1"
		}
		return "0"
	}
	opts = ps + ";" + b(s.ExcludeHeaders) + b(s.ExcludeFooters) + b(s.ByColumn) + b(s.PreserveLayout) + b(s.JoinParagraphs) + ";" + b(s.HasErr)
	life = b(s.OwnsReader) + b(s.ReaderOpened)
	return
}

func (e *env) seqCase(d docParams, baseKind string, ops []seqOp) {
	c := e.c
	kase := map[string]interface{}{"mode": "seq", "doc": d, "base": baseKind, "ops": ops}
	path := e.path(d)
	openOK := d.Kind == "good" || d.Kind == "nopages"
	good := d.Kind == "good"
	fail := func(key string, detail func() string) { c.Check(key, false, kase, detail) }

	baseline := fdCount()
	var borrowed *reader.Reader
	var base *tabula.Extractor
	if baseKind == "r" {
		r, err := reader.Open(path)
		if err != nil {
			c.Note("borrowed reader could not be opened: %v", err)
			return
		}
		borrowed = r
		base = tabula.FromReader(r)
	} else {
		base = tabula.Open(path)
	}
	exts := []*tabula.Extractor{base}
	aborted := true // set to false when the sequence ran to its end
	defer func() {
		if !aborted {
			return
		}
		// a panic ended the sequence early: release what is still open so that
		// later cases start from a clean descriptor table
		for _, x := range exts {
			runOp(x, "x")
		}
		if borrowed != nil {
			borrowed.Close()
		}
	}()
	calls := [][]call{nil}
	held := []bool{false}
	released := []bool{false} // extractor j has run a terminal operation or Close
	var results []string
	opsStr := make([]string, len(ops))   // as written in failure details and case names
	modelStr := make([]string, len(ops)) // as sent to the model (IsCharacterLevel has IsMultiColumn's frame)
	nontrivial := false
	probed := false    // some non-terminal call has run on some extractor of this family
	var trace []string // life-cycle state of every extractor after every operation

	for i, op := range ops {
		opsStr[i] = op.token()
		modelStr[i] = op.modelToken()
		var post []func() // history oracles: run after the descriptor accounting of this operation
		if op.E >= len(exts) {
			results = append(results, "bad/"+strconv.Itoa(fdCount()-baseline))
			trace = append(trace, lifeStates(exts))
			continue
		}
		x := exts[op.E]
		touched := false // some extractor other than the receiver ran a terminal op / Close earlier
		for j, r := range released {
			if j != op.E && r {
				touched = true
			}
		}
		// options of every extractor before the operation
		before := make([]string, len(exts))
		for j, y := range exts {
			before[j], _ = stateStr(y)
		}
		fdBefore := fdCount()
		var res string
		if op.K == "d" {
			var nx *tabula.Extractor
			p := hx.Safe(func() { nx = applyCall(x, *op.C) })
			if p != "" {
				fail("C10/panic", func() string { return "derive: " + p })
				return
			}
			exts = append(exts, nx)
			calls = append(calls, append(append([]call(nil), calls[op.E]...), *op.C))
			released = append(released, false)
			held = append(held, false)
			res = "-"
		} else {
			o := runOp(x, op.K)
			if o.panic != "" {
				fail("C10/panic", func() string { return fmt.Sprintf("op %s: panic: %s", op.token(), o.panic) })
				return
			}
			sp := specOf(calls[op.E], d.N)
			wantErr := !openOK && baseKind != "r"
			if d.Kind == "nopages" {
				wantErr = true
			}
			switch op.K {
			case "x":
				res = "closed"
				if o.err != nil {
					res = "err"
					fail("C10/close-twice", func() string { return fmt.Sprintf("op %d (%s): Close returned %v", i, op.token(), o.err) })
				}
			case "c":
				res = "err"
				if o.err == nil {
					res = "n" + strconv.Itoa(o.count)
				}
				if sp.mayErr {
					// the receiver was built with an inverted range: an error is acceptable
				} else if wantErr != (o.err != nil) || (o.err == nil && o.count != d.N) {
					key := "C10/sequence-result"
					if touched && o.err != nil && good {
						key = "C10/use-after-derived-close"
					}
					fail(key, func() string {
						return fmt.Sprintf("op %d (%s) of %v: PageCount = %d, %v; document has %d pages", i, op.token(), opsStr[:i+1], o.count, o.err, d.N)
					})
				}
			case "m", "h":
				res = "err"
				if o.err == nil {
					res = "flag"
				}
				if !sp.mayErr && wantErr != (o.err != nil) {
					key := "C10/sequence-result"
					if touched && o.err != nil && good {
						key = "C10/use-after-derived-close"
					}
					fail(key, func() string {
						return fmt.Sprintf("op %d (%s) of %v: %s error = %v", i, op.token(), opsStr[:i+1], opName(op.K), o.err)
					})
				}
				if good && !sp.mayErr && o.err == nil {
					cs, k, flag := calls[op.E], op.K, o.flag
					post = append(post, func() {
						want, ok := e.freshFlag(d, cs, k)
						if !ok {
							return
						}
						c.Check("C10/history-changes-flag", flag == want, kase, func() string {
							return fmt.Sprintf("op %d (%s) of %v on a %s: %s = %v on the extractor built by %q, but %v on a fresh extractor built the same way",
								i, op.token(), opsStr[:i+1], d.describe(), opName(k), flag, callsTokens(cs), want)
						})
					})
				}
			default: // terminal operations
				var got []int
				malformed := false
				if o.err == nil {
					switch op.K {
					case "t":
						got, malformed = pagesOrMal(d, tokensIn(o.text, d.Tag))
					case "g":
						got, malformed = pagesOrMal(d, tokensIn(fragText(d, o.frags), d.Tag))
					case "u":
						for _, p := range o.doc.Pages {
							got = append(got, p.Number-1)
						}
					case "k":
						last := -1
						for _, ch := range o.chunks.Chunks {
							if ch.Metadata.PageStart != last {
								got = append(got, ch.Metadata.PageStart-1)
								last = ch.Metadata.PageStart
							}
						}
					}
				}
				switch {
				case o.err != nil:
					res = "err"
				case malformed:
					res = "malformed"
				default:
					res = "p" + intsStr(got)
					nontrivial = nontrivial || len(got) > 0
				}
				want0 := make([]int, len(sp.pages))
				for j, p := range sp.pages {
					want0[j] = p - 1
				}
				switch {
				case wantErr || sp.mustErr:
					if o.err == nil {
						key := "C10/sequence-result"
						if sp.mustErr && !wantErr {
							key = "C10/out-of-range-error"
						}
						fail(key, func() string {
							return fmt.Sprintf("op %d (%s) of %v on %s document: expected an error, got pages %v", i, op.token(), opsStr[:i+1], d.Kind, got)
						})
					}
				case o.err != nil:
					if !sp.mayErr && !(len(sp.pages) == 0 && (op.K == "u" || op.K == "k")) {
						key := "C10/sequence-result"
						if touched {
							key = "C10/use-after-derived-close"
						}
						fail(key, func() string {
							return fmt.Sprintf("op %d (%s) of %v: extractor with selection %q on a %d-page document failed: %v",
								i, op.token(), opsStr[:i+1], callsTokens(calls[op.E]), d.N, o.err)
						})
					}
				case !eqInts(got, want0) || malformed:
					key := "C10/parent-changed"
					if sp.mayErr && eqInts(got, zeroTo(d.N)) {
						key = "C10/reversed-range-selects-all"
					} else if op.K == "u" || op.K == "k" {
						key = "C10/page-number-true"
					}
					fail(key, func() string {
						return fmt.Sprintf("op %d (%s) of %v: extractor built by %q on a %d-page document returned page indices %v, want %v",
							i, op.token(), opsStr[:i+1], callsTokens(calls[op.E]), d.N, got, want0)
					})
				}
				// whatever ran before on this extractor or on the ones it was derived from,
				// the answer is the per-page results of the selected pages
				if good && o.err == nil && !sp.mustErr && !sp.mayErr {
					cs, k, oo, pages := calls[op.E], op.K, o, sp.pages
					if probed {
						c.Count("seq:terminal-after-nonterminal")
					}
					post = append(post, func() { e.historyOracle(d, kase, cs, k, oo, pages, i, op.token(), opsStr[:i+1]) })
				}
			}
		}
		fdAfter := fdCount()
		results = append(results, res+"/"+strconv.Itoa(fdAfter-baseline))

		// descriptor accounting, from the statement alone
		delta := fdAfter - fdBefore
		switch op.K {
		case "d":
			if delta != 0 {
				fail("C10/fd-leak", func() string {
					return fmt.Sprintf("op %d (%s): a configuration method changed the descriptor count by %d", i, op.token(), delta)
				})
			}
		case "c", "m", "h":
			probed = true
			if delta > 0 {
				held[op.E] = true
			}
			if delta < 0 || delta > 1 {
				fail("C10/fd-leak", func() string { return fmt.Sprintf("op %d (%s): descriptor count changed by %d", i, op.token(), delta) })
			}
		default: // terminal or Close: nothing the receiver opened may stay open
			want := 0
			if held[op.E] {
				want = -1
			}
			held[op.E] = false
			if delta > want {
				fail("C10/fd-leak", func() string {
					return fmt.Sprintf("op %d (%s) of %v on %s document: descriptors before=%d after=%d (receiver held %d)", i, op.token(), opsStr[:i+1], d.Kind, fdBefore, fdAfter, -want)
				})
			}
			released[op.E] = true
		}
		// no operation may change the configuration of another extractor
		for j := range before {
			if j == op.E && op.K != "d" {
				continue
			}
			now, _ := stateStr(exts[j])
			if now != before[j] {
				jj := j
				fail("C10/parent-changed", func() string {
					return fmt.Sprintf("op %d (%s) of %v changed the options of extractor %d from %s to %s", i, op.token(), opsStr[:i+1], jj, before[jj], now)
				})
			}
		}
		for _, f := range post {
			f()
		}
		trace = append(trace, lifeStates(exts))
		e.releaseOracle(kase, exts, op, opsStr[:i+1], borrowed != nil)
	}

	aborted = false
	// final state of every extractor
	var dump []string
	for _, x := range exts {
		o, l := stateStr(x)
		dump = append(dump, o+l)
	}
	pc := "x"
	if good {
		pc = strconv.Itoa(d.N)
	}
	ok := "0"
	if openOK {
		ok = "1"
	}
	world := fmt.Sprintf("%s,%s,%s", baseKind, ok, pc)
	c.Op("c10.bld "+world+" "+strings.Join(modelStr, " "), strings.Join(results, " ")+" | "+strings.Join(dump, " "))
	// the same answers, predicted by the model from each receiver's chain of calls alone
	c.Op("c10.lin "+world+" "+strings.Join(opsStr, " "), strings.Join(stripFd(results), " "))
	// the life-cycle flags of every extractor after every operation, predicted by the automaton
	c.Op("c10.auto "+world+" "+strings.Join(opsStr, " "), strings.Join(trace, " ")+" | "+lifeStates(exts)+" "+ownersField(exts, ops, borrowed != nil))
	fdAfterOps := fdCount() - baseline

	// closing everything (twice) is harmless and releases every descriptor
	for j, x := range exts {
		for round := 0; round < 2; round++ {
			o := runOp(x, "x")
			if o.failed() {
				jj, rr := j, round
				fail("C10/close-twice", func() string {
					return fmt.Sprintf("after %v: Close #%d of extractor %d: %v %s", opsStr, rr+1, jj, o.err, o.panic)
				})
			}
		}
	}
	end := fdCount()
	wantEnd := baseline
	if borrowed != nil {
		wantEnd++
	}
	if end != wantEnd {
		fail("C10/fd-leak", func() string {
			return fmt.Sprintf("after %v and closing every extractor twice: %d descriptors, %d before the sequence", opsStr, end, wantEnd)
		})
	}
	c.Op("c10.end "+world+" "+strings.Join(opsStr, " "), fmt.Sprintf("%d %d", fdAfterOps, end-baseline))
	if borrowed != nil {
		borrowed.Close()
	}
	c.Count("seq:" + d.Kind + ":" + baseKind)
	if good {
		c.Count("seq:layout:" + d.layoutClass())
	}
	c.Case("seq|"+d.key()+"|"+baseKind+"|"+strings.Join(opsStr, " "), nontrivial)
}

// stripFd drops the descriptor count from the result tokens of a sequence.
func stripFd(rs []string) []string {
	out := make([]string, len(rs))
	for i, r := range rs {
		if j := strings.LastIndex(r, "/"); j >= 0 {
			r = r[:j]
		}
		out[i] = r
	}
	return out
}

func opName(k string) string {
	switch k {
	case "c":
		return "PageCount"
	case "m":
		return "IsMultiColumn"
	case "h":
		return "IsCharacterLevel"
	case "t":
		return "Text"
	case "g":
		return "Fragments"
	case "u":
		return "Document"
	case "k":
		return "Chunks"
	case "x":
		return "Close"
	}
	return k
}

// freshFlag: the answer of IsMultiColumn / IsCharacterLevel on an extractor
// that was built by the same configuration calls and has no history.
func (e *env) freshFlag(d docParams, cs []call, k string) (bool, bool) {
	key := d.key() + "|" + callsTokens(cs) + "|" + k
	if v, ok := e.refB[key]; ok {
		return v == 1, v >= 0
	}
	x := chainExt(tabula.Open(e.path(d)), cs)
	o := runOp(x, k)
	runOp(x, "x")
	switch {
	case o.failed():
		e.c.Note("reference %s on %q failed: %v %s", opName(k), callsTokens(cs), o.err, o.panic)
		e.refB[key] = -1
	case o.flag:
		e.refB[key] = 1
	default:
		e.refB[key] = 0
	}
	return o.flag, !o.failed()
}

func docCanon(doc *model.Document) string {
	var b strings.Builder
	for _, p := range doc.Pages {
		fmt.Fprintf(&b, "[page %d]\n%s", p.Number, pageText(p))
	}
	return b.String()
}

func chunksCanon(cc *rag.ChunkCollection) string {
	var b strings.Builder
	for _, ch := range cc.Chunks {
		fmt.Fprintf(&b, "[chunk pages %d-%d]\n%s\n", ch.Metadata.PageStart, ch.Metadata.PageEnd, ch.Text)
	}
	return b.String()
}

// freshCanon: Document / Chunks of an extractor built by the same calls, without history.
func (e *env) freshCanon(d docParams, cs []call, k string) (string, bool) {
	key := d.key() + "|" + callsTokens(cs) + "|" + k
	if v, ok := e.refC[key]; ok {
		return v, v != "\x00"
	}
	o := runOp(chainExt(tabula.Open(e.path(d)), cs), k)
	if o.failed() {
		e.c.Note("reference %s on %q failed: %v %s", opName(k), callsTokens(cs), o.err, o.panic)
		e.refC[key] = "\x00"
		return "", false
	}
	v := ""
	if k == "u" {
		v = docCanon(o.doc)
	} else {
		v = chunksCanon(o.chunks)
	}
	e.refC[key] = v
	return v, true
}

func firstDiff(a, b string) string {
	i := 0
	for i < len(a) && i < len(b) && a[i] == b[i] {
		i++
	}
	lo := i - 30
	if lo < 0 {
		lo = 0
	}
	cut := func(s string) string {
		hi := i + 60
		if hi > len(s) {
			hi = len(s)
		}
		if lo > len(s) {
			return ""
		}
		return s[lo:hi]
	}
	return fmt.Sprintf("first difference at byte %d: expected ...%q..., actual ...%q...", i, cut(a), cut(b))
}

// historyOracle: a terminal operation that succeeded on an extractor with
// selection `pages` (ascending, in range) returned o; the statement says this
// is the per-page results of those pages - here taken from extractors that
// were opened for that single page (Text, Fragments) or built by the same
// calls (Document, Chunks) and never used for anything else.
func (e *env) historyOracle(d docParams, kase interface{}, cs []call, k string, o outcome, pages []int, i int, tokS string, prefix []string) {
	c := e.c
	where := func() string {
		return fmt.Sprintf("op %d (%s) of %v on a %s: extractor built by %q (pages %v)", i, tokS, prefix, d.describe(), callsTokens(cs), pages)
	}
	switch k {
	case "t":
		refs, ok := e.refTexts(d, flagsOf(cs))
		if !ok {
			return
		}
		var want []string
		for _, p := range pages {
			want = append(want, refs[p-1])
		}
		w := joinNonEmpty(want)
		c.Check("C10/history-changes-text", o.text == w, kase, func() string {
			return where() + ": Text() is not the per-page texts of those pages as a fresh extractor returns them; " + firstDiff(w, o.text)
		})
	case "g":
		rf, ok := e.refFrags(d)
		if !ok {
			return
		}
		var want []string
		for _, p := range pages {
			want = append(want, rf[p-1]...)
		}
		w, g := strings.Join(want, "\n"), strings.Join(fragStrings(o.frags), "\n")
		c.Check("C10/history-changes-fragments", g == w, kase, func() string {
			return where() + ": Fragments() is not the per-page fragments of those pages as a fresh extractor returns them; " + firstDiff(w, g)
		})
	case "u", "k":
		w, ok := e.freshCanon(d, cs, k)
		if !ok {
			return
		}
		g, key := "", "C10/history-changes-document"
		if k == "u" {
			g = docCanon(o.doc)
		} else {
			g, key = chunksCanon(o.chunks), "C10/history-changes-chunks"
		}
		c.Check(key, g == w, kase, func() string {
			return where() + ": " + opName(k) + "() differs from what a fresh extractor built by the same calls returns; " + firstDiff(w, g)
		})
	}
}

func zeroTo(n int) []int {
	out := make([]int, n)
	for i := range out {
		out[i] = i
	}
	return out
}

func pagesOrMal(d docParams, ts []tok) ([]int, bool) {
	ps, ok := pagesOfTokens(d, ts)
	return ps, !ok
}

// ---- driver -------------------------------------------------------------------------------------

func Run(c *hx.Ctx) {
	c.Rep.Rule = "multi-page PDFs from an independent writer (1-9 pages, blank pages, flat or nested page tree, repeated header/footer lines, a unique token per body line; " +
		"pages of one document may differ in layout: full-width lines, two columns of 3-34 lines each, lines shown glyph by glyph - page 1 plain and later pages not, the reverse, uniform, free mix); " +
		"longer documents (4-14 pages) divided into chapters whose pages repeat a running head and/or foot of the chapter only, selected by chapter, window, scattered subset or whole with ExcludeHeaders/ExcludeFooters/ExcludeHeadersAndFooters; " +
		"selections spelled as Pages/PageRange chains in any order with duplicates, overlaps, empty Pages(), inverted and out-of-range ranges, interleaved option calls; " +
		"operation sequences (derive, PageCount, IsMultiColumn, IsCharacterLevel, Text, Fragments, Document, Chunks, Close, Close Close) on extractors sharing one base (Open or FromReader) over good, missing, garbage, mismatched and page-tree-less files, " +
		"with non-terminal calls before, between and after derivations and terminal calls on the base, on derived extractors and on their siblings; every successful answer is compared with the per-page results of extractors that have no history; " +
		"non-trivial = a successful extraction returning text of at least one page"
	e := newEnv(c)
	// collections happen only at settle() points between cases
	defer debug.SetGCPercent(debug.SetGCPercent(-1))
	// warm-up: lets the runtime create whatever descriptors it keeps (epoll etc.)
	warm := docParams{Kind: "good", N: 2, Lines: 1, Tag: "t0"}
	runOp(tabula.Open(e.path(warm)), "t")
	fdCount()
	start := fdCount()

	thorough := c.Thorough()
	// 0. corpus: minimised witnesses of past defects
	if root := os.Getenv("VERIF_ROOT"); root != "" {
		files, _ := filepath.Glob(filepath.Join(root, "corpus", "C10", "*.json"))
		sort.Strings(files)
		for _, f := range files {
			b, err := os.ReadFile(f)
			if err != nil {
				continue
			}
			if k, ok := parseCase(b); ok {
				e.runCase(k)
				c.Count("corpus")
			} else {
				c.Note("corpus file %s is not a case", filepath.Base(f))
			}
		}
	}
	// 1. exhaustive: every ordered spelling of length <= 3 over pages 0..4 of a 3-page document
	ex := docParams{Kind: "good", N: 3, Lines: 1, Tag: "te"}
	vals := []int{0, 1, 2, 3, 4}
	for a := 0; a < len(vals); a++ {
		e.selCase(ex, []call{{K: "P", A: []int{vals[a]}}})
		for b := 0; b < len(vals); b++ {
			e.selCase(ex, []call{{K: "P", A: []int{vals[a], vals[b]}}})
			e.selCase(ex, []call{{K: "P", A: []int{vals[a]}}, {K: "P", A: []int{vals[b]}}})
			e.selCase(ex, []call{{K: "R", A: []int{vals[a], vals[b]}}})
			if thorough {
				for x := 0; x < len(vals); x++ {
					e.selCase(ex, []call{{K: "P", A: []int{vals[a], vals[b], vals[x]}}})
					e.selCase(ex, []call{{K: "R", A: []int{vals[a], vals[b]}}, {K: "P", A: []int{vals[x]}}})
				}
			}
		}
	}
	// 2. random documents x spellings x option combinations
	nd := c.N(300, 1500)
	for i := 0; i < nd; i++ {
		r := c.Rng.Fork(uint64(i))
		d := genDoc(r, thorough)
		if i%20 == 0 {
			settle()
		}
		for j := 0; j < c.N(8, 14); j++ {
			cs := withFlags(r, genSelCalls(r, d.N))
			e.selCase(d, cs)
		}
	}
	// 2b. documents divided into chapters with running heads/feet of their own x selections of
	// every size around the chapters x the Exclude* options (and the other options)
	nc := c.N(60, 600)
	for i := 0; i < nc; i++ {
		r := c.Rng.Fork(uint64(4_000_000 + i))
		d := genChapDoc(r, thorough)
		if i%20 == 0 {
			settle()
		}
		for j := 0; j < c.N(6, 10); j++ {
			var cs []call
			switch {
			case j%3 == 2:
				cs = withFlags(r, genSelCalls(r, d.N))
			case r.Chance(1, 3):
				cs = withFlags(r, withExclude(r, genChapSel(r, d)))
			default:
				cs = withExclude(r, genChapSel(r, d))
			}
			e.extra = 0 // every terminal operation on these cases
			e.selCase(d, cs)
		}
	}
	// 3. operation sequences on shared bases
	ns := c.N(6000, 60000)
	for i := 0; i < ns; i++ {
		r := c.Rng.Fork(uint64(1_000_000 + i))
		if i%100 == 0 {
			settle()
		}
		d := genSeqDoc(r)
		baseKind := "f"
		switch r.Intn(12) {
		case 0:
			d = docParams{Kind: "missing", Lines: 1, Tag: "tm"}
		case 1:
			d = docParams{Kind: "garbage", Lines: 1, Tag: "tg"}
		case 2:
			d = docParams{Kind: "zip", Lines: 1, Tag: "tz"}
		case 3:
			d.Kind = "nopages"
		case 4, 5:
			baseKind = "r"
		}
		e.seqCase(d, baseKind, genSeq(r, d.N, thorough))
	}
	// 3b. page-level metadata of Headings and Analyze
	nm := c.N(120, 900)
	for i := 0; i < nm; i++ {
		r := c.Rng.Fork(uint64(3_000_000 + i))
		d := genMetaDoc(r)
		for j := 0; j < 4; j++ {
			e.metaCase(d, withFlags(r, genSelCalls(r, d.N)))
		}
	}
	// 4. operation sequences over every format and every operation of the API
	nl := c.N(2500, 25000)
	for i := 0; i < nl; i++ {
		r := c.Rng.Fork(uint64(2_000_000 + i))
		if i%100 == 0 {
			settle()
		}
		f := genLifeFile(r)
		baseKind := "f"
		if f.Content == "pdf" && f.Ext == "pdf" && r.Chance(1, 5) {
			baseKind = "r"
		}
		e.lifeCase(f, baseKind, genLifeSeq(r, f.Units, thorough))
	}
	// 5. which error: Fragments of one-shot chains (every spelling of the generators) on good PDFs
	nr := c.N(1500, 12000)
	for i := 0; i < nr; i++ {
		r := c.Rng.Fork(uint64(5_000_000 + i))
		if i%200 == 0 {
			settle()
		}
		d := docParams{Kind: "good", N: r.Range(1, 6), Lines: 1, Tag: fmt.Sprintf("t%x", r.Intn(4))}
		e.rerrCase(d, withFlags(r, genSelCalls(r, d.N)))
	}
	// 6. families grown from FromHTMLString / FromHTMLReader (also a failing reader and a refused tree)
	nh := c.N(1200, 12000)
	for i := 0; i < nh; i++ {
		r := c.Rng.Fork(uint64(6_000_000 + i))
		if i%200 == 0 {
			settle()
		}
		m := genMem(r)
		e.memCase(m, genLifeSeq(r, 1, thorough))
	}
	// 7. the reader call every terminal operation ends in, for every format
	ng := c.N(700, 7000)
	for i := 0; i < ng; i++ {
		r := c.Rng.Fork(uint64(7_000_000 + i))
		if i%100 == 0 {
			settle()
		}
		d, cs := genDisp(r)
		e.dispCase(d, cs)
	}
	// 8. cross-page summaries: ReadingOrder().ColumnCount / page size, Analyze().Stats
	nq := c.N(110, 1100)
	for i := 0; i < nq; i++ {
		r := c.Rng.Fork(uint64(8_000_000 + i))
		if i%20 == 0 {
			settle()
		}
		d := genCombDoc(r, thorough)
		for j := 0; j < 4; j++ {
			e.combCase(d, withFlags(r, genSelCalls(r, d.N)))
		}
	}
	end := fdCount()
	c.Check("C10/fd-leak", end == start || len(c.Rep.FailureCount) > 0, map[string]interface{}{"mode": "whole-run"}, func() string {
		return fmt.Sprintf("descriptors at start of run %d, at end %d", start, end)
	})
}

type recorded struct {
	Mode  string      `json:"mode"`
	Doc   docParams   `json:"doc"`
	Calls []call      `json:"calls"`
	Base  string      `json:"base"`
	Ops   []seqOp     `json:"ops"`
	File  *fileParams `json:"file,omitempty"`
	Mem   *memParams  `json:"mem,omitempty"`
	Disp  *dispParams `json:"disp,omitempty"`
}

func parseCase(b []byte) (recorded, bool) {
	var k recorded
	if err := json.Unmarshal(b, &k); err != nil {
		return k, false
	}
	for _, c := range k.Calls {
		if c.K == "R" && len(c.A) != 2 {
			return k, false
		}
	}
	for _, o := range k.Ops {
		if o.K == "d" && (o.C == nil || (o.C.K == "R" && len(o.C.A) != 2)) {
			return k, false
		}
	}
	if k.Mode == "life" {
		return k, k.File != nil
	}
	if k.Mode == "meta" || k.Mode == "rerr" || k.Mode == "comb" {
		return k, true
	}
	if k.Mode == "mem" {
		return k, k.Mem != nil
	}
	if k.Mode == "disp" {
		return k, k.Disp != nil
	}
	return k, k.Mode == "sel" || k.Mode == "seq"
}

func (e *env) runCase(k recorded) {
	switch k.Mode {
	case "sel":
		e.selCase(k.Doc, k.Calls)
	case "seq":
		if k.Base == "" {
			k.Base = "f"
		}
		e.seqCase(k.Doc, k.Base, k.Ops)
	case "meta":
		e.metaCase(k.Doc, k.Calls)
	case "rerr":
		e.rerrCase(k.Doc, k.Calls)
	case "comb":
		e.combCase(k.Doc, k.Calls)
	case "mem":
		e.memCase(*k.Mem, k.Ops)
	case "disp":
		e.dispCase(*k.Disp, k.Calls)
	case "life":
		if k.Base == "" {
			k.Base = "f"
		}
		e.lifeCase(*k.File, k.Base, k.Ops)
	}
}

// Replay re-runs one recorded case.
func Replay(c *hx.Ctx, kase map[string]interface{}) {
	b, _ := json.Marshal(kase)
	k, ok := parseCase(b)
	if !ok {
		c.Note("not a replayable case: %s", string(b))
		return
	}
	e := newEnv(c)
	defer debug.SetGCPercent(debug.SetGCPercent(-1))
	warm := docParams{Kind: "good", N: 2, Lines: 1, Tag: "t0"}
	runOp(tabula.Open(e.path(warm)), "t")
	settle()
	e.runCase(k)
}
