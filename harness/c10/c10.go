// Package c10 is the correspondence/oracle harness for property C10.
package c10

import "verifharness/hx"

func init() { hx.Register("C10", Run, Replay) }

// Run is not built yet for this property.
func Run(c *hx.Ctx) { c.Note("C10: harness not built") }

func Replay(c *hx.Ctx, kase map[string]interface{}) {}
