package c10

import (
	"bytes"
	"fmt"
	"os"
	"path/filepath"
	"strconv"
	"strings"

	"github.com/tsawler/tabula"
	"github.com/tsawler/tabula/docx"
	"github.com/tsawler/tabula/epubdoc"
	"github.com/tsawler/tabula/format"
	"github.com/tsawler/tabula/htmldoc"
	"github.com/tsawler/tabula/layout"
	"github.com/tsawler/tabula/odt"
	"github.com/tsawler/tabula/pptx"
	"github.com/tsawler/tabula/rag"
	"github.com/tsawler/tabula/reader"
	"github.com/tsawler/tabula/text"
	"github.com/tsawler/tabula/xlsx"

	"verifharness/hx"
)

// ---- files of every format -----------------------------------------------------------------

// fileParams determines a generated file of any format completely.
type fileParams struct {
	Content string `json:"content"` // pdf docx odt xlsx pptx epub html plain emptyzip brokenpdf pdfnopages missing
	Ext     string `json:"ext"`     // pdf docx odt xlsx pptx epub html txt
	Units   int    `json:"units"`   // pages / paragraphs / sheets / slides / chapters
	Tag     string `json:"tag"`
}

func (f fileParams) key() string {
	return fmt.Sprintf("life-%s-%s-%d-%s", f.Content, f.Ext, f.Units, f.Tag)
}

func (f fileParams) pdfDoc() docParams {
	d := docParams{Kind: "good", N: f.Units, Lines: 1, Tag: f.Tag}
	if f.Content == "pdfnopages" {
		d.Kind = "nopages"
	}
	return d
}

func (f fileParams) bytes() []byte {
	switch f.Content {
	case "brokenpdf":
		return []byte("%PDF-1.4\nthis is not a pdf body " + f.Tag + "\n")
	case "pdf", "pdfnopages":
		return f.pdfDoc().bytes()
	}
	return formatBytes(f.Content, f.Tag, f.Units)
}

func (e *env) lifePath(f fileParams) string {
	k := f.key()
	if p, ok := e.files[k]; ok {
		return p
	}
	p := filepath.Join(e.dir, fmt.Sprintf("l%04d.%s", len(e.files), f.Ext))
	if f.Content == "missing" {
		p = filepath.Join(e.dir, fmt.Sprintf("gone%04d.%s", len(e.files), f.Ext))
	} else if err := os.WriteFile(p, f.bytes(), 0o644); err != nil {
		panic(err)
	}
	e.files[k] = p
	return p
}

func fmtLetter(f format.Format) string {
	switch f {
	case format.PDF:
		return "pdf"
	case format.DOCX:
		return "docx"
	case format.ODT:
		return "odt"
	case format.XLSX:
		return "xlsx"
	case format.PPTX:
		return "pptx"
	case format.HTML:
		return "html"
	case format.EPUB:
		return "epub"
	}
	return "unknown"
}

// fileFacts are the answers of the code that is not C10's subject (format
// detection by name and by content: C20; the parsers of the seven formats),
// obtained through their exported entry points and handed to the model.
type fileFacts struct {
	extFmt   string // format.Detect(name)
	exists   bool
	detected string // format.DetectFromReader(content): a format, "unknown", or "e" (error)
	parseOk  bool   // the reader of extFmt opens the file
	count    string // its page/unit count, "x" when it cannot be had
}

func (e *env) facts(f fileParams) fileFacts {
	path := e.lifePath(f)
	ff := fileFacts{extFmt: fmtLetter(format.Detect(path)), exists: f.Content != "missing", detected: "unknown", count: "x"}
	if !ff.exists {
		return ff
	}
	b := f.bytes()
	det, err := format.DetectFromReader(bytes.NewReader(b), int64(len(b)))
	if err != nil {
		ff.detected = "e"
	} else {
		ff.detected = fmtLetter(det)
	}
	cnt := func(n int, err error) {
		if err == nil {
			ff.count = strconv.Itoa(n)
		}
	}
	hx.Safe(func() {
		switch ff.extFmt {
		case "pdf":
			if r, err := reader.Open(path); err == nil {
				ff.parseOk = true
				cnt(r.PageCount())
				r.Close()
			}
		case "docx":
			if r, err := docx.Open(path); err == nil {
				ff.parseOk = true
				cnt(r.PageCount())
				r.Close()
			}
		case "odt":
			if r, err := odt.Open(path); err == nil {
				ff.parseOk = true
				cnt(r.PageCount())
				r.Close()
			}
		case "xlsx":
			if r, err := xlsx.Open(path); err == nil {
				ff.parseOk = true
				cnt(r.PageCount())
				r.Close()
			}
		case "pptx":
			if r, err := pptx.Open(path); err == nil {
				ff.parseOk = true
				cnt(r.PageCount())
				r.Close()
			}
		case "html":
			if r, err := htmldoc.Open(path); err == nil {
				ff.parseOk = true
				cnt(r.PageCount())
				r.Close()
			}
		case "epub":
			if r, err := epubdoc.Open(path); err == nil {
				ff.parseOk = true
				cnt(r.ChapterCount(), nil)
				r.Close()
			}
		}
	})
	return ff
}

// ---- every operation of the public API ------------------------------------------------------

type (
	textFragment    = text.TextFragment
	layoutLine      = layout.Line
	layoutParagraph = layout.Paragraph
	layoutElement   = layout.LayoutElement
	layoutHeading   = layout.Heading
	layoutBlock     = layout.Block
)

type opInfo struct {
	name     string
	terminal bool
	pdfOnly  bool // goes through ensurePDFReader
	run      func(x *tabula.Extractor) (payload string, err error)
}

func joinTexts[T any](xs []T, f func(T) string) string {
	var b strings.Builder
	for _, x := range xs {
		b.WriteString(f(x))
		b.WriteString("\n")
	}
	return b.String()
}

// lifeOps: letter -> operation.  The payload of a terminal operation is all the
// text it returned, in result order (the page tokens are read back from it).
var lifeOps = map[string]opInfo{
	"t": {"Text", true, false, func(x *tabula.Extractor) (string, error) { s, _, err := x.Text(); return s, err }},
	"g": {"Fragments", true, true, func(x *tabula.Extractor) (string, error) {
		fs, _, err := x.Fragments()
		return joinTexts(fs, func(f textFragment) string { return f.Text }), err
	}},
	"u": {"Document", true, false, func(x *tabula.Extractor) (string, error) {
		d, _, err := x.Document()
		if err != nil || d == nil {
			return "", err
		}
		return docCanon(d), nil
	}},
	"k": {"Chunks", true, false, func(x *tabula.Extractor) (string, error) {
		cc, _, err := x.Chunks()
		if err != nil || cc == nil {
			return "", err
		}
		return chunksCanon(cc), nil
	}},
	"q": {"ChunksWithConfig", true, false, func(x *tabula.Extractor) (string, error) {
		cc, _, err := x.ChunksWithConfig(rag.DefaultChunkerConfig(), rag.DefaultSizeConfig())
		if err != nil || cc == nil {
			return "", err
		}
		return chunksCanon(cc), nil
	}},
	"w": {"ToMarkdown", true, false, func(x *tabula.Extractor) (string, error) { s, _, err := x.ToMarkdown(); return s, err }},
	"l": {"Lines", true, true, func(x *tabula.Extractor) (string, error) {
		ls, err := x.Lines()
		return joinTexts(ls, func(l layoutLine) string { return l.Text }), err
	}},
	"a": {"Paragraphs", true, true, func(x *tabula.Extractor) (string, error) {
		ps, err := x.Paragraphs()
		return joinTexts(ps, func(p layoutParagraph) string { return p.Text }), err
	}},
	"o": {"ReadingOrder", true, true, func(x *tabula.Extractor) (string, error) {
		ro, err := x.ReadingOrder()
		if err != nil || ro == nil {
			return "", err
		}
		return joinTexts(ro.Lines, func(l layoutLine) string { return l.Text }), nil
	}},
	"z": {"Analyze", true, true, func(x *tabula.Extractor) (string, error) {
		ar, err := x.Analyze()
		if err != nil || ar == nil {
			return "", err
		}
		return joinTexts(ar.Elements, func(el layoutElement) string { return el.Text }), nil
	}},
	"e": {"Elements", true, true, func(x *tabula.Extractor) (string, error) {
		els, err := x.Elements()
		return joinTexts(els, func(el layoutElement) string { return el.Text }), err
	}},
	"s": {"Headings", true, true, func(x *tabula.Extractor) (string, error) {
		hs, err := x.Headings()
		return joinTexts(hs, func(h layoutHeading) string { return h.Text }), err
	}},
	"i": {"Lists", true, true, func(x *tabula.Extractor) (string, error) { _, err := x.Lists(); return "", err }},
	"b": {"Blocks", true, true, func(x *tabula.Extractor) (string, error) {
		bs, err := x.Blocks()
		return joinTexts(bs, func(b layoutBlock) string { return b.GetText() }), err
	}},
	"c": {"PageCount", false, false, func(x *tabula.Extractor) (string, error) {
		n, err := x.PageCount()
		return "n" + strconv.Itoa(n), err
	}},
	"m": {"IsMultiColumn", false, true, func(x *tabula.Extractor) (string, error) { _, err := x.IsMultiColumn(); return "flag", err }},
	"h": {"IsCharacterLevel", false, true, func(x *tabula.Extractor) (string, error) { _, err := x.IsCharacterLevel(); return "flag", err }},
	"x": {"Close", false, false, func(x *tabula.Extractor) (string, error) { return "closed", x.Close() }},
}

// the terminal operations whose result carries every body line of the pages it
// was computed from (Headings and Lists return only what they detect)
var pageBearing = []string{"t", "g", "u", "k", "q", "w", "l", "a", "o", "z", "e", "b"}

var allTerminals = []string{"t", "g", "u", "k", "q", "w", "l", "a", "o", "z", "e", "s", "i", "b"}

func runLifeOp(x *tabula.Extractor, k string) (payload string, err error, panicked string) {
	info, ok := lifeOps[k]
	if !ok {
		panic("unknown op " + k)
	}
	panicked = hx.Safe(func() { payload, err = info.run(x) })
	return
}

// ---- operation sequences over every format ---------------------------------------------------

func (e *env) lifeCase(f fileParams, baseKind string, ops []seqOp) {
	c := e.c
	kase := map[string]interface{}{"mode": "life", "file": f, "base": baseKind, "ops": ops}
	path := e.lifePath(f)
	ff := e.facts(f)
	fail := func(key string, detail func() string) { c.Check(key, false, kase, detail) }
	isPDF := ff.extFmt == "pdf"
	n := 0
	if v, err := strconv.Atoi(ff.count); err == nil {
		n = v
	}
	// what the statement lets one expect of a supported operation on this file
	usable := ff.exists && ff.parseOk && ff.count != "x" && (ff.detected == ff.extFmt || ff.detected == "unknown")

	baseline := fdCount()
	var borrowed *reader.Reader
	var base *tabula.Extractor
	if baseKind == "r" {
		r, err := reader.Open(path)
		if err != nil {
			c.Note("borrowed reader could not be opened: %v", err)
			return
		}
		borrowed = r
		base = tabula.FromReader(r)
	} else {
		base = tabula.Open(path)
	}
	exts := []*tabula.Extractor{base}
	aborted := true
	defer func() {
		if !aborted {
			return
		}
		for _, x := range exts {
			runOp(x, "x")
		}
		if borrowed != nil {
			borrowed.Close()
		}
	}()
	calls := [][]call{nil}
	held := []bool{false}
	var results []string
	opsStr := make([]string, len(ops))
	nontrivial := false
	var trace []string   // life-cycle state of every extractor after every operation
	var classes []string // which error every operation returned

	for i, op := range ops {
		opsStr[i] = op.token()
		if op.E >= len(exts) {
			results = append(results, "bad/"+strconv.Itoa(fdCount()-baseline))
			trace = append(trace, lifeStates(exts))
			classes = append(classes, "bad")
			continue
		}
		x := exts[op.E]
		before := make([]string, len(exts))
		for j, y := range exts {
			before[j], _ = stateStr(y)
		}
		fdBefore := fdCount()
		res := ""
		var info opInfo
		if op.K == "d" {
			var nx *tabula.Extractor
			if p := hx.Safe(func() { nx = applyCall(x, *op.C) }); p != "" {
				fail("C10/panic", func() string { return "derive: " + p })
				return
			}
			exts = append(exts, nx)
			calls = append(calls, append(append([]call(nil), calls[op.E]...), *op.C))
			held = append(held, false)
			res = "-"
			classes = append(classes, "-")
		} else {
			info = lifeOps[op.K]
			payload, err, panicked := runLifeOp(x, op.K)
			if panicked != "" {
				fail("C10/panic", func() string { return fmt.Sprintf("op %s (%s): panic: %s", op.token(), info.name, panicked) })
				return
			}
			classes = append(classes, errClass(err))
			e.errClassOracle(kase, op, info, err, calls[op.E], n, isPDF, usable, opsStr[:i+1])
			sp := specOf(calls[op.E], n)
			switch {
			case err != nil:
				res = "err"
			case info.terminal:
				res = "ok"
			default:
				res = payload
			}
			if op.K == "x" && err != nil {
				fail("C10/close-twice", func() string { return fmt.Sprintf("op %d (%s): Close returned %v", i, op.token(), err) })
			}
			// a page outside the document is an error for every operation that selects pages of a PDF
			if info.terminal && isPDF && usable && sp.mustErr && err == nil {
				fail("C10/out-of-range-error", func() string {
					return fmt.Sprintf("op %d (%s = %s) of %v: selection %q on a %d-page PDF names a page outside it, but no error was returned",
						i, op.token(), info.name, opsStr[:i+1], callsTokens(calls[op.E]), n)
				})
			}
			// a supported operation on a usable file succeeds (and on a PDF returns the selected pages)
			supported := !info.pdfOnly || isPDF
			if usable && supported && op.K != "x" && !sp.mayErr && !(isPDF && info.terminal && sp.mustErr) {
				emptyOK := isPDF && info.terminal && len(sp.pages) == 0
				if err != nil && !emptyOK && !(op.K != "c" && !info.terminal && n == 0) {
					fail("C10/sequence-result", func() string {
						return fmt.Sprintf("op %d (%s = %s) of %v on a good .%s file with selection %q failed: %v",
							i, op.token(), info.name, opsStr[:i+1], f.Ext, callsTokens(calls[op.E]), err)
					})
				}
				if err == nil && info.terminal {
					nontrivial = true
					if isPDF && isPageBearing(op.K) {
						d := f.pdfDoc()
						got, mal := pagesOrMal(d, tokensIn(payload, d.Tag))
						want0 := make([]int, len(sp.pages))
						for j, p := range sp.pages {
							want0[j] = p - 1
						}
						if mal || !eqInts(got, want0) {
							fail("C10/selection-other-terminal-pages", func() string {
								return fmt.Sprintf("op %d (%s = %s) of %v: extractor built by %q on a %d-page PDF returned the lines of page indices %v (well-formed: %v), want %v",
									i, op.token(), info.name, opsStr[:i+1], callsTokens(calls[op.E]), n, got, !mal, want0)
							})
						}
					}
					// the answer does not depend on what ran before (other formats: the whole document)
					if op.K == "t" || op.K == "w" {
						cs, k, got := calls[op.E], op.K, payload
						key := f.key() + "|" + callsTokens(cs) + "|" + k
						want, ok := e.refC[key]
						if !ok {
							fx := chainExt(tabula.Open(path), cs)
							w, werr, wp := runLifeOp(fx, k)
							runOp(fx, "x")
							if werr != nil || wp != "" {
								w = "\x00"
							}
							e.refC[key] = w
							want = w
						}
						if want != "\x00" && baseKind != "r" {
							c.Check("C10/history-changes-text", got == want, kase, func() string {
								return fmt.Sprintf("op %d (%s = %s) of %v on a .%s file: differs from what a fresh extractor built by %q returns; %s",
									i, op.token(), info.name, opsStr[:i+1], f.Ext, callsTokens(cs), firstDiff(want, got))
							})
						}
					}
				}
			}
			// an operation the format does not support reports an error
			if usable && !supported && err == nil {
				fail("C10/sequence-result", func() string {
					return fmt.Sprintf("op %d (%s = %s) on a .%s file returned no error", i, op.token(), info.name, f.Ext)
				})
			}
			// a file that cannot be opened fails every operation that needs it
			if baseKind != "r" && op.K != "x" && (!ff.exists || ff.detected == "e" || (ff.detected != "unknown" && ff.detected != ff.extFmt)) && err == nil {
				fail("C10/sequence-result", func() string {
					return fmt.Sprintf("op %d (%s = %s) on %s content named .%s returned no error", i, op.token(), info.name, f.Content, f.Ext)
				})
			}
		}
		fdAfter := fdCount()
		results = append(results, res+"/"+strconv.Itoa(fdAfter-baseline))

		// descriptor accounting, from the statement alone
		delta := fdAfter - fdBefore
		switch {
		case op.K == "d":
			if delta != 0 {
				fail("C10/fd-leak", func() string {
					return fmt.Sprintf("op %d (%s): a configuration method changed the descriptor count by %d", i, op.token(), delta)
				})
			}
		case !info.terminal && op.K != "x":
			if delta > 0 {
				held[op.E] = true
			}
			if delta < 0 {
				held[op.E] = false
			}
			if delta < -1 || delta > 1 {
				fail("C10/fd-leak", func() string { return fmt.Sprintf("op %d (%s): descriptor count changed by %d", i, op.token(), delta) })
			}
		default: // terminal or Close: nothing the receiver opened may stay open
			want := 0
			if held[op.E] {
				want = -1
			}
			held[op.E] = false
			if delta > want {
				key := "C10/fd-leak"
				if info.pdfOnly && !isPDF {
					key = "C10/fd-leak-pdf-only-op-on-other-format"
				}
				fail(key, func() string {
					return fmt.Sprintf("op %d (%s = %s) of %v on a %s file named .%s: descriptors before=%d after=%d (receiver held %d)",
						i, op.token(), info.name, opsStr[:i+1], f.Content, f.Ext, fdBefore, fdAfter, -want)
				})
			}
		}
		// no operation may change the configuration of another extractor
		for j := range before {
			if j == op.E && op.K != "d" {
				continue
			}
			now, _ := stateStr(exts[j])
			if now != before[j] {
				jj := j
				fail("C10/parent-changed", func() string {
					return fmt.Sprintf("op %d (%s) of %v changed the options of extractor %d from %s to %s", i, op.token(), opsStr[:i+1], jj, before[jj], now)
				})
			}
		}
		trace = append(trace, lifeStates(exts))
		e.releaseOracle(kase, exts, op, opsStr[:i+1], borrowed != nil)
	}

	aborted = false
	var dump []string
	for _, x := range exts {
		o, l := stateStr(x)
		dump = append(dump, o+l)
	}
	b := func(v bool) string {
		if v {
			return "1"
		}
		return "0"
	}
	world := fmt.Sprintf("%s,%s,%s,%s,%s,%s", baseKind, ff.extFmt, b(ff.exists), ff.detected, b(ff.parseOk), ff.count)
	c.Op("c10.life "+world+" "+strings.Join(opsStr, " "), strings.Join(results, " ")+" | "+strings.Join(dump, " "))
	c.Op("c10.lin "+world+" "+strings.Join(opsStr, " "), strings.Join(stripFd(results), " "))
	c.Op("c10.auto "+world+" "+strings.Join(opsStr, " "), strings.Join(trace, " ")+" | "+lifeStates(exts)+" "+ownersField(exts, ops, borrowed != nil))
	c.Op("c10.ecls "+world+" "+strings.Join(opsStr, " "), strings.Join(classes, " "))
	for _, cl := range classes {
		if cl != "-" && cl != "ok" && cl != "bad" {
			c.Count("errclass:" + strings.SplitN(cl, ":", 2)[0])
		}
	}
	fdAfterOps := fdCount() - baseline

	for j, x := range exts {
		for round := 0; round < 2; round++ {
			o := runOp(x, "x")
			if o.failed() {
				jj, rr := j, round
				fail("C10/close-twice", func() string {
					return fmt.Sprintf("after %v: Close #%d of extractor %d: %v %s", opsStr, rr+1, jj, o.err, o.panic)
				})
			}
		}
	}
	end := fdCount()
	wantEnd := baseline
	if borrowed != nil {
		wantEnd++
	}
	if end != wantEnd {
		fail("C10/fd-leak", func() string {
			return fmt.Sprintf("after %v and closing every extractor twice: %d descriptors, %d before the sequence", opsStr, end, wantEnd)
		})
	}
	c.Op("c10.end "+world+" "+strings.Join(opsStr, " "), fmt.Sprintf("%d %d", fdAfterOps, end-baseline))
	if borrowed != nil {
		borrowed.Close()
	}
	cls := "usable"
	if !usable {
		cls = "unusable"
	}
	c.Count("life:" + f.Content + "-as-" + f.Ext + ":" + cls + ":" + baseKind)
	c.Case("life|"+f.key()+"|"+baseKind+"|"+strings.Join(opsStr, " "), nontrivial)
}

func isPageBearing(k string) bool {
	for _, p := range pageBearing {
		if p == k {
			return true
		}
	}
	return false
}

// ---- generators ---------------------------------------------------------------------------------

var goodFormats = []string{"pdf", "docx", "odt", "xlsx", "pptx", "epub", "html"}

func genLifeFile(r *hx.Rng) fileParams {
	f := fileParams{Tag: fmt.Sprintf("t%x", r.Intn(8)), Units: r.Range(1, 4)}
	switch x := r.Intn(20); {
	case x < 11: // a good document under its own extension
		f.Content = hx.Pick(r, goodFormats)
		f.Ext = f.Content
	case x < 13: // content of one format under the extension of another
		f.Content = hx.Pick(r, goodFormats)
		f.Ext = hx.Pick(r, goodFormats)
	case x < 14:
		f.Content, f.Ext = "missing", hx.Pick(r, goodFormats)
	case x < 15: // an extension tabula does not know
		f.Content, f.Ext = hx.Pick(r, append([]string{"plain"}, goodFormats...)), "txt"
	case x < 16: // nothing recognisable inside
		f.Content, f.Ext = hx.Pick(r, []string{"plain", "emptyzip"}), hx.Pick(r, goodFormats)
	case x < 17:
		f.Content, f.Ext = "brokenpdf", "pdf"
	case x < 18:
		f.Content, f.Ext = "pdfnopages", "pdf"
	default: // the truncated ZIP header of the sequence cases
		f.Content, f.Ext = hx.Pick(r, goodFormats), hx.Pick(r, goodFormats)
	}
	return f
}

func genLifeSeq(r *hx.Rng, n int, thorough bool) []seqOp {
	var ops []seqOp
	next := 1
	total := r.Range(2, 9)
	if thorough {
		total = r.Range(2, 14)
	}
	// patterns that put an extractor which already holds a reader in front of a failing operation
	switch r.Intn(6) {
	case 0:
		ops = append(ops, seqOp{K: "c", E: 0}, seqOp{K: hx.Pick(r, allTerminals), E: 0})
	case 1:
		c := genBuilderCall(r, n)
		ops = append(ops, seqOp{K: "d", E: 0, C: &c}, seqOp{K: hx.Pick(r, []string{"c", "m", "h"}), E: 1}, seqOp{K: hx.Pick(r, allTerminals), E: 1})
		next = 2
	case 2:
		ops = append(ops, seqOp{K: hx.Pick(r, allTerminals), E: 0})
	}
	for len(ops) < total {
		e := r.Intn(next)
		switch x := r.Intn(20); {
		case x < 5:
			c := genBuilderCall(r, n)
			ops = append(ops, seqOp{K: "d", E: e, C: &c})
			next++
		case x < 7:
			ops = append(ops, seqOp{K: "c", E: e})
		case x < 9:
			ops = append(ops, seqOp{K: hx.Pick(r, []string{"m", "h"}), E: e})
		case x < 17:
			ops = append(ops, seqOp{K: hx.Pick(r, allTerminals), E: e})
		case x < 19:
			ops = append(ops, seqOp{K: "x", E: e})
		default:
			ops = append(ops, seqOp{K: "x", E: e}, seqOp{K: "x", E: e})
		}
	}
	return ops
}
