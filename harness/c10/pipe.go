package c10

import (
	"fmt"
	"strings"

	"github.com/tsawler/tabula"
	"github.com/tsawler/tabula/layout"
	"github.com/tsawler/tabula/reader"
	"github.com/tsawler/tabula/text"

	"verifharness/hx"
)

// The per-page pipeline of Text: what the code that is not C10's subject says
// about every page of a document (fragments before and after the header/footer
// filter computed on ALL pages, the two layout tests, the four assemblers),
// obtained through exported entry points and verif hooks and handed to the model,
// which then has to pick filter, assembler and join rule as Extractor.Text does.

// pipeVariant is one fragment list of one page, as the model needs it.
func pipeVariant(frs []text.TextFragment, w, h float64) string {
	b := func(v bool) string {
		if v {
			return "1"
		}
		return "0"
	}
	texts := []string{
		tabula.VerifExtractPreserveLayout(frs, w),
		tabula.VerifExtractWithParagraphs(frs, w, h),
		tabula.VerifExtractByColumn(frs, w, h),
		tabula.VerifAssembleText(frs),
	}
	enc := make([]string, len(texts))
	for i, t := range texts {
		enc[i] = hx.HexS(t)
		for j := 0; j < i; j++ {
			if texts[j] == t && t != "" {
				enc[i] = fmt.Sprintf("=%d", j)
				break
			}
		}
	}
	return b(len(frs) == 0) + b(tabula.VerifIsCharacterLevel(frs)) + b(tabula.VerifDetectMultiColumn(frs, w, h)) + ":" + strings.Join(enc, ",")
}

// pipeTable is the document part of a c10.pipe line ("" when it cannot be had).
func (e *env) pipeTable(d docParams) string {
	k := "pipe|" + d.key()
	if v, ok := e.refC[k]; ok {
		return v
	}
	out := ""
	defer func() { e.refC[k] = out }()
	r, err := reader.Open(e.path(d))
	if err != nil {
		return ""
	}
	defer r.Close()
	type pg struct {
		frs  []text.TextFragment
		w, h float64
	}
	var pgs []pg
	var pfs []layout.PageFragments
	for i := 0; i < d.N; i++ {
		page, err := r.GetPage(i)
		if err != nil {
			return ""
		}
		frs, err := r.ExtractTextFragments(page)
		if err != nil {
			return ""
		}
		w, _ := page.Width()
		h, _ := page.Height()
		pgs = append(pgs, pg{frs, w, h})
		pfs = append(pfs, layout.PageFragments{PageIndex: i, Fragments: frs, PageWidth: w, PageHeight: h})
	}
	if len(pgs) == 0 {
		out = "0"
		return out
	}
	res := layout.NewHeaderFooterDetector().Detect(pfs)
	var parts []string
	for i, p := range pgs {
		raw := pipeVariant(p.frs, p.w, p.h)
		fl := res.FilterFragments(i, p.frs, p.h)
		filtered := "="
		if len(fl) != len(p.frs) {
			filtered = pipeVariant(fl, p.w, p.h)
		}
		parts = append(parts, raw+"/"+filtered)
	}
	out = strings.Join(parts, "|")
	return out
}

// pipeOK: the table of the document stays small enough for an op line.
func pipeOK(d docParams) bool {
	total := 0
	for p := 1; p <= d.N; p++ {
		total += d.linesOn(p)
	}
	return d.Kind == "good" && total <= 90
}
