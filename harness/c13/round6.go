package c13

// Round 6: the code around the split and overlap mechanisms that was still outside
// the model.
//
//	rag.NewBoundaryDetector().DetectBoundaries(blocks)                      (op c13.detect)
//	SplitToSize(join(blocks), DetectBoundaries(blocks))                     (op c13.splitd)
//	(*BoundaryDetector).FindBestBoundary / FindBoundaryWithLookAhead        (ops c13.best, c13.look)
//	(*OrphanedContentDetector).WouldCreateOrphan / AdjustForOrphans         (op c13.orphan)
//	(*ChunkWithOverlap).GetOriginalText / GetOverlapText, OverlapSuffix,
//	HasOverlapSuffix, the metadata ApplyOverlapToChunks rewrites            (op c13.orig, emitted by runOvl)
//	(*OverlapGenerator).GenerateOverlap, the whole OverlapResult            (op c13.gen)
//	rag.ConvertSize, rag.DefaultOverlapConfig                                (ops c13.conv, c13.defovl)
//
// DetectBoundaries is the package's only producer of []Boundary, the second argument of
// SplitToSize. The statement-level oracles on the composition are the property's own
// (conservation of the non-whitespace characters for any bytes, valid UTF-8 pieces for
// valid input); the size bound is not demanded with boundaries (the search window for a
// supplied boundary reaches 25 % beyond the limit).

import (
	"fmt"
	"strings"
	"unicode"
	"unicode/utf8"

	"github.com/tsawler/tabula/model"
	"github.com/tsawler/tabula/rag"

	"verifharness/hx"
)

type blk struct {
	Type int    `json:"type"` // model.ElementType
	Text string `json:"text"` // hex in recorded cases
}

type r6Case struct {
	Kind   string  `json:"kind"`
	Blocks []blk   `json:"blocks,omitempty"`
	Cfg    sizeCfg `json:"cfg"`
	Text   string  `json:"text,omitempty"` // hex
	Bs     []bnd   `json:"bs,omitempty"`
	A      int     `json:"a,omitempty"`
	B      int     `json:"b,omitempty"`
	OCfg   ovlCfg  `json:"ocfg"`
}

func hexBlocks(bs []blk) []blk {
	out := make([]blk, len(bs))
	for i, b := range bs {
		out[i] = blk{b.Type, hx.HexS(b.Text)}
	}
	return out
}

// isListIntro through the public API: with the default configuration
// ShouldKeepTogether(paragraph, list) is exactly isListIntro(paragraph text).
func isListIntro(text string) bool {
	return rag.NewBoundaryDetector().ShouldKeepTogether(
		rag.ContentBlock{Type: model.ElementTypeParagraph, Text: text},
		rag.ContentBlock{Type: model.ElementTypeList})
}

func toContentBlocks(bs []blk) []rag.ContentBlock {
	out := make([]rag.ContentBlock, len(bs))
	for i, b := range bs {
		out[i] = rag.ContentBlock{Type: model.ElementType(b.Type), Text: b.Text, Index: i, Page: 1}
	}
	return out
}

func blocksField(bs []blk) string {
	if len(bs) == 0 {
		return "-"
	}
	xs := make([]string, len(bs))
	for i, b := range bs {
		xs[i] = fmt.Sprintf("%d.%d.%s", b.Type, b01(isListIntro(b.Text)), hx.HexS(b.Text))
	}
	return strings.Join(xs, ",")
}

func joinBlocks(bs []blk) string {
	ts := make([]string, len(bs))
	for i, b := range bs {
		ts[i] = b.Text
	}
	return strings.Join(ts, "\n\n")
}

func dumpBoundaries(bs []rag.Boundary) string {
	if len(bs) == 0 {
		return "-"
	}
	xs := make([]string, len(bs))
	for i, b := range bs {
		xs[i] = fmt.Sprintf("%d:%d:%d:%d", int(b.Type), b.Position, b.Score, b.ElementIndex)
	}
	return strings.Join(xs, ",")
}

var introTails = []string{" the following:", " as follows", " Steps:", " such as", " for example:", ":", " include", " e.g.", " Here are", " options"}

// genBlocks: 0-6 content blocks; paragraphs of sentence material, prose of every script,
// invalid UTF-8; headings, lists, tables, figures, captions and unknown elements between
// them; paragraphs that introduce a list (and some that only look like it).
func genBlocks(r *hx.Rng, size int) []blk {
	n := r.Range(0, 6)
	if r.Chance(1, 10) {
		n = r.Range(7, 14)
	}
	var out []blk
	for i := 0; i < n; i++ {
		var b blk
		switch r.Intn(12) {
		case 0:
			b = blk{int(model.ElementTypeHeading), strings.TrimSpace(genText(r, hx.Pick(r, []string{"ascii", "cjk", "latin-mixed"}), r.Range(1, 40)))}
		case 1:
			items := r.Range(1, 4)
			var ls []string
			for k := 0; k < items; k++ {
				ls = append(ls, "• "+strings.TrimSpace(genProse(r, r.Range(3, 40), r.Intn(4))))
			}
			b = blk{int(model.ElementTypeList), strings.Join(ls, "\n")}
		case 2:
			b = blk{hx.Pick(r, []int{int(model.ElementTypeTable), int(model.ElementTypeImage), int(model.ElementTypeFigure), int(model.ElementTypeCaption), int(model.ElementTypeUnknown)}),
				genText(r, hx.Pick(r, []string{"ascii", "cjk", "whitespace", "latin-mixed"}), r.Range(0, 60))}
		case 3:
			b = blk{int(model.ElementTypeParagraph), genText(r, hx.Pick(r, textKinds), r.Range(0, size))}
		case 4:
			b = blk{int(model.ElementTypeParagraph), genInvalid(r, r.Range(1, size))}
		case 5:
			t := strings.TrimSpace(genProse(r, r.Range(5, 60), r.Intn(3))) + hx.Pick(r, introTails)
			if r.Chance(1, 4) {
				t += " "
			}
			b = blk{int(model.ElementTypeParagraph), t}
			if r.Chance(2, 3) {
				out = append(out, b)
				b = blk{int(model.ElementTypeList), "• " + strings.TrimSpace(genProse(r, r.Range(3, 40), 1))}
			}
		case 6, 7:
			b = blk{int(model.ElementTypeParagraph), genProse(r, r.Range(1, size), r.Intn(6))}
		default:
			b = blk{int(model.ElementTypeParagraph), genSentenceText(r, r.Range(1, size))}
		}
		out = append(out, b)
	}
	return out
}

func runDetect(c *hx.Ctx, blocks []blk) bool {
	kase := r6Case{Kind: "detect", Blocks: hexBlocks(blocks)}
	var bs []rag.Boundary
	p, to := withDeadline(func() { bs = rag.NewBoundaryDetector().DetectBoundaries(toContentBlocks(blocks)) })
	if !c.Check("C13/terminates", !to, kase, func() string { return "DetectBoundaries did not return" }) {
		return false
	}
	op := "c13.detect " + blocksField(blocks)
	if !c.Check("C13/panic", p == "", kase, func() string { return "DetectBoundaries panicked: " + p }) {
		c.Op(op, "panic")
		return true
	}
	c.Op(op, dumpBoundaries(bs))
	text := joinBlocks(blocks)
	valid := utf8.ValidString(text)
	prev := 0
	for i, b := range bs {
		if !c.Check("C13/boundary-in-text", b.Position >= 0 && b.Position <= len(text), kase, func() string {
			return fmt.Sprintf("DetectBoundaries: boundary %d at %d outside the text of %d bytes", i, b.Position, len(text))
		}) {
			break
		}
		if valid && b.Position < len(text) {
			c.Check("C13/boundary-char-boundary", utf8.RuneStart(text[b.Position]), kase, func() string {
				return fmt.Sprintf("DetectBoundaries: boundary %d at %d is inside a multi-byte character of %s", i, b.Position, short(text))
			})
		}
		c.Check("C13/boundary-order", b.Position >= prev, kase, func() string {
			return fmt.Sprintf("DetectBoundaries: boundary %d at %d comes after one at %d", i, b.Position, prev)
		})
		prev = b.Position
		if b.Type == rag.BoundarySentence {
			c.Check("C13/boundary-sentence-punct", b.Position > 0 && strings.ContainsRune(".!?", rune(text[b.Position-1])), kase, func() string {
				return fmt.Sprintf("DetectBoundaries: sentence boundary %d at %d does not follow . ! ?", i, b.Position)
			})
		}
		c.Check("C13/boundary-score", b.Score == b.Type.Score(), kase, func() string {
			return fmt.Sprintf("DetectBoundaries: boundary %d of type %v has score %d", i, b.Type, b.Score)
		})
		c.Count("detect-type=" + b.Type.String())
	}
	c.Count("detect-boundaries=" + bucket(len(bs)))
	return true
}

func runSplitD(c *hx.Ctx, blocks []blk, cfg sizeCfg) bool {
	kase := r6Case{Kind: "splitd", Blocks: hexBlocks(blocks), Cfg: cfg}
	text := joinBlocks(blocks)
	var pieces []string
	var nb int
	p, to := withDeadline(func() {
		bs := rag.NewBoundaryDetector().DetectBoundaries(toContentBlocks(blocks))
		nb = len(bs)
		pieces = rag.NewSizeCalculatorWithConfig(toRag(cfg)).SplitToSize(text, bs)
	})
	if !c.Check("C13/terminates", !to, kase, func() string {
		return "SplitToSize(text, DetectBoundaries(blocks)) did not return on " + short(text)
	}) {
		return false
	}
	op := "c13.splitd " + cfgField(cfg) + " " + blocksField(blocks)
	if !c.Check("C13/panic", p == "", kase, func() string { return "SplitToSize(text, DetectBoundaries(blocks)) panicked: " + p }) {
		c.Op(op, "panic")
		return true
	}
	c.Op(op, hexPieces(pieces))
	var got []rune
	for _, pc := range pieces {
		got = append(got, nonSpace(pc)...)
	}
	want := nonSpace(text)
	c.Check("C13/conserves-nonspace", runesEq(want, got), kase, func() string {
		return "SplitToSize(text, DetectBoundaries(blocks)): the pieces do not contain exactly the non-whitespace characters of the text: " + firstDiff(want, got)
	})
	c.Check("C13/pieces-substrings", substringsInOrder(text, pieces), kase, func() string {
		return "SplitToSize(text, DetectBoundaries(blocks)): the pieces are not in-order substrings of the text with whitespace-only gaps"
	})
	if utf8.ValidString(text) {
		for i, pc := range pieces {
			if !c.Check("C13/utf8-piece", utf8.ValidString(pc), kase, func() string {
				return fmt.Sprintf("SplitToSize(text, DetectBoundaries(blocks)): piece %d of %d is not valid UTF-8: %s (text %s)", i, len(pieces), short(pc), short(text))
			}) {
				break
			}
		}
	}
	for i, pc := range pieces {
		if !c.Check("C13/empty-piece", pc != "", kase, func() string {
			return fmt.Sprintf("SplitToSize(text, DetectBoundaries(blocks)): piece %d of %d is empty", i, len(pieces))
		}) {
			break
		}
	}
	used := "unused"
	if nb > 0 {
		plain := rag.NewSizeCalculatorWithConfig(toRag(cfg)).SplitToSize(text, nil)
		if strings.Join(plain, "\x00") != strings.Join(pieces, "\x00") {
			used = "changed-the-split"
		}
	}
	c.Count("splitd-boundaries=" + used)
	c.Count("splitd-pieces=" + bucket(len(pieces)))
	return true
}

func runBest(c *hx.Ctx, bs []bnd, a, b int, look bool) bool {
	kase := r6Case{Kind: "best", Bs: bs, A: a, B: b}
	var got *rag.Boundary
	var op string
	p, _ := withDeadline(func() {
		if look {
			cfg := rag.DefaultBoundaryConfig()
			cfg.LookAheadChars = a
			got = rag.NewBoundaryDetectorWithConfig(cfg).FindBoundaryWithLookAhead(toBoundaries(bs), b)
		} else {
			got = rag.NewBoundaryDetector().FindBestBoundary(toBoundaries(bs), a, b)
		}
	})
	if look {
		kase.Kind = "look"
		op = fmt.Sprintf("c13.look %d %d %s", a, b, bndField(bs))
	} else {
		op = fmt.Sprintf("c13.best %d %d %s", a, b, bndField(bs))
	}
	if !c.Check("C13/panic", p == "", kase, func() string { return "FindBestBoundary panicked: " + p }) {
		c.Op(op, "panic")
		return true
	}
	if got == nil {
		c.Op(op, "none")
		c.Count("best=none")
		return true
	}
	c.Op(op, fmt.Sprintf("%d:%d", got.Position, got.Score))
	lo, hi := a, b
	if look {
		lo, hi = b-a/2, b+a/2
	}
	c.Check("C13/best-in-window", got.Position >= lo && got.Position <= hi, kase, func() string {
		return fmt.Sprintf("boundary at %d chosen outside %d..%d", got.Position, lo, hi)
	})
	for _, x := range bs {
		if x.Pos >= lo && x.Pos <= hi && x.Pos >= 0 {
			c.Check("C13/best-highest-score", x.Score <= got.Score, kase, func() string {
				return fmt.Sprintf("boundary at %d with score %d chosen, the one at %d has %d", got.Position, got.Score, x.Pos, x.Score)
			})
		}
	}
	c.Count("best=some")
	return true
}

func runOrphan(c *hx.Ctx, text string, minOrphan, pos int, bs []bnd) bool {
	kase := r6Case{Kind: "orphan", Text: hx.HexS(text), Bs: bs, A: minOrphan, B: pos}
	det := rag.NewOrphanedContentDetector(minOrphan)
	would, adjusted := "", ""
	p1 := hx.Safe(func() { would = fmt.Sprint(b01(det.WouldCreateOrphan(text, pos))) })
	if p1 != "" {
		would = "panic"
	}
	var adj int
	p2 := hx.Safe(func() { adj = det.AdjustForOrphans(text, pos, toBoundaries(bs)) })
	if p2 != "" {
		adjusted = "panic"
	} else {
		adjusted = fmt.Sprint(adj)
	}
	c.Op(fmt.Sprintf("c13.orphan %d %d %s %s", minOrphan, pos, bndField(bs), hx.HexS(text)), would+"/"+adjusted)
	if p2 == "" {
		ok := adj == pos
		for _, b := range bs {
			ok = ok || adj == b.Pos
		}
		c.Check("C13/orphan-adjusted-to-boundary", ok, kase, func() string {
			return fmt.Sprintf("AdjustForOrphans(%d) returned %d, neither the position nor a boundary", pos, adj)
		})
		if adj != pos {
			c.Count("orphan=moved")
		} else {
			c.Count("orphan=kept")
		}
	} else {
		c.Count("orphan=index-out-of-range")
	}
	return true
}

// originalOracles: GetOriginalText gives back the chunk's own content (trimmed when an
// overlap was put in front of it) whenever the overlap's first occurrence in the rewritten
// text is the overlap itself, i.e. unless the bracketed section title repeats it.
func originalOracles(c *hx.Ctx, kase interface{}, ctx bool, own, titles []string, out []*rag.ChunkWithOverlap) string {
	xs := make([]string, len(out))
	for i, o := range out {
		orig := o.GetOriginalText()
		m := o.Metadata
		xs[i] = fmt.Sprintf("%s/%d/%s/%d:%d:%d", hx.HexS(orig), b01(o.HasOverlapSuffix), hx.HexS(o.OverlapSuffix), m.CharCount, m.WordCount, m.EstimatedTokens)
		c.Check("C13/overlap-text-accessor", o.GetOverlapText() == o.OverlapPrefix, kase, func() string {
			return fmt.Sprintf("chunk %d: GetOverlapText differs from OverlapPrefix", i)
		})
		head := ""
		if ctx && titles[i] != "" {
			head = "[" + titles[i] + "]\n\n"
		}
		echo := o.HasOverlapPrefix && strings.Index(head+o.OverlapPrefix, o.OverlapPrefix) != len(head)
		if echo {
			c.Count("orig=title-repeats-the-overlap")
		} else {
			want := own[i]
			if o.HasOverlapPrefix {
				want = strings.TrimSpace(own[i])
				c.Count("orig=stripped")
			} else {
				c.Count("orig=untouched")
			}
			c.Check("C13/original-text", orig == want, kase, func() string {
				return fmt.Sprintf("chunk %d: GetOriginalText %s is not the chunk's own content %s", i, short(orig), short(want))
			})
		}
		// for ALL inputs, echoing titles included: own content is never lost
		c.Check("C13/original-text-keeps-own", isSuffix(nonSpace(own[i]), nonSpace(orig)), kase, func() string {
			return fmt.Sprintf("chunk %d: the own content %s is not the end of GetOriginalText %s", i, short(own[i]), short(orig))
		})
		if i+1 < len(out) {
			c.Check("C13/overlap-suffix-field", o.OverlapSuffix == out[i+1].OverlapPrefix && o.HasOverlapSuffix == out[i+1].HasOverlapPrefix, kase, func() string {
				return fmt.Sprintf("chunk %d: OverlapSuffix %s is not the prefix of chunk %d %s", i, short(o.OverlapSuffix), i+1, short(out[i+1].OverlapPrefix))
			})
		} else {
			c.Check("C13/overlap-suffix-field", o.OverlapSuffix == "" && !o.HasOverlapSuffix, kase, func() string {
				return "the last chunk has an OverlapSuffix"
			})
		}
		c.Check("C13/overlap-metadata", m.CharCount == len(o.Text) && m.WordCount == len(strings.Fields(o.Text)) && m.EstimatedTokens == len(o.Text)/4, kase, func() string {
			return fmt.Sprintf("chunk %d: counters %d/%d/%d do not describe its text of %d bytes, %d words", i, m.CharCount, m.WordCount, m.EstimatedTokens, len(o.Text), len(strings.Fields(o.Text)))
		})
	}
	return "[" + strings.Join(xs, ",") + "]"
}

// runGen: GenerateOverlap on one chunk text. For ill-formed input the content-suffix clause is
// checked where the code works on bytes (character and paragraph strategy without
// truncation); the sentence strategy and the truncation re-encode ill-formed bytes as U+FFFD.
// rangeContent: the non-whitespace characters of s as `range s` reads it (an ill-formed
// byte is U+FFFD), re-encoded.
func rangeContent(s string) string {
	var sb strings.Builder
	for _, r := range s {
		if !unicode.IsSpace(r) {
			sb.WriteRune(r)
		}
	}
	return sb.String()
}

func runGen(c *hx.Ctx, cfg ovlCfg, text string) bool {
	kase := r6Case{Kind: "gen", OCfg: cfg, Text: hx.HexS(text)}
	var res *rag.OverlapResult
	p, to := withDeadline(func() {
		res = rag.NewOverlapGeneratorWithConfig(rag.OverlapConfig{Strategy: rag.OverlapStrategy(cfg.Strategy), Size: cfg.Size,
			MinOverlap: cfg.Min, MaxOverlap: cfg.Max, PreserveWords: cfg.Words, IncludeHeadingContext: cfg.Ctx}).GenerateOverlap(text)
	})
	if !c.Check("C13/terminates", !to, kase, func() string { return "GenerateOverlap did not return" }) {
		return false
	}
	op := fmt.Sprintf("c13.gen %d:%d:%d:%d:%d:%d %s %s", cfg.Strategy, cfg.Size, cfg.Min, cfg.Max, b01(cfg.Words), b01(cfg.Ctx), classTable([]string{text}), hx.HexS(text))
	if !c.Check("C13/panic", p == "", kase, func() string { return "GenerateOverlap panicked: " + p }) {
		c.Op(op, "panic")
		return true
	}
	c.Op(op, fmt.Sprintf("%s/%d/%d/%d", hx.HexS(res.Text), res.CharCount, res.SentenceCount, int(res.Strategy)))
	c.Check("C13/overlap-result-count", res.CharCount == len(res.Text), kase, func() string {
		return fmt.Sprintf("GenerateOverlap: CharCount %d for a text of %d bytes", res.CharCount, len(res.Text))
	})
	untruncated := cfg.Strategy == 1 && cfg.Size <= cfg.Max
	if cfg.Strategy == 3 { // the paragraph overlap works on bytes; it is cut only beyond MaxOverlap
		raw := rag.NewOverlapGeneratorWithConfig(rag.OverlapConfig{Strategy: rag.OverlapParagraph, Size: cfg.Size,
			MinOverlap: cfg.Min, MaxOverlap: 1 << 30, PreserveWords: cfg.Words}).GenerateOverlap(text)
		untruncated = len(raw.Text) <= cfg.Max
	}
	if utf8.ValidString(text) || untruncated {
		c.Check("C13/overlap-suffix", isSuffix(nonSpace(res.Text), nonSpace(text)), kase, func() string {
			return fmt.Sprintf("GenerateOverlap: %s is not a suffix of the chunk's content %s", short(res.Text), short(tail(text, 80)))
		})
	} else {
		c.Count("gen=ill-formed-input-re-encoded")
	}
	// every strategy, every byte string, characters as range reads them
	c.Check("C13/overlap-suffix-as-runes", strings.HasSuffix(rangeContent(text), rangeContent(res.Text)), kase, func() string {
		return fmt.Sprintf("GenerateOverlap: read as runes, %s is not a suffix of the chunk's content %s", short(res.Text), short(tail(text, 80)))
	})
	if utf8.ValidString(text) {
		c.Check("C13/overlap-utf8", utf8.ValidString(res.Text), kase, func() string {
			return "GenerateOverlap: overlap is not valid UTF-8: " + short(res.Text)
		})
	} else {
		c.Op("c13.content "+hx.HexS(text), hx.HexS(rangeContent(text)))
	}
	c.Check("C13/overlap-bounds", len(res.Text) <= cfg.Max, kase, func() string {
		return fmt.Sprintf("GenerateOverlap: %d bytes > MaxOverlap %d", len(res.Text), cfg.Max)
	})
	c.Count(fmt.Sprintf("gen-strategy=%d", cfg.Strategy))
	if res.Text != "" {
		c.Count("gen=non-empty")
	}
	return true
}

func runRound6(c *hx.Ctx) bool {
	// constants and conversions, exhaustively over the units
	d := rag.DefaultOverlapConfig()
	c.Op("c13.defovl", fmt.Sprintf("%d:%d:%d:%d:%d:%d", int(d.Strategy), d.Size, d.MinOverlap, d.MaxOverlap, b01(d.PreserveWords), b01(d.IncludeHeadingContext)))
	for from := 0; from < 5; from++ {
		for to := 0; to < 5; to++ {
			for _, v := range []int{0, 1, 2, 3, 5, 7, 79, 80, 81, 399, 400, 401, 1000, 8191, 123457} {
				got := rag.ConvertSize(v, rag.SizeUnit(from), rag.SizeUnit(to))
				c.Op(fmt.Sprintf("c13.conv %d %d %d", v, from, to), fmt.Sprint(got))
				if from == to {
					c.Check("C13/convert-identity", got == v, fmt.Sprintf("conv %d %d", v, from), func() string {
						return fmt.Sprintf("ConvertSize(%d, %d, %d) = %d", v, from, to, got)
					})
				}
			}
		}
	}
	c.Count("conv-pairs=25")

	n := c.N(500, 10000)
	for i := 0; i < n; i++ {
		r := c.Rng.Fork(uint64(20<<20 + i))
		blocks := genBlocks(r, r.Range(20, 400))
		if !runDetect(c, blocks) {
			return false
		}
		c.Case(fmt.Sprintf("dt%v", blocks), len(blocks) > 1)
	}
	n = c.N(600, 12000)
	for i := 0; i < n; i++ {
		r := c.Rng.Fork(uint64(21<<20 + i))
		cfg := genSizeCfg(r)
		cfg.Sem = r.Chance(7, 8)
		if r.Chance(1, 2) { // limits at which a paragraph is split several times
			cfg.Unit = r.Intn(2)
			cfg.Max = hx.Pick(r, []int{8, 15, 16, 25, 40, 60, 100, 200, 250})
			if cfg.Unit == 1 {
				cfg.TpcNum, cfg.TpcExp = 1, 0
			}
		}
		per := bytesAtLimit(cfg)
		if per > 500 {
			per = 500
		}
		blocks := genBlocks(r, 2*per+20)
		if !runSplitD(c, blocks, cfg) {
			return false
		}
		c.Case(fmt.Sprintf("sd%s%v", cfgField(cfg), blocks), len(joinBlocks(blocks)) > bytesAtLimit(cfg))
	}
	// the repaired defect's witness and its neighbours: sentence ends followed by white space and a
	// capital whose UTF-8 form has two bytes, at every small limit
	w := "Aaaa bbbb. Cccc dddd. Éééé éééé ééééé. Ññññ ññññ ññññ ññññ ññññ."
	for max := 5; max <= 40; max++ {
		for _, sep := range []string{" ", "  ", "\n", "　 "} {
			t := strings.ReplaceAll(w, ". ", "."+sep)
			if !runSplitD(c, []blk{{int(model.ElementTypeParagraph), t}, {int(model.ElementTypeParagraph), "Ürgh ärgh. Öl."}}, sizeCfg{Unit: 0, Max: max, TpcNum: 1, TpcExp: 2, Sem: true}) {
				return false
			}
		}
	}
	c.Count("splitd-drift-witnesses")

	n = c.N(300, 6000)
	for i := 0; i < n; i++ {
		r := c.Rng.Fork(uint64(22<<20 + i))
		text := genText(r, hx.Pick(r, textKinds), r.Range(0, 300))
		cfg := sizeCfg{Unit: 0, Max: r.Range(1, 200), TpcNum: 1, TpcExp: 2, Sem: true}
		var bs []bnd
		for _, b := range genBoundaries(r, text, cfg) {
			if b.Pos >= 0 { // a negative position has no model (positions are naturals)
				bs = append(bs, b)
			}
		}
		if r.Bool() {
			la := hx.Pick(r, []int{0, 1, 2, 7, 50, 200, 201})
			t := cfg.Max + r.Range(-3, 3)*r.Intn(2)
			if t < 0 {
				t = 0
			}
			runBest(c, bs, la, t, true)
		} else {
			lo := cfg.Max - r.Range(-2, cfg.Max+3)
			runBest(c, bs, lo, cfg.Max+r.Range(0, cfg.Max/2+2), false)
		}
		minOrphan := hx.Pick(r, []int{0, 1, 3, 10, 20, 50})
		pos := r.Range(0, len(text))
		if r.Chance(1, 20) {
			pos = len(text) + r.Range(1, 3)
		}
		// orphan boundaries: around the position
		var obs []bnd
		for k := r.Intn(5); k > 0; k-- {
			obs = append(obs, bnd{pos + r.Range(-minOrphan-1, minOrphan+1), hx.Pick(r, bndScores)})
		}
		for j := range obs {
			if obs[j].Pos < 0 {
				obs[j].Pos = 0 // a negative position panics in the code (slice bounds) and has no model
			}
		}
		runOrphan(c, text, minOrphan, pos, obs)
		if i%3 == 0 {
			c.Op("c13.content "+hx.HexS(text), hx.HexS(rangeContent(text)))
			c.Count("content")
		}
		c.Case(fmt.Sprintf("bo%v%d%d%s", bs, minOrphan, pos, text), len(bs) > 0)
	}

	n = c.N(400, 8000)
	for i := 0; i < n; i++ {
		r := c.Rng.Fork(uint64(23<<20 + i))
		cfg := genOvlCfg(r)
		var text string
		switch r.Intn(5) {
		case 0:
			text = genInvalid(r, r.Range(1, 300))
		case 1:
			text = genSentenceText(r, r.Range(1, 300))
		default:
			text = genText(r, hx.Pick(r, ovlKinds), r.Range(0, 400))
		}
		if !runGen(c, cfg, text) {
			return false
		}
		c.Case(fmt.Sprintf("gn%v%s", cfg, text), cfg.Strategy != 0)
	}
	return true
}

func replayRound6(c *hx.Ctx, k map[string]interface{}) {
	var rc r6Case
	if hx.Remarshal(k, &rc) != nil {
		return
	}
	blocks := make([]blk, len(rc.Blocks))
	for i, b := range rc.Blocks {
		blocks[i] = blk{b.Type, unhex(b.Text)}
	}
	switch rc.Kind {
	case "detect":
		runDetect(c, blocks)
	case "splitd":
		runSplitD(c, blocks, rc.Cfg)
	case "best":
		runBest(c, rc.Bs, rc.A, rc.B, false)
	case "look":
		runBest(c, rc.Bs, rc.A, rc.B, true)
	case "orphan":
		runOrphan(c, unhex(rc.Text), rc.A, rc.B, rc.Bs)
	case "gen":
		runGen(c, rc.OCfg, unhex(rc.Text))
	}
}
