package c13

// Deepening round, part 1: the public entry points around the split mechanism
// that the first round left to the model only:
//
//	SplitToSize(text, boundaries) with caller-supplied boundaries   (op c13.splitb)
//	FindSplitPointAt / FindSplitPoint                                (op c13.fsp)
//	Calculate (all five size metrics)                                (op c13.size)
//	the preset constructors of size_config.go                        (op c13.preset)

import (
	"fmt"
	"strings"
	"unicode"
	"unicode/utf8"

	"github.com/tsawler/tabula/model"
	"github.com/tsawler/tabula/rag"

	"verifharness/hx"
)

type bnd struct {
	Pos   int `json:"pos"`
	Score int `json:"score"`
}

type apiCase struct {
	Kind  string  `json:"kind"`
	Text  string  `json:"text"` // hex
	Cfg   sizeCfg `json:"cfg"`
	Bs    []bnd   `json:"bs,omitempty"`
	Limit int     `json:"limit,omitempty"`
	Unit  int     `json:"lunit,omitempty"`
}

// bndField: boundaries on the op line. A negative position can never be selected
// (findBestBoundaryNear clips the window at 0) and is dropped by the first
// adjustment, so the model's positions are naturals and negative ones are left
// out of the op line (they are still passed to the implementation).
func bndField(bs []bnd) string {
	var xs []string
	for _, b := range bs {
		if b.Pos >= 0 {
			xs = append(xs, fmt.Sprintf("%d:%d", b.Pos, b.Score))
		}
	}
	if len(xs) == 0 {
		return "-"
	}
	return strings.Join(xs, ",")
}

func toBoundaries(bs []bnd) []rag.Boundary {
	if len(bs) == 0 {
		return nil
	}
	out := make([]rag.Boundary, len(bs))
	for i, b := range bs {
		out[i] = rag.Boundary{Type: rag.BoundaryParagraph, Position: b.Pos, Score: b.Score, ElementIndex: i, Context: "g"}
	}
	return out
}

// allSpace: s is a concatenation of well-formed White_Space characters.
func allSpace(s string) bool {
	for i := 0; i < len(s); {
		r, n := utf8.DecodeRuneInString(s[i:])
		if r == utf8.RuneError && n <= 1 {
			return false
		}
		if !unicode.IsSpace(r) {
			return false
		}
		i += n
	}
	return true
}

// substringsInOrder: the pieces are, in order, disjoint substrings of text and
// everything between them, before the first and after the last is whitespace
// (the byte-level form of "the pieces contain exactly the original
// non-whitespace characters in order"; it also holds for ill-formed input).
func substringsInOrder(text string, pieces []string) bool {
	var rec func(pos, i int) bool
	rec = func(pos, i int) bool {
		if i == len(pieces) {
			return allSpace(text[pos:])
		}
		p := pieces[i]
		for j := pos; j+len(p) <= len(text); {
			if text[j:j+len(p)] == p && rec(j+len(p), i+1) {
				return true
			}
			r, n := utf8.DecodeRuneInString(text[j:])
			if (r == utf8.RuneError && n <= 1) || !unicode.IsSpace(r) {
				return false
			}
			j += n
		}
		return false
	}
	return rec(0, 0)
}

var bndScores = []int{0, 20, 30, 70, 80, 85, 90, 95, 100, -1, -5, 1, 70, 70}

// genBoundaries: positions mostly around the byte position of the limit (the
// window FindSplitPointAt searches is target ± target/4) and around its
// multiples (later pieces), on and off character boundaries, some far away,
// negative or beyond the text.
func genBoundaries(r *hx.Rng, text string, cfg sizeCfg) []bnd {
	target := bytesAtLimit(cfg)
	n := r.Range(0, 6)
	if r.Chance(1, 8) {
		n = r.Range(7, 30)
	}
	var bs []bnd
	for i := 0; i < n; i++ {
		var p int
		switch r.Intn(8) {
		case 0:
			p = r.Range(-3, len(text)+5)
		case 1:
			p = target - target/4 + r.Range(-1, 1) // edges of the window
		case 2:
			p = target + target/4 + r.Range(-1, 1)
		case 3:
			p = r.Range(0, 3)
		default:
			k := 1
			if r.Chance(1, 3) {
				k = r.Range(1, 4)
			}
			p = k*target + r.Range(-target/4-2, target/4+2)
		}
		// snap to the position after a space sometimes (what DetectBoundaries produces)
		if r.Chance(1, 3) && p > 0 && p < len(text) {
			if j := strings.IndexByte(text[p:], ' '); j >= 0 && j < 20 {
				p += j + 1
			}
		}
		bs = append(bs, bnd{p, hx.Pick(r, bndScores)})
	}
	return bs
}

func runSplitB(c *hx.Ctx, text string, cfg sizeCfg, bs []bnd) bool {
	kase := apiCase{Kind: "splitb", Text: hx.HexS(text), Cfg: cfg, Bs: bs}
	var pieces []string
	p, to := withDeadline(func() {
		pieces = rag.NewSizeCalculatorWithConfig(toRag(cfg)).SplitToSize(text, toBoundaries(bs))
	})
	if !c.Check("C13/terminates", !to, kase, func() string {
		return fmt.Sprintf("SplitToSize with %d boundaries did not return within %v on %s", len(bs), deadline, short(text))
	}) {
		return false
	}
	op := "c13.splitb " + cfgField(cfg) + " " + bndField(bs) + " " + hx.HexS(text)
	if !c.Check("C13/panic", p == "", kase, func() string { return "SplitToSize(text, boundaries) panicked: " + p }) {
		c.Op(op, "panic")
		return true
	}
	c.Op(op, hexPieces(pieces))
	c.Check("C13/pieces-substrings", substringsInOrder(text, pieces), kase, func() string {
		return fmt.Sprintf("SplitToSize(text, boundaries): the %d pieces are not in-order substrings of the text with whitespace-only gaps (text %s)", len(pieces), short(text))
	})
	for i, pc := range pieces {
		if !c.Check("C13/empty-piece", pc != "", kase, func() string {
			return fmt.Sprintf("SplitToSize(text, boundaries): piece %d of %d is empty", i, len(pieces))
		}) {
			break
		}
	}
	used := "none"
	if len(bs) > 0 {
		used = "given-unused"
		plain := rag.NewSizeCalculatorWithConfig(toRag(cfg)).SplitToSize(text, nil)
		if strings.Join(plain, "\x00") != strings.Join(pieces, "\x00") {
			used = "changed-the-split"
		}
	}
	c.Count("splitb-boundaries=" + used)
	c.Count("splitb-pieces=" + bucket(len(pieces)))
	return true
}

func runFsp(c *hx.Ctx, text string, cfg sizeCfg, bs []bnd, limit, unit int, viaTarget bool) bool {
	kase := apiCase{Kind: "fsp", Text: hx.HexS(text), Cfg: cfg, Bs: bs, Limit: limit, Unit: unit}
	var pos int
	p, to := withDeadline(func() {
		sc := toRag(cfg)
		if viaTarget {
			sc.Target = rag.SizeLimit{Value: limit, Unit: rag.SizeUnit(unit), Type: rag.LimitTypeSoft}
			pos = rag.NewSizeCalculatorWithConfig(sc).FindSplitPoint(text, toBoundaries(bs))
		} else {
			pos = rag.NewSizeCalculatorWithConfig(sc).FindSplitPointAt(text, toBoundaries(bs), limit, rag.SizeUnit(unit))
		}
	})
	if !c.Check("C13/terminates", !to, kase, func() string { return "FindSplitPointAt did not return" }) {
		return false
	}
	op := fmt.Sprintf("c13.fsp %s %d %d %s %s", cfgField(cfg), limit, unit, bndField(bs), hx.HexS(text))
	if !c.Check("C13/panic", p == "", kase, func() string { return "FindSplitPointAt panicked: " + p }) {
		c.Op(op, "panic")
		return true
	}
	c.Op(op, fmt.Sprint(pos))
	if len(bs) == 0 {
		c.Check("C13/fsp-range", pos >= 0 && pos <= len(text), kase, func() string {
			return fmt.Sprintf("FindSplitPointAt returned %d outside 0..%d", pos, len(text))
		})
		if utf8.ValidString(text) && pos >= 0 && pos < len(text) {
			c.Check("C13/fsp-char-boundary", utf8.RuneStart(text[pos]), kase, func() string {
				return fmt.Sprintf("FindSplitPointAt returned %d, inside a multi-byte character of %s", pos, short(text))
			})
		}
	}
	switch {
	case pos >= len(text):
		c.Count("fsp=end")
	case pos == 0:
		c.Count("fsp=0")
	default:
		c.Count("fsp=inner")
	}
	return true
}

func runSize(c *hx.Ctx, text string, cfg sizeCfg) bool {
	kase := apiCase{Kind: "size", Text: hx.HexS(text), Cfg: cfg}
	var m rag.SizeMetrics
	var byUnit [5]int
	p, to := withDeadline(func() {
		sc := rag.NewSizeCalculatorWithConfig(toRag(cfg))
		m = sc.Calculate(text)
		for u := 0; u < 5; u++ {
			byUnit[u] = sc.GetSize(text, rag.SizeUnit(u))
		}
	})
	if !c.Check("C13/terminates", !to, kase, func() string { return "Calculate did not return" }) {
		return false
	}
	op := "c13.size " + cfgField(cfg) + " " + hx.HexS(text)
	if !c.Check("C13/panic", p == "", kase, func() string { return "Calculate panicked: " + p }) {
		c.Op(op, "panic")
		return true
	}
	c.Op(op, fmt.Sprintf("%d:%d:%d:%d:%d", m.Characters, m.Tokens, m.Words, m.Sentences, m.Paragraphs))
	c.Check("C13/size-getsize", byUnit == [5]int{m.Characters, m.Tokens, m.Words, m.Sentences, m.Paragraphs}, kase, func() string {
		return fmt.Sprintf("GetSize per unit %v differs from Calculate %+v", byUnit, m)
	})
	// the documented meaning of the two units the size bound is stated in
	wantTok := len(text) * cfg.TpcNum >> cfg.TpcExp
	if cfg.TpcNum <= 0 {
		wantTok = len(text) / 4
	}
	c.Check("C13/size-characters-tokens", m.Characters == len(text) && m.Tokens == wantTok, kase, func() string {
		return fmt.Sprintf("characters %d (bytes %d), tokens %d (bytes x ratio = %d)", m.Characters, len(text), m.Tokens, wantTok)
	})
	c.Check("C13/size-words", m.Words == len(strings.Fields(text)), kase, func() string {
		return fmt.Sprintf("words %d, whitespace-separated fields %d", m.Words, len(strings.Fields(text)))
	})
	return true
}

// nonSpaceBytes: the text without its White_Space characters; a byte that is
// not part of a well-formed character is kept (it is a character of its own).
// The byte-level twin of nonSpace, compared with the model's stripWs, which the
// conservation theorems are stated with.
func nonSpaceBytes(s string) string {
	var sb strings.Builder
	for i := 0; i < len(s); {
		r, n := utf8.DecodeRuneInString(s[i:])
		if r == utf8.RuneError && n <= 1 {
			sb.WriteByte(s[i])
			i++
			continue
		}
		if !unicode.IsSpace(r) {
			sb.WriteString(s[i : i+n])
		}
		i += n
	}
	return sb.String()
}

// dyadic renders a float64 that is k/2^e exactly as "k/2^e" in lowest terms.
func dyadic(f float64) string {
	den := 1
	for f != float64(int64(f)) && den < 1<<40 {
		f *= 2
		den *= 2
	}
	return fmt.Sprintf("%d/%d", int64(f), den)
}

func ragCfgField(sc rag.SizeConfig) string {
	return fmt.Sprintf("%d:%d:%s:%d", int(sc.Max.Unit), sc.Max.Value, dyadic(sc.TokensPerChar), b01(sc.SplitAtSemanticBoundaries))
}

func runPresets(c *hx.Ctx, r *hx.Rng) {
	named := []struct {
		name string
		cfg  rag.SizeConfig
	}{
		{"default", rag.DefaultSizeConfig()}, {"medium", rag.MediumChunkConfig()}, {"small", rag.SmallChunkConfig()},
		{"large", rag.LargeChunkConfig()}, {"openai", rag.OpenAIEmbeddingConfig()}, {"cohere", rag.CohereEmbeddingConfig()},
		{"claude", rag.ClaudeContextConfig()},
	}
	for _, n := range named {
		c.Op("c13.preset "+n.name, ragCfgField(n.cfg))
		c.Check("C13/preset-hard-max", n.cfg.Max.Type == rag.LimitTypeHard, n.name, func() string {
			return "preset " + n.name + " does not declare its maximum hard"
		})
		c.Count("preset")
	}
	for i := 0; i < 12; i++ {
		t, m := r.Range(1, 4000), r.Range(1, 9000)
		c.Op(fmt.Sprintf("c13.preset token %d", m), ragCfgField(rag.TokenBasedSizeConfig(t, m)))
		c.Op(fmt.Sprintf("c13.preset semantic %d", m), ragCfgField(rag.SemanticSizeConfig(t, m)))
		c.Count("preset")
	}
	// NewSizeCalculator() is the default configuration
	text := strings.Repeat("word ", 900)
	a := rag.NewSizeCalculator().SplitToSize(text, nil)
	b := rag.NewSizeCalculatorWithConfig(rag.DefaultSizeConfig()).SplitToSize(text, nil)
	c.Check("C13/preset-default-calculator", strings.Join(a, "|") == strings.Join(b, "|"), "default", func() string {
		return "NewSizeCalculator() does not split like NewSizeCalculatorWithConfig(DefaultSizeConfig())"
	})
}

func isDefaultCfg(c sizeCfg) bool {
	return c.Unit == 0 && c.Max == 2000 && c.TpcNum == 1 && c.TpcExp == 2 && c.Sem
}

type pagesCase struct {
	Kind  string     `json:"kind"`
	Pages [][]string `json:"pages"` // hex
	Cfg   sizeCfg    `json:"cfg"`
}

// runDocPages: ChunkDocumentWithConfig on a document of several pages of
// paragraphs (a text block never spans pages).
func runDocPages(c *hx.Ctx, pages [][]string, cfg sizeCfg) bool {
	hp := make([][]string, len(pages))
	var fields []string
	var all []string
	for i, ps := range pages {
		hp[i] = hexAll(ps)
		if len(ps) == 0 {
			fields = append(fields, "_")
		} else {
			fields = append(fields, hx.HexList(ps))
		}
		all = append(all, ps...)
	}
	kase := pagesCase{Kind: "docp", Pages: hp, Cfg: cfg}
	var texts, dflt []string
	p, to := withDeadline(func() {
		doc := model.NewDocument()
		for _, ps := range pages {
			page := model.NewPage(612, 792)
			for _, t := range ps {
				page.AddElement(&model.Paragraph{Text: t})
			}
			doc.AddPage(page)
		}
		col := rag.ChunkDocumentWithConfig(doc, rag.DefaultChunkerConfig(), toRag(cfg))
		for _, ch := range col.Chunks {
			texts = append(texts, ch.Text)
		}
		if isDefaultCfg(cfg) { // rag.ChunkDocument(doc) is the default configuration
			for _, ch := range rag.ChunkDocument(doc).Chunks {
				dflt = append(dflt, ch.Text)
			}
		}
	})
	if isDefaultCfg(cfg) && p == "" && !to {
		c.Check("C13/chunkdocument-default", strings.Join(dflt, "\x00") == strings.Join(texts, "\x00"), kase, func() string {
			return "rag.ChunkDocument(doc) differs from ChunkDocumentWithConfig with the default configurations"
		})
		c.Count("docp-default-config")
	}
	if !c.Check("C13/terminates", !to, kase, func() string { return "ChunkDocumentWithConfig (pages) did not return" }) {
		return false
	}
	op := "c13.docp " + cfgField(cfg) + " " + strings.Join(fields, ";")
	if !c.Check("C13/panic", p == "", kase, func() string { return "ChunkDocumentWithConfig (pages) panicked: " + p }) {
		c.Op(op, "panic")
		return true
	}
	c.Op(op, hexPieces(texts))
	pieceOracles(c, "ChunkDocumentWithConfig(pages)", kase, cfg, strings.Join(all, "\n\n"), texts)
	c.Count(fmt.Sprintf("docp-pages=%d", len(pages)))
	return true
}

// runApi: returns false when the run must stop.
func runApi(c *hx.Ctx) bool {
	runPresets(c, c.Rng.Fork(6<<20))
	n := c.N(700, 15000)
	for i := 0; i < n; i++ {
		r := c.Rng.Fork(uint64(7<<20 + i))
		var text string
		var cfg sizeCfg
		if r.Chance(1, 3) {
			text, cfg = genBoundCase(r)
		} else {
			text, cfg, _ = genSplitCase(r)
		}
		if r.Chance(3, 4) {
			cfg.Sem = true // boundaries are only consulted with SplitAtSemanticBoundaries
		}
		bs := genBoundaries(r, text, cfg)
		if !runSplitB(c, text, cfg, bs) {
			return false
		}
		c.Case("sb"+cfgField(cfg)+bndField(bs)+text, len(bs) > 0 && len(text) > bytesAtLimit(cfg))
	}
	n = c.N(700, 15000)
	for i := 0; i < n; i++ {
		r := c.Rng.Fork(uint64(8<<20 + i))
		var text string
		var cfg sizeCfg
		if r.Chance(1, 3) {
			text, cfg = genBoundCase(r)
		} else {
			text, cfg, _ = genSplitCase(r)
		}
		limit, unit := cfg.Max, cfg.Unit
		if r.Chance(1, 3) { // a target other than the maximum
			unit = r.Intn(5)
			limit = genLimit(r)
		}
		var bs []bnd
		if r.Chance(1, 3) {
			cfg.Sem = true
			probe := cfg
			probe.Max, probe.Unit = limit, unit
			bs = genBoundaries(r, text, probe)
		}
		if !runFsp(c, text, cfg, bs, limit, unit, r.Bool()) {
			return false
		}
		c.Case(fmt.Sprintf("fs%s%d.%d%s%s", cfgField(cfg), limit, unit, bndField(bs), text), true)
	}
	n = c.N(150, 3000)
	for i := 0; i < n; i++ {
		r := c.Rng.Fork(uint64(12<<20 + i))
		var cfg sizeCfg
		var pages [][]string
		np := r.Range(1, 4)
		for k := 0; k < np; k++ {
			var paras []string
			switch r.Intn(4) {
			case 0: // empty page
			case 1:
				t, cf := genBoundCase(r)
				paras, cfg = append(paras, t), cf
			default:
				t, cf, _ := genSplitCase(r)
				paras, cfg = append(paras, t), cf
				for j := r.Intn(3); j > 0; j-- {
					paras = append(paras, genText(r, hx.Pick(r, textKinds), r.Range(0, 200)))
				}
			}
			pages = append(pages, paras)
		}
		if cfg.Max == 0 {
			cfg = genSizeCfg(r)
		}
		if r.Chance(1, 6) { // the default configuration, with at least one block beyond its maximum
			cfg = sizeCfg{Unit: 0, Max: 2000, TpcNum: 1, TpcExp: 2, Sem: true}
			pages = append(pages, []string{genSpaced(r, r.Range(1900, 5000), r.Intn(4)), genText(r, "cjk", r.Range(1900, 4500))})
		}
		if !runDocPages(c, pages, cfg) {
			return false
		}
		c.Case(fmt.Sprintf("dp%s%v", cfgField(cfg), pages), len(pages) > 1)
	}
	n = c.N(500, 10000)
	for i := 0; i < n; i++ {
		r := c.Rng.Fork(uint64(9<<20 + i))
		cfg := genSizeCfg(r)
		if r.Chance(1, 10) {
			cfg.TpcNum = -cfg.TpcNum * r.Intn(2) // zero or negative: the documented 0.25 default
		}
		text := genText(r, hx.Pick(r, textKinds), r.Range(0, 700))
		if !runSize(c, text, cfg) {
			return false
		}
		c.Case("sz"+cfgField(cfg)+text, text != "")
		if i%2 == 0 {
			c.Op("c13.nonspace "+hx.HexS(text), hx.HexS(nonSpaceBytes(text)))
			c.Count("nonspace")
		}
	}
	return true
}

func replayApi(c *hx.Ctx, k map[string]interface{}, cfg sizeCfg) {
	var bs []bnd
	if xs, ok := k["bs"].([]interface{}); ok {
		for _, x := range xs {
			m, _ := x.(map[string]interface{})
			p, _ := m["pos"].(float64)
			s, _ := m["score"].(float64)
			bs = append(bs, bnd{int(p), int(s)})
		}
	}
	text := unhex(fmt.Sprint(k["text"]))
	switch k["kind"] {
	case "splitb":
		runSplitB(c, text, cfg, bs)
	case "fsp":
		l, _ := k["limit"].(float64)
		u, _ := k["lunit"].(float64)
		runFsp(c, text, cfg, bs, int(l), int(u), false)
	case "size":
		runSize(c, text, cfg)
	}
}
