package c13

// Strengthening round 5: section titles that ECHO the text around them, over runs
// of SHORT chunks.
//
// The overlap clause of the property ("overlap text added to a chunk is a suffix of
// the previous chunk's own content") is about what a chunk hands on AFTER it has
// itself been rewritten to "[title]\n\n<overlap it received>\n\n<own content>". The
// other generators of this package draw the titles from three fixed strings that
// never occur in the chunk texts, and on paragraph documents the titles are empty, so
// the three parts of a rewritten chunk can always be told apart by searching for
// them. In real documents they cannot: a running line or a table-of-contents entry
// right before a heading repeats the heading, a heading is restated by the first
// words of its section, a numbered heading contains the previous heading, a title
// contains brackets. Here
//
//   - every title (of chunk i >= 1, two thirds of them) is built from the text next to
//     it: a tail of the previous chunk's own content (from one of its last word
//     starts, or all of it when it is short), a head of the chunk's own content, or
//     the previous chunk is replaced by the title itself (running line); bare or
//     decorated ("2. …", "… (continued)", "[…]", "…]");
//   - the chunks are mostly shorter than the configured overlap (a phrase, one or two
//     sentences, two or three one-line paragraphs), so that what a chunk hands on is
//     ALL of its own content and anything that leaked into it shows;
//   - there are at least three chunks, section context is mostly on,
//
// for every overlap strategy through ApplyOverlapToChunks (runOvl: op c13.ovl and the
// overlap oracles) and, as documents of pages with one heading each (levels 1-3,
// optional preamble page without heading), through Chunker.ChunkWithOverlapEnabled
// (runCwoSections: op c13.cwo on the chunks and titles of Chunker.Chunk, the same
// overlap oracles), one quarter of them with the Chunker's default configuration.
//
// No new expectation: the oracles are the statement-level overlap oracles of c13.go.

import (
	"fmt"
	"strings"
	"unicode"
	"unicode/utf8"

	"github.com/tsawler/tabula/model"
	"github.com/tsawler/tabula/rag"

	"verifharness/hx"
)

var headingWords = []string{"Results", "Discussion", "Methods", "Introduction", "Conclusion", "Table of Contents", "Appendix A",
	"第一章", "結果", "Übersicht", "Résumé", "2.1 Scope", "Related Work", "References [1]", "Notes", "Q&A", "FAQ?", "Overview."}

var plainTitles = []string{"Intro", "第一章", "A.1 Scope", "See [1]", "]", "[", "Part [II] of [III]", "A]\n\nB", "Summary."}

// wordStarts: the byte offsets of s at which a word begins (0 when s does not begin
// with white space, and every position that follows a white-space character and holds
// a non-white-space one).
func wordStarts(s string) []int {
	var out []int
	prevSpace := true
	for i := 0; i < len(s); {
		r, n := utf8.DecodeRuneInString(s[i:])
		sp := unicode.IsSpace(r) && !(r == utf8.RuneError && n <= 1)
		if prevSpace && !sp {
			out = append(out, i)
		}
		prevSpace = sp
		i += n
	}
	return out
}

// genShortContent: chunk content that is mostly shorter than any overlap size in use.
func genShortContent(r *hx.Rng) (string, string) {
	word := func() string {
		k := 0
		if r.Chance(1, 5) {
			k = r.Range(1, 4)
		}
		return genWord(r, k)
	}
	sentence := func() string {
		n := r.Range(2, 8)
		ws := make([]string, n)
		for i := range ws {
			ws[i] = word()
		}
		s := strings.Join(ws, " ")
		if s[0] >= 'a' && s[0] <= 'z' {
			s = strings.ToUpper(s[:1]) + s[1:]
		}
		return s + hx.Pick(r, []string{".", ".", ".", "!", "?"})
	}
	switch r.Intn(8) {
	case 0:
		return hx.Pick(r, headingWords), "heading-word"
	case 1: // a phrase without sentence punctuation: running line, caption, TOC entry
		n := r.Range(1, 4)
		ws := make([]string, n)
		for i := range ws {
			ws[i] = word()
		}
		return strings.Join(ws, " "), "phrase"
	case 2, 3:
		return sentence(), "one-sentence"
	case 4:
		return sentence() + " " + sentence(), "two-sentences"
	case 5: // one-line paragraphs
		n := r.Range(2, 3)
		ps := make([]string, n)
		for i := range ps {
			if r.Bool() {
				ps[i] = sentence()
			} else {
				ps[i] = hx.Pick(r, headingWords)
			}
		}
		return strings.Join(ps, "\n\n"), "short-paragraphs"
	case 6:
		return strings.TrimSpace(genSentenceText(r, r.Range(20, 150))), "sentence-material"
	default:
		return strings.TrimSpace(genText(r, hx.Pick(r, ovlKinds), r.Range(50, 300))), "long"
	}
}

// echoTitle: a title built from the text next to it. prev = own content of the chunk
// before, own = own content of the chunk the title belongs to.
func echoTitle(r *hx.Rng, prev, own string) (string, string) {
	frag, kind := "", ""
	switch r.Intn(6) {
	case 0: // head of the own content (the heading restated by its first words)
		t := strings.TrimSpace(own)
		ws := wordStarts(t)
		if len(ws) > 1 {
			k := r.Range(1, len(ws)-1)
			if k > 5 {
				k = r.Range(1, 5)
			}
			frag = strings.TrimSpace(t[:ws[k]])
		} else {
			frag = t
		}
		kind = "own-head"
	default: // tail of the previous chunk's own content
		t := strings.TrimSpace(prev)
		ws := wordStarts(t)
		switch {
		case len(ws) == 0:
			frag = t
		case len(t) <= 100 && r.Bool():
			frag = t // all of it: the running line before the heading
		default:
			lo := len(ws) - 6
			if lo < 0 {
				lo = 0
			}
			frag = t[ws[r.Range(lo, len(ws)-1)]:]
		}
		if len(frag) > 120 { // keep titles title-sized: cut at a later word start
			fs := wordStarts(frag)
			for _, p := range fs {
				if len(frag)-p <= 120 {
					frag = frag[p:]
					break
				}
			}
		}
		if j := strings.LastIndexByte(frag, '\n'); j >= 0 && r.Chance(3, 4) {
			frag = strings.TrimSpace(frag[j+1:]) // a title is usually one line
		}
		kind = "prev-tail"
	}
	if frag == "" {
		return hx.Pick(r, plainTitles), "plain"
	}
	switch r.Intn(6) {
	case 0:
		return hx.Pick(r, []string{"2. ", "§ ", "Chapter 3: ", "[", "A.1 ", "第2章 "}) + frag, kind + "+prefix"
	case 1:
		return frag + hx.Pick(r, []string{" (continued)", ":", " [2]", "]", " — summary", "。"}), kind + "+suffix"
	case 2:
		return "[" + frag + "]", kind + "+brackets"
	}
	return frag, kind
}

// genEchoChunks: at least three chunks, mostly short, titles echoing their neighbours.
func genEchoChunks(c *hx.Ctx, r *hx.Rng) (texts, titles []string) {
	n := r.Range(3, 6)
	texts = make([]string, n)
	titles = make([]string, n)
	for i := range texts {
		var kind string
		texts[i], kind = genShortContent(r)
		c.Count("echo-content=" + kind)
	}
	if r.Bool() {
		titles[0] = hx.Pick(r, plainTitles)
	}
	for i := 1; i < n; i++ {
		var kind string
		switch r.Intn(6) {
		case 0:
			kind = "none"
		case 1:
			titles[i], kind = hx.Pick(r, plainTitles), "plain"
		case 2: // the running line: the chunk before is nothing but the coming title
			titles[i] = hx.Pick(r, headingWords)
			texts[i-1] = titles[i]
			if r.Chance(1, 3) {
				titles[i] = hx.Pick(r, []string{"3 ", "III. ", ""}) + titles[i]
			}
			kind = "running-line"
		default:
			titles[i], kind = echoTitle(r, texts[i-1], texts[i])
		}
		c.Count("echo-title=" + kind)
	}
	return texts, titles
}

func genEchoOvlCfg(r *hx.Rng) ovlCfg {
	cfg := ovlCfg{Strategy: r.Range(1, 3), Words: r.Chance(3, 4), Ctx: r.Chance(5, 6)}
	if r.Chance(1, 12) {
		cfg.Strategy = 0
	}
	if cfg.Strategy == 1 {
		cfg.Size = hx.Pick(r, []int{10, 20, 50, 100, 200, 500})
	} else {
		cfg.Size = r.Range(1, 4)
	}
	cfg.Min = hx.Pick(r, []int{0, 5, 20, 50})
	cfg.Max = hx.Pick(r, []int{30, 60, 150, 300, 500, 1500})
	return cfg
}

// ---- documents of sections -------------------------------------------------------------

// secPage: one page of the authored document: an optional heading followed by
// paragraphs. A section is a heading and everything up to the next heading.
type secPage struct {
	Heading string   `json:"heading"` // hex
	Level   int      `json:"level"`
	Paras   []string `json:"paras"` // hex
}

type cwhCase struct {
	Kind        string    `json:"kind"`
	Pages       []secPage `json:"pages"`
	OverlapSize int       `json:"overlap_size"`
	Sentences   bool      `json:"sentences"`
	MaxChunk    int       `json:"max_chunk"`
	Ctx         bool      `json:"ctx"`
	Default     bool      `json:"default_config"`
}

func sectionDoc(pages []secPage) *model.Document {
	doc := model.NewDocument()
	for _, p := range pages {
		page := model.NewPage(612, 792)
		lay := &model.PageLayout{}
		if p.Heading != "" {
			lay.Headings = append(lay.Headings, model.HeadingInfo{Text: p.Heading, Level: p.Level})
		}
		for i, t := range p.Paras {
			lay.Paragraphs = append(lay.Paragraphs, model.ParagraphInfo{Index: i, Text: t})
		}
		page.Layout = lay
		doc.AddPage(page)
	}
	return doc
}

func hexPages(pages []secPage) []secPage {
	out := make([]secPage, len(pages))
	for i, p := range pages {
		out[i] = secPage{Heading: hx.HexS(p.Heading), Level: p.Level, Paras: hexAll(p.Paras)}
	}
	return out
}

// authoredSections: the content of each section of the authored document (paragraphs
// of the section, without white space) and its title, sections without content left out.
func authoredSections(pages []secPage) (content [][]rune, titles []string) {
	cur := -1
	for _, p := range pages {
		if p.Heading != "" || cur < 0 {
			content = append(content, nil)
			titles = append(titles, p.Heading)
			cur = len(content) - 1
		}
		for _, t := range p.Paras {
			content[cur] = append(content[cur], nonSpace(t)...)
		}
	}
	var c2 [][]rune
	var t2 []string
	for i := range content {
		if len(content[i]) > 0 {
			c2, t2 = append(c2, content[i]), append(t2, titles[i])
		}
	}
	return c2, t2
}

// runCwoSections: Chunker.ChunkWithOverlapEnabled on a document with headings. The
// chunks' own content and titles are those of Chunker.Chunk on an identical document
// (as in runCwo); useDefault = the Chunker's default configuration, untouched.
func runCwoSections(c *hx.Ctx, pages []secPage, overlapSize int, sentences bool, maxChunk int, ctx bool, useDefault bool) bool {
	cc := rag.DefaultChunkerConfig()
	if useDefault {
		overlapSize, sentences, maxChunk, ctx = cc.OverlapSize, cc.OverlapSentences, cc.MaxChunkSize, cc.IncludeSectionContext
	} else {
		cc.MaxChunkSize = maxChunk
		cc.TargetChunkSize = maxChunk / 2
		cc.MinChunkSize = maxChunk / 10
		cc.OverlapSize = overlapSize
		cc.OverlapSentences = sentences
		cc.IncludeSectionContext = ctx
	}
	kase := cwhCase{Kind: "cwh", Pages: hexPages(pages), OverlapSize: overlapSize, Sentences: sentences, MaxChunk: maxChunk, Ctx: ctx, Default: useDefault}
	var own, titles []string
	var res, res2 []ovlOut
	p, to := withDeadline(func() {
		base, err := rag.NewChunkerWithConfig(cc).Chunk(sectionDoc(pages))
		if err != nil {
			panic(err)
		}
		for _, ch := range base.Chunks {
			own = append(own, ch.Text)
			titles = append(titles, ch.Metadata.SectionTitle)
		}
		chunker, doc := rag.NewChunkerWithConfig(cc), sectionDoc(pages)
		if useDefault {
			chunker = rag.NewChunker()
		}
		out, err := chunker.ChunkWithOverlapEnabled(doc)
		if err != nil {
			panic(err)
		}
		for _, o := range out.Chunks {
			res = append(res, ovlOut{o.OverlapPrefix, o.HasOverlapPrefix, o.Text})
		}
		out2, err := chunker.ChunkWithOverlapEnabled(doc)
		if err != nil {
			panic(err)
		}
		for _, o := range out2.Chunks {
			res2 = append(res2, ovlOut{o.OverlapPrefix, o.HasOverlapPrefix, o.Text})
		}
	})
	if !c.Check("C13/terminates", !to, kase, func() string { return "ChunkWithOverlapEnabled (sections) did not return" }) {
		return false
	}
	if !c.Check("C13/panic", p == "", kase, func() string { return "ChunkWithOverlapEnabled (sections) panicked: " + p }) {
		return true
	}
	c.Check("C13/cwo-repeatable", dumpOvl(res) == dumpOvl(res2), kase, func() string {
		return "a second ChunkWithOverlapEnabled call on the same chunker and document (with headings) returned different chunks"
	})
	if len(own) > 0 {
		c.Op(fmt.Sprintf("c13.cwo %d:%d:%d %s %s %s", overlapSize, b01(sentences), b01(ctx), classTable(own), hx.HexList(titles), hx.HexList(own)), dumpOvl(res))
	}
	// distribution only: do the chunks coincide with the authored sections?
	ac, at := authoredSections(pages)
	same := len(ac) == len(own)
	for i := 0; same && i < len(own); i++ {
		same = runesEq(ac[i], nonSpace(own[i])) && at[i] == titles[i]
	}
	if same {
		c.Count("cwh-chunks=the-authored-sections")
	} else {
		c.Count("cwh-chunks=other")
	}
	strategy := 0
	if overlapSize > 0 {
		strategy = 1
		if sentences {
			strategy = 2
		}
	}
	overlapOracles(c, "ChunkWithOverlapEnabled(sections)", kase, strategy, overlapSize, overlapSize*3, ctx, own, titles, res)
	c.Count("cwh-chunks#=" + bucket(len(own)))
	return true
}

// genEchoDoc: 3-6 pages, one heading each (the first page sometimes none: preamble),
// short paragraphs, headings echoing the end of the page before.
func genEchoDoc(c *hx.Ctx, r *hx.Rng) []secPage {
	n := r.Range(3, 6)
	pages := make([]secPage, n)
	for i := range pages {
		np := 1
		if r.Chance(1, 4) {
			np = 2
		}
		for k := 0; k < np; k++ {
			t, _ := genShortContent(r)
			if strings.Contains(t, "\n\n") { // a layout paragraph holds no paragraph break
				t = strings.ReplaceAll(t, "\n\n", " ")
			}
			pages[i].Paras = append(pages[i].Paras, t)
		}
		pages[i].Level = 1
		if r.Chance(1, 4) {
			pages[i].Level = r.Range(1, 3)
		}
	}
	for i := range pages {
		if i == 0 {
			if r.Bool() {
				pages[0].Heading = hx.Pick(r, headingWords)
			}
			continue
		}
		prev := pages[i-1].Paras[len(pages[i-1].Paras)-1]
		var kind string
		switch r.Intn(6) {
		case 0:
			pages[i].Heading, kind = hx.Pick(r, plainTitles), "plain"
		case 1, 2: // the running line / TOC entry: the page before ends with the coming heading
			h := hx.Pick(r, headingWords)
			pages[i].Heading = h
			pages[i-1].Paras[len(pages[i-1].Paras)-1] = h
			if r.Chance(1, 3) {
				pages[i].Heading = hx.Pick(r, []string{"3 ", "III. "}) + h
			}
			kind = "running-line"
		default:
			pages[i].Heading, kind = echoTitle(r, prev, pages[i].Paras[0])
		}
		c.Count("echo-heading=" + kind)
	}
	return pages
}

// runTitles: returns false when the run must stop.
func runTitles(c *hx.Ctx) bool {
	// the plain instance of the class, for every strategy: running line, heading of the
	// same words, a one-sentence section, a further section
	for _, e := range []ovlCfg{
		{Strategy: 1, Size: 100, Min: 20, Max: 300, Words: true, Ctx: true},
		{Strategy: 2, Size: 2, Min: 20, Max: 300, Words: true, Ctx: true},
		{Strategy: 3, Size: 2, Min: 0, Max: 500, Words: true, Ctx: true},
	} {
		if !runOvl(c, e, []string{"Results", "Only one sentence was measured here.", "The discussion follows. It has two sentences.", "End."},
			[]string{"", "Results", "Discussion", "3 Discussion"}) {
			return false
		}
		c.Case(fmt.Sprintf("edge-t%v", e), true)
	}
	n := c.N(700, 15000)
	for i := 0; i < n; i++ {
		r := c.Rng.Fork(uint64(14<<20 + i))
		cfg := genEchoOvlCfg(r)
		texts, titles := genEchoChunks(c, r)
		if !runOvl(c, cfg, texts, titles) {
			return false
		}
		c.Count("echo-ovl")
		c.Case(fmt.Sprintf("t%v%v%v", cfg, texts, titles), cfg.Strategy != 0 && cfg.Ctx)
	}
	n = c.N(400, 8000)
	for i := 0; i < n; i++ {
		r := c.Rng.Fork(uint64(15<<20 + i))
		pages := genEchoDoc(c, r)
		overlapSize := hx.Pick(r, []int{0, 5, 10, 11, 30, 100, 300})
		useDefault := r.Chance(1, 4)
		if !runCwoSections(c, pages, overlapSize, r.Bool(), hx.Pick(r, []int{200, 400, 1000, 2000}), r.Chance(5, 6), useDefault) {
			return false
		}
		c.Count("echo-doc")
		c.Case(fmt.Sprintf("h%d%v", overlapSize, pages), useDefault || overlapSize > 0)
	}
	return true
}

func replayCwh(c *hx.Ctx, k map[string]interface{}) {
	var pages []secPage
	if xs, ok := k["pages"].([]interface{}); ok {
		for _, x := range xs {
			m, _ := x.(map[string]interface{})
			lv, _ := m["level"].(float64)
			ps, _ := m["paras"].([]interface{})
			pages = append(pages, secPage{Heading: unhex(fmt.Sprint(m["heading"])), Level: int(lv), Paras: unhexAll(ps)})
		}
	}
	os, _ := k["overlap_size"].(float64)
	mc, _ := k["max_chunk"].(float64)
	se, _ := k["sentences"].(bool)
	cx, _ := k["ctx"].(bool)
	df, _ := k["default_config"].(bool)
	runCwoSections(c, pages, int(os), se, int(mc), cx, df)
}
