package c13

import (
	"strings"

	"verifharness/hx"
)

// ---- text generators (the property's quantifier: ASCII prose, CJK without
// spaces or ASCII sentence punctuation, emoji/ZWJ, combining sequences, very
// long tokens, whitespace only, mixed) ------------------------------------------

var asciiWords = []string{"the", "a", "of", "chunk", "splitting", "respects", "size", "limit", "never", "corrupts",
	"text", "Every", "piece", "is", "valid", "when", "input", "I", "Mr", "Dr", "e.g", "etc", "No", "U.S", "3.14", "2024",
	"retrieval", "augmented", "generation", "x", "overlap", "boundary", "Sentence", "Paragraph", "Tokens", "WORDS"}

var latinWords = []string{"café", "naïve", "à", "voilà", "Ünïcödé", "straße", "señor", "Ça", "İnc", "Ångström", "déjà", "œuvre"}

// cjk contains characters whose UTF-8 form has 0x85 / 0xA0 as a continuation
// byte in second position (堀 E5 A0 80, 堅 E5 A0 85, 酅 E9 85 85, ᅀ E1 85 80) or in last
// position (だ E3 81 A0, 公 E5 85 AC has it in the middle).
var cjkRunes = []rune("日本語の文章は空白を含まない堀だ公園堅酅東京都千代田区漢字仮名交じり文これはテストです中文没有空格한국어텍스트ᅀ")
var cjkPunct = []string{"。", "、", "！", "？", "「", "」", "・"}

var emojiSeqs = []string{"😀", "👍🏽", "👨‍👩‍👧‍👦", "🏳️‍🌈", "🇯🇵", "🅰", "🅱️", "❤️", "👩🏿‍💻", "🧑‍🤝‍🧑", "🅐", "🆎", "🈂️", "©", "™"}

var combining = []string{"é", "ö̲", "a̐̂̃", "ṩ", "नमस्ते", "क्षि", "ก็", "ệ", "ǘ", "Z̷͎̓a̸͈͝l̶͖͐g̵̗̈o̴̺͋", "각", "שָׁלוֹם"}

var spaces = []string{" ", " ", " ", "  ", "\n", "\n\n", "\t", "\r\n", "\u00a0", "\u3000", "\u2003", "\u0085", "\v", "\f", "\u2028", "\u2029", "\u1680", "\u202f", "\u205f", "\u2000", "\u200a"}

var sentenceEnds = []string{". ", ". ", ". ", "! ", "? ", ".\n", ".  ", ".\n\n", "; ", ", ", ".", "...", "?! "}

func genWord(r *hx.Rng, kind int) string {
	switch kind {
	case 0:
		return hx.Pick(r, asciiWords)
	case 1:
		return hx.Pick(r, latinWords)
	case 2:
		n := r.Range(1, 6)
		var sb strings.Builder
		for i := 0; i < n; i++ {
			sb.WriteRune(hx.Pick(r, cjkRunes))
		}
		return sb.String()
	case 3:
		return hx.Pick(r, emojiSeqs)
	default:
		return hx.Pick(r, combining)
	}
}

// prose: words separated by single spaces, sentence punctuation, occasional
// paragraph breaks. mix = probability (in 1/8) of a non-ASCII word.
func genProse(r *hx.Rng, n int, mix int) string {
	var sb strings.Builder
	for sb.Len() < n {
		k := 0
		if r.Intn(8) < mix {
			k = r.Range(1, 4)
		}
		sb.WriteString(genWord(r, k))
		switch {
		case r.Chance(1, 7):
			sb.WriteString(hx.Pick(r, sentenceEnds))
		case r.Chance(1, 40):
			sb.WriteString(hx.Pick(r, spaces))
		default:
			sb.WriteByte(' ')
		}
	}
	return sb.String()
}

// spaced: every window of 50 bytes contains a 0x20 (the property's "a space at
// least every 50 bytes"); words of any script, at most 24 bytes each.
func genSpaced(r *hx.Rng, n int, mix int) string {
	var sb strings.Builder
	for sb.Len() < n {
		k := 0
		if r.Intn(8) < mix {
			k = r.Range(1, 4)
		}
		w := genWord(r, k)
		for len(w) > 24 {
			w = genWord(r, 0)
		}
		sb.WriteString(w)
		if r.Chance(1, 6) {
			sb.WriteString(hx.Pick(r, []string{".", "!", "?", ",", ";", ".\n", "。"}))
		}
		if r.Chance(1, 30) {
			sb.WriteString(hx.Pick(r, []string{"\n", "\n\n", "\t", "\u00a0", "\u3000"}))
		}
		sb.WriteByte(' ')
	}
	return sb.String()
}

func genCJK(r *hx.Rng, n int) string {
	var sb strings.Builder
	for sb.Len() < n {
		sb.WriteRune(hx.Pick(r, cjkRunes))
		if r.Chance(1, 15) {
			sb.WriteString(hx.Pick(r, cjkPunct))
		}
	}
	return sb.String()
}

func genEmoji(r *hx.Rng, n int) string {
	var sb strings.Builder
	for sb.Len() < n {
		sb.WriteString(hx.Pick(r, emojiSeqs))
	}
	return sb.String()
}

func genCombining(r *hx.Rng, n int) string {
	var sb strings.Builder
	for sb.Len() < n {
		sb.WriteString(hx.Pick(r, combining))
		if r.Chance(1, 25) {
			sb.WriteByte(' ')
		}
	}
	return sb.String()
}

func genLongToken(r *hx.Rng, n int) string {
	const url = "abcdefghijklmnopqrstuvwxyz0123456789/_-=%&"
	var sb strings.Builder
	for sb.Len() < n {
		switch {
		case r.Chance(1, 60):
			sb.WriteRune(hx.Pick(r, cjkRunes))
		case r.Chance(1, 80):
			sb.WriteByte('.')
		default:
			sb.WriteByte(url[r.Intn(len(url))])
		}
	}
	return sb.String()
}

func genWhitespace(r *hx.Rng, n int) string {
	var sb strings.Builder
	for sb.Len() < n {
		sb.WriteString(hx.Pick(r, spaces))
	}
	return sb.String()
}

// genInvalid: mostly text, with stray continuation bytes, truncated sequences
// and random bytes (termination, conservation and panic-freedom are claimed for
// every text; UTF-8 integrity only when the input is valid).
func genInvalid(r *hx.Rng, n int) string {
	var b []byte
	for len(b) < n {
		switch r.Intn(6) {
		case 0:
			b = append(b, r.Bytes(r.Range(1, 4))...)
		case 1:
			s := string(hx.Pick(r, cjkRunes))
			b = append(b, s[:r.Range(1, len(s))]...)
		case 2:
			b = append(b, byte(0x80+r.Intn(0x40)))
		case 3:
			b = append(b, hx.Pick(r, []string{"\xc2", "\xe2\x80", "\xa0", "\x85", "\xe3\x80", "\xf0\x9f", "\xc0\xa0", "\xed\xa0\x80"})...)
		default:
			b = append(b, genProse(r, r.Range(1, 30), 3)...)
		}
	}
	return string(b)
}

var textKinds = []string{"ascii", "spaced", "cjk", "emoji", "combining", "longtoken", "whitespace", "mixed", "latin-mixed", "invalid", "edge"}

func genText(r *hx.Rng, kind string, n int) string {
	switch kind {
	case "ascii":
		return genProse(r, n, 0)
	case "spaced":
		return genSpaced(r, n, r.Intn(5))
	case "cjk":
		return genCJK(r, n)
	case "emoji":
		return genEmoji(r, n)
	case "combining":
		return genCombining(r, n)
	case "longtoken":
		return genLongToken(r, n)
	case "whitespace":
		return genWhitespace(r, n)
	case "latin-mixed":
		return genProse(r, n, 4)
	case "invalid":
		return genInvalid(r, n)
	case "edge":
		// leading / trailing / inner whitespace runs around the other kinds
		var sb strings.Builder
		if r.Bool() {
			sb.WriteString(genWhitespace(r, r.Range(1, 8)))
		}
		sb.WriteString(genText(r, hx.Pick(r, []string{"ascii", "spaced", "cjk", "longtoken", "latin-mixed"}), n))
		if r.Bool() {
			sb.WriteString(genWhitespace(r, r.Range(1, 8)))
		}
		return sb.String()
	default: // mixed
		var sb strings.Builder
		for sb.Len() < n {
			k := hx.Pick(r, []string{"ascii", "spaced", "cjk", "emoji", "combining", "longtoken", "whitespace", "latin-mixed"})
			sb.WriteString(genText(r, k, r.Range(1, 1+n/3)))
			if r.Chance(1, 3) {
				sb.WriteString(hx.Pick(r, spaces))
			}
		}
		return sb.String()
	}
}

// spacedEvery50 is the property's precondition for the size bound: every 50
// consecutive bytes contain a space (0x20).
func spacedEvery50(s string) bool {
	run := 0
	for i := 0; i < len(s); i++ {
		if s[i] == ' ' {
			run = 0
		} else {
			run++
			if run >= 50 {
				return false
			}
		}
	}
	return true
}

// ---- size configurations ----------------------------------------------------------

// tpc values are dyadic (num / 2^exp) so that float64 arithmetic in the code is
// exact and the model can use integer arithmetic.
type sizeCfg struct {
	Unit   int  `json:"unit"` // rag.SizeUnit: 0 characters, 1 tokens, 2 words, 3 sentences, 4 paragraphs
	Max    int  `json:"max"`
	TpcNum int  `json:"tpc_num"`
	TpcExp uint `json:"tpc_exp"`
	Sem    bool `json:"sem"`
}

var tpcChoices = [][2]int{{1, 2}, {1, 2}, {1, 2}, {1, 1}, {1, 3}, {1, 0}, {3, 3}, {3, 2}, {2, 0}, {4, 0}, {5, 4}, {3, 4}}

func genLimit(r *hx.Rng) int {
	switch r.Intn(6) {
	case 0:
		return r.Range(1, 4)
	case 1:
		return r.Range(5, 60)
	case 2:
		return r.Range(61, 199)
	case 3:
		return r.Range(200, 260)
	default:
		return r.Range(200, 4000)
	}
}

func genSizeCfg(r *hx.Rng) sizeCfg {
	t := hx.Pick(r, tpcChoices)
	return sizeCfg{Unit: r.Intn(5), Max: genLimit(r), TpcNum: t[0], TpcExp: uint(t[1]), Sem: r.Bool()}
}

// bytesAtLimit is the number of bytes the documented conversion gives for the
// limit (characters = bytes, tokens = bytes*ratio, 6/80/400 bytes per
// word/sentence/paragraph); used to size the generated texts only.
func bytesAtLimit(c sizeCfg) int {
	switch c.Unit {
	case 1:
		if c.TpcNum <= 0 {
			return c.Max * 4
		}
		return c.Max * (1 << c.TpcExp) / c.TpcNum
	case 2:
		return c.Max * 6
	case 3:
		return c.Max * 80
	case 4:
		return c.Max * 400
	}
	return c.Max
}
