package c13

// Deepening round, part 3: the sentence packing of rag/chunker.go
// (splitIntoSentences, splitBySentences) and Chunker.Chunk /
// ChunkWithOverlapEnabled on paragraph documents, end to end:
//
//	rag.VerifSplitIntoSentences(text)                       (op c13.sent)
//	rag.NewChunkerWithConfig(c).Chunk(doc)                  (op c13.chunk, emitted by runCwo)
//	rag.NewChunkerWithConfig(c).ChunkWithOverlapEnabled(doc) (op c13.cwe, emitted by runCwo)

import (
	"fmt"
	"strings"
	"unicode/utf8"

	"github.com/tsawler/tabula/rag"

	"verifharness/hx"
)

type sentCase struct {
	Kind string `json:"kind"`
	Text string `json:"text"` // hex
}

// sentence material: what the splitter's heuristics look at. Abbreviations,
// initials, a capital directly before the full stop, a lower-case letter directly
// after it, characters whose last UTF-8 byte is 0x85 / 0xA0 (read as a Latin-1
// space by the "single capital letter" test) before a capital, and non-ASCII
// lower/upper case after the punctuation.
var sentWords = []string{"the", "a", "of", "chunk", "Every", "piece", "is", "Mr", "Dr", "e.g", "i.e", "etc", "U.S.A", "J", "K",
	"No", "3.14", "v1.2", "text", "B", "AB", "xA", "堅A", "堀", "だA", "酅B", "éA", "É", "Ö", "über", "Éric", "école", "λόγος", "Λ",
	"日本語", "ж", "Жук", "end", "file.txt", "a.b", "A.B", "I", "OK", " Z", "\u0085Q", "ſ", "ǅ"}

var sentEnds = []string{". ", ". ", ". ", "! ", "? ", ".", "!", "?", "...", ".\n", ".\n\n", ". \t", "?! ", ". ", ".　", ".é", ".É", ".λ", ".Λ", ".b", ".B", ".\"", ".) "}

func genSentenceText(r *hx.Rng, n int) string {
	var sb strings.Builder
	for sb.Len() < n {
		switch {
		case r.Chance(1, 12):
			sb.WriteString(genWord(r, r.Intn(5)))
		default:
			sb.WriteString(hx.Pick(r, sentWords))
		}
		switch {
		case r.Chance(1, 3):
			sb.WriteString(hx.Pick(r, sentEnds))
		case r.Chance(1, 25):
			sb.WriteString(hx.Pick(r, spaces))
		case r.Chance(1, 30):
			// no separator at all
		default:
			sb.WriteByte(' ')
		}
	}
	return sb.String()
}

func genSentInput(r *hx.Rng) (string, string) {
	n := r.Range(0, 300)
	switch r.Intn(8) {
	case 0:
		return genText(r, hx.Pick(r, textKinds), n), "mixed-kinds"
	case 1:
		return genProse(r, n, r.Intn(5)), "prose"
	case 2:
		return genInvalid(r, n), "invalid"
	default:
		return genSentenceText(r, n), "sentence-material"
	}
}

func runSent(c *hx.Ctx, text string) bool {
	kase := sentCase{Kind: "sent", Text: hx.HexS(text)}
	var sents []string
	p, to := withDeadline(func() { sents = rag.VerifSplitIntoSentences(text) })
	if !c.Check("C13/terminates", !to, kase, func() string { return "splitIntoSentences did not return on " + short(text) }) {
		return false
	}
	op := "c13.sent " + classTable([]string{text}) + " " + hx.HexS(text)
	if !c.Check("C13/panic", p == "", kase, func() string { return "splitIntoSentences panicked: " + p }) {
		c.Op(op, "panic")
		return true
	}
	c.Op(op, hexPieces(sents))
	if utf8.ValidString(text) {
		want := nonSpace(text)
		var got []rune
		for _, s := range sents {
			got = append(got, nonSpace(s)...)
		}
		c.Check("C13/sentences-conserve", runesEq(want, got), kase, func() string {
			return "splitIntoSentences: non-whitespace characters of the sentences differ from the text: " + firstDiff(want, got)
		})
		c.Check("C13/sentences-in-order", substringsInOrder(text, sents), kase, func() string {
			return "splitIntoSentences: the sentences are not in-order substrings of the text with whitespace-only gaps: " + short(text)
		})
	}
	for i, s := range sents {
		if !c.Check("C13/sentence-utf8", utf8.ValidString(s), kase, func() string {
			return fmt.Sprintf("splitIntoSentences: sentence %d is not valid UTF-8: %s", i, short(s))
		}) {
			break
		}
		if !c.Check("C13/sentence-empty", strings.TrimSpace(s) != "", kase, func() string {
			return fmt.Sprintf("splitIntoSentences: sentence %d of %d is empty or whitespace", i, len(sents))
		}) {
			break
		}
	}
	c.Count("sent-count=" + bucket(len(sents)))
	return true
}

// runSentences: returns false when the run must stop.
func runSentences(c *hx.Ctx) bool {
	for _, t := range []string{"", " ", ".", "a.", "a.b", "a. b", "a. B", "A. B", "Mr. Smith went. Home.", "text.B. And", "x A. B",
		"堅A. Next", "堀A. Next", "だA. Next", "日本語。次の文。", "e.g. this. That", "U.S.A. is", "3.14 is pi. Yes", "End.é and .É", "?!?! Wow", "a.\n\nB.", "\xff.\xfe A. b"} {
		if !runSent(c, t) {
			return false
		}
		c.Case("se:"+t, true)
	}
	n := c.N(1200, 25000)
	for i := 0; i < n; i++ {
		r := c.Rng.Fork(uint64(10<<20 + i))
		text, kind := genSentInput(r)
		if !runSent(c, text) {
			return false
		}
		c.Count("sent-text=" + kind)
		c.Case("se"+text, strings.ContainsAny(text, ".!?"))
	}
	// paragraph documents whose paragraphs are sentence material (oversized ones are
	// packed sentence by sentence), through Chunk and ChunkWithOverlapEnabled
	n = c.N(500, 10000)
	for i := 0; i < n; i++ {
		r := c.Rng.Fork(uint64(11<<20 + i))
		maxChunk := hx.Pick(r, []int{40, 60, 120, 200, 400})
		np := r.Range(1, 6)
		var paras []string
		for k := 0; k < np; k++ {
			switch r.Intn(6) {
			case 0:
				paras = append(paras, genWhitespace(r, r.Range(1, 2*maxChunk)))
			case 1:
				paras = append(paras, genText(r, hx.Pick(r, ovlKinds), r.Range(1, maxChunk/4+1))) // small: orphan merging
			default:
				paras = append(paras, genSentenceText(r, r.Range(1, 3*maxChunk)))
			}
		}
		overlapSize := hx.Pick(r, []int{0, 1, 2, 5, 10, 11, 30, 100})
		if !runCwo(c, paras, overlapSize, r.Bool(), maxChunk, r.Chance(1, 4)) {
			return false
		}
		c.Case(fmt.Sprintf("ws%d%v", overlapSize, paras), true)
	}
	return true
}
