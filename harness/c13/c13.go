// Package c13: splitting respects the size limit and never corrupts text.
//
// Three observed APIs:
//
//	rag.NewSizeCalculatorWithConfig(c).SplitToSize(text, nil)        (op c13.split)
//	rag.ChunkDocumentWithConfig(doc, chunkerCfg, sizeCfg)            (op c13.doc)
//	rag.NewChunkerWithConfig(c).ChunkWithOverlapEnabled(doc)         (op c13.cwo)
//
// plus rag.ApplyOverlapToChunks directly for every overlap strategy (op c13.ovl).
// The oracles below are written from the property text only.
package c13

import (
	"encoding/hex"
	"fmt"
	"strings"
	"time"
	"unicode"
	"unicode/utf8"

	"github.com/tsawler/tabula/model"
	"github.com/tsawler/tabula/rag"

	"verifharness/hx"
)

const deadline = 4 * time.Second

// withDeadline runs f in its own goroutine; a panic is returned as text, an
// overrun as timedOut (the goroutine is abandoned; the caller stops the run).
func withDeadline(f func()) (panicked string, timedOut bool) {
	done := make(chan string, 1)
	go func() { done <- hx.Safe(f) }()
	select {
	case p := <-done:
		return p, false
	case <-time.After(deadline):
		return "", true
	}
}

// ---- statement-level helpers --------------------------------------------------------

// nonSpace is the sequence of non-whitespace characters of s; a byte that is not
// part of a well-formed character counts as a character of its own.
func nonSpace(s string) []rune {
	var out []rune
	for i := 0; i < len(s); {
		r, n := utf8.DecodeRuneInString(s[i:])
		if r == utf8.RuneError && n <= 1 {
			out = append(out, 0x110000+rune(s[i]))
			i++
			continue
		}
		if !unicode.IsSpace(r) {
			out = append(out, r)
		}
		i += n
	}
	return out
}

func runesEq(a, b []rune) bool {
	if len(a) != len(b) {
		return false
	}
	for i := range a {
		if a[i] != b[i] {
			return false
		}
	}
	return true
}

func isSuffix(suf, all []rune) bool {
	return len(suf) <= len(all) && runesEq(suf, all[len(all)-len(suf):])
}

func firstDiff(a, b []rune) string {
	n := len(a)
	if len(b) < n {
		n = len(b)
	}
	for i := 0; i < n; i++ {
		if a[i] != b[i] {
			return fmt.Sprintf("first difference at character %d: U+%04X vs U+%04X (lengths %d, %d)", i, a[i], b[i], len(a), len(b))
		}
	}
	return fmt.Sprintf("lengths %d vs %d", len(a), len(b))
}

func short(s string) string {
	if len(s) > 60 {
		return fmt.Sprintf("%q…(%d bytes)", s[:60], len(s))
	}
	return fmt.Sprintf("%q", s)
}

func toRag(c sizeCfg) rag.SizeConfig {
	sc := rag.DefaultSizeConfig()
	sc.Max = rag.SizeLimit{Value: c.Max, Unit: rag.SizeUnit(c.Unit), Type: rag.LimitTypeHard}
	sc.TokensPerChar = float64(c.TpcNum) / float64(int(1)<<c.TpcExp)
	sc.SplitAtSemanticBoundaries = c.Sem
	return sc
}

func cfgField(c sizeCfg) string {
	sem := 0
	if c.Sem {
		sem = 1
	}
	return fmt.Sprintf("%d:%d:%d/%d:%d", c.Unit, c.Max, c.TpcNum, 1<<c.TpcExp, sem)
}

func hexPieces(ps []string) string { return "[" + hx.HexList(ps) + "]" }

// pieceSize is the size of a piece in the unit of the hard maximum, as the
// configuration documents it: characters = bytes, tokens = floor(bytes*ratio).
func pieceSize(c sizeCfg, p string) int {
	if c.Unit == 1 {
		return len(p) * c.TpcNum >> c.TpcExp
	}
	return len(p)
}

type splitCase struct {
	Kind  string   `json:"kind"`
	Text  string   `json:"text,omitempty"`  // hex
	Paras []string `json:"paras,omitempty"` // hex
	Cfg   sizeCfg  `json:"cfg"`
}

// pieceOracles: conservation, UTF-8 integrity, size bound.
func pieceOracles(c *hx.Ctx, api string, kase interface{}, cfg sizeCfg, source string, pieces []string) {
	want := nonSpace(source)
	var got []rune
	for _, p := range pieces {
		got = append(got, nonSpace(p)...)
	}
	c.Check("C13/conserves-nonspace", runesEq(want, got), kase, func() string {
		return api + ": non-whitespace characters of the pieces differ from the text: " + firstDiff(want, got)
	})
	if utf8.ValidString(source) {
		for i, p := range pieces {
			if !c.Check("C13/utf8-piece", utf8.ValidString(p), kase, func() string {
				return fmt.Sprintf("%s: piece %d of %d is not valid UTF-8 although the text is: %s", api, i, len(pieces), short(p))
			}) {
				break
			}
		}
	}
	if (cfg.Unit == 0 || cfg.Unit == 1) && cfg.Max >= 200 && cfg.TpcNum > 0 && spacedEvery50(source) {
		for i, p := range pieces {
			sz := pieceSize(cfg, p)
			if !c.Check("C13/size-bound", sz <= cfg.Max, kase, func() string {
				return fmt.Sprintf("%s: piece %d has size %d (%d bytes) > hard max %d (unit %d) although the text has a space every 50 bytes", api, i, sz, len(p), cfg.Max, cfg.Unit)
			}) {
				break
			}
		}
		c.Count("size-bound-checked")
	}
}

// runSplit: API 1. Returns false when the run must stop (a call did not return).
func runSplit(c *hx.Ctx, text string, cfg sizeCfg) bool {
	kase := splitCase{Kind: "split", Text: hx.HexS(text), Cfg: cfg}
	var pieces, again []string
	p, to := withDeadline(func() {
		sc := rag.NewSizeCalculatorWithConfig(toRag(cfg))
		pieces = sc.SplitToSize(text, nil)
		if len(text) < 600 { // the calculator carries no state from call to call
			sc.SplitToSize(text+" more words. And more", nil)
			again = sc.SplitToSize(text, nil)
		} else {
			again = pieces
		}
	})
	if !c.Check("C13/terminates", !to, kase, func() string {
		return fmt.Sprintf("SplitToSize did not return within %v on %s", deadline, short(text))
	}) {
		return false
	}
	op := "c13.split " + cfgField(cfg) + " " + hx.HexS(text)
	if !c.Check("C13/panic", p == "", kase, func() string { return "SplitToSize panicked: " + p }) {
		c.Op(op, "panic")
		return true
	}
	c.Op(op, hexPieces(pieces))
	c.Check("C13/split-repeatable", strings.Join(pieces, "\x00") == strings.Join(again, "\x00"), kase, func() string {
		return "a second SplitToSize call on the same calculator returned different pieces"
	})
	pieceOracles(c, "SplitToSize", kase, cfg, text, pieces)
	for i, pc := range pieces {
		if !c.Check("C13/empty-piece", pc != "", kase, func() string {
			return fmt.Sprintf("SplitToSize: piece %d of %d is the empty string (text %s)", i, len(pieces), short(text))
		}) {
			break
		}
	}
	c.Count(fmt.Sprintf("split-pieces=%s", bucket(len(pieces))))
	return true
}

func bucket(n int) string {
	switch {
	case n <= 1:
		return fmt.Sprint(n)
	case n <= 4:
		return "2-4"
	case n <= 20:
		return "5-20"
	}
	return ">20"
}

func paraDoc(paras []string) *model.Document {
	doc := model.NewDocument()
	page := model.NewPage(612, 792)
	for _, p := range paras {
		page.AddElement(&model.Paragraph{Text: p})
	}
	doc.AddPage(page)
	return doc
}

// runDoc: API 2.
func runDoc(c *hx.Ctx, paras []string, cfg sizeCfg) bool {
	kase := splitCase{Kind: "doc", Paras: hexAll(paras), Cfg: cfg}
	var texts []string
	p, to := withDeadline(func() {
		col := rag.ChunkDocumentWithConfig(paraDoc(paras), rag.DefaultChunkerConfig(), toRag(cfg))
		for _, ch := range col.Chunks {
			texts = append(texts, ch.Text)
		}
	})
	if !c.Check("C13/terminates", !to, kase, func() string {
		return fmt.Sprintf("ChunkDocumentWithConfig did not return within %v", deadline)
	}) {
		return false
	}
	op := "c13.doc " + cfgField(cfg) + " " + hx.HexList(paras)
	if !c.Check("C13/panic", p == "", kase, func() string { return "ChunkDocumentWithConfig panicked: " + p }) {
		c.Op(op, "panic")
		return true
	}
	c.Op(op, hexPieces(texts))
	pieceOracles(c, "ChunkDocumentWithConfig", kase, cfg, strings.Join(paras, "\n\n"), texts)
	return true
}

func hexAll(xs []string) []string {
	ys := make([]string, len(xs))
	for i, x := range xs {
		ys[i] = hx.HexS(x)
	}
	return ys
}

func unhexAll(xs []interface{}) []string {
	var ys []string
	for _, x := range xs {
		ys = append(ys, unhex(fmt.Sprint(x)))
	}
	return ys
}

func unhex(s string) string {
	if s == "-" {
		return ""
	}
	b, _ := hex.DecodeString(s)
	return string(b)
}

// ---- overlap ------------------------------------------------------------------------

type ovlCfg struct {
	Strategy int  `json:"strategy"` // rag.OverlapStrategy: 0 none, 1 character, 2 sentence, 3 paragraph
	Size     int  `json:"size"`
	Min      int  `json:"min"`
	Max      int  `json:"max"`
	Words    bool `json:"words"`
	Ctx      bool `json:"ctx"`
}

type ovlCase struct {
	Kind   string   `json:"kind"`
	Cfg    ovlCfg   `json:"ocfg"`
	Chunks []string `json:"chunks"` // hex
	Titles []string `json:"titles"` // hex
	// cwo only
	OverlapSize int  `json:"overlap_size,omitempty"`
	Sentences   bool `json:"sentences,omitempty"`
	MaxChunk    int  `json:"max_chunk,omitempty"`
}

func b01(b bool) int {
	if b {
		return 1
	}
	return 0
}

// classTable: unicode.IsUpper/IsLetter/IsDigit/IsSpace/IsLower/ToLower of every
// non-ASCII character of the texts (stdlib tables are a parameter of the model).
func classTable(texts []string) string {
	seen := map[rune]bool{}
	var out []string
	for _, t := range texts {
		for _, r := range t { // invalid bytes range as U+FFFD, exactly as []rune(text) does
			if r < 0x80 || seen[r] {
				continue
			}
			seen[r] = true
			f := 0
			if unicode.IsUpper(r) {
				f |= 1
			}
			if unicode.IsLetter(r) {
				f |= 2
			}
			if unicode.IsDigit(r) {
				f |= 4
			}
			if unicode.IsSpace(r) {
				f |= 8
			}
			if unicode.IsLower(r) {
				f |= 16
			}
			out = append(out, fmt.Sprintf("%d.%d.%d", r, f, unicode.ToLower(r)))
		}
	}
	if len(out) == 0 {
		return "-"
	}
	return strings.Join(out, ",")
}

type ovlOut struct {
	Prefix string
	Has    bool
	Text   string
}

func dumpOvl(rs []ovlOut) string {
	xs := make([]string, len(rs))
	for i, r := range rs {
		xs[i] = fmt.Sprintf("%d/%s/%s", b01(r.Has), hx.HexS(r.Prefix), hx.HexS(r.Text))
	}
	return "[" + strings.Join(xs, ",") + "]"
}

// overlapOracles: own = each chunk's own content (before overlap), titles = its
// section title, res = what the implementation returned. maxOverlap/size are the
// configured bounds.
func overlapOracles(c *hx.Ctx, api string, kase interface{}, strategy int, size, maxOverlap int, ctx bool, own, titles []string, res []ovlOut) {
	if !c.Check("C13/overlap-count", len(res) == len(own), kase, func() string {
		return fmt.Sprintf("%s: %d chunks in, %d out", api, len(own), len(res))
	}) {
		return
	}
	for i, r := range res {
		if !r.Has {
			c.Check("C13/overlap-own-content", r.Text == own[i] && r.Prefix == "", kase, func() string {
				return fmt.Sprintf("%s: chunk %d has no overlap but its text changed: %s vs %s", api, i, short(r.Text), short(own[i]))
			})
			continue
		}
		c.Count("overlap-applied")
		if ctx && i > 0 && titles[i] != "" && strings.Contains(titles[i], r.Prefix) {
			c.Count("overlap-applied-that-occurs-in-the-section-title") // distribution only
		}
		head := ""
		if ctx && titles[i] != "" {
			head = "[" + titles[i] + "]\n\n"
		}
		c.Check("C13/overlap-own-content", i > 0 && r.Text == head+r.Prefix+"\n\n"+own[i], kase, func() string {
			return fmt.Sprintf("%s: chunk %d text is not <overlap>\\n\\n<own content>: %s", api, i, short(r.Text))
		})
		if i == 0 {
			continue
		}
		prev := own[i-1]
		c.Check("C13/overlap-suffix", isSuffix(nonSpace(r.Prefix), nonSpace(prev)), kase, func() string {
			return fmt.Sprintf("%s: overlap of chunk %d %s is not a suffix of the previous chunk's own content %s", api, i, short(r.Prefix), short(tail(prev, 80)))
		})
		if utf8.ValidString(prev) {
			c.Check("C13/overlap-utf8", utf8.ValidString(r.Prefix), kase, func() string {
				return fmt.Sprintf("%s: overlap of chunk %d is not valid UTF-8: %s (previous chunk ends %s)", api, i, short(r.Prefix), short(tail(prev, 40)))
			})
		}
		bound := maxOverlap
		if strategy == 1 && size < bound {
			bound = size
		}
		c.Check("C13/overlap-bounds", len(r.Prefix) <= bound, kase, func() string {
			return fmt.Sprintf("%s: overlap of chunk %d has %d bytes > configured bound %d (strategy %d size %d max %d)", api, i, len(r.Prefix), bound, strategy, size, maxOverlap)
		})
	}
}

func tail(s string, n int) string {
	if len(s) > n {
		return s[len(s)-n:]
	}
	return s
}

// runOvl: rag.ApplyOverlapToChunks on base chunks with the given texts.
func runOvl(c *hx.Ctx, cfg ovlCfg, texts, titles []string) bool {
	kase := ovlCase{Kind: "ovl", Cfg: cfg, Chunks: hexAll(texts), Titles: hexAll(titles)}
	var res []ovlOut
	var outs []*rag.ChunkWithOverlap
	p, to := withDeadline(func() {
		chunks := make([]*rag.Chunk, len(texts))
		for i, t := range texts {
			chunks[i] = rag.NewChunk(fmt.Sprintf("c%d", i), t, rag.ChunkMetadata{SectionTitle: titles[i]})
		}
		out := rag.ApplyOverlapToChunks(chunks, rag.OverlapConfig{Strategy: rag.OverlapStrategy(cfg.Strategy), Size: cfg.Size,
			MinOverlap: cfg.Min, MaxOverlap: cfg.Max, PreserveWords: cfg.Words, IncludeHeadingContext: cfg.Ctx})
		for _, o := range out {
			res = append(res, ovlOut{o.OverlapPrefix, o.HasOverlapPrefix, o.Text})
		}
		outs = out
	})
	if !c.Check("C13/terminates", !to, kase, func() string { return "ApplyOverlapToChunks did not return" }) {
		return false
	}
	op := fmt.Sprintf("c13.ovl %d:%d:%d:%d:%d:%d %s %s %s", cfg.Strategy, cfg.Size, cfg.Min, cfg.Max, b01(cfg.Words), b01(cfg.Ctx),
		classTable(texts), hx.HexList(titles), hx.HexList(texts))
	if !c.Check("C13/panic", p == "", kase, func() string { return "ApplyOverlapToChunks panicked: " + p }) {
		c.Op(op, "panic")
		return true
	}
	c.Op(op, dumpOvl(res))
	overlapOracles(c, "ApplyOverlapToChunks", kase, cfg.Strategy, cfg.Size, cfg.Max, cfg.Ctx, texts, titles, res)
	// round 6: what a caller reads back from the returned chunks (GetOriginalText, OverlapSuffix, counters)
	total := 0
	for _, t := range texts {
		total += len(t)
	}
	if len(outs) == len(texts) && total <= 20000 { // the buffer-sized texts of large.go would only repeat 0.5 MB op lines
		var dump string
		if pp := hx.Safe(func() { dump = originalOracles(c, kase, cfg.Ctx, texts, titles, outs) }); pp != "" {
			c.Check("C13/panic", false, kase, func() string { return "GetOriginalText panicked: " + pp })
			dump = "panic"
		}
		c.Op("c13.orig"+strings.TrimPrefix(op, "c13.ovl"), dump)
	}
	c.Count(fmt.Sprintf("ovl-strategy=%d", cfg.Strategy))
	return true
}

func layoutDoc(paras []string) *model.Document {
	doc := model.NewDocument()
	page := model.NewPage(612, 792)
	lay := &model.PageLayout{}
	for i, p := range paras {
		lay.Paragraphs = append(lay.Paragraphs, model.ParagraphInfo{Index: i, Text: p})
	}
	page.Layout = lay
	doc.AddPage(page)
	return doc
}

// runCwo: API 3. The base chunks come from Chunker.Chunk on an identical document.
func runCwo(c *hx.Ctx, paras []string, overlapSize int, sentences bool, maxChunk int, ctx bool) bool {
	kase := ovlCase{Kind: "cwo", Chunks: hexAll(paras), OverlapSize: overlapSize, Sentences: sentences, MaxChunk: maxChunk, Cfg: ovlCfg{Ctx: ctx}}
	cc := rag.DefaultChunkerConfig()
	cc.MaxChunkSize = maxChunk
	cc.TargetChunkSize = maxChunk / 2
	cc.MinChunkSize = maxChunk / 10
	cc.OverlapSize = overlapSize
	cc.OverlapSentences = sentences
	cc.IncludeSectionContext = ctx
	var own, titles, levels []string
	var res, res2 []ovlOut
	p, to := withDeadline(func() {
		base, err := rag.NewChunkerWithConfig(cc).Chunk(layoutDoc(paras))
		if err != nil {
			panic(err)
		}
		for _, ch := range base.Chunks {
			own = append(own, ch.Text)
			titles = append(titles, ch.Metadata.SectionTitle)
			levels = append(levels, ch.Metadata.Level.String())
		}
		chunker, doc := rag.NewChunkerWithConfig(cc), layoutDoc(paras)
		out, err := chunker.ChunkWithOverlapEnabled(doc)
		if err != nil {
			panic(err)
		}
		for _, o := range out.Chunks {
			res = append(res, ovlOut{o.OverlapPrefix, o.HasOverlapPrefix, o.Text})
		}
		// same chunker, same document, second call: the overlap written into the
		// chunks of the first call must not leak into the second
		out2, err := chunker.ChunkWithOverlapEnabled(doc)
		if err != nil {
			panic(err)
		}
		for _, o := range out2.Chunks {
			res2 = append(res2, ovlOut{o.OverlapPrefix, o.HasOverlapPrefix, o.Text})
		}
	})
	if !c.Check("C13/terminates", !to, kase, func() string { return "ChunkWithOverlapEnabled did not return" }) {
		return false
	}
	if !c.Check("C13/panic", p == "", kase, func() string { return "ChunkWithOverlapEnabled panicked: " + p }) {
		return true
	}
	c.Check("C13/cwo-repeatable", dumpOvl(res) == dumpOvl(res2), kase, func() string {
		return "a second ChunkWithOverlapEnabled call on the same chunker and document returned different chunks"
	})
	if len(own) > 0 {
		c.Op(fmt.Sprintf("c13.cwo %d:%d:%d %s %s %s", overlapSize, b01(sentences), b01(ctx), classTable(own), hx.HexList(titles), hx.HexList(own)), dumpOvl(res))
	}
	// deepening round: the base chunks and the whole call from the paragraphs (model of
	// Chunker.Chunk's paragraph and sentence packing, Model/Sentences.lean)
	if len(paras) > 0 {
		c.Op(fmt.Sprintf("c13.chunk %d:%d %s %s", cc.MaxChunkSize, cc.MinChunkSize, classTable(paras), hx.HexList(paras)), hexPieces(own))
		c.Op(fmt.Sprintf("c13.cwe %d:%d:%d:%d:%d %s %s", cc.MaxChunkSize, cc.MinChunkSize, overlapSize, b01(sentences), b01(ctx), classTable(paras), hx.HexList(paras)), dumpOvl(res))
		for _, t := range titles {
			c.Check("C13/cwo-title-empty", t == "", kase, func() string { return "a paragraph document produced a section title: " + short(t) })
		}
	}
	// conservation of the base chunks (sentence packing of oversized paragraphs)
	want := nonSpace(strings.Join(paras, "\n\n"))
	var got []rune
	for _, t := range own {
		got = append(got, nonSpace(t)...)
	}
	c.Check("C13/conserves-nonspace", runesEq(want, got), kase, func() string {
		return "Chunker.Chunk: non-whitespace characters of the chunks differ from the paragraphs: " + firstDiff(want, got)
	})
	valid := true
	for _, p := range paras {
		valid = valid && utf8.ValidString(p)
	}
	if valid {
		for i, t := range own {
			c.Check("C13/utf8-piece", utf8.ValidString(t), kase, func() string {
				return fmt.Sprintf("Chunker.Chunk: chunk %d is not valid UTF-8: %s", i, short(t))
			})
		}
	}
	// MaxChunkSize: honoured whenever no paragraph is blank and every sentence of an
	// oversized paragraph fits (the documented last resort is "split at sentence
	// boundaries"; a sentence is never cut)
	fits := valid
	for _, p := range paras {
		if strings.TrimSpace(p) == "" {
			fits = false
		}
		if len(p) > maxChunk {
			for _, s := range rag.VerifSplitIntoSentences(p) {
				if len(s) > maxChunk {
					fits = false
				}
			}
		}
	}
	if fits {
		for i, t := range own {
			c.Check("C13/chunk-max-size", len(t) <= maxChunk, kase, func() string {
				return fmt.Sprintf("Chunker.Chunk: chunk %d has %d bytes > MaxChunkSize %d although every sentence fits and no paragraph is blank", i, len(t), maxChunk)
			})
		}
		c.Count("chunk-max-size-checked")
	}
	strategy := 0
	size := overlapSize
	if overlapSize > 0 {
		strategy = 1
		if sentences {
			strategy = 2
		}
	}
	overlapOracles(c, "ChunkWithOverlapEnabled", kase, strategy, size, overlapSize*3, ctx, own, titles, res)
	c.Count(fmt.Sprintf("cwo-chunks=%s", bucket(len(own))))
	for _, l := range levels {
		c.Count("cwo-chunk-level=" + l)
	}
	return true
}

// ---- generation ---------------------------------------------------------------------

func genSplitCase(r *hx.Rng) (string, sizeCfg, string) {
	cfg := genSizeCfg(r)
	kind := hx.Pick(r, textKinds)
	target := bytesAtLimit(cfg)
	if target > 6000 {
		target = 6000
	}
	var n int
	switch r.Intn(5) {
	case 0:
		n = r.Range(0, target+2) // around / below the limit
	case 1:
		n = target + r.Range(-3, 3)
	case 2:
		if target < 150 {
			n = r.Range(8*target, 30*target+100) // many pieces
			if n > 3000 {
				n = 3000
			}
		} else {
			n = r.Range(target, 4*target+40)
		}
	default:
		n = r.Range(target, 4*target+40)
	}
	if n < 0 {
		n = 0
	}
	if n > 9000 {
		n = 9000
	}
	return genText(r, kind, n), cfg, kind
}

// boundCase: the region of the size bound: characters/tokens, limit >= 200, a
// space every 50 bytes.
func genBoundCase(r *hx.Rng) (string, sizeCfg) {
	cfg := genSizeCfg(r)
	cfg.Unit = r.Intn(2)
	if cfg.Max < 200 {
		cfg.Max = r.Range(200, 900)
	}
	target := bytesAtLimit(cfg)
	text := genSpaced(r, r.Range(target, 3*target+50), r.Intn(6))
	// put sentence ends and spaces exactly around the limit position sometimes
	if r.Chance(1, 2) && len(text) > target+2 {
		b := []byte(text)
		pos := target + r.Range(-2, 2)
		if pos > 1 && pos+1 < len(b) && b[pos] < 0x80 && b[pos+1] < 0x80 && b[pos-1] < 0x80 && (pos+2 >= len(b) || b[pos+2] < 0x80) {
			b[pos] = hx.Pick(r, []byte{'.', '!', '?', ' '})
			b[pos+1] = hx.Pick(r, []byte{' ', '\n'})
			if spacedEvery50(string(b)) {
				text = string(b)
			}
		}
	}
	if r.Chance(1, 4) {
		text = text[:len(text)-1] // no trailing space
	}
	return text, cfg
}

var ovlKinds = []string{"ascii", "spaced", "cjk", "emoji", "combining", "latin-mixed", "mixed", "longtoken"}

func genChunkTexts(r *hx.Rng) []string {
	n := r.Range(1, 5)
	var out []string
	for i := 0; i < n; i++ {
		t := genText(r, hx.Pick(r, ovlKinds), r.Range(0, 400))
		if r.Chance(1, 2) {
			t = strings.TrimSpace(t)
		}
		out = append(out, t)
	}
	return out
}

func genOvlCfg(r *hx.Rng) ovlCfg {
	cfg := ovlCfg{Strategy: r.Intn(4), Words: r.Chance(3, 4), Ctx: r.Chance(1, 4)}
	switch cfg.Strategy {
	case 1:
		cfg.Size = hx.Pick(r, []int{1, 2, 3, 5, 10, 20, 50, 100, 200, 500})
	default:
		cfg.Size = r.Range(0, 4)
	}
	cfg.Min = hx.Pick(r, []int{0, 5, 20, 50})
	cfg.Max = hx.Pick(r, []int{1, 3, 10, 30, 60, 150, 500})
	return cfg
}

func init() { hx.Register("C13", Run, Replay) }

func Run(c *hx.Ctx) {
	c.Rep.Rule = "split: texts of 11 kinds (ASCII prose, spaced prose with a space every 50 bytes, CJK without spaces, emoji/ZWJ, combining sequences, long tokens, whitespace only, mixed, Latin-1 mixed, invalid UTF-8, whitespace-edged) x 5 units x limits 1..4000 x dyadic tokens-per-char, length 0..4x the limit; bound: characters/tokens, limit >= 200, generated with a space every 50 bytes and sentence ends placed at the limit; sweep: for hard maxima in characters and tokens (>= 1 token per byte, thorough also < 1), prose with a space every 50 bytes (4 backgrounds: short words, 30-45 byte words, competing punctuation, multi-byte words) in which each kind of break opportunity (sentence end + space, sentence end + closing quote/bracket + space, sentence end + line/paragraph break, clause punctuation, bare newline, paragraph break, plain space, punctuation without whitespace) starts at EVERY byte offset limit-60..limit+3 of the text (first piece) and at every absolute offset that can be limit-60..limit+3 of the remainder after one (thorough: two) pieces, one in eight also through ChunkDocumentWithConfig; doc: 1-3 paragraphs through ChunkDocumentWithConfig; ovl: 1-5 chunk texts x 4 strategies x sizes through ApplyOverlapToChunks; cwo: paragraph documents through ChunkWithOverlapEnabled (character and sentence overlap); non-trivial = more than one piece / at least one overlap applied; deepening round: splitb = SplitToSize with 0-30 caller-supplied boundaries (positions around the byte position of the limit and its multiples, at the edges of the +-25% window, negative, beyond the text; scores of the boundary types and negative ones); fsp = FindSplitPointAt/FindSplitPoint at the maximum or another limit of any unit, with and without boundaries; size = Calculate on every text kind; preset = every preset constructor; docp = ChunkDocumentWithConfig on 1-4 pages (empty pages included, one in six with the default configuration and rag.ChunkDocument); nonspace = the specification function of the conservation theorems on every text kind (invalid UTF-8 included); sent = splitIntoSentences on sentence material (abbreviations, initials, capitals and lower case around the punctuation, characters whose last byte is 0x85/0xA0 before a capital, non-ASCII case) and on every text kind; chunk/cwe = Chunker.Chunk and ChunkWithOverlapEnabled from the paragraphs (blank paragraphs, orphans below MinChunkSize, oversized paragraphs of sentence material), each call repeated on the same chunker; strengthening round 4 (large): one physical line / token / sentence / paragraph of 6 flavours (ordinary sentences, unpunctuated words, one long token, CJK, Latin-1 prose, sentence material) with a length just below, at, just above and up to 2x beyond 4096 and 65536 bytes (thorough: 262144), as the only, first, middle or last paragraph of a chunk or as one line of a multi-line paragraph, enumerated x overlap strategy (character, sentence, paragraph) through ApplyOverlapToChunks; the same texts x 5 units through SplitToSize / ChunkDocumentWithConfig, through splitIntoSentences and through Chunk / ChunkWithOverlapEnabled (paragraph packed by sentences and kept whole); strengthening round 5 (titles): 3-6 chunks that are mostly shorter than the overlap (a heading word, a phrase, one or two sentences, one-line paragraphs) whose section titles echo the text around them (a tail of the previous chunk's own content from one of its last word starts or all of it, the head of the chunk's own content, the previous chunk being nothing but the coming title = running line / TOC entry; bare, numbered, suffixed, bracketed; titles containing brackets and blank lines) x every overlap strategy with section context mostly on through ApplyOverlapToChunks; the same as documents of 3-6 pages with one heading each (levels 1-3, optional preamble page) through Chunk / ChunkWithOverlapEnabled, one quarter with the Chunker's default configuration (non-trivial = overlap enabled with section context); round 6: detect = DetectBoundaries on 0-14 content blocks (paragraphs of sentence material - abbreviations, initials, decimals, capitals of one and two bytes behind the full stop -, prose of every script, invalid UTF-8; headings, lists, tables, figures, captions, unknown elements; paragraphs that introduce a list by one of the four patterns, followed by a list or not); splitd = SplitToSize(blocks joined by blank lines, DetectBoundaries(blocks)) x all units and limits, half of them with character/token limits of 8-250 at which a paragraph is split many times, plus sentence ends followed by 1-2 bytes of white space (ASCII, ideographic space) and a two-byte capital at every limit 5..40; best/look = FindBestBoundary / FindBoundaryWithLookAhead on generated boundaries with windows around them (negative lower bound included); orphan = WouldCreateOrphan / AdjustForOrphans with boundaries around the position, positions and boundaries beyond the text (the code panics; the model says so); orig = GetOriginalText, GetOverlapText, OverlapSuffix/HasOverlapSuffix and the rewritten counters of every chunk of every ApplyOverlapToChunks call above (incl. the echoing titles of round 5, where the title repeats the overlap); gen = GenerateOverlap directly on one chunk text (every text kind, sentence material, invalid UTF-8) x 4 strategies, with the suffix clause read as runes on every input; content = the specification function of the all-bytes overlap theorems (non-whitespace characters of string([]rune(text))) on every text kind; conv = ConvertSize on 15 values x 25 unit pairs; defovl = DefaultOverlapConfig"
	// hand-picked edge cases first
	for _, e := range edgeCases() {
		if !runSplit(c, e.text, e.cfg) {
			return
		}
		c.Case("edge:"+e.text+cfgField(e.cfg), true)
	}
	for _, e := range edgeOverlapCases() {
		titles := make([]string, len(e.texts))
		if !runOvl(c, e.cfg, e.texts, titles) {
			return
		}
		c.Case(fmt.Sprintf("edge-o%v%v", e.cfg, e.texts), true)
	}
	// "a.B.": a capital letter right after a sentence end inside an oversized paragraph
	if !runCwo(c, []string{"This is a long paragraph of text.B. And more words follow here to exceed sixty bytes."}, 10, true, 60, false) {
		return
	}
	n := c.N(1500, 40000)
	for i := 0; i < n; i++ {
		r := c.Rng.Fork(uint64(i))
		text, cfg, kind := genSplitCase(r)
		if !runSplit(c, text, cfg) {
			return
		}
		c.Count("text=" + kind)
		c.Count(fmt.Sprintf("unit=%d", cfg.Unit))
		c.Case("s"+cfgField(cfg)+text, len(text) > bytesAtLimit(cfg))
	}
	n = c.N(1000, 25000)
	for i := 0; i < n; i++ {
		r := c.Rng.Fork(uint64(1<<20 + i))
		text, cfg := genBoundCase(r)
		if !runSplit(c, text, cfg) {
			return
		}
		c.Count("text=bound")
		c.Case("b"+cfgField(cfg)+text, true)
	}
	// alignment sweeps: every kind of break opportunity at every offset around the limit
	if !runSweeps(c) {
		return
	}
	n = c.N(400, 8000)
	for i := 0; i < n; i++ {
		r := c.Rng.Fork(uint64(2<<20 + i))
		var paras []string
		var cfg sizeCfg
		if r.Bool() {
			t, cf := genBoundCase(r)
			paras, cfg = []string{t}, cf
		} else {
			t, cf, _ := genSplitCase(r)
			paras, cfg = []string{t}, cf
		}
		for k := r.Intn(3); k > 0; k-- {
			paras = append(paras, genText(r, hx.Pick(r, textKinds), r.Range(0, 300)))
		}
		if !runDoc(c, paras, cfg) {
			return
		}
		c.Case("d"+cfgField(cfg)+strings.Join(paras, "|"), true)
	}
	n = c.N(1000, 20000)
	for i := 0; i < n; i++ {
		r := c.Rng.Fork(uint64(3<<20 + i))
		cfg := genOvlCfg(r)
		texts := genChunkTexts(r)
		titles := make([]string, len(texts))
		for j := range titles {
			if r.Chance(1, 2) {
				titles[j] = hx.Pick(r, []string{"Intro", "第一章", "A.1 Scope"})
			}
		}
		if !runOvl(c, cfg, texts, titles) {
			return
		}
		c.Case(fmt.Sprintf("o%v%v", cfg, texts), cfg.Strategy != 0 && len(texts) > 1)
	}
	n = c.N(500, 10000)
	for i := 0; i < n; i++ {
		r := c.Rng.Fork(uint64(4<<20 + i))
		maxChunk := hx.Pick(r, []int{60, 120, 200, 400, 1000})
		np := r.Range(1, 6)
		var paras []string
		for k := 0; k < np; k++ {
			paras = append(paras, genText(r, hx.Pick(r, ovlKinds), r.Range(1, 2*maxChunk)))
		}
		overlapSize := hx.Pick(r, []int{0, 1, 2, 5, 10, 11, 30, 100})
		if !runCwo(c, paras, overlapSize, r.Bool(), maxChunk, r.Chance(1, 4)) {
			return
		}
		c.Case(fmt.Sprintf("w%d%v", overlapSize, paras), overlapSize > 0)
	}
	// deepening round: entry points, boundaries, presets (api.go)
	if !runApi(c) {
		return
	}
	// deepening round: sentence splitting and packing, Chunk / ChunkWithOverlapEnabled end to end (sentences.go)
	if !runSentences(c) {
		return
	}
	// strengthening round 4: lines, tokens, sentences, paragraphs and texts at the scale
	// of fixed-size buffers (4 KiB, 64 KiB), every overlap strategy and splitting API (large.go)
	if !runLarge(c) {
		return
	}
	// strengthening round 5: section titles that echo the text around them, runs of chunks
	// shorter than the overlap, documents with headings (titles.go)
	if !runTitles(c) {
		return
	}
	// round 6: boundary detection composed with SplitToSize, boundary selection, orphan
	// adjustment, GenerateOverlap's whole result, conversions (round6.go)
	if !runRound6(c) {
		return
	}
}

type edge struct {
	text string
	cfg  sizeCfg
}

func edgeCases() []edge {
	ch := func(max int) sizeCfg { return sizeCfg{Unit: 0, Max: max, TpcNum: 1, TpcExp: 2, Sem: true} }
	tk := func(max, num int, exp uint) sizeCfg {
		return sizeCfg{Unit: 1, Max: max, TpcNum: num, TpcExp: exp, Sem: true}
	}
	jp := strings.Repeat("日本語の文章は空白を含まない。", 40)
	w := strings.Repeat("word ", 100)
	return []edge{
		{"", ch(10)}, {" ", ch(1)}, {"a", ch(1)}, {"ab", ch(1)}, {"日", ch(1)}, {"日本", ch(1)}, {"日本", ch(2)}, {"日本語", ch(4)},
		{jp, ch(200)}, {jp, ch(50)}, {jp, ch(1)}, {jp, tk(50, 1, 2)}, {jp, tk(1, 1, 2)},
		{w, ch(200)}, {w, ch(7)}, {w, tk(200, 1, 2)}, {w, tk(200, 4, 0)},
		{strings.Repeat("x", 199) + " ." + " tail words here", ch(200)},
		{strings.Repeat("word ", 39) + "abcd. " + w, ch(200)}, // '.' exactly at index 200
		{strings.Repeat("word ", 40) + " ", ch(200)},          // trailing space at index 200
		{strings.Repeat("word ", 38) + "worda. tail. " + w, ch(200)},
		{strings.Repeat("\u3000 \n", 30), ch(5)},
		{"👨‍👩‍👧‍👦👨‍👩‍👧‍👦👨‍👩‍👧‍👦", ch(5)},
		{strings.Repeat("é", 300), ch(201)},
		{w, sizeCfg{Unit: 2, Max: 10, TpcNum: 1, TpcExp: 2}}, {w, sizeCfg{Unit: 3, Max: 1, TpcNum: 1, TpcExp: 2}},
		{strings.Repeat("Para one.\n\n", 50), sizeCfg{Unit: 4, Max: 1, TpcNum: 1, TpcExp: 2}},
		// tokens-per-char not positive: EstimateTokens documents the 0.25 default
		{w, tk(20, 0, 0)}, {w, tk(20, -1, 2)}, {jp, tk(200, 0, 0)},
	}
}

type ovlEdge struct {
	cfg   ovlCfg
	texts []string
}

func edgeOverlapCases() []ovlEdge {
	return []ovlEdge{
		// 堀 = E5 A0 80: the byte 0xA0 looks like NBSP when bytes are taken for runes
		{ovlCfg{Strategy: 1, Size: 7, Min: 0, Max: 100, Words: true}, []string{"xx堀yy zz", "next"}},
		{ovlCfg{Strategy: 1, Size: 4, Min: 0, Max: 100, Words: false}, []string{"日本語の文章", "next"}},
		// overlap of chunk 2 must come from chunk 1's own content
		{ovlCfg{Strategy: 2, Size: 2, Min: 0, Max: 500, Words: true}, []string{"First one. Second one.", "Tiny.", "Third chunk here."}},
		// truncation must keep the end of the overlap
		{ovlCfg{Strategy: 1, Size: 10, Min: 0, Max: 3, Words: true}, []string{"alpha boundary", "x"}},
		{ovlCfg{Strategy: 2, Size: 2, Min: 0, Max: 30, Words: true}, []string{"Short one. This second sentence is a good deal longer than thirty bytes.", "x"}},
		{ovlCfg{Strategy: 2, Size: 3, Min: 0, Max: 25, Words: true}, []string{"Alpha beta. Gamma delta. Epsilon zeta.", "x"}},
		{ovlCfg{Strategy: 3, Size: 1, Min: 0, Max: 7, Words: true}, []string{"para one\n\n日本語の文章です", "x"}},
	}
}

// Replay re-runs one recorded failing case on the implementation.
func Replay(c *hx.Ctx, k map[string]interface{}) {
	getCfg := func() sizeCfg {
		m, _ := k["cfg"].(map[string]interface{})
		f := func(n string) int { v, _ := m[n].(float64); return int(v) }
		sem, _ := m["sem"].(bool)
		return sizeCfg{Unit: f("unit"), Max: f("max"), TpcNum: f("tpc_num"), TpcExp: uint(f("tpc_exp")), Sem: sem}
	}
	list := func(n string) []string {
		xs, _ := k[n].([]interface{})
		return unhexAll(xs)
	}
	switch k["kind"] {
	case "split":
		runSplit(c, unhex(fmt.Sprint(k["text"])), getCfg())
	case "doc":
		runDoc(c, list("paras"), getCfg())
	case "splitb", "fsp", "size":
		replayApi(c, k, getCfg())
	case "detect", "splitd", "best", "look", "orphan", "gen":
		replayRound6(c, k)
	case "sent":
		runSent(c, unhex(fmt.Sprint(k["text"])))
	case "cwh":
		replayCwh(c, k)
	case "docp":
		var pages [][]string
		if xs, ok := k["pages"].([]interface{}); ok {
			for _, x := range xs {
				ys, _ := x.([]interface{})
				pages = append(pages, unhexAll(ys))
			}
		}
		runDocPages(c, pages, getCfg())
	case "ovl", "cwo":
		m, _ := k["ocfg"].(map[string]interface{})
		f := func(n string) int { v, _ := m[n].(float64); return int(v) }
		b := func(n string) bool { v, _ := m[n].(bool); return v }
		if k["kind"] == "ovl" {
			runOvl(c, ovlCfg{f("strategy"), f("size"), f("min"), f("max"), b("words"), b("ctx")}, list("chunks"), list("titles"))
		} else {
			os, _ := k["overlap_size"].(float64)
			mc, _ := k["max_chunk"].(float64)
			se, _ := k["sentences"].(bool)
			runCwo(c, list("chunks"), int(os), se, int(mc), b("ctx"))
		}
	}
}
