// Package c13 is the correspondence/oracle harness for property C13.
package c13

import "verifharness/hx"

func init() { hx.Register("C13", Run, Replay) }

// Run is not built yet for this property.
func Run(c *hx.Ctx) { c.Note("C13: harness not built") }

func Replay(c *hx.Ctx, kase map[string]interface{}) {}
