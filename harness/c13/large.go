package c13

// Strengthening round 4: texts at the SCALE where fixed-size internal buffers end.
//
// The property quantifies over all texts, "very long tokens" included; the other
// generators of this package stay below 10 kB, so a change that reads the text
// through a bounded buffer (a line reader with a 4 KiB buffer, a scanner with a
// 64 KiB token limit, a fixed-size scratch array) behaves exactly as before on all of
// them. Here one physical line / one token / one sentence / one paragraph / the whole
// text is placed just below, exactly at, just above and well beyond each such
// threshold, in every position of the chunk (only, first, middle, last paragraph; a
// line inside a multi-line paragraph), for every overlap strategy and for every
// splitting API. Structure is enumerated (so every seed covers every combination);
// the contents, the exact length and the remaining configuration are random.
//
// No new oracle: the cases go through runOvl / runSplit / runDoc / runCwo / runSent
// and their statement-level oracles and correspondence ops.

import (
	"fmt"
	"strings"
	"unicode/utf8"

	"verifharness/hx"
)

// largeThresholds: 4096 = bufio's default reader buffer, 65536 = bufio.Scanner's
// MaxScanTokenSize; thorough adds 256 KiB.
func largeThresholds(c *hx.Ctx) []int {
	if c.Thorough() {
		return []int{4096, 65536, 262144}
	}
	return []int{4096, 65536}
}

var largeFlavours = []string{"sentences", "words", "token", "cjk", "latin", "sentence-material"}

// genLargeLine: one physical line (no '\n', no other line terminator) of exactly n
// bytes when the flavour is ASCII, of n-3..n+3 bytes otherwise (characters are never cut:
// the line is valid UTF-8, as the overlap clauses of the property presuppose).
func genLargeLine(r *hx.Rng, flavour string, n int) string {
	var sb strings.Builder
	sb.Grow(n + 64)
	switch flavour {
	case "sentences": // ordinary prose: words, a full stop + space every few words
		k := 0
		for sb.Len() < n {
			w := hx.Pick(r, asciiWords)
			sb.WriteString(w)
			k++
			if k >= 4 && r.Chance(1, 5) {
				sb.WriteString(hx.Pick(r, []string{". ", ". ", "! ", "? "}))
				k = 0
			} else {
				sb.WriteByte(' ')
			}
		}
	case "words": // unpunctuated, unwrapped text
		for sb.Len() < n {
			sb.WriteString(hx.Pick(r, asciiWords))
			sb.WriteByte(' ')
		}
	case "token": // one very long token
		return strings.ReplaceAll(genLongToken(r, n), "\n", "x")
	case "cjk":
		return genCJK(r, n)
	case "latin":
		for sb.Len() < n {
			if r.Chance(1, 3) {
				sb.WriteString(hx.Pick(r, latinWords))
			} else {
				sb.WriteString(hx.Pick(r, asciiWords))
			}
			if r.Chance(1, 9) {
				sb.WriteString(". ")
			} else {
				sb.WriteByte(' ')
			}
		}
	default: // sentence-material: abbreviations, initials, capitals around the punctuation
		s := genSentenceText(r, n)
		return strings.Map(func(c rune) rune {
			switch c {
			case '\n', '\r', '\v', '\f', 0x85, 0x2028, 0x2029:
				return ' '
			}
			return c
		}, s)
	}
	s := sb.String()
	if len(s) > n { // exactly n bytes for ASCII; a multi-byte character is never cut (valid UTF-8 stays valid)
		k := n
		for k > 0 && !utf8.RuneStart(s[k]) {
			k--
		}
		s = s[:k]
	}
	if len(s) > 0 && s[len(s)-1] == ' ' {
		s = s[:len(s)-1] + "."
	}
	return s
}

// largeLen: a length around the threshold t. which selects the region so that the
// caller can enumerate them.
func largeLen(r *hx.Rng, t int, which int) int {
	switch which % 6 {
	case 0:
		return t + r.Range(1, 300) // just above
	case 1:
		return r.Range(t+300, 2*t+500) // well beyond
	case 2:
		return t + r.Range(-2, 2) // at
	case 3:
		return t + r.Range(2000, 9000)
	case 4:
		return t - r.Range(1, 200) // just below (control)
	default:
		return r.Range(t+1, t+t/2)
	}
}

func shortPara(r *hx.Rng) string {
	switch r.Intn(4) {
	case 0:
		return "Opening paragraph of the section that only introduces the topic."
	case 1:
		return strings.TrimSpace(strings.ReplaceAll(genProse(r, r.Range(10, 200), r.Intn(3)), "\n\n", " "))
	case 2:
		return strings.TrimSpace(genCJK(r, r.Range(10, 120)))
	default:
		// a short paragraph of two physical lines
		return strings.TrimSpace(genLargeLine(r, "sentences", r.Range(10, 90))) + "\n" + strings.TrimSpace(genLargeLine(r, "words", r.Range(10, 90)))
	}
}

var paraSeps = []string{"\n\n", "\n\n", "\n\n", "\n\n\n", "\n \n", "\n\t\n", "\r\n\r\n"}

// positions of the large paragraph within its chunk
const (
	posLast = iota
	posMiddle
	posFirst
	posOnly
	posInnerLine // the large line is one line of a multi-line last paragraph
	nPos
)

var posNames = []string{"last", "middle", "first", "only", "inner-line"}

// genLargeChunk: a chunk text of paragraphs separated by blank lines, one of which
// holds the large line.
func genLargeChunk(r *hx.Rng, flavour string, n, pos int) string {
	big := genLargeLine(r, flavour, n)
	sep := func() string { return hx.Pick(r, paraSeps) }
	switch pos {
	case posLast:
		s := shortPara(r) + sep()
		if r.Chance(1, 3) {
			s = shortPara(r) + sep() + s
		}
		return s + big
	case posMiddle:
		return shortPara(r) + sep() + big + sep() + shortPara(r)
	case posFirst:
		s := big + sep() + shortPara(r)
		if r.Chance(1, 3) {
			s += sep() + shortPara(r)
		}
		return s
	case posOnly:
		return big
	default:
		return shortPara(r) + sep() + strings.TrimSpace(genLargeLine(r, "sentences", r.Range(10, 90))) + "\n" + big + "\n" + strings.TrimSpace(genLargeLine(r, "words", r.Range(10, 90)))
	}
}

func genLargeOvlCfg(r *hx.Rng, strategy int) ovlCfg {
	cfg := ovlCfg{Strategy: strategy, Words: r.Chance(3, 4), Ctx: r.Chance(1, 4)}
	if strategy == 1 {
		cfg.Size = hx.Pick(r, []int{1, 10, 100, 500, 5000, 70000})
	} else {
		cfg.Size = r.Range(1, 3)
	}
	cfg.Min = hx.Pick(r, []int{0, 0, 20, 50})
	cfg.Max = hx.Pick(r, []int{10, 60, 500, 500, 5000, 100000, 300000})
	return cfg
}

// runLarge: every threshold x strategy x position through ApplyOverlapToChunks; every
// threshold x unit through SplitToSize / ChunkDocumentWithConfig; sentence splitter,
// Chunk and ChunkWithOverlapEnabled on paragraphs of that scale.
func runLarge(c *hx.Ctx) bool {
	idx := 0
	next := func() *hx.Rng { idx++; return c.Rng.Fork(uint64(13<<20 + idx)) }
	reps := c.N(1, 3)
	for _, t := range largeThresholds(c) {
		// overlap: all strategies (0 = none included once per position)
		for rep := 0; rep < reps; rep++ {
			for strategy := 1; strategy <= 3; strategy++ {
				for pos := 0; pos < nPos; pos++ {
					r := next()
					flavour := largeFlavours[(idx+rep)%len(largeFlavours)]
					n := largeLen(r, t, idx)
					if pos == posLast && rep == 0 {
						// the plainest member of the class, in every run: ordinary sentences on
						// one unwrapped line beyond the threshold, after a short paragraph
						flavour, n = "sentences", largeLen(r, t, 0)
					}
					cfg := genLargeOvlCfg(r, strategy)
					if r.Chance(1, 12) {
						cfg.Strategy = 0
					}
					big := genLargeChunk(r, flavour, n, pos)
					var texts []string
					switch r.Intn(3) {
					case 0:
						texts = []string{big, "The following chunk starts a new topic."}
					case 1:
						texts = []string{big, strings.TrimSpace(genText(r, hx.Pick(r, ovlKinds), r.Range(1, 300))), shortPara(r)}
					default:
						texts = []string{shortPara(r), big, strings.TrimSpace(genText(r, hx.Pick(r, ovlKinds), r.Range(1, 300)))}
					}
					titles := make([]string, len(texts))
					for j := range titles {
						if r.Chance(1, 3) {
							titles[j] = hx.Pick(r, []string{"Intro", "第一章", "A.1 Scope"})
						}
					}
					if !runOvl(c, cfg, texts, titles) {
						return false
					}
					c.Count(fmt.Sprintf("large-ovl threshold=%d", t))
					c.Count("large-ovl position=" + posNames[pos])
					c.Count("large-flavour=" + flavour)
					c.Case(fmt.Sprintf("lo%v%d%d%s", cfg, n, pos, flavour), cfg.Strategy != 0)
				}
			}
		}
		// splitting: every unit; limits chosen so that the number of pieces stays small
		for rep := 0; rep < reps; rep++ {
			for unit := 0; unit < 5; unit++ {
				r := next()
				flavour := largeFlavours[(idx+rep)%len(largeFlavours)]
				n := largeLen(r, t, idx)
				text := genLargeChunk(r, flavour, n, r.Intn(nPos))
				tp := hx.Pick(r, tpcChoices)
				cfg := sizeCfg{Unit: unit, TpcNum: tp[0], TpcExp: uint(tp[1]), Sem: r.Bool()}
				// a limit whose byte estimate is between 1/40 of the text and beyond it
				want := r.Range(len(text)/40+200, len(text)+len(text)/4)
				per := bytesAtLimit(sizeCfg{Unit: unit, Max: 1000, TpcNum: cfg.TpcNum, TpcExp: cfg.TpcExp})
				cfg.Max = want*1000/per + 1
				if r.Chance(1, 2) {
					if !runSplit(c, text, cfg) {
						return false
					}
				} else {
					if !runDoc(c, []string{shortPara(r), text}, cfg) {
						return false
					}
				}
				c.Count(fmt.Sprintf("large-split threshold=%d", t))
				c.Case(fmt.Sprintf("ls%s%d%s", cfgField(cfg), n, flavour), len(text) > bytesAtLimit(cfg))
			}
		}
		// sentence splitter and the chunker (sentence packing of an oversized paragraph;
		// a paragraph of that scale kept whole; character and sentence overlap from it)
		for rep := 0; rep < reps; rep++ {
			for k := 0; k < 4; k++ {
				r := next()
				flavour := hx.Pick(r, []string{"sentences", "sentence-material", "latin", "words"})
				n := largeLen(r, t, idx)
				line := genLargeLine(r, flavour, n)
				if k == 0 {
					if !runSent(c, line) {
						return false
					}
					c.Count(fmt.Sprintf("large-sent threshold=%d", t))
					c.Case("lse"+line, true)
					continue
				}
				maxChunk := []int{0, 1000, n / 3, 2*n + 1000}[k]
				if maxChunk < 400 {
					maxChunk = 400
				}
				paras := []string{shortPara(r), line, shortPara(r)}
				if r.Bool() {
					paras = paras[:2]
				}
				overlapSize := hx.Pick(r, []int{1, 10, 30, 100, 1000})
				if !runCwo(c, paras, overlapSize, k != 2 || r.Bool(), maxChunk, r.Chance(1, 4)) {
					return false
				}
				c.Count(fmt.Sprintf("large-cwo threshold=%d", t))
				c.Case(fmt.Sprintf("lw%d%d%d%s", overlapSize, maxChunk, n, flavour), true)
			}
		}
	}
	return true
}
