package c13

import (
	"fmt"
	"strings"

	"verifharness/hx"
)

// ---- alignment sweeps for the size bound -------------------------------------------
//
// The size bound of the property ("when the hard maximum is given in characters
// or estimated tokens and the text offers a break opportunity within it, no piece
// exceeds that maximum") is sensitive to where a break opportunity lies relative
// to the limit: a search that accepts a break one byte too far is wrong at ONE
// alignment only. Random prose hits a given alignment of a given kind of break
// with probability ~1/(limit*kinds). The sweep therefore places every kind of
// break opportunity at EVERY byte offset from limit-60 to limit+3 of the
// remaining text, for the first piece and (by sliding the absolute position over
// the range in which the second / third piece can end) for later pieces. The
// text around the placed break is prose with a space at least every 50 bytes, so
// the property's precondition holds for every generated text and the expected
// result (every piece <= hard maximum) comes from the property text alone.

type breakClass struct {
	name   string
	tokens []string
}

// A token is written directly after a word and directly before the next word.
// Every class but "no-break" ends in whitespace, i.e. is a break opportunity.
var breakClasses = []breakClass{
	// sentence end followed by a space
	{"sentence-space", []string{". ", "! ", "? ", "?! ", "... "}},
	// sentence end, closing quote / bracket, space (ASCII and typographic closers)
	{"sentence-closer-space", []string{".\" ", "?\" ", "!\" ", ".' ", "!' ", ".) ", "?) ", ".] ", "!] ", ".\") ", ".)\" ", ".” ", "?’ ", ".» ", "。」 "}},
	// sentence end (and closer) followed by a line or paragraph break
	{"sentence-newline", []string{".\n", "!\n", "?\n", ".\"\n", ".)\n", ".]\n", ".'\n", ".\n\n", ".\"\n\n", ".)\n\n"}},
	// clause punctuation
	{"clause", []string{"; ", ": ", ", ", ";\n", ",\" ", ":) ", " - ", " — "}},
	// bare line break
	{"newline", []string{"\n", "\r\n", " \n", "\n "}},
	// paragraph break
	{"paragraph", []string{"\n\n", "\n\n\n", "\n \n", "\r\n\r\n"}},
	// plain space(s)
	{"space", []string{" ", "  ", "\t ", " (", " \"", " ["}},
	// punctuation that is NOT a break opportunity (no whitespace follows): the
	// break opportunities are the spaces of the surrounding prose
	{"no-break", []string{".", ".\"", ".)", "?]", "!'", ".,", "。"}},
}

// backgrounds: the prose around the placed break.
//
//	short : ASCII words of 2..9 bytes (many plain-space opportunities)
//	long  : ASCII words of 30..45 bytes (the placed break is often the only one within reach)
//	punct : short words, every fifth one ends in . , ; ! ? : (competing opportunities of other kinds)
//	utf8  : short words of 1-, 2- and 3-byte characters (character boundaries next to the limit)
var sweepBackgrounds = []string{"short", "long", "punct", "utf8"}

const lower = "abcdefghijklmnopqrstuvwxyz"

var twoByte = []rune("éàüñöçøßåîλπжди")
var threeByte = []rune("日本語文章堀堅公園한국어ᅀ€√")

// sweepWord returns a word of exactly n bytes (n >= 1) without whitespace.
func sweepWord(r *hx.Rng, n int, bg string) string {
	var sb strings.Builder
	for sb.Len() < n {
		rest := n - sb.Len()
		if bg == "utf8" {
			switch {
			case rest >= 3 && r.Chance(1, 4):
				sb.WriteRune(hx.Pick(r, threeByte))
				continue
			case rest >= 2 && r.Chance(1, 3):
				sb.WriteRune(hx.Pick(r, twoByte))
				continue
			}
		}
		sb.WriteByte(lower[r.Intn(len(lower))])
	}
	w := sb.String()
	if bg == "punct" && n >= 2 && r.Chance(1, 5) {
		w = w[:n-1] + string(hx.Pick(r, []byte(".,;!?:")))
	}
	return w
}

func wordRange(bg string) (int, int) {
	if bg == "long" {
		return 30, 45
	}
	return 2, 9
}

// sweepFill returns exactly n bytes (n >= 1) of words separated by single
// spaces, beginning and ending with a word.
func sweepFill(r *hx.Rng, n int, bg string) string {
	lo, hi := wordRange(bg)
	var sb strings.Builder
	for n > 0 {
		if n <= hi && (n <= lo || r.Chance(1, 2)) || n < lo+2 {
			sb.WriteString(sweepWord(r, n, bg))
			break
		}
		l := r.Range(lo, hi)
		if l > n-2 {
			l = n - 2
		}
		sb.WriteString(sweepWord(r, l, bg))
		sb.WriteByte(' ')
		n -= l + 1
	}
	return sb.String()
}

// sweepText: prose of the given background in which tok starts exactly at byte
// offset p (p >= 1) and is followed by tailLen more bytes of prose. Words next to
// a token without a 0x20 are kept short so that every 50 consecutive bytes
// contain a space.
func sweepText(r *hx.Rng, bg string, p int, tok string, tailLen int) string {
	_, hi := wordRange(bg)
	// longest word allowed directly before / after the token: the run of
	// non-0x20 bytes through the token must stay below 50
	adjL, adjR := hi, hi
	if i := strings.IndexByte(tok, ' '); i < 0 {
		adjL = (49 - len(tok)) / 2
		adjR = adjL
	} else {
		adjL = 49 - i
		adjR = 49 - (len(tok) - 1 - strings.LastIndexByte(tok, ' '))
	}
	if adjL > hi {
		adjL = hi
	}
	if adjR > hi {
		adjR = hi
	}
	part := func(n int, wordLast bool) string {
		adj := adjR
		if wordLast {
			adj = adjL
		}
		// n bytes; the word next to the token has at most adj bytes
		a := r.Range(1, adj)
		if a >= n-1 {
			if n <= adj {
				return sweepWord(r, n, bg)
			}
			a = adj
		}
		w := sweepWord(r, a, "short")
		if bg == "utf8" {
			w = sweepWord(r, a, bg)
		}
		if wordLast {
			return sweepFill(r, n-a-1, bg) + " " + w
		}
		return w + " " + sweepFill(r, n-a-1, bg)
	}
	return part(p, true) + tok + part(tailLen, false)
}

type sweepCfg struct {
	cfg   sizeCfg
	label string
}

// sweepConfigs: hard maxima in characters and in tokens. For tokens the ratios
// >= 1 token per byte make a single byte beyond the limit visible in the unit of
// the maximum; ratios < 1 are swept too (several bytes per token).
func sweepConfigs(c *hx.Ctx, r *hx.Rng) []sweepCfg {
	m := func() int {
		if r.Chance(1, 3) {
			return 200
		}
		return r.Range(201, 420)
	}
	big := hx.Pick(r, [][2]int{{1, 0}, {2, 0}, {4, 0}})
	out := []sweepCfg{
		{sizeCfg{Unit: 0, Max: m(), TpcNum: 1, TpcExp: 2, Sem: r.Bool()}, "chars"},
		{sizeCfg{Unit: 1, Max: m(), TpcNum: big[0], TpcExp: uint(big[1]), Sem: r.Bool()}, "tokens>=1"},
	}
	if c.Thorough() {
		small := hx.Pick(r, [][2]int{{1, 1}, {1, 2}, {3, 2}, {3, 3}, {5, 4}})
		out = append(out,
			sweepCfg{sizeCfg{Unit: 0, Max: 200, TpcNum: 1, TpcExp: 2, Sem: true}, "chars"},
			sweepCfg{sizeCfg{Unit: 0, Max: r.Range(421, 1500), TpcNum: 1, TpcExp: 2, Sem: r.Bool()}, "chars"},
			sweepCfg{sizeCfg{Unit: 1, Max: m(), TpcNum: small[0], TpcExp: uint(small[1]), Sem: r.Bool()}, "tokens<1"},
			sweepCfg{sizeCfg{Unit: 1, Max: 200, TpcNum: 4, TpcExp: 0, Sem: false}, "tokens>=1"},
			sweepCfg{sizeCfg{Unit: 1, Max: m(), TpcNum: 1, TpcExp: 0, Sem: false}, "tokens>=1"},
		)
	}
	return out
}

// runSweeps: returns false when the run must stop.
func runSweeps(c *hx.Ctx) bool {
	base := c.Rng.Fork(5 << 20)
	idx := uint64(0)
	one := func(sc sweepCfg, piece int, p int, class string, tok string, bg string) bool {
		idx++
		r := c.Rng.Fork(6<<20 + idx)
		t := bytesAtLimit(sc.cfg)
		text := sweepText(r, bg, p, tok, r.Range(t+10, 2*t+60))
		if r.Chance(1, 5) {
			text += hx.Pick(r, []string{" ", "\n", ". ", ".\""}) // trailing whitespace / final sentence end
		}
		if !spacedEvery50(text) {
			c.Count("sweep-not-spaced") // generator defect if ever non-zero: the bound is then not checked
			c.Note("sweep text without a space every 50 bytes: bg=%s tok=%q p=%d limit=%d text=%q", bg, tok, p, t, text)
		}
		if !runSplit(c, text, sc.cfg) {
			return false
		}
		if idx%8 == 0 {
			// the same text as a document paragraph (API 2), sometimes with a neighbour
			paras := []string{text}
			if r.Bool() {
				paras = append(paras, sweepFill(r, r.Range(1, 120), "short"))
			}
			if !runDoc(c, paras, sc.cfg) {
				return false
			}
		}
		c.Count("sweep-class=" + class)
		c.Count("sweep-bg=" + bg)
		c.Count("sweep-cfg=" + sc.label)
		c.Count(fmt.Sprintf("sweep-piece=%d", piece))
		c.Case(fmt.Sprintf("w%s|%d|%d|%s|%s", cfgField(sc.cfg), piece, p, tok, text), true)
		return true
	}
	for ci, sc := range sweepConfigs(c, base) {
		t := bytesAtLimit(sc.cfg)
		// piece 1: offsets limit-60 .. limit+3 of the text; piece k: the k-th piece
		// ends within [ (k-1)*(limit-55) , (k-1)*limit+few ] so the placed break is
		// slid over every offset that is limit-60 .. limit+3 of ANY possible remainder.
		pieces := 2
		if c.Thorough() {
			pieces = 3
		}
		for piece := 1; piece <= pieces; piece++ {
			lo, hi := t-60, t+3
			if piece > 1 {
				lo, hi = piece*t-60-(piece-1)*55, piece*t+3+(piece-1)*5
				if lo <= (piece-1)*t/2 {
					lo = (piece-1)*t/2 + 1
				}
			}
			if lo < 1 {
				lo = 1
			}
			for p := lo; p <= hi; p++ {
				for k, bc := range breakClasses {
					full := c.Thorough() || piece == 1
					switch {
					case full:
						// every token of the class at this offset
						for j, tok := range bc.tokens {
							bg := sweepBackgrounds[(p+j+k+ci+int(c.Seed))%len(sweepBackgrounds)]
							if !one(sc, piece, p, bc.name, tok, bg) {
								return false
							}
						}
					default:
						// every class at this offset, tokens in rotation
						tok := bc.tokens[(p+k+int(c.Seed))%len(bc.tokens)]
						bg := sweepBackgrounds[(p/len(bc.tokens)+k+ci)%len(sweepBackgrounds)]
						if !one(sc, piece, p, bc.name, tok, bg) {
							return false
						}
					}
				}
			}
		}
	}
	return true
}
