#!/usr/bin/env python3
"""tools/tryharmless.py Cxx N : apply a behaviour-preserving change (/tmp/harmless/Cxx/out/hN.diff)
to /repo, run tabula's tests and ./check Cxx (must stay quiet), undo it straight afterwards."""
import json, os, subprocess, sys
WS = os.environ.get("VERIF_WS", "/verif")
REPO = os.environ.get("VERIF_REPO", "/repo")
BASE = os.environ.get("HARMLESS_BASE", "/tmp/harmless")
TAG = os.environ.get("HARMLESS_TAG", "")
ENV = dict(os.environ, GOFLAGS="-mod=mod", GOPROXY="off", GOSUMDB="off", GOTOOLCHAIN="local")
def sh(cmd, cwd=None, timeout=3600):
    r = subprocess.run(cmd, cwd=cwd, env=ENV, shell=isinstance(cmd, str), timeout=timeout, stdout=subprocess.PIPE, stderr=subprocess.STDOUT, text=True)
    return r.returncode, r.stdout
prop, n = sys.argv[1], sys.argv[2]
diff = "%s/%s/out/h%s.diff" % (BASE, prop, n)
meta = json.load(open(diff.replace(".diff", ".json")))
rc, out = sh(["git", "-C", REPO, "status", "--short"])
if out.strip():
    print("/repo not clean"); sys.exit(2)
res = {"property": prop, "change": TAG + "h" + n, "summary": meta.get("summary"), "kind": meta.get("kind")}
evp = WS + "/evidence/%s.json" % prop
evidence_backup = open(evp, "rb").read() if os.path.exists(evp) else None
try:
    rc, out = sh(["git", "-C", REPO, "apply", diff])
    res["applies"] = rc == 0
    if rc == 0:
        rc, out = sh("go build ./... && go build -tags verif ./... && go test -vet=off -count=1 ./...", cwd=REPO)
        res["suite_green"] = rc == 0
        rc, out = sh(["./check", prop], cwd=WS)
        res["check_rc"] = rc
        res["check_output"] = "\n".join(l[:300] for l in out.strip().splitlines() if not l.startswith("KNOWN-FINDING"))[-600:]
        res["quiet"] = rc == 0
        if rc != 0 and os.path.exists(WS + "/replay/%s-1.json" % prop):
            r = json.load(open(WS + "/replay/%s-1.json" % prop))
            res["alarm"] = {k: (str(r.get(k))[:500]) for k in ("kind", "key", "detail", "payload")}
finally:
    sh(["git", "-C", REPO, "checkout", "--", "."]); sh(["git", "-C", REPO, "clean", "-fdq"])
    if evidence_backup is not None:
        open(evp, "wb").write(evidence_backup)  # the evidence file describes the unchanged tree
os.makedirs("/verif/harmless", exist_ok=True)
d = "/verif/harmless/%s-%sh%s" % (prop, TAG, n)
if res.get("applies") and res.get("suite_green"):
    os.makedirs(d, exist_ok=True)
    import shutil; shutil.copy(diff, d + "/patch.diff"); json.dump(res, open(d + "/meta.json", "w"), indent=1)
print(json.dumps(res, indent=1))
