#!/usr/bin/env python3
"""Rewrite agent-branch commit hashes in known_findings.txt to the cherry-picked ones on /repo main."""
import re, subprocess
log = subprocess.run(["git", "-C", "/repo", "log", "--format=%H%x00%B%x01", "20b8332..HEAD"], capture_output=True, text=True).stdout
m = {}
for rec in log.split("\x01"):
    if "\x00" not in rec:
        continue
    h, body = rec.strip().split("\x00", 1)
    for old in re.findall(r"cherry picked from commit ([0-9a-f]{40})", body):
        m[old] = h
lines = open("/verif/known_findings.txt").read().split("\n")
out = []
for line in lines:
    if line.startswith("fixed:"):
        def rep(mo):
            short = mo.group(0)
            for old, new in m.items():
                if old.startswith(short):
                    return new[:7]
            return short
        line = re.sub(r"\b[0-9a-f]{7,12}\b", rep, line, count=1)
    out.append(line)
open("/verif/known_findings.txt", "w").write("\n".join(out))
