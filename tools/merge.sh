#!/bin/sh
# tools/merge.sh Cxx : merge a builder workspace (/var/tmp/b-Cxx) into /verif and /repo
set -e
P="$1"; p=$(echo "$P" | tr 'A-Z' 'a-z'); W="/var/tmp/b-$P"
cd /verif
# 1. owned files
for d in Model Lemmas Props Handlers; do
  for f in "$W/verif/lean/TabulaModel/$d"/*.lean; do
    [ -e "$f" ] || continue
    b=$(basename "$f")
    if [ ! -e "lean/TabulaModel/$d/$b" ] || ! cmp -s "$f" "lean/TabulaModel/$d/$b"; then
      case "$d/$b" in
        Handlers/$P.lean|Props/$P.lean) cp "$f" "lean/TabulaModel/$d/$b"; echo "copied $d/$b";;
        Handlers/*|Props/*) ;;  # other properties' stubs
        *) if [ -e "lean/TabulaModel/$d/$b" ]; then echo "CONFLICT? $d/$b differs from /verif (not copied)"; else cp "$f" "lean/TabulaModel/$d/$b"; echo "copied $d/$b"; fi;;
      esac
    fi
  done
done
rm -rf "harness/$p"; cp -r "$W/verif/harness/$p" "harness/$p"; echo "copied harness/$p"
cp "$W/verif/props/$P.json" "props/$P.json"
[ -d "$W/verif/corpus/$P" ] && { mkdir -p corpus; rm -rf "corpus/$P"; cp -r "$W/verif/corpus/$P" "corpus/$P"; }
if [ -e "$W/verif/known_findings.txt" ]; then
  grep -E "^(fixed|finding):[[:space:]]+property=$P " "$W/verif/known_findings.txt" | while read -r line; do
    grep -qF "$line" known_findings.txt || echo "$line" >> known_findings.txt
  done
fi
# 2. commits
cd /repo
for c in $(git log --reverse --format=%H $(git merge-base main agent-$P)..agent-$P); do
  if git cherry-pick -x "$c" >/tmp/cp.log 2>&1; then echo "picked $(git log --format='%h %s' -1)"
  elif grep -q "now empty\|nothing to commit" /tmp/cp.log; then git cherry-pick --skip; echo "skipped (already applied) $c"
  elif python3 /verif/tools/resolve_hooks.py; then echo "picked (hooks merged) $(git log --format='%h %s' -1)"
  else echo "CHERRY-PICK FAILED for $c"; tail -5 /tmp/cp.log; exit 1; fi
done
