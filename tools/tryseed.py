#!/usr/bin/env python3
"""tools/tryseed.py Cxx N [--tier quick|thorough] [--keep-name NAME]

Confirms one seeded change produced by an independent sub-agent (/tmp/seed/Cxx/out/mN.*)
in a scratch worktree (compiles, suite green, demonstration fails with it and passes
without), then applies it to /repo, runs ./check Cxx, undoes it straight afterwards, and
stores patch + demonstration + meta.json under /verif/seeded/<Cxx-mN>/.
"""
import json, os, shutil, subprocess, sys, time

WS = os.environ.get("VERIF_WS", "/verif")
REPO = os.environ.get("VERIF_REPO", "/repo")
ENV = dict(os.environ, GOFLAGS="-mod=mod", GOPROXY="off", GOSUMDB="off", GOTOOLCHAIN="local")


def sh(cmd, cwd=None, timeout=1800):
    r = subprocess.run(cmd, cwd=cwd, env=ENV, shell=isinstance(cmd, str), timeout=timeout,
                       stdout=subprocess.PIPE, stderr=subprocess.STDOUT, text=True)
    return r.returncode, r.stdout


def main():
    prop, n = sys.argv[1], sys.argv[2]
    tier = "quick"
    if "--tier" in sys.argv:
        tier = sys.argv[sys.argv.index("--tier") + 1]
    rnd = ""
    if "--round" in sys.argv:
        rnd = sys.argv[sys.argv.index("--round") + 1]
    base = "/tmp/seed%s" % (rnd if rnd not in ("", "1") else "")
    src = "%s/%s/out" % (base, prop)
    meta = json.load(open("%s/m%s.json" % (src, n)))
    diff = "%s/m%s.diff" % (src, n)
    demo = "%s/m%s_demo_test.go" % (src, n)
    demo_dir = meta.get("demo_dir", ".").strip("./") or "."
    demo_cmd = meta["demo_cmd"]
    wt = "%s/%s/confirm" % (base, prop)
    sh(["git", "-C", "/repo", "worktree", "remove", "--force", wt])
    rc, out = sh(["git", "-C", "/repo", "worktree", "add", "-q", "--detach", wt, "HEAD"])
    res = {"property": prop, "mutant": (("r%s" % rnd) if rnd not in ("", "1") else "") + "m" + n, "summary": meta.get("summary"), "why_breaks": meta.get("why_breaks"),
           "needs": meta.get("needs"), "files": meta.get("files"), "demo_dir": demo_dir, "demo_cmd": demo_cmd}
    try:
        demo_dst = os.path.join(wt, demo_dir, "zz_seed_demo_test.go")
        # unchanged: demo passes
        shutil.copy(demo, demo_dst)
        rc, out = sh(demo_cmd, cwd=wt)
        res["demo_passes_unchanged"] = rc == 0
        os.remove(demo_dst)
        rc, out = sh(["git", "apply", diff], cwd=wt)
        res["applies"] = rc == 0
        if rc != 0:
            res["apply_error"] = out[-500:]
        else:
            rc, out = sh("go build ./... && go test -vet=off -count=1 ./...", cwd=wt)
            res["suite_green_with_change"] = rc == 0
            if rc != 0:
                res["suite_output"] = out[-800:]
            shutil.copy(demo, demo_dst)
            rc, out = sh(demo_cmd, cwd=wt)
            res["demo_fails_with_change"] = rc != 0
            res["demo_output_with_change"] = out[-1200:]
    finally:
        sh(["git", "-C", "/repo", "worktree", "remove", "--force", wt])
    confirmed = res.get("applies") and res.get("suite_green_with_change") and res.get("demo_fails_with_change") and res.get("demo_passes_unchanged")
    res["confirmed"] = bool(confirmed)
    if confirmed:
        # run our check against it on /repo, undo straight afterwards
        rc, out = sh(["git", "-C", REPO, "status", "--short"])
        if out.strip():
            print("/repo is not clean; refusing", out)
            return 2
        evp = WS + "/evidence/%s.json" % prop
        evidence_backup = open(evp, "rb").read() if os.path.exists(evp) else None
        try:
            rc, out = sh(["git", "-C", REPO, "apply", diff])
            t0 = time.time()
            rc, out = sh(["./check", prop, "--tier", tier], cwd=WS, timeout=7200)
            res["check_cmd"] = "./check %s --tier %s" % (prop, tier)
            res["check_rc"] = rc
            res["check_wall_s"] = round(time.time() - t0, 1)
            res["check_output"] = "\n".join(l[:400] for l in out.strip().splitlines()[-6:])
            res["caught"] = rc == 1 and "VIOLATION property=%s" % prop in out
            rp = WS + "/replay/%s-1.json" % prop
            if res["caught"] and os.path.exists(rp):
                r = json.load(open(rp))
                res["replay_kind"] = r.get("kind")
                res["replay_key"] = r.get("key")
                res["replay_other_keys"] = r.get("other_keys")
                res["replay_detail"] = str(r.get("detail") or r.get("payload"))[:600]
                res["no_failing_input_found"] = "no-failing-input-found" in out
        finally:
            sh(["git", "-C", REPO, "checkout", "--", "."])
            sh(["git", "-C", REPO, "clean", "-fdq"])
            # the evidence file describes the unchanged tree: put back what was there
            if evidence_backup is not None:
                open(evp, "wb").write(evidence_backup)
    d = "/verif/seeded/%s-%sm%s" % (prop, ("r%s" % rnd) if rnd not in ("", "1") else "", n)
    if confirmed:
        os.makedirs(d, exist_ok=True)
        shutil.copy(diff, d + "/patch.diff")
        shutil.copy(demo, d + "/demo_test.go")
        json.dump(res, open(d + "/meta.json", "w"), indent=1)
    print(json.dumps({k: res.get(k) for k in ("property", "mutant", "confirmed", "caught", "replay_kind", "replay_key", "no_failing_input_found", "check_wall_s", "summary")}, indent=1))
    if not confirmed:
        print(json.dumps(res, indent=1)[:3000])
    return 0


if __name__ == "__main__":
    sys.exit(main())
