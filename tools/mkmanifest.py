#!/usr/bin/env python3
"""Regenerate MANIFEST.json from props.json (single source of per-property text)."""
import json, os, subprocess


def hook_commits():
    """commits of /repo that add the verif-tagged hook files (subject starts with 'verif')"""
    out = subprocess.run(["git", "-C", "/repo", "log", "--reverse", "--format=%h %s", "20b8332..HEAD"], capture_output=True, text=True).stdout
    return [l.split()[0] for l in out.splitlines() if l.split(" ", 1)[1].lower().startswith("verif")]

ROOT = os.path.dirname(os.path.dirname(os.path.abspath(__file__)))
props = {f[:-5]: json.load(open(os.path.join(ROOT, "props", f))) for f in sorted(os.listdir(os.path.join(ROOT, "props"))) if f.endswith(".json")}
ids = [json.loads(l)["id"] for l in open(os.path.join(ROOT, "properties.jsonl"))]
checks, na = [], []
for pid in ids:
    p = props.get(pid)
    if not p or not p.get("claimed", True):
        na.append({"property_id": pid, "reason": (p or {}).get("na_reason", "not claimed yet: model and correspondence for this property are not built in this revision of /verif")})
        continue
    checks.append({
        "property_id": pid,
        "quick_cmd": "./check %s --tier quick" % pid,
        "thorough_cmd": "./check %s --tier thorough" % pid,
        "evidence_file": "evidence/%s.json" % pid,
        "replay_cmd_template": "./check %s --replay {path}" % pid,
        "engine": "lean4-model+correspondence",
        "level_claimed": {"category": "proof", "text": p["level_text"], "design_ref": "DESIGN.md section 5, " + pid},
        "level_note": p["level_note"],
        "technique": p.get("technique", "Lean 4 theorems over a hand-written model + Go/Lean correspondence run + go/ast regenerated facts"),
    })
m = {
    "version": 1,
    "setup_cmd": "./setup.sh",
    "hooks": {
        "guard": "verif",
        "enable": "go build -tags verif (files named verif_export.go and verif_export_c02.go in 13 packages, //go:build verif, add-only exports)",
        "baseline_off_cmd": "cd /repo && go build ./... && go test -vet=off -count=1 -timeout 25m ./...",
        "source_commits": hook_commits(),
        "add_only": True,
    },
    "engines": [{
        "name": "lean4-model+correspondence", "path": "check",
        "serves_properties": [c["property_id"] for c in checks],
        "kind_free_text": "Lean 4.33 theorems about hand-written executable models (lean/TabulaModel), re-checked on every run together with facts regenerated from /repo by extract/ (go/ast); models tied to the Go code by a differential correspondence run (harness/ vs the compiled Lean driver) and statement-level oracles that supply the failing input when a tie breaks",
    }],
    "checks": checks,
    "notes": "See DESIGN.md. ./check <Cxx> [--tier quick|thorough] [--replay file]. VERIF_SEED selects the generator stream.",
    "not_applicable": na,
}
json.dump(m, open(os.path.join(ROOT, "MANIFEST.json"), "w"), indent=1)
print("claimed", len(checks), "not claimed", len(na))
