#!/bin/sh
# tools/trymut.sh <Cxx> <file> <python-regex-old> <new>  : apply one textual mutant to /repo, run tests + check, revert
P="$1"; F="$2"; OLD="$3"; NEW="$4"
cd /repo || exit 2
python3 - "$F" "$OLD" "$NEW" <<'PY' || { echo "MUTANT-NOT-APPLIED"; exit 2; }
import sys,re
f,old,new=sys.argv[1:4]
s=open(f).read()
t,n=re.subn(old,lambda m:new.replace("\\n","\n").replace("\\t","\t"),s,count=1,flags=re.S)
if n==0: sys.exit(1)
open(f,'w').write(t)
PY
export GOFLAGS=-mod=mod GOPROXY=off GOSUMDB=off GOTOOLCHAIN=local
if go build ./... 2>/dev/null && go test -vet=off -count=1 ./... >/tmp/mut-test.log 2>&1; then T=tests-pass; else T=tests-FAIL; fi
cd /verif && ./check "$P" > /tmp/mut-check.log 2>&1; RC=$?
git -C /repo checkout -- .
echo "$T check-rc=$RC $(grep -m1 VIOLATION /tmp/mut-check.log)"
