#!/usr/bin/env python3
"""Resolve add/add conflicts in verif_export.go hook files by keeping both sides."""
import re, subprocess, sys
out = subprocess.run(["git", "-C", "/repo", "status", "--short"], capture_output=True, text=True).stdout
for line in out.splitlines():
    if line[:2] in ("AA", "UU") and line.endswith("verif_export.go"):
        p = "/repo/" + line[3:].strip()
        s = open(p).read()
        s = re.sub(r"<<<<<<< [^\n]*\n", "", s)
        s = re.sub(r"=======\n", "\n", s)
        s = re.sub(r">>>>>>> [^\n]*\n", "", s)
        open(p, "w").write(s)
        subprocess.run(["gofmt", "-w", p])
        subprocess.run(["git", "-C", "/repo", "add", line[3:].strip()])
        print("resolved", p)
    elif line[:2] in ("AA", "UU", "DU", "UD"):
        print("UNRESOLVED", line)
        sys.exit(1)
subprocess.run(["git", "-C", "/repo", "-c", "core.editor=true", "cherry-pick", "--continue"], stdout=subprocess.DEVNULL)
