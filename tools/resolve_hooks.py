#!/usr/bin/env python3
"""Resolve add/add conflicts in verif_export.go hook files by keeping both sides."""
import re, subprocess, sys
out = subprocess.run(["git", "-C", "/repo", "status", "--short"], capture_output=True, text=True).stdout
for line in out.splitlines():
    if line[:2] in ("AA", "UU") and line.endswith("verif_export.go"):
        p = "/repo/" + line[3:].strip()
        raw = open(p).read()
        # both sides appended functions after the same last function: git then keeps the
        # shared closing brace outside the conflict, so the first side may need its own
        for sep in ("\n", "}\n\n", "\n"):  # last: fall back to the plain join
            s = re.sub(r"<<<<<<< [^\n]*\n", "", raw)
            s = re.sub(r"=======\n", sep, s)
            s = re.sub(r">>>>>>> [^\n]*\n", "", s)
            open(p, "w").write(s)
            if subprocess.run(["gofmt", "-e", "-l", p], capture_output=True).returncode == 0:
                break
        subprocess.run(["gofmt", "-w", p])
        subprocess.run(["git", "-C", "/repo", "add", line[3:].strip()])
        print("resolved", p)
    elif line[:2] in ("AA", "UU", "DU", "UD"):
        print("UNRESOLVED", line)
        sys.exit(1)
subprocess.run(["git", "-C", "/repo", "-c", "core.editor=true", "cherry-pick", "--continue"], stdout=subprocess.DEVNULL)
