#!/bin/sh
# tools/mergex.sh Cxx [extra Model/Lemmas files to copy although they differ...]
# merge.sh + every Props/Cxx*.lean + the named shared files (relative to lean/TabulaModel)
set -e
P="$1"; shift; W="/var/tmp/b-$P"
cd /verif
tools/merge.sh "$P" 2>&1 | grep "copied Model\|copied Lemmas\|picked\|FAILED\|skipped" || true
for f in "$W"/verif/lean/TabulaModel/Props/"$P"*.lean; do cp "$f" lean/TabulaModel/Props/; done
for f in "$@"; do cp "$W/verif/lean/TabulaModel/$f" "lean/TabulaModel/$f"; echo "copied (named) $f"; done
# report shared files that still differ
for d in Model Lemmas; do for f in "$W"/verif/lean/TabulaModel/$d/*.lean; do b="lean/TabulaModel/$d/$(basename $f)"; cmp -s "$f" "$b" || echo "still differs: $d/$(basename $f)"; done; done
python3 tools/rehash.py
