#!/bin/sh
# tools/mkws.sh Cxx : private workspace for building one property
# (/var/tmp/b-Cxx/verif = copy of /verif, /var/tmp/b-Cxx/repo = git worktree of /repo)
set -e
P="$1"; W="/var/tmp/b-$P"
rm -rf "$W/verif"; mkdir -p "$W"
rsync -a --exclude .git --exclude replay --exclude .work /verif/ "$W/verif/"
if [ ! -d "$W/repo" ]; then
  git -C /repo worktree add -q -b "agent-$P" "$W/repo" HEAD
fi
sed -i "s|^replace github.com/tsawler/tabula => .*|replace github.com/tsawler/tabula => $W/repo|" "$W/verif/harness/go.mod"
echo "$W"
