import TabulaModel.Model.UTF16
/-!
# ToUnicode CMaps (font/cmap.go), mirrored function by function

Strings are byte lists (`Str`); decoded text is a list of scalar values (every Go string
built in this file is built with `WriteRune`/`string(rune)`, so it is the UTF-8 of such a
list; "the string is empty" = "the list is empty"). The model follows the code after the
C07 fixes (multi-unit `bfrange` targets; end keyword searched after the begin keyword;
array sections read as a token stream).

`strings.TrimSpace` is modelled for ASCII white space only; it is used only in
`parseCodeSpaceRange`, where trimming decides nothing but "is the line empty", and a line of
non-ASCII white space has no hex token either, so the result is the same for every input.
-/
namespace Tabula.CMap
open Tabula.UTF16

abbrev Str := List Nat

/-- `"begincodespacerange"` -/
def kwBeginCodeSpace : Str := [98, 101, 103, 105, 110, 99, 111, 100, 101, 115, 112, 97, 99, 101, 114, 97, 110, 103, 101]
/-- `"endcodespacerange"` -/
def kwEndCodeSpace : Str := [101, 110, 100, 99, 111, 100, 101, 115, 112, 97, 99, 101, 114, 97, 110, 103, 101]
/-- `"beginbfchar"` -/
def kwBeginBfChar : Str := [98, 101, 103, 105, 110, 98, 102, 99, 104, 97, 114]
/-- `"endbfchar"` -/
def kwEndBfChar : Str := [101, 110, 100, 98, 102, 99, 104, 97, 114]
/-- `"beginbfrange"` -/
def kwBeginBfRange : Str := [98, 101, 103, 105, 110, 98, 102, 114, 97, 110, 103, 101]
/-- `"endbfrange"` -/
def kwEndBfRange : Str := [101, 110, 100, 98, 102, 114, 97, 110, 103, 101]

/-! ## Go `strings` helpers -/

/-- `strings.Index(hay, needle)` -/
def indexOf (needle : Str) : Str → Option Nat
  | [] => if needle.isEmpty then some 0 else none
  | c :: t => if needle.isPrefixOf (c :: t) then some 0 else (indexOf needle t).map (· + 1)

/-- `strings.Contains` -/
def contains (needle hay : Str) : Bool := (indexOf needle hay).isSome

/-- `strings.Split(s, sep)` for a one-byte separator -/
def splitOn (sep : Nat) : Str → List Str
  | [] => [[]]
  | c :: t =>
    if c = sep then [] :: splitOn sep t
    else match splitOn sep t with
      | h :: r => (c :: h) :: r
      | [] => [[c]]

def isSpace (c : Nat) : Bool := c = 9 || c = 10 || c = 11 || c = 12 || c = 13 || c = 32

/-- `strings.TrimSpace` on ASCII input -/
def trimSpace (s : Str) : Str := ((s.dropWhile isSpace).reverse.dropWhile isSpace).reverse

/-- The `<`…`>` scanning loop that appears six times in cmap.go: the text between each `<`
and the next `>`; an unterminated `<…` at the end is dropped. `some acc` = inside a token. -/
def hexStringsAux : Option Str → Str → List Str
  | _, [] => []
  | none, c :: t => if c = 60 then hexStringsAux (some []) t else hexStringsAux none t
  | some acc, c :: t =>
    if c = 62 then acc.reverse :: hexStringsAux none t else hexStringsAux (some (c :: acc)) t

def hexStrings (s : Str) : List Str := hexStringsAux none s

/-! ## hex -/

def hexVal (c : Nat) : Option Nat :=
  if 48 ≤ c ∧ c ≤ 57 then some (c - 48)
  else if 97 ≤ c ∧ c ≤ 102 then some (c - 87)
  else if 65 ≤ c ∧ c ≤ 70 then some (c - 55)
  else none

def hexDigitsVal : Str → Nat → Option Nat
  | [], acc => some acc
  | c :: t, acc => match hexVal c with
    | some d => hexDigitsVal t (acc * 16 + d)
    | none => none

/-- `strconv.ParseUint(s, 16, 32)`: error on empty input, a non-hex byte, or a value ≥ 2^32 -/
def parseUint32 (s : Str) : Option Nat :=
  if s = [] then none else
  match hexDigitsVal s 0 with
  | some v => if v < 4294967296 then some v else none
  | none => none

/-- `parseHexToUint32`: odd length is left-padded with `0` -/
def parseHexToUint32 (h : Str) : Option Nat :=
  parseUint32 (if h.length % 2 ≠ 0 then 48 :: h else h)

/-- `hex.DecodeString` (only "error or bytes" is used) -/
def hexDecode : Str → Option Str
  | [] => some []
  | [_] => none
  | a :: b :: t =>
    match hexVal a, hexVal b, hexDecode t with
    | some x, some y, some r => some ((x * 16 + y) :: r)
    | _, _, _ => none

/-- `hexToUnicode` -/
def hexToUnicode (h : Str) : Option (List Nat) :=
  let h := h.filter fun c => !(c = 32 || c = 9 || c = 10 || c = 13)
  let h := if h.length % 2 ≠ 0 then 48 :: h else h
  match hexDecode h with
  | none => none
  | some data =>
    match data with
    | 0xFE :: 0xFF :: rest => cmapDecodeUTF16BE rest
    | _ :: _ :: _ => cmapDecodeUTF16BE data
    | [b] => some [toRune b]
    | [] => none

/-- `parseBfRangeDst` (added by the B8 fix): a destination of more than one whole UTF-16
unit is kept as code units, anything else is read as a number. -/
def parseBfRangeDst (dst : Str) : Option (Nat × List Nat) :=
  let p := if dst.length % 2 ≠ 0 then 48 :: dst else dst
  let viaUnits := if p.length > 4 ∧ p.length % 4 = 0 then (hexDecode p).map unitsBE else none
  match viaUnits with
  | some us => some (0, us)
  | none => (parseHexToUint32 dst).map fun v => (v, [])

/-! ## the CMap value -/

/-- `CMapRange` (`units = []` ⇔ `startUnits == nil`) -/
structure Range where
  start : Nat
  stop : Nat
  startUnicode : Nat
  units : List Nat
  deriving Repr, DecidableEq

/-- `CMap`. `chars` is the Go map as an association list, newest binding first. -/
structure CMap where
  chars : List (Nat × List Nat) := []
  ranges : List Range := []
  byteWidth : Nat := 0
  actualByteWidth : Nat := 0
  deriving Repr

def CMap.setChar (cm : CMap) (code : Nat) (text : List Nat) : CMap :=
  { cm with chars := (code, text) :: cm.chars }

def CMap.getChar (cm : CMap) (code : Nat) : Option (List Nat) :=
  (cm.chars.find? fun p => p.1 == code).map (·.2)

/-- source-code width in bytes of a hex token (`srcHexLen` rounded up to even, halved) -/
def srcWidth (h : Str) : Nat := (h.length + 1) / 2

def CMap.noteWidth (cm : CMap) (h : Str) : CMap :=
  if srcWidth h > cm.actualByteWidth then { cm with actualByteWidth := srcWidth h } else cm

/-! ## sections -/

/-- one `<src> <dst>` pair of `parseBfCharSection` -/
def bfCharStep (src dst : Str) (cm : CMap) : CMap :=
  if src = [] ∨ dst = [] then cm else
  let cm := cm.noteWidth src
  match parseHexToUint32 src with
  | none => cm
  | some code =>
    match hexToUnicode dst with
    | none => cm
    | some u => cm.setChar code u

def bfCharPairs : List Str → CMap → CMap
  | src :: dst :: rest, cm => bfCharPairs rest (bfCharStep src dst cm)
  | _, cm => cm

/-- `parseBfCharSection` -/
def parseBfCharSection (section_ : Str) (cm : CMap) : CMap := bfCharPairs (hexStrings section_) cm

/-- one `<start> <end> <dst>` triple (the block that appears in `parseBfRangeSection` and
in `parseBfRangeSectionWithArrays`) -/
def bfRangeStep (s e d : Str) (cm : CMap) : CMap :=
  if s = [] ∨ e = [] ∨ d = [] then cm else
  let cm := cm.noteWidth s
  match parseHexToUint32 s, parseHexToUint32 e, parseBfRangeDst d with
  | some sc, some ec, some (u, us) => { cm with ranges := cm.ranges ++ [⟨sc, ec, u, us⟩] }
  | _, _, _ => cm

def bfRangeTriples : List Str → CMap → CMap
  | s :: e :: d :: rest, cm => bfRangeTriples rest (bfRangeStep s e d cm)
  | _, cm => cm

/-- `bfRangeToken`: a hex string, `[` or `]` -/
inductive Tok
  | hex (s : Str)
  | lbr
  | rbr
  deriving Repr, DecidableEq

/-- `bfRangeTokens`: hex strings and array delimiters of a section; brackets inside a hex
string are part of it; an unterminated hex string ends the scan. `some acc` = inside. -/
def tokensAux : Option Str → Str → List Tok
  | _, [] => []
  | none, c :: t =>
    if c = 60 then tokensAux (some []) t
    else if c = 91 then Tok.lbr :: tokensAux none t
    else if c = 93 then Tok.rbr :: tokensAux none t
    else tokensAux none t
  | some acc, c :: t =>
    if c = 62 then Tok.hex acc.reverse :: tokensAux none t else tokensAux (some (c :: acc)) t

def bfRangeTokens (s : Str) : List Tok := tokensAux none s

/-- the loop of `addBfRangeArray`; `currentCode++` is uint32 arithmetic and is not executed
for an empty token -/
def arrayLoop : List Str → Nat → Nat → CMap → CMap
  | [], _, _, cm => cm
  | h :: t, cur, stop, cm =>
    if h = [] then arrayLoop t cur stop cm else
    let cm' := match hexToUnicode h with
      | some u => if cur ≤ stop then cm.setChar cur u else cm
      | none => cm
    arrayLoop t ((cur + 1) % 4294967296) stop cm'

/-- `addBfRangeArray` (no empty-token check and no width tracking, as coded) -/
def addBfRangeArray (sh eh : Str) (arr : List Str) (cm : CMap) : CMap :=
  match parseHexToUint32 sh, parseHexToUint32 eh with
  | some s, some e => arrayLoop arr s e cm
  | _, _ => cm

/-- the leading hex tokens of a token list and the rest (`for j < len && bracket == 0`) -/
def spanHex : List Tok → List Str × List Tok
  | Tok.hex h :: t => let r := spanHex t; (h :: r.1, r.2)
  | l => ([], l)

/-- one iteration of the token loop of `parseBfRangeSectionWithArrays`
(`for i+2 < len(tokens)`): the remaining tokens and the new state, `none` when fewer than
three tokens remain -/
def tokenStep : List Tok → CMap → Option (List Tok × CMap)
  | Tok.hex s :: Tok.hex e :: Tok.hex d :: rest, cm => some (rest, bfRangeStep s e d cm)
  | Tok.hex s :: Tok.hex e :: Tok.lbr :: rest, cm =>
    match (spanHex rest).2 with
    | Tok.rbr :: rest' => some (rest', addBfRangeArray s e (spanHex rest).1 cm)
    | rest' => some (rest', cm)
  | _ :: b :: c :: rest, cm => some (b :: c :: rest, cm)
  | _, _ => none

/-- the token loop (`fuel` ≥ number of tokens) -/
def tokenLoop : Nat → List Tok → CMap → CMap
  | 0, _, cm => cm
  | f + 1, l, cm =>
    match tokenStep l cm with
    | some (l', cm') => tokenLoop f l' cm'
    | none => cm

/-- `parseBfRangeSectionWithArrays` -/
def parseBfRangeSectionWithArrays (section_ : Str) (cm : CMap) : CMap :=
  let toks := bfRangeTokens section_
  tokenLoop (toks.length + 1) toks cm

/-- `parseBfRangeSection` -/
def parseBfRangeSection (section_ : Str) (cm : CMap) : CMap :=
  if contains [91] section_ then parseBfRangeSectionWithArrays section_ cm
  else bfRangeTriples (hexStrings section_) cm

/-- The `for { Index(begin…) … Index(end…) … }` loop of `parseBfChar` / `parseBfRange`:
every `begin…`/`end…` delimited section in order; the end keyword is searched after the
begin keyword (for `bfchar` the Go code searches from the begin keyword itself, which is
the same because `endbfchar` cannot overlap `beginbfchar`). `fuel` ≥ length. -/
def sectionsLoop (kb ke : Str) (f : Str → CMap → CMap) : Nat → Str → CMap → CMap
  | 0, _, cm => cm
  | fuel + 1, content, cm =>
    match indexOf kb content with
    | none => cm
    | some b =>
      let r1 := content.drop (b + kb.length)
      match indexOf ke r1 with
      | none => cm
      | some e => sectionsLoop kb ke f fuel (r1.drop (e + ke.length)) (f (r1.take e) cm)

def parseBfChar (content : Str) (cm : CMap) : CMap :=
  sectionsLoop kwBeginBfChar kwEndBfChar parseBfCharSection (content.length + 1) content cm

def parseBfRange (content : Str) (cm : CMap) : CMap :=
  sectionsLoop kwBeginBfRange kwEndBfRange parseBfRangeSection (content.length + 1) content cm

/-- line loop of `parseCodeSpaceRange`: the first line with at least two hex tokens sets
`byteWidth` from the length of the first -/
def codeSpaceLines : List Str → CMap → CMap
  | [], cm => cm
  | l :: rest, cm =>
    let line := trimSpace l
    if line = [] then codeSpaceLines rest cm
    else match hexStrings line with
      | h0 :: _ :: _ => { cm with byteWidth := (h0.length + 1) / 2 }
      | _ => codeSpaceLines rest cm

/-- `parseCodeSpaceRange` (first section only) -/
def parseCodeSpaceRange (content : Str) (cm : CMap) : CMap :=
  match indexOf kwBeginCodeSpace content with
  | none => cm
  | some b =>
    let r1 := content.drop (b + kwBeginCodeSpace.length)
    match indexOf kwEndCodeSpace r1 with
    | none => cm
    | some e => codeSpaceLines (splitOn 10 (r1.take e)) cm

/-- `parseCMapData` -/
def parseCMapData (data : Str) : CMap :=
  parseBfRange data (parseBfChar data (parseCodeSpaceRange data {}))

/-! ## lookup -/

/-- `units[len(units)-1] += uint16(offset)` -/
def bumpLast : List Nat → Nat → List Nat
  | [], _ => []
  | [u], off => [(u + off) % 65536]
  | u :: t, off => u :: bumpLast t off

/-- text of code `c` inside range `r` -/
def rangeText (r : Range) (c : Nat) : List Nat :=
  let off := c - r.start
  if r.units ≠ [] then stdDecodeUnits (bumpLast r.units off)
  else [toRune ((r.startUnicode + off) % 4294967296)]

def lookupRanges : List Range → Nat → List Nat
  | [], _ => []
  | r :: rs, c => if r.start ≤ c ∧ c ≤ r.stop then rangeText r c else lookupRanges rs c

/-- `(*CMap).Lookup`: direct mapping first, then the first range that contains the code;
`[]` (Go `""`) when there is none. -/
def lookup (cm : CMap) (c : Nat) : List Nat :=
  match cm.getChar c with
  | some u => u
  | none => lookupRanges cm.ranges c

/-- `code = (code << 8) | uint32(b)` over the bytes of one code (uint32 arithmetic) -/
def codeOf (bs : List Nat) : Nat := bs.foldl (fun c b => ((c * 256) % 4294967296) ||| b) 0

/-- one decoded code in `lookupStringWithWidth`: mapped text, else the code itself as a
rune when it is below 0x110000, else nothing -/
def emit (cm : CMap) (code : Nat) : List Nat :=
  let u := lookup cm code
  if u ≠ [] then u else if code < 0x110000 then [toRune code] else []

/-- `(*CMap).lookupStringWithWidth` for `width ≥ 1` (`fuel` ≥ length) -/
def lookupWidth (cm : CMap) (w : Nat) : Nat → List Nat → List Nat
  | 0, _ => []
  | _, [] => []
  | fuel + 1, b :: rest =>
    if (b :: rest).length < w then (b :: rest).flatMap fun x => emit cm x
    else emit cm (codeOf ((b :: rest).take w)) ++ lookupWidth cm w fuel ((b :: rest).drop w)

/-- the width-less fallback loop of `LookupString`: 1-byte code, then 2-byte code, then the
byte itself -/
def lookupFallback (cm : CMap) : List Nat → List Nat
  | [] => []
  | [b] => let u := lookup cm b; if u ≠ [] then u else [toRune b]
  | b :: b2 :: rest =>
    let u1 := lookup cm b
    if u1 ≠ [] then u1 ++ lookupFallback cm (b2 :: rest)
    else
      let u2 := lookup cm ((b <<< 8) ||| b2)
      if u2 ≠ [] then u2 ++ lookupFallback cm rest
      else toRune b :: lookupFallback cm (b2 :: rest)

/-- the width rule of `LookupString` -/
def effectiveWidth (cm : CMap) : Nat :=
  if cm.actualByteWidth > 0 ∧ cm.actualByteWidth < cm.byteWidth then cm.actualByteWidth else cm.byteWidth

/-- `(*CMap).LookupString` for a non-nil CMap -/
def lookupString (cm : CMap) (data : List Nat) : List Nat :=
  if effectiveWidth cm > 0 then lookupWidth cm (effectiveWidth cm) (data.length + 1) data
  else lookupFallback cm data

end Tabula.CMap
