import TabulaModel.Model.PrintReal
/-
Spelled object trees: an object together with ONE legal spelling of every
token and every separator in it.  `SObj.value` is the object meant,
`SObj.render` the bytes written, `SObj.Valid` the legality of the spelling
(ISO 32000-1 §7.2–7.3).  Quantifying over all valid `SObj` is quantifying over
all objects under all spellings.  Core Lean only.

Every node carries the separator written in front of its first token.
Dictionaries are written as the list key, value, key, value, …
-/
namespace Tabula.Pdf

abbrev Sep := List SepUnit

def SepOk (s : Sep) : Prop := ∀ u ∈ s, u.Ok

inductive SObj
  | null (pre : Sep)
  | bool (pre : Sep) (b : Bool)
  | int (pre : Sep) (plus : Bool) (zeros : Nat) (i : Int)
  | real (pre : Sep) (r : RealSp)
  | lit (pre : Sep) (ps : List SPiece)
  | hex (pre : Sep) (ps : List HPiece) (last : Option HLast) (wEnd : Str)
  | name (pre : Sep) (ps : List NPiece)
  | arr (pre : Sep) (items : List SObj) (close : Sep)
  | dict (pre : Sep) (kvs : List SObj) (close : Sep)
  | ref (pre : Sep) (num gen : Nat) (s1 s2 : Sep)

/-- the first token is made of regular characters -/
def SObj.startsRegular : SObj → Bool
  | .null _ | .bool _ _ | .int _ _ _ _ | .real _ _ | .ref _ _ _ _ _ => true
  | _ => false

/-- the last token is made of regular characters -/
def SObj.endsRegular : SObj → Bool
  | .null _ | .bool _ _ | .int _ _ _ _ | .real _ _ | .ref _ _ _ _ _ | .name _ _ => true
  | _ => false

def SObj.isName : SObj → Bool
  | .name _ _ => true
  | _ => false

/-- the bytes of a key (`[]` for a non-name; `Valid` rules that out) -/
def SObj.keyBytes : SObj → Str
  | .name _ ps => ps.map NPiece.byte
  | _ => []

mutual
def SObj.value : SObj → Obj
  | .null _ => .null
  | .bool _ b => .bool b
  | .int _ _ _ i => .int i
  | .real _ r => r.value
  | .lit _ ps => .str (strBytes ps)
  | .hex _ ps last _ => .str (hexValueOf ps last)
  | .name _ ps => .name (ps.map NPiece.byte)
  | .arr _ items _ => .arr (valueList items)
  | .dict _ kvs _ => .dict (valueKVs kvs)
  | .ref _ n g _ _ => .ref (n : Int) (g : Int)
def valueList : List SObj → List Obj
  | [] => []
  | x :: xs => x.value :: valueList xs
/-- key, value, key, value, … as pairs, in writing order -/
def valueKVs : List SObj → List (Str × Obj)
  | k :: v :: rest => (k.keyBytes, v.value) :: valueKVs rest
  | _ => []
end

mutual
def SObj.render : SObj → Str
  | .null pre => renderSep pre ++ kwNull
  | .bool pre b => renderSep pre ++ (if b then kwTrue else kwFalse)
  | .int pre plus z i => renderSep pre ++ printInt plus z i
  | .real pre r => renderSep pre ++ r.render
  | .lit pre ps => renderSep pre ++ renderStr ps
  | .hex pre ps last w => renderSep pre ++ renderHex ps last w
  | .name pre ps => renderSep pre ++ 47 :: renderName ps
  | .arr pre items close => renderSep pre ++ 91 :: (renderList items ++ (renderSep close ++ [93]))
  | .dict pre kvs close => renderSep pre ++ 60 :: 60 :: (renderList kvs ++ (renderSep close ++ [62, 62]))
  | .ref pre n g s1 s2 =>
    renderSep pre ++ (Tabula.A1.dec n ++ (renderSep s1 ++ (Tabula.A1.dec g ++ (renderSep s2 ++ [82]))))
def renderList : List SObj → Str
  | [] => []
  | x :: xs => x.render ++ renderList xs
end

def keysOf : List SObj → List Str
  | k :: _ :: rest => k.keyBytes :: keysOf rest
  | _ => []

mutual
/-- `need`: the previous token ends in a regular character, so a first token of
regular characters must be separated from it -/
def SObj.Valid (need : Bool) : SObj → Prop
  | .null pre => SepOk pre ∧ (need = true → pre ≠ [])
  | .bool pre _ => SepOk pre ∧ (need = true → pre ≠ [])
  | .int pre _ _ i => SepOk pre ∧ (need = true → pre ≠ []) ∧ -(2 ^ 63 : Int) ≤ i ∧ i < (2 ^ 63 : Int)
  | .real pre r => SepOk pre ∧ (need = true → pre ≠ []) ∧ r.Ok
  | .lit pre ps => SepOk pre ∧ ValidStr 0 ps
  | .hex pre ps last w => SepOk pre ∧ (∀ p ∈ ps, p.Ok) ∧ (∀ l, last = some l → l.Ok) ∧ AllWs w
  | .name pre ps => SepOk pre ∧ (∀ p ∈ ps, p.Ok)
  | .arr pre items close => SepOk pre ∧ SepOk close ∧ ValidList false items
  | .dict pre kvs close => SepOk pre ∧ SepOk close ∧ ValidKVs kvs ∧ (keysOf kvs).Nodup
  | .ref pre n g s1 s2 =>
    SepOk pre ∧ (need = true → pre ≠ []) ∧ SepOk s1 ∧ s1 ≠ [] ∧ SepOk s2 ∧ s2 ≠ [] ∧
      n ≤ Tabula.A1.maxInt64 ∧ g ≤ Tabula.A1.maxInt64
def ValidList (need : Bool) : List SObj → Prop
  | [] => True
  | x :: xs => x.Valid need ∧ ValidList x.endsRegular xs
/-- key (a name) then value (separated from the name if it starts regular) -/
def ValidKVs : List SObj → Prop
  | [] => True
  | [_] => False
  | k :: v :: rest => k.isName = true ∧ k.Valid false ∧ v.Valid true ∧ ValidKVs rest
end

mutual
/-- an upper bound on the parser fuel an object needs -/
def SObj.size : SObj → Nat
  | .arr _ items _ => 2 + sizeList items
  | .dict _ kvs _ => 2 + sizeList kvs
  | _ => 1
def sizeList : List SObj → Nat
  | [] => 0
  | x :: xs => 1 + x.size + sizeList xs
end

mutual
/-- nesting depth of a spelled tree: the number of arrays and dictionaries open around its
innermost token (`Obj.depth` of its value when the spelling is valid) -/
def SObj.depth : SObj → Nat
  | .arr _ items _ => 1 + sdepthList items
  | .dict _ kvs _ => 1 + sdepthList kvs
  | _ => 0
def sdepthList : List SObj → Nat
  | [] => 0
  | x :: xs => max x.depth (sdepthList xs)
end

/-- one content-stream operation, spelled: operands, then the operator name
(made of regular characters) with its separator -/
structure SOp where
  operands : List SObj
  pre : Sep
  op : Str

end Tabula.Pdf
