import TabulaModel.Model.Filters
/-!
Declarative readings of PDF 32000-1 §7.4.2 (ASCIIHexDecode) and §7.4.3 (ASCII85Decode): what
the text says a decoder returns on ANY input, written as "clean the data, then read the groups"
instead of the one-pass loops of `internal/filters/ascii.go`. `Lemmas/FiltersSound.lean` proves
`hexDecode = hexSpec` and `a85Decode = a85Spec` for every input; the harness compares both with
the implementation (`c05.spec.hex`, `c05.spec.a85`). Core Lean only.
-/
namespace Tabula.Filters

/-- the part of the data that counts: everything before the first `>`, white space removed -/
def hexBodyOf (s : Str) : Str := (s.takeWhile (fun c => c != 62)).filter (fun c => !isWs c)

/-- the values of a string of hexadecimal digits; `none` if one of them is no digit -/
def hexVals : Str → Option (List Nat)
  | [] => some []
  | c :: cs =>
    match hexVal c with
    | none => none
    | some v => (hexVals cs).map (v :: ·)

/-- two digits per byte; a final odd digit counts as if followed by 0 -/
def pairUp : List Nat → Str
  | [] => []
  | [h] => [h * 16]
  | h :: l :: r => (h * 16 + l) :: pairUp r

/-- §7.4.2 read literally: ignore white space, stop at `>`, every other character must be a
hexadecimal digit, pair the digits up -/
def hexSpec (s : Str) : Option Str := (hexVals (hexBodyOf s)).map pairUp

/-! ### ASCII85 -/

/-- everything before the first `~>` -/
def cutEOD : Str → Str
  | [] => []
  | c :: rest => if c = 126 ∧ rest.head? = some 62 then [] else c :: cutEOD rest

/-- the part of the data that counts: everything before the first `~>`, white space removed -/
def a85BodyOf (s : Str) : Str := (cutEOD s).filter (fun c => !isWs c)

/-- a character `!`..`u` -/
def a85Digit (c : Nat) : Bool := 33 ≤ c && c ≤ 117

/-- the bytes of a group of 1..5 characters (each must be `!`..`u`): the digits `c - 33`, padded
with the digit 84 to five, as a base-85 number, must fit 32 bits; a group of n characters stands
for n-1 bytes (`a85Flush`) -/
def a85Group (g : Str) : Option Str :=
  if g.all a85Digit then a85Flush (g.map (· - 33)) else none

/-- read the cleaned data group by group: `z` at a group boundary is four zero bytes, otherwise
the next five characters form a group; fewer than five characters at the end form the final
partial group -/
def a85Groups : Str → Option Str
  | [] => some []
  | c0 :: r0 =>
    if c0 = 122 then (a85Groups r0).map (fun t => 0 :: 0 :: 0 :: 0 :: t)
    else
      match r0 with
      | c1 :: c2 :: c3 :: c4 :: r =>
        match a85Group [c0, c1, c2, c3, c4] with
        | none => none
        | some b => (a85Groups r).map (fun t => b ++ t)
      | part => a85Group (c0 :: part)

/-- §7.4.3 read literally -/
def a85Spec (s : Str) : Option Str := a85Groups (a85BodyOf s)

end Tabula.Filters
