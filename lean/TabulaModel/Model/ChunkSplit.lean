import TabulaModel.Model.Chunk
import TabulaModel.Model.Split
/-!
# RAG chunking (property C12), part 4: the element-based chunker with its text splitter

In `Model/Chunk.lean` the text splitter (`SizeCalculator.IsAboveMax` + `SplitToSize`) is a
parameter whose results are read from the implementation. `Model/Split.lean` (property C13) is
the model of exactly these functions; here the two are put together, so that
`rag.ChunkDocumentWithConfig(doc, _, sizeConfig)` is modelled down to the bytes of every chunk
text with no parameter left.
-/
namespace Tabula.ChunkSplit
open Tabula.Chunk

/-- the splitter at its call boundary in `textBlockToChunks`:
`if !sizeCalc.IsAboveMax(text) {one chunk} else sizeCalc.SplitToSize(text, nil)` -/
def splitterOf (c : Tabula.Split.SizeConfig) : Splitter := fun t =>
  if Tabula.Split.isAboveMax c t then some (Tabula.Split.splitToSize c t []) else none

/-- `rag.ChunkDocumentWithConfig(doc, config, sizeConfig)` = `NewDocumentChunkerWithConfig(config,
sizeConfig).ChunkDocument(doc)`; the `ChunkerConfig` is stored and never read by `ChunkDocument`,
`chunkPage` or the `create*Chunk` functions, so it is no argument of the model. -/
def chunkDocumentC (c : Tabula.Split.SizeConfig) (d : Doc) : List Chunk := chunkDocument (splitterOf c) d

/-- `rag.DefaultSizeConfig()` as far as splitting reads it: Max 2000 characters,
TokensPerChar 0.25, SplitAtSemanticBoundaries -/
def defaultSizeConfig : Tabula.Split.SizeConfig :=
  { maxValue := 2000, maxUnit := .characters, tpcNum := 1, tpcDen := 4, sem := true }

def tokenBased (maxTokens : Nat) : Tabula.Split.SizeConfig :=
  { maxValue := maxTokens, maxUnit := .tokens, tpcNum := 1, tpcDen := 4, sem := true }

/-- the presets of `rag/size_config.go` (`SmallChunkConfig`, `MediumChunkConfig`,
`LargeChunkConfig`, `OpenAIEmbeddingConfig`, `CohereEmbeddingConfig`, `ClaudeContextConfig`,
`DefaultSizeConfig`) and `RAGOptimizedOptions().SizeConfig`, as far as splitting reads them -/
def preset : String → Option Tabula.Split.SizeConfig
  | "default" => some defaultSizeConfig
  | "small" => some { defaultSizeConfig with maxValue := 800 }
  | "medium" => some defaultSizeConfig
  | "large" => some { defaultSizeConfig with maxValue := 4000 }
  | "openai" => some (tokenBased 8000)
  | "cohere" => some (tokenBased 512)
  | "claude" => some (tokenBased 8000)
  | "rag-optimized" => some (tokenBased 8000)
  | _ => none

/-- `rag.ChunkDocument(doc)` = `NewDocumentChunker().ChunkDocument(doc)`; also what
`tabula.Open(f).Chunks()` applies to the extracted document -/
def chunkDocumentDefault (d : Doc) : List Chunk := chunkDocumentC defaultSizeConfig d

/-- no White_Space character of more than one byte anywhere in the text (the generated texts
use ASCII white space only; `strings.TrimSpace` also removes U+0085, U+00A0, U+1680, U+2000…) -/
def noWide : Str → Bool
  | [] => true
  | b :: rest => decide (Tabula.Split.spaceLen (b :: rest) ≤ 1) && noWide rest

end Tabula.ChunkSplit
