import TabulaModel.Gen.GlyphNames
/-!
# `glyphNameToUnicode` (font/encoding.go): glyph name → Unicode

The table `parseEncodingDifferences` (font/type1.go) and `NewCustomEncodingFromGlyphs` look
glyph names up in: the part of the Adobe Glyph List the package carries. The table itself is
`Gen/GlyphNames.lean`, regenerated from the map literal of package font on every check run
(located by content, keys as byte strings, in source order; a Go map literal cannot repeat a
key), and additionally compared name by name through op `c07.glyph` over the harness's
independent Adobe Glyph List excerpt and over unknown names. Core Lean only.
-/
namespace Tabula.GlyphNames

/-- the entries of the map literal: name (bytes) and rune -/
def table : List (List Nat × Nat) := Tabula.Gen.GlyphNames.table

/-- `glyphNameToUnicode[name]`: `none` = the map has no such key -/
def glyphRune (name : List Nat) : Option Nat :=
  match table.find? (fun e => e.1 == name) with
  | some e => some e.2
  | none => none

end Tabula.GlyphNames
