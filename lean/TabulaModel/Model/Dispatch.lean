import TabulaModel.Model.Builder
/-
Which reader method a terminal operation of `tabula.Extractor` ends in, and with which options
(extractor.go: the `if e.format == format.DOCX { … }` ladders of `Text`, `Document` and
`ToMarkdownWithOptions`, and `Chunks` / `ChunksWithConfig` on top of `Document`).

For a PDF the operation runs tabula's own page pipeline (`Model/PageSel.lean`,
`Model/TextPipe.lean`).  For the six other formats it is one call on the format's reader:

  Text        docx/odt/xlsx/html  r.TextWithOptions({ExcludeHeaders, ExcludeFooters})
              pptx                r.TextWithOptions({ExcludeHeaders, ExcludeFooters, IncludeNotes: true, IncludeTitles: true})
              epub                r.Text()                                   (no option reaches it)
  Document    all six             r.Document()                               (no option reaches it)
  Chunks      all six             rag.ChunkDocument(r.Document())
  ChunksWithConfig                rag.ChunkDocumentWithConfig(r.Document(), config, sizeConfig)
  ToMarkdown[WithOptions]
              docx/odt/xlsx/html  r.MarkdownWithRAGOptions({ExcludeHeaders, ExcludeFooters}, opts)
              pptx                r.MarkdownWithRAGOptions({…, IncludeNotes: true, IncludeTitles: true}, opts)
              epub                r.Markdown()                               (neither options nor opts)
  the nine PDF-only operations    error of ensurePDFReader

`extra` is the format's own switch: for PPTX `IncludeNotes` and `IncludeTitles` (the extractor
sets both), for HTML and EPUB `NavigationExclusion` (the extractor leaves the zero value
`NavigationExclusionNone`, where the readers' own `Text()` uses `NavigationExclusionStandard`).
Core Lean only.
-/
namespace Tabula.Dispatch
open Tabula.Builder

inductive Method where
  | text | document | markdown
  deriving DecidableEq, Repr

/-- what is done to the `*model.Document` a reader returns -/
inductive Post where
  | none | chunk | chunkCfg
  deriving DecidableEq, Repr

/-- one call on the reader of a format -/
structure RCall where
  reader : Fmt
  method : Method
  eh : Bool        -- ExcludeHeaders of the options struct (false when no struct is passed)
  ef : Bool        -- ExcludeFooters
  extra : Bool     -- pptx: IncludeNotes && IncludeTitles; html, epub: NavigationExclusionStandard
  rag : Bool       -- the caller's rag.MarkdownOptions are handed to the reader
  post : Post
  deriving DecidableEq, Repr

inductive Route where
  | pdfPipeline               -- tabula's own page loop
  | reader (c : RCall)
  | unsupported               -- ensurePDFReader's error / no reader for the format
  deriving DecidableEq, Repr

/-- the options struct `Text` and `ToMarkdownWithOptions` build for a format -/
def optsFor (f : Fmt) (o : Options) : Bool × Bool × Bool :=
  match f with
  | .pptx => (o.excludeHeaders, o.excludeFooters, true)
  | .epub => (false, false, false)
  | _ => (o.excludeHeaders, o.excludeFooters, false)

def route (k : Term) (e : Ext) : Route :=
  if e.format = .pdf then .pdfPipeline
  else if k.pdfOnly || e.format = .unknown then .unsupported
  else
    let (eh, ef, x) := optsFor e.format e.opts
    match k with
    | .text => .reader ⟨e.format, .text, eh, ef, x, false, .none⟩
    | .toMarkdown => .reader ⟨e.format, .markdown, eh, ef, x, e.format != .epub, .none⟩
    | .document => .reader ⟨e.format, .document, false, false, false, false, .none⟩
    | .chunks => .reader ⟨e.format, .document, false, false, false, false, .chunk⟩
    | .chunksWithConfig => .reader ⟨e.format, .document, false, false, false, false, .chunkCfg⟩
    | _ => .unsupported

/-- the key under which the harness lists the result of a reader call:
method letter (t d k q m), then eh ef extra rag as 0/1 -/
def RCall.key (c : RCall) : String :=
  let b := fun (v : Bool) => if v then "1" else "0"
  let m := match c.method, c.post with
    | .text, _ => "t"
    | .markdown, _ => "m"
    | .document, .none => "d"
    | .document, .chunk => "k"
    | .document, .chunkCfg => "q"
  m ++ b c.eh ++ b c.ef ++ b c.extra ++ b c.rag

end Tabula.Dispatch
