import TabulaModel.Model.ChunkSent
import TabulaModel.Model.Split
/-!
# RAG chunking (property C12), part 8: `BoundaryDetector.isListIntro` (`rag/boundary.go`)

In `Model/ChunkLayout.lean` the flag "this paragraph introduces a list" is a parameter read from
the implementation. The code trims the text (`strings.TrimSpace`) and tries the four regular
expressions of `DefaultBoundaryConfig().ListIntroPatterns` (both constructors of `Chunker` use them):

    (?i)(the\s+following|here\s+are|these\s+(are|include)|below\s+(are|is)|as\s+follows)\s*:?\s*$
    (?i)(steps?|features?|items?|points?|reasons?|benefits?|advantages?|options?|examples?)\s*:?\s*$
    (?i)(include|includes|including|such\s+as|for\s+example|e\.g\.|i\.e\.)\s*:?\s*$
    :\s*$

All four are anchored at the end of the text only, so the model reads the text backwards. Behind
the optional white space at the end (`\s` of Go's `regexp` is `[\t\n\f\r ]`) either a colon stands
— then the fourth expression matches — or, for the first three, one of the phrases must end there
(a phrase never ends with a colon or white space, so `\s*:?\s*` has nothing else to take).
A phrase is a sequence of words separated by `\s+`; under `(?i)` a letter matches both its cases,
and `s` also matches U+017F (LATIN SMALL LETTER LONG S, bytes C5 BF), the only further character
Unicode simple case folding puts with a letter that occurs in the phrases (no phrase has a `k`).
-/
namespace Tabula.ChunkIntro
open Tabula.Chunk Tabula.ChunkLayout

/-- `\s` of Go's `regexp` (RE2): `[\t\n\f\r ]` — no vertical tab -/
def reSpace (b : Nat) : Bool := b == 9 || b == 10 || b == 12 || b == 13 || b == 32

/-- a word of a phrase, or the `\s+` between two words -/
inductive Tok where
  | lit (w : Str)
  | gap
  deriving Repr, DecidableEq

/-- one pattern character (a lower-case letter or `.`) at the head of the REVERSED text under `(?i)`:
the rest behind it, if it matches -/
def matchCharRev (c : Nat) : Str → Option Str
  | [] => none
  | b :: rest =>
    if b == c then some rest
    else if 97 ≤ c && c ≤ 122 && b + 32 == c then some rest
    else if c == 115 && b == 0xBF then
      match rest with
      | 0xC5 :: rest' => some rest'
      | _ => none
    else none

/-- a word, last character first, at the head of the reversed text -/
def matchLitRev : Str → Str → Option Str
  | [], r => some r
  | c :: cs, r =>
    match matchCharRev c r with
    | some r' => matchLitRev cs r'
    | none => none

/-- `\s+` at the head of the reversed text: at least one, then as many as there are (what follows
in a phrase is a word, which starts with no white space) -/
def matchGapRev : Str → Option Str
  | b :: rest => if reSpace b then some (rest.dropWhile reSpace) else none
  | [] => none

/-- a phrase (its tokens in REVERSED order) ends where the reversed text starts -/
def matchRev : List Tok → Str → Bool
  | [], _ => true
  | .lit w :: ts, r =>
    match matchLitRev w.reverse r with
    | some r' => matchRev ts r'
    | none => false
  | .gap :: ts, r =>
    match matchGapRev r with
    | some r' => matchRev ts r'
    | none => false

def words (ws : List String) : List Tok := (ws.map fun w => Tok.lit (ofString w)).intersperse .gap

/-- the phrases of the first three expressions (every alternative, `s?` spelled out), in forward order -/
def phrases : List (List Tok) :=
  [ words ["the", "following"], words ["here", "are"], words ["these", "are"], words ["these", "include"],
    words ["below", "are"], words ["below", "is"], words ["as", "follows"],
    words ["step"], words ["steps"], words ["feature"], words ["features"], words ["item"], words ["items"],
    words ["point"], words ["points"], words ["reason"], words ["reasons"], words ["benefit"], words ["benefits"],
    words ["advantage"], words ["advantages"], words ["option"], words ["options"], words ["example"], words ["examples"],
    words ["include"], words ["includes"], words ["including"], words ["such", "as"], words ["for", "example"],
    words ["e.g."], words ["i.e."] ]

/-- the text reversed, behind `strings.TrimSpace` and the trailing `\s*` of the expressions -/
def tailRev (text : Str) : Str := ((Tabula.Split.trimSpace text).reverse).dropWhile reSpace

/-- `BoundaryDetector.isListIntro` with the default patterns -/
def isListIntro (text : Str) : Bool :=
  let r := tailRev text
  r.head? == some 58 || phrases.any fun p => matchRev p.reverse r

/-- fill the `intro` parameter of every paragraph with what `isListIntro` returns for its text -/
def withIntro (d : LDoc) : LDoc :=
  d.map fun pg => { pg with layout := pg.layout.map fun lay =>
    { lay with paras := lay.paras.map fun p => { p with intro := isListIntro p.text } } }

/-- `Chunker.Chunk` with `splitIntoSentences` and `isListIntro` computed by the model: no parameter
of the layout-based chunker is read from the implementation any more, except the Unicode
lower-case table `low` -/
def chunkSI (low : Str → Bool) (cfg : Cfg) (title : Str) (d : LDoc) : List Chunk :=
  Tabula.ChunkSent.chunkS low cfg title (withIntro d)

end Tabula.ChunkIntro
