import TabulaModel.Model.CMap
/-!
# The independent ToUnicode-CMap writer (harness/c07/cmaps.go `render`), in Lean

Written from the CMap syntax (ISO 32000-1 9.10.3, Adobe TN 5014), not from tabula: the
round-trip theorems of `Props/C07CMap.lean` quantify over the programs this writer produces,
for every code→text map and every formatting policy. The correspondence op `c07.render`
compares `renderMap` with the Go writer byte for byte on every generated map, so the theorems
speak about the very programs the oracles feed to tabula.

A program is: six header lines, the code-space section, `begin…`/`end…` sections of at most
100 items each, four trailer lines. A *line* is its tokens joined by `sep` and ended by `eol`
(`Policy.sep`, `Policy.eol`); with `oneLine` the "end of line" is a single space and the whole
program is one line; with `tight` there is no white space between the tokens of a line.
Section bodies are written as a stream of `(token, filler)` pairs: the token text followed by
the white space the line discipline puts after it.
-/
namespace Tabula.CMap
open Tabula.UTF16

/-! ## hex, codes, targets -/

/-- upper-case hex digit -/
def hexDigit (d : Nat) : Nat := if d < 10 then 48 + d else 55 + d

/-- hex digit in the case the policy asks for -/
def hexDigitP (upper : Bool) (d : Nat) : Nat := if d < 10 then 48 + d else if upper then 55 + d else 87 + d

/-- hex text of a byte string (upper case) -/
def hexOfBytes : List Nat → Str
  | [] => []
  | b :: t => hexDigit (b / 16) :: hexDigit (b % 16) :: hexOfBytes t

/-- hex text of a byte string in the given case -/
def hexOfBytesP (upper : Bool) : List Nat → Str
  | [] => []
  | b :: t => hexDigitP upper (b / 16) :: hexDigitP upper (b % 16) :: hexOfBytesP upper t

/-- big-endian bytes of a code of width `w` -/
def codeBytes : Nat → Nat → List Nat
  | 0, _ => []
  | w + 1, c => codeBytes w (c / 256) ++ [c % 256]

/-- `<src>` token text of code `c` (upper case) -/
def srcTok (w c : Nat) : Str := hexOfBytes (codeBytes w c)

/-- `<dst>` token text: UTF-16BE of the target text (upper case) -/
def dstTok (t : List Nat) : Str := hexOfBytes (bytesBE (encodeUnits t))

/-- one line `<src> <dst>\n` -/
def renderLine (w : Nat) (e : Nat × List Nat) : Str :=
  60 :: (srcTok w e.1 ++ 62 :: 32 :: 60 :: (dstTok e.2 ++ [62, 10]))

/-- the body of a `beginbfchar … endbfchar` section, one entry per line, upper case, LF -/
def renderSection (w : Nat) : List (Nat × List Nat) → Str
  | [] => []
  | e :: es => renderLine w e ++ renderSection w es

/-- the hex tokens of that section -/
def tokensOf (w : Nat) (es : List (Nat × List Nat)) : List Str :=
  es.flatMap fun e => [srcTok w e.1, dstTok e.2]

/-! ## formatting policy -/

/-- the formatting knobs of the writer (`policy` of cmaps.go without `name`/`form`) -/
structure Policy where
  oneLine : Bool := false
  tight : Bool := false
  crlf : Bool := false
  upper : Bool := true
  wrapArr : Nat := 0
  deriving Repr, DecidableEq

/-- end of line: a space when everything is on one line, else CR LF or LF -/
def Policy.eol (p : Policy) : Str := if p.oneLine then [32] else if p.crlf then [13, 10] else [10]

/-- token separator inside a line -/
def Policy.sep (p : Policy) : Str := if p.tight then [] else [32]

/-- `w.line(s)` for a one-token line -/
def Policy.line (p : Policy) (s : Str) : Str := s ++ p.eol

/-- `w.code(c, width)` without the angle brackets -/
def codeTok (p : Policy) (w c : Nat) : Str := hexOfBytesP p.upper (codeBytes w c)

/-- `w.text(t)` without the angle brackets -/
def textTok (p : Policy) (t : List Nat) : Str := hexOfBytesP p.upper (bytesBE (encodeUnits t))

/-! ## items and sections -/

/-- consecutive codes `lo, lo+1, …` and their texts (`run` of cmaps.go) -/
structure Run where
  lo : Nat
  texts : List (List Nat)
  deriving Repr, DecidableEq

/-- last code of a run -/
def Run.hi (r : Run) : Nat := r.lo + r.texts.length - 1

/-- the code→text entries a run specifies -/
def Run.entriesFrom : Nat → List (List Nat) → List (Nat × List Nat)
  | _, [] => []
  | c, t :: ts => (c, t) :: Run.entriesFrom (c + 1) ts

def Run.entries (r : Run) : List (Nat × List Nat) := Run.entriesFrom r.lo r.texts

/-- one item of a section -/
inductive Item
  /-- `<code> <text>` in a bfchar section -/
  | char (code : Nat) (text : List Nat)
  /-- `<lo> <hi> <text0>` in a bfrange section -/
  | offset (r : Run)
  /-- `<lo> <hi> [ <text0> <text1> … ]` in a bfrange section -/
  | array (r : Run)
  deriving Repr, DecidableEq

inductive Kind | bfchar | bfrange
  deriving Repr, DecidableEq

structure Section where
  kind : Kind
  items : List Item
  deriving Repr

def Kind.kwBegin : Kind → Str
  | .bfchar => kwBeginBfChar
  | .bfrange => kwBeginBfRange

def Kind.kwEnd : Kind → Str
  | .bfchar => kwEndBfChar
  | .bfrange => kwEndBfRange

/-- text of a token -/
def Tok.text : Tok → Str
  | .hex h => 60 :: (h ++ [62])
  | .lbr => [91]
  | .rbr => [93]

/-- the array elements of `arrayItem`: each text followed by `sep`, or by `eol` where the
array is wrapped (`wrapArr > 0 && (i+1) % wrapArr == 0 && i+1 < len`) -/
def arrayElems (p : Policy) (n : Nat) : Nat → List (List Nat) → List (Tok × Str)
  | _, [] => []
  | i, t :: ts =>
    (Tok.hex (textTok p t),
      if p.wrapArr > 0 ∧ (i + 1) % p.wrapArr = 0 ∧ i + 1 < n then p.eol else p.sep)
      :: arrayElems p n (i + 1) ts

/-- the `(token, filler)` stream of one item (`bfcharItem`, `offsetItem`, `arrayItem`) -/
def itemToks (p : Policy) (w : Nat) : Item → List (Tok × Str)
  | .char c t => [(Tok.hex (codeTok p w c), p.sep), (Tok.hex (textTok p t), p.eol)]
  | .offset r =>
    [(Tok.hex (codeTok p w r.lo), p.sep), (Tok.hex (codeTok p w r.hi), p.sep),
     (Tok.hex (textTok p (r.texts.headD [])), p.eol)]
  | .array r =>
    [(Tok.hex (codeTok p w r.lo), p.sep), (Tok.hex (codeTok p w r.hi), p.sep), (Tok.lbr, p.sep)]
      ++ arrayElems p r.texts.length 0 r.texts ++ [(Tok.rbr, p.eol)]

/-- text of a `(token, filler)` stream -/
def renderToks (l : List (Tok × Str)) : Str := l.flatMap fun tf => tf.1.text ++ tf.2

/-- decimal digits of a count (`%d`) -/
def natDec (n : Nat) : Str :=
  if h : n < 10 then [48 + n] else natDec (n / 10) ++ [48 + n % 10]
decreasing_by omega

/-- the body of a section: what stands between the begin keyword and the end keyword,
without the end of line that follows the begin keyword -/
def sectionBody (p : Policy) (w : Nat) (s : Section) : Str :=
  renderToks (s.items.flatMap (itemToks p w))

/-- `N begin<kind>` EOL items… `end<kind>` EOL -/
def renderSec (p : Policy) (w : Nat) (s : Section) : Str :=
  natDec s.items.length ++ 32 :: s.kind.kwBegin ++ p.eol ++ sectionBody p w s ++ s.kind.kwEnd ++ p.eol

/-! ## the program -/

/-- `/CIDInit /ProcSet findresource begin` -/
def hdr1 : Str := [47, 67, 73, 68, 73, 110, 105, 116, 32, 47, 80, 114, 111, 99, 83, 101, 116, 32, 102, 105, 110, 100, 114, 101, 115, 111, 117, 114, 99, 101, 32, 98, 101, 103, 105, 110]
/-- `12 dict begin` -/
def hdr2 : Str := [49, 50, 32, 100, 105, 99, 116, 32, 98, 101, 103, 105, 110]
/-- `begincmap` -/
def hdr3 : Str := [98, 101, 103, 105, 110, 99, 109, 97, 112]
/-- `/CIDSystemInfo << /Registry (Adobe) /Ordering (UCS) /Supplement 0 >> def` -/
def hdr4 : Str := [47, 67, 73, 68, 83, 121, 115, 116, 101, 109, 73, 110, 102, 111, 32, 60, 60, 32, 47, 82, 101, 103, 105, 115, 116, 114, 121, 32, 40, 65, 100, 111, 98, 101, 41, 32, 47, 79, 114, 100, 101, 114, 105, 110, 103, 32, 40, 85, 67, 83, 41, 32, 47, 83, 117, 112, 112, 108, 101, 109, 101, 110, 116, 32, 48, 32, 62, 62, 32, 100, 101, 102]
/-- `/CMapName /Adobe-Identity-UCS def` -/
def hdr5 : Str := [47, 67, 77, 97, 112, 78, 97, 109, 101, 32, 47, 65, 100, 111, 98, 101, 45, 73, 100, 101, 110, 116, 105, 116, 121, 45, 85, 67, 83, 32, 100, 101, 102]
/-- `/CMapType 2 def` -/
def hdr6 : Str := [47, 67, 77, 97, 112, 84, 121, 112, 101, 32, 50, 32, 100, 101, 102]
/-- `1 begincodespacerange` -/
def hdr7 : Str := 49 :: 32 :: kwBeginCodeSpace
/-- `endcmap` -/
def trl1 : Str := [101, 110, 100, 99, 109, 97, 112]
/-- `CMapName currentdict /CMap defineresource pop` -/
def trl2 : Str := [67, 77, 97, 112, 78, 97, 109, 101, 32, 99, 117, 114, 114, 101, 110, 116, 100, 105, 99, 116, 32, 47, 67, 77, 97, 112, 32, 100, 101, 102, 105, 110, 101, 114, 101, 115, 111, 117, 114, 99, 101, 32, 112, 111, 112]
/-- `end` -/
def trl3 : Str := [101, 110, 100]

/-- the six lines before the code-space section -/
def header (p : Policy) : Str :=
  p.line hdr1 ++ p.line hdr2 ++ p.line hdr3 ++ p.line hdr4 ++ p.line hdr5 ++ p.line hdr6

/-- what stands between `begincodespacerange` and `endcodespacerange`:
EOL `<00…>` sep `<FF…>` EOL -/
def codeSpaceBody (p : Policy) (w : Nat) : Str :=
  p.eol ++ Tok.text (.hex (hexOfBytesP p.upper (List.replicate w 0))) ++ p.sep ++
    Tok.text (.hex (hexOfBytesP p.upper (List.replicate w 255))) ++ p.eol

/-- `1 begincodespacerange` EOL `<00…> <FF…>` EOL `endcodespacerange` EOL -/
def codeSpaceSec (p : Policy) (w : Nat) : Str :=
  hdr7 ++ codeSpaceBody p w ++ kwEndCodeSpace ++ p.eol

/-- the four lines after the last section -/
def trailer (p : Policy) : Str := p.line trl1 ++ p.line trl2 ++ p.line trl3 ++ p.line trl3

/-- the whole program for a list of sections -/
def renderProgram (p : Policy) (w : Nat) (secs : List Section) : Str :=
  header p ++ codeSpaceSec p w ++ secs.flatMap (renderSec p w) ++ trailer p

/-! ## from a code→text map to sections (the `switch p.form` of `render`) -/

/-- pieces of at most `n` elements (`fuel` ≥ length) -/
def chunksAux {α : Type} (n : Nat) : Nat → List α → List (List α)
  | 0, _ => []
  | _, [] => []
  | fuel + 1, a :: l => ((a :: l).take n) :: chunksAux n fuel ((a :: l).drop n)

/-- `section(kind, items)`: sections of at most 100 items -/
def sectionsOfItems (k : Kind) (items : List Item) : List Section :=
  (chunksAux 100 items.length items).map fun c => ⟨k, c⟩

inductive Form | bfchar | offset | array | mixed | override
  deriving Repr, DecidableEq

/-- `overridden(r)`: the code in the middle of a run of at least two codes and the text the
later bfchar entry gives it (`#` followed by the run's own text) -/
def overridden (r : Run) : Option (Nat × List Nat) :=
  if r.texts.length < 2 then none
  else some (r.lo + r.texts.length / 2, 35 :: (r.texts.getD (r.texts.length / 2) []))

/-- the items of the `mixed` form: run `i` is a bfchar entry when it is a single code and `i`
is even, an array when `i % 3 == 0`, else an offset range -/
def mixedItems : Nat → List Run → List Item × List Item
  | _, [] => ([], [])
  | i, r :: rs =>
    let rest := mixedItems (i + 1) rs
    if r.texts.length = 1 ∧ i % 2 = 0 then (Item.char r.lo (r.texts.headD []) :: rest.1, rest.2)
    else if i % 3 = 0 then (rest.1, Item.array r :: rest.2)
    else (rest.1, Item.offset r :: rest.2)

/-- the sections `render` writes for a map under a form -/
def sectionsOf (f : Form) (runs : List Run) : List Section :=
  match f with
  | .bfchar => sectionsOfItems .bfchar ((runs.flatMap Run.entries).map fun e => Item.char e.1 e.2)
  | .offset => sectionsOfItems .bfrange (runs.map Item.offset)
  | .array => sectionsOfItems .bfrange (runs.map Item.array)
  | .override =>
    sectionsOfItems .bfrange (runs.map Item.offset) ++
      sectionsOfItems .bfchar (runs.filterMap fun r => (overridden r).map fun e => Item.char e.1 e.2)
  | .mixed =>
    sectionsOfItems .bfchar (mixedItems 0 runs).1 ++ sectionsOfItems .bfrange (mixedItems 0 runs).2

/-- `render(m, p)` -/
def renderMap (p : Policy) (f : Form) (w : Nat) (runs : List Run) : Str :=
  renderProgram p w (sectionsOf f runs)

/-- `entriesFor(p)`: the specified code→text map of `renderMap p f w runs` -/
def entriesFor (f : Form) (runs : List Run) : List (Nat × List Nat) :=
  match f with
  | .override =>
    (runs.flatMap Run.entries).map fun e =>
      match (runs.filterMap overridden).find? (fun o => o.1 == e.1) with
      | some o => (e.1, o.2)
      | none => e
  | _ => runs.flatMap Run.entries

end Tabula.CMap
