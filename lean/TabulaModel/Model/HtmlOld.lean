import TabulaModel.Model.Html
/-
The traversal of htmldoc/reader.go as it was BEFORE fix 75d57dc (finding
C19/content-missing-para-with-block-child): a p/div that has a block-level child was only
descended into by the ordinary child loop, so its own direct text (text nodes, inline elements)
was never returned.  Kept so that the history stays visible: the `_pinned_counterexample`
theorems are about these functions, `repair_only_adds` / `repair_unchanged_without_mixed`
(Props/C19Repair.lean) relate them to the repaired traversal.  Nothing else uses them.
Core Lean only.
-/
namespace Tabula.Html

mutual
/-- `traverseNodeFiltered` before fix 75d57dc (differs from `trav` in the last line of the
`pdiv` case only) -/
def travOld (p : Pos → Dom → Bool) (w : Bool) (pos : Pos) : Dom → St → St
  | .text _, s => s
  | .other kids, s => travLOld p w (pos.kid w []) kids s
  | .elem tag attrs kids, s =>
    if isSkip tag then s
    else if p pos (.elem tag attrs kids) then s
    else
      let kp := pos.kid w tag
      match classify tag with
      | .heading lvl =>
        let s1 := flushList s
        let t := trim (getTextContent (.elem tag attrs kids))
        if t != [] then s1.emit (.heading lvl t) else s1
      | .pdiv isP =>
        let s1 := if isP then flushList s else s
        let t := trim (getTextContent (.elem tag attrs kids))
        if t != [] && !isBlockContainer kids then (flushList s1).emit (.para t)
        else travLOld p w kp kids s1
      | .list ord => listExit s (travLOld p w kp kids (listEnter ord s))
      | .li =>
        if s.inList then liExit (travLiOld p w kp kids (liHead kids s))
        else strayExit (liExit (travLiOld p w kp kids (liHead kids (strayEnter s))))
      | .table =>
        let s1 := flushList s
        let (rows, hd) := parseTable kids
        if rows != [] then s1.emit (.table hd rows) else s1
      | .code =>
        let t := getTextContent (.elem tag attrs kids)
        if t != [] then (flushList s).emit (.code t) else s
      | .quote =>
        let t := trim (getTextContent (.elem tag attrs kids))
        if t != [] then (flushList s).emit (.quote t) else s
      | .void => s
      | .other => travLOld p w kp kids s
def travLOld (p : Pos → Dom → Bool) (w : Bool) (kp : Pos) : List Dom → St → St
  | [], s => s
  | k :: ks, s => travLOld p w kp ks (travOld p w kp k s)
def travLiOld (p : Pos → Dom → Bool) (w : Bool) (kp : Pos) : List Dom → St → St
  | [], s => s
  | k :: ks, s => travLiOld p w kp ks (if isListElem k then travOld p w kp k s else s)
end

/-- `extractBodyWithMode` before the fix -/
def extractOldWith (p : Pos → Dom → Bool) (body : Dom) : List Element :=
  (flushList (travOld p (hasWrapper body) .root body {})).out

/-- `getElements(mode)` on a fresh reader before the fix -/
def extractOld (m : Mode) (body : Dom) : List Element := extractOldWith (excluded m) body

mutual
/-- the specification the old traversal refined (`atoms` before the fix) -/
def atomsOld (p : Pos → Dom → Bool) (w : Bool) (pos : Pos) (lc : LC) : Dom → List Atom
  | .text _ => []
  | .other kids => atomsLOld p w (pos.kid w []) lc kids
  | .elem tag attrs kids =>
    if isSkip tag then []
    else if p pos (.elem tag attrs kids) then []
    else
      let kp := pos.kid w tag
      match classify tag with
      | .heading lvl =>
        let t := trim (getTextContent (.elem tag attrs kids))
        if t != [] then [.heading lvl t] else []
      | .pdiv _ =>
        let t := trim (getTextContent (.elem tag attrs kids))
        if t != [] && !isBlockContainer kids then [.para t] else atomsLOld p w kp lc kids
      | .list _ => atomsLOld p w kp lc.enter kids
      | .li =>
        let text := getDirectTextContent kids
        (if text != [] then [Atom.item lc.enter.level text] else []) ++
          atomsLiOld p w kp ⟨true, lc.enter.level + 1⟩ kids
      | .table => (parseTable kids).1.flatten.map .cell
      | .code =>
        let t := getTextContent (.elem tag attrs kids)
        if t != [] then [.code t] else []
      | .quote =>
        let t := trim (getTextContent (.elem tag attrs kids))
        if t != [] then [.quote t] else []
      | .void => []
      | .other => atomsLOld p w kp lc kids
def atomsLOld (p : Pos → Dom → Bool) (w : Bool) (kp : Pos) (lc : LC) : List Dom → List Atom
  | [] => []
  | k :: ks => atomsOld p w kp lc k ++ atomsLOld p w kp lc ks
def atomsLiOld (p : Pos → Dom → Bool) (w : Bool) (kp : Pos) (lc : LC) : List Dom → List Atom
  | [] => []
  | k :: ks => (if isListElem k then atomsOld p w kp lc k else []) ++ atomsLiOld p w kp lc ks
end

def atomsOldOf (p : Pos → Dom → Bool) (body : Dom) : List Atom :=
  atomsOld p (hasWrapper body) .root ⟨false, 0⟩ body

end Tabula.Html
