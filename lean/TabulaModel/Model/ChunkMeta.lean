import TabulaModel.Model.ChunkSplit
/-!
# RAG chunking (property C12), part 6: the whole `ChunkMetadata` of the element-based chunker

`Model/Chunk.lean` keeps of a `rag.Chunk` what the statement of C12 names (index, id, total, page
range, section path, text). The `create*Chunk` functions of `rag/document_integration.go` fill
more: `SectionTitle`, `HeadingLevel`, `Level`, `ElementTypes`, `HasTable/HasList/HasImage`,
`CharCount`, `WordCount` (`EstimatedTokens`, `ParentID`, `ChildIDs`, `BBox`, `TextWithContext`
keep Go's zero value), and the collection's filters (`rag/metadata.go`) select by them.

Here the element walk of `chunkPage` is repeated with every chunk labelled by the `create*Chunk`
function that made it (`Origin`); all further metadata is a function of chunk and origin
(`XChunk.*`). `Lemmas/ChunkMeta.lean` proves that forgetting the label gives `chunkDocument`.
-/
namespace Tabula.ChunkMeta
open Tabula.Chunk

/-- which `create*Chunk` made the chunk. `text raw`: `createTextChunk` on a block (or a piece of
`SplitToSize`) whose text before `strings.TrimSpace` was `raw`; `heading l`:
`createChunkFromHeading` / `createHeadingChunk` with level `l`. -/
inductive Origin where
  | text (raw : Str)
  | heading (level : Int)
  | list
  | table
  | image
  deriving Repr, DecidableEq

def Origin.isText : Origin → Bool
  | .text _ => true
  | _ => false

structure XChunk where
  c : Chunk
  o : Origin
  deriving Repr, DecidableEq

/-- `createTextChunk` for each piece -/
def piecesX (path : List Str) (page : Int) : List Str → Nat → List XChunk
  | [], _ => []
  | t :: ts, idx => ⟨mkChunk (trim t) path page idx, .text t⟩ :: piecesX path page ts (idx + 1)

/-- `textBlockToChunks` -/
def textBlockX (sp : Splitter) (text : Str) (path : List Str) (page : Int) (idx : Nat) : List XChunk :=
  match sp text with
  | none => piecesX path page [text] idx
  | some ps => piecesX path page ps idx

/-- `flushTextBlock` -/
def flushX {σ} (sp : Splitter) (page : Int) (st : St σ) : St σ × List XChunk :=
  if st.block = [] then (st, [])
  else
    let cs := textBlockX sp st.block st.blockPath page st.idx
    ({ st with block := [], blockPath := [], idx := st.idx + cs.length }, cs)

def emitOneX {σ} (sp : Splitter) (page : Int) (st : St σ) (sec : σ) (text : Str) (path : List Str) (o : Origin) :
    St σ × List XChunk :=
  let (st1, cs) := flushX sp page st
  ({ st1 with sec := sec, idx := st1.idx + 1 }, cs ++ [⟨mkChunk text path page st1.idx, o⟩])

/-- one iteration of the element loop of `chunkPage`, every chunk with its origin -/
def stepElemX {σ} (tr : Tracker σ) (sp : Splitter) (toc : List TOCEntry) (page : Int)
    (st : St σ) : Elem → St σ × List XChunk
  | .para text =>
    if isHeadingElement text toc page then
      let sec := tr.push st.sec (getHeadingLevel text toc page) text
      emitOneX sp page st sec text (tr.path sec) (.heading (getHeadingLevel text toc page))
    else
      let b := if st.block = [] then text else st.block ++ [10, 10] ++ text
      ({ st with block := b, blockPath := tr.path st.sec }, [])
  | .heading level text =>
    let sec := tr.push st.sec level text
    emitOneX sp page st sec text (tr.path sec) (.heading level)
  | .list ordered items => emitOneX sp page st st.sec (listText ordered items) (tr.path st.sec) .list
  | .table rows => emitOneX sp page st st.sec (toMarkdown rows) (tr.path st.sec) .table
  | .image alt =>
    if alt = [] then flushX sp page st
    else emitOneX sp page st st.sec (imageText alt) (tr.path st.sec) .image

def runElemsX {σ} (tr : Tracker σ) (sp : Splitter) (toc : List TOCEntry) (page : Int) :
    St σ → List Elem → St σ × List XChunk
  | st, [] => (st, [])
  | st, e :: es =>
    let r1 := stepElemX tr sp toc page st e
    let r2 := runElemsX tr sp toc page r1.1 es
    (r2.1, r1.2 ++ r2.2)

def chunkPageX {σ} (tr : Tracker σ) (sp : Splitter) (toc : List TOCEntry) (st : St σ) (pg : Page) :
    St σ × List XChunk :=
  let r1 := runElemsX tr sp toc pg.number st (resolveRepeatedHeadings pg)
  let r2 := flushX sp pg.number r1.1
  (r2.1, r1.2 ++ r2.2)

def chunkPagesX {σ} (tr : Tracker σ) (sp : Splitter) (toc : List TOCEntry) :
    St σ → List Page → List (List XChunk)
  | _, [] => []
  | st, pg :: pgs =>
    let r := chunkPageX tr sp toc st pg
    r.2 :: chunkPagesX tr sp toc r.1 pgs

/-- the `TotalChunks` loop of `ChunkDocument` -/
def setTotalX (cs : List XChunk) : List XChunk := cs.map fun x => { x with c := { x.c with total := cs.length } }

def pageGroupsX {σ} (tr : Tracker σ) (sp : Splitter) (d : Doc) : List (List XChunk) :=
  chunkPagesX tr sp (tableOfContents d) (initSt tr) d

/-- `DocumentChunker.ChunkDocument`, every chunk with its origin -/
def chunkDocumentX (sp : Splitter) (d : Doc) : List XChunk :=
  setTotalX (pageGroupsX stackTracker sp d).flatten

/-- … with the splitter of C13 (`rag.ChunkDocumentWithConfig(doc, _, sizeConfig)`) -/
def chunkDocumentXC (c : Tabula.Split.SizeConfig) (d : Doc) : List XChunk :=
  chunkDocumentX (Tabula.ChunkSplit.splitterOf c) d

/-! ## the metadata fields, as the `create*Chunk` functions compute them -/

/-- `sectionTitle := ""; if len(sectionPath) > 0 { sectionTitle = sectionPath[len-1] }` -/
def titleOf (path : List Str) : Str := path.getLast?.getD []

def XChunk.title (x : XChunk) : Str := titleOf x.c.path

/-- `HeadingLevel`: set by the two heading constructors only -/
def XChunk.headingLevel (x : XChunk) : Int :=
  match x.o with
  | .heading l => l
  | _ => 0

/-- `Level`: `ChunkLevelSection` (1) for a heading, `ChunkLevelParagraph` (2) otherwise -/
def XChunk.level (x : XChunk) : Nat :=
  match x.o with
  | .heading _ => 1
  | _ => 2

/-- `ElementTypes`: one name per chunk (a text block is made of paragraphs only, so
`appendUnique` leaves the single entry "paragraph") -/
def XChunk.elementType (x : XChunk) : Str :=
  match x.o with
  | .text _ => ofString "paragraph"
  | .heading _ => ofString "heading"
  | .list => ofString "list"
  | .table => ofString "table"
  | .image => ofString "image"

def XChunk.hasTable (x : XChunk) : Bool := x.o == .table
def XChunk.hasList (x : XChunk) : Bool := x.o == .list
def XChunk.hasImage (x : XChunk) : Bool := x.o == .image

/-- what `CharCount` / `WordCount` are computed from: `block.text` (before `TrimSpace`) for a text
chunk, the chunk text for the others -/
def XChunk.counted (x : XChunk) : Str :=
  match x.o with
  | .text raw => raw
  | _ => x.c.text

/-- `CharCount: len(…)` -/
def XChunk.charCount (x : XChunk) : Nat := x.counted.length

/-- `WordCount: countWords(…)` (`rag/chunker.go`, modelled in `Model/Split.lean`) -/
def XChunk.wordCount (x : XChunk) : Nat := Tabula.Split.countWords x.counted

/-- `EstimatedTokens`: no constructor of the element-based chunker sets it -/
def XChunk.estimatedTokens (_ : XChunk) : Int := 0

/-! ## what an element yields on its own -/

/-- the one chunk a heading, heading-like paragraph, list, table or described image gives:
origin and text. A plain paragraph joins a text block, an image without alt text gives nothing. -/
def solo (toc : List TOCEntry) (page : Int) : Elem → Option (Origin × Str)
  | .heading l t => some (.heading l, t)
  | .para t => if isHeadingElement t toc page then some (.heading (getHeadingLevel t toc page), t) else none
  | .list o items => some (.list, listText o items)
  | .table rows => some (.table, toMarkdown rows)
  | .image alt => if alt = [] then none else some (.image, imageText alt)

/-- the solo chunks of a document in document order, with the number of their page -/
def soloSpec (d : Doc) : List (Origin × Str × Int) :=
  d.flatMap fun pg => (resolveRepeatedHeadings pg).filterMap fun e =>
    (solo (tableOfContents d) pg.number e).map fun r => (r.1, r.2, pg.number)

end Tabula.ChunkMeta
