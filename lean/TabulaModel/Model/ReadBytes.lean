import TabulaModel.Model.XrefFile
/-!
# The reader from the BYTES of the file to the text of the pages

`Reader.readPages` starts from an abstract file (objects and cross-reference sections); how
the bytes are found was outside it. `readBytes` closes that: it is the composition of

* `XrefFile.openFile` (C04's byte-level model of `reader.Open` / `NewReader`: `parseHeader`,
  `FindXRef` on the last 1024 bytes, `ParseXRef` for a classic table or a cross-reference
  stream, the `/Prev` chain, `MergeXRefTables`),
* the trailer in force (`NewReader`: `reader.trailer = xrefTable.Trailer`; `loadXRef` /
  `MergeXRefTables` "keep the last trailer", which is the one of the section `startxref` names),
* `GetCatalog`'s reading of the trailer's `/Root` (`rootB`),
* `XrefFile.getObjectB` (C04's byte-level model of `(*Reader).GetObject`: `N G obj` framing,
  the `/Length`-driven read of stream data with an indirect `/Length` resolved through the
  reader, object streams, the limit of 16 nested loads) as the resolver, and
* `Reader.readWith` (everything above the object layer: catalog, page tree with inherited
  `/Resources`, `/Contents` joined, fonts registered per page, content interpreted).

So `readBytes file ext` is what `tabula.Open(file).PageCount()` and `.Pages(i).Fragments()` texts
are for the file with these bytes. zlib inflate and NFC stay parameters (`Reader.Ext`).
Core Lean only.
-/
namespace Tabula.ReadBytes
open Tabula.Reader (Dict dget Err Ext PVal SVal toSVal readWith)
open Tabula.XrefFile (RawSection getLastI getObjectB maxNestedLoads openFile findXRef parseXRef)

abbrev Str := List Nat

/-- `Root` -/
def kRoot : Str := [82, 111, 111, 116]

/-- the trailer `NewReader` keeps: that of the section the last `startxref` names
(`ParseXRefFromEOF`'s table, or after `MergeXRefTables` the trailer of the newest table, which
is the same section) -/
def trailerOf (ext : Ext) (file : Str) : Option Dict :=
  match findXRef file with
  | .error _ => none
  | .ok start =>
    match parseXRef ext file start with
    | .ok (_, tr) => some tr
    | .error _ => none

/-- `GetCatalog`: the trailer's `/Root` must be an indirect reference; the object number it
names (`none`: `GetCatalog` fails - a negative number has no cross-reference entry) -/
def rootB (tr : Dict) : Option Nat :=
  match dget tr kRoot with
  | some (.ref n _) => if n < 0 then none else some n.toNat
  | _ => none

/-- `(*Reader).GetObject` on the bytes, as the layers above the object layer see it -/
def resB (ext : Ext) (file : Str) (x : RawSection) : Reader.Res := fun n =>
  match getObjectB ext file x (maxNestedLoads + 1) [] (n : Int) with
  | some v => .ok (toSVal ext v)
  | none => .error .err

/-- the largest non-negative object number with an entry in the table -/
def maxKeyI : RawSection → Nat
  | [] => 0
  | (k, _) :: r => max k.toNat (maxKeyI r)

/-- fuel of the page-tree walk (see `Reader.fuelOf`; never used up: `C01B.read_bytes_never_fuel`,
and any other sufficient value gives the same answer: `Reader.readWith_fuel_irrelevant`) -/
def fuelB (x : RawSection) : Nat := 4 * (maxKeyI x + 2)

/-- **the reader on the bytes**: for every page in page order, the decoded strings in show order -/
def readBytes (file : Str) (ext : Ext) : Except Err (List (List Str)) :=
  match openFile ext file with
  | .error _ => .error .err
  | .ok x =>
    match trailerOf ext file with
    | none => .error .err
    | some tr => readWith (resB ext file x) ext (fuelB x) (rootB tr)

end Tabula.ReadBytes
