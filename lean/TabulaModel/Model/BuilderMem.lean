import TabulaModel.Model.Builder
/-
The families of extractors grown from `tabula.FromHTMLReader(r)` / `tabula.FromHTMLString(s)`
(tabula.go): the base has no file name and owns an `htmldoc.Reader` that lives in memory
(`htmldoc.Reader.Close` does nothing and returns nil, no descriptor is held).  `clone` hands the
reader AND the ownership flag to every copy (`readerOpened && !(ownsReader && filename != "")`),
so all extractors of the family share one reader object that none of them can invalidate; what
`Close` (called directly, or deferred by a terminal operation) changes is the receiver's own
record: `htmlReader = nil; ownsReader = false; readerOpened = false` — and with no file name
`ensureReader` can never open anything again ("no filename specified").

The store of `Model/Builder.lean` marks a reader dead when its owner closes it, which is right
for files and wrong here; this family therefore has its own (simpler) step functions over the
same records (`Ext`), operations (`Op`) and results (`Res`).  `reader := some 0` stands for the
pointer to the shared `htmldoc.Reader`.  Core Lean only.
-/
namespace Tabula.BuilderMem
open Tabula.PageSel Tabula.Builder

/-- `FromHTMLReader(r)` when `htmldoc.OpenReader(r)` succeeds -/
def htmlBase : Ext :=
  { hasFile := false, reader := some 0, owns := true, opened := true, format := .html }

/-- `FromHTMLReader(r)` when it fails: `&Extractor{format: HTML, options: …, err: err}` -/
def htmlBaseErr : Ext := { hasFile := false, err := true, format := .html }

/-- `(*Extractor).Close` on a record of this family -/
def mClose (e : Ext) : Ext :=
  if e.owns then
    match e.reader with
    | some _ => { e with reader := none, owns := false, opened := false }
    | none => e
  else e

/-- a terminal operation: `e.err`, then `ensureReader` / `ensurePDFReader` (no file name: the
reader is there or the call fails; `ensurePDFReader` defers no `Close` when `filename == ""`),
`defer e.Close()`, the body -/
def mTerminal (w : World) (k : Term) (X : List Ext) (i : Nat) : List Ext × Res :=
  match X[i]? with
  | none => (X, .bad)
  | some e =>
    if k.checksErr e.format && e.err then (X, .err)
    else if k.pdfOnly && e.format != .pdf then (X, .err)
    else if !e.opened then (X, .err)
    else (X.set i (mClose e), termBodyF w k e)

/-- `PageCount` / `IsMultiColumn` / `IsCharacterLevel`: the same without the deferred `Close` -/
def mNonTerminal (w : World) (k : NonTerm) (X : List Ext) (i : Nat) : List Ext × Res :=
  match X[i]? with
  | none => (X, .bad)
  | some e =>
    if e.err then (X, .err)
    else if k.pdfOnly && e.format != .pdf then (X, .err)
    else if !e.opened then (X, .err)
    else (X, nonTermBody w k)

def mCloseOp (X : List Ext) (i : Nat) : List Ext × Res :=
  match X[i]? with
  | none => (X, .bad)
  | some e => (X.set i (mClose e), .closed)

/-- a configuration method (`Ext.derive` = `clone` + the change, as for every family) -/
def mDeriveOp (X : List Ext) (i : Nat) (c : BCall) : List Ext × Res :=
  match X[i]? with
  | none => (X, .bad)
  | some e => (X ++ [e.derive c], .none)

def mstep (w : World) (X : List Ext) : Op → List Ext × Res
  | .derive i c => mDeriveOp X i c
  | .term i k => mTerminal w k X i
  | .nonTerm i k => mNonTerminal w k X i
  | .close i => mCloseOp X i

def mrun (w : World) : List Ext → List Op → List Ext × List Res
  | X, [] => (X, [])
  | X, op :: ops =>
    let (X1, r) := mstep w X op
    let (X2, rs) := mrun w X1 ops
    (X2, r :: rs)

def mexec (w : World) : List Ext → List Op → List Ext
  | X, [] => X
  | X, op :: ops => mexec w (mstep w X op).1 ops

/-! ### the same answers from the calls alone -/

/-- is the receiver used up by this operation?  (a terminal operation that reaches its deferred
`Close`, or `Close` itself); `e` = the receiver's configuration, `live` = it still has the reader -/
def consumes (k : Term) (e : Ext) : Bool :=
  !(k.checksErr e.format && e.err) && !(k.pdfOnly && e.format != .pdf)

/-- answer of a terminal operation from configuration and liveness -/
def mTermStatic (w : World) (k : Term) (e : Ext) (live : Bool) : Res :=
  if k.checksErr e.format && e.err then .err
  else if k.pdfOnly && e.format != .pdf then .err
  else if !live then .err
  else termBodyF w k e

def mNonTermStatic (w : World) (k : NonTerm) (e : Ext) (live : Bool) : Res :=
  if e.err then .err
  else if k.pdfOnly && e.format != .pdf then .err
  else if !live then .err
  else nonTermBody w k

/-- one operation on the liveness flags of all extractors (`C` = their configurations) and its
answer -/
def mlStep (w : World) (C : List Ext) (V : List Bool) : Op → List Bool × Res
  | .derive i _ =>
    match V[i]? with
    | some v => (V ++ [v], .none)
    | none => (V, .bad)
  | .term i k =>
    match V[i]?, C[i]? with
    | some v, some e => (if consumes k e && v then V.set i false else V, mTermStatic w k e v)
    | _, _ => (V, .bad)
  | .nonTerm i k =>
    match V[i]?, C[i]? with
    | some v, some e => (V, mNonTermStatic w k e v)
    | _, _ => (V, .bad)
  | .close i =>
    match V[i]? with
    | some _ => (V.set i false, .closed)
    | none => (V, .bad)

/-- answers of a whole history on the family of `e0`, from the calls alone -/
def mStaticRun (w : World) (e0 : Ext) : List (List BCall) → List Bool → List Op → List Res
  | _, _, [] => []
  | L, V, op :: ops =>
    let (V', r) := mlStep w (L.map (chainFrom e0)) V op
    r :: mStaticRun w e0 (lineage L [op]) V' ops

end Tabula.BuilderMem
