import TabulaModel.Model.ChunkIntro
import TabulaModel.Model.ChunkSplit
/-!
# RAG chunking (property C12), part 9: one `model.Document`, both chunkers, the public entry points

`model.Document` as far as either chunker reads it: per page `Number`, `Elements` (the five element
types of package `model`) and `Layout` (`Headings`, `Paragraphs`, `Lists`; `nil` allowed), and
`Metadata.Title`. `Elements` and `Layout` are independent fields — the extraction fills them
consistently, a caller may not.

* `toDoc`: what `DocumentChunker.ChunkDocument` reads — `Elements`, and of `Layout` only the headings
  (through `Document.TableOfContents` and `resolveRepeatedHeadings`);
* `toLDoc`: what `Chunker.Chunk` reads — `Layout` only;
* `chunkDocumentAPI` / `chunkerChunkAPI`: `rag.ChunkDocument(WithConfig)` and
  `rag.NewChunker(WithConfig)(…).Chunk` with their `nil` handling.
-/
namespace Tabula.ChunkDoc
open Tabula.Chunk Tabula.ChunkLayout

/-- `model.PageLayout` as far as the chunkers read it -/
structure MLayout where
  headings : List (Int × Str)
  paras : List Str
  lists : List (List (Int × Str))
  deriving Repr, DecidableEq

/-- `model.Page` -/
structure MPage where
  number : Int
  elems : List Elem
  layout : Option MLayout
  deriving Repr, DecidableEq

/-- `model.Document` -/
structure MDoc where
  title : Str
  pages : List MPage
  deriving Repr, DecidableEq

/-- the document as the element-based chunker reads it -/
def toDoc (m : MDoc) : Doc :=
  m.pages.map fun pg => ⟨pg.number, pg.layout.map (·.headings), pg.elems⟩

/-- the document as the layout-based chunker reads it (the parameters `sents` / `intro` of
`Model/ChunkLayout.lean` are filled in by `withSents` / `withIntro`) -/
def toLDoc (m : MDoc) : LDoc :=
  m.pages.map fun pg => ⟨pg.number, pg.layout.map fun lay =>
    ⟨lay.headings.map fun h => ⟨h.1, h.2, []⟩, lay.paras.map fun t => ⟨t, false, []⟩, lay.lists.map fun l => ⟨l, []⟩⟩⟩

/-- `rag.ChunkDocumentWithConfig(doc, _, sizeConfig)` / `rag.ChunkDocument(doc)` (default size
configuration): a `nil` document gives the empty collection -/
def chunkDocumentAPI (c : Tabula.Split.SizeConfig) : Option MDoc → List Chunk
  | none => []
  | some m => Tabula.ChunkSplit.chunkDocumentC c (toDoc m)

/-- `rag.NewChunkerWithConfig(cfg).Chunk(doc)`: a `nil` document is an error -/
def chunkerChunkAPI (low : Str → Bool) (cfg : Cfg) : Option MDoc → Except Unit (List Chunk)
  | none => .error ()
  | some m => .ok (Tabula.ChunkIntro.chunkSI low cfg m.title (toLDoc m))

end Tabula.ChunkDoc
