/-
Model of the page-tree layer of the PDF reader:
  pages/pages.go  traversePageNode (flattening + inheritable attributes),
                  Page.getBox / Resources / Rotate (own value, else inherited)
  reader/reader.go extractTextWithFragments (content streams joined with a
                  white-space separator)
Resource bounds of the code (C02 repairs), modelled with the same constants and comparisons:
  `maxPageTreeDepth = 10000` (86b42aa): `traversePageNode` starts with
      `if t.depth >= maxPageTreeDepth { return error }; t.depth++` — `traverse` below;
  `maxPageContentBytes = 64 << 20` (36a165b): the decoding loop of `extractTextWithFragments`
      refuses `len(allData)+len(data) > maxPageContentBytes` before it appends — `joinLoop`.
`flatten` and `joinContents` stay as the unbounded specification functions; Props/C01.lean
proves that the bounded functions agree with them within the bounds and refuse beyond.
Core Lean only.
-/
namespace Tabula.PdfDoc

/-- the inheritable page attributes; `none` = key absent in that dictionary. `R` is what a
`/Resources` entry is represented by: a variant number in the page-tree op (`Attrs`), the
parsed object in the end-to-end reader model (`Model/Reader.lean`). -/
structure AttrsOf (R : Type) where
  mb : Option (Int × Int × Int × Int) := none
  res : Option R := none
  rot : Option Int := none
  deriving Repr, DecidableEq

abbrev Attrs := AttrsOf Nat

/-- the child's own value wins, otherwise the inherited one -/
def AttrsOf.over {R : Type} (child parent : AttrsOf R) : AttrsOf R :=
  { mb := child.mb.or parent.mb, res := child.res.or parent.res, rot := child.rot.or parent.rot }

inductive PTreeOf (R : Type)
  | leaf (a : AttrsOf R)
  | node (a : AttrsOf R) (kids : List (PTreeOf R))
  deriving Repr

abbrev PTree := PTreeOf Nat

section
variable {R : Type}

mutual
/-- `traversePageNode`: the effective attributes of every `/Page` leaf, left to right;
`inh` is what the ancestors hand down -/
def flatten : PTreeOf R → AttrsOf R → List (AttrsOf R)
  | .leaf a, inh => [a.over inh]
  | .node a kids, inh => flattenList kids (a.over inh)
def flattenList : List (PTreeOf R) → AttrsOf R → List (AttrsOf R)
  | [], _ => []
  | t :: ts, inh => flatten t inh ++ flattenList ts inh
end

mutual
def countLeaves : PTreeOf R → Nat
  | .leaf _ => 1
  | .node _ kids => countLeavesList kids
def countLeavesList : List (PTreeOf R) → Nat
  | [] => 0
  | t :: ts => countLeaves t + countLeavesList ts
end

mutual
/-- specification view: for each leaf, left to right, the attribute dictionaries on the path
from the root down to and including the leaf -/
def leafPaths : PTreeOf R → List (List (AttrsOf R))
  | .leaf a => [[a]]
  | .node a kids => (leafPathsList kids).map (a :: ·)
def leafPathsList : List (PTreeOf R) → List (List (AttrsOf R))
  | [] => []
  | t :: ts => leafPaths t ++ leafPathsList ts
end

/-- `maxPageTreeDepth` of pages/pages.go: the deepest page tree that is traversed -/
def maxPageTreeDepth : Nat := 10000

mutual
/-- the number of levels of a page tree (a leaf, or a node without kids, is one level) -/
def height : PTreeOf R → Nat
  | .leaf _ => 1
  | .node _ kids => heightList kids + 1
def heightList : List (PTreeOf R) → Nat
  | [] => 0
  | t :: ts => max (height t) (heightList ts)
end

mutual
/-- `traversePageNode` with its depth counter: `dep` is `t.depth` when the call is entered
(0 for the root). The check `t.depth >= maxPageTreeDepth` comes first, before the node's
`/Type` is looked at, so a `/Page` leaf at level 10000 is refused too. The first error ends
the whole walk (`none`; `loadPages` then drops the pages collected so far). -/
def traverse : Nat → PTreeOf R → AttrsOf R → Option (List (AttrsOf R))
  | dep, .leaf a, inh => if dep ≥ maxPageTreeDepth then none else some [a.over inh]
  | dep, .node a kids, inh =>
    if dep ≥ maxPageTreeDepth then none else traverseList (dep + 1) kids (a.over inh)
def traverseList : Nat → List (PTreeOf R) → AttrsOf R → Option (List (AttrsOf R))
  | _, [], _ => some []
  | dep, t :: ts, inh =>
    match traverse dep t inh with
    | none => none
    | some xs =>
      match traverseList dep ts inh with
      | none => none
      | some ys => some (xs ++ ys)
end

mutual
/-- `traverse` instrumented: the second component is the largest value of `t.depth` with which
a call of `traversePageNode` was entered (the deepest recursion of the walk) -/
def traverseT : Nat → PTreeOf R → AttrsOf R → Option (List (AttrsOf R)) × Nat
  | dep, .leaf a, inh => (if dep ≥ maxPageTreeDepth then none else some [a.over inh], dep)
  | dep, .node a kids, inh =>
    if dep ≥ maxPageTreeDepth then (none, dep)
    else
      let r := traverseListT (dep + 1) kids (a.over inh)
      (r.1, max dep r.2)
/-- the kids loop; the second component is 0 when no kid was entered -/
def traverseListT : Nat → List (PTreeOf R) → AttrsOf R → Option (List (AttrsOf R)) × Nat
  | _, [], _ => (some [], 0)
  | dep, t :: ts, inh =>
    match traverseT dep t inh with
    | (none, m) => (none, m)
    | (some xs, m) =>
      match traverseListT dep ts inh with
      | (none, m') => (none, max m m')
      | (some ys, m') => (some (xs ++ ys), max m m')
end

/-- nearest definer along a root-to-leaf path, key by key: later (deeper) entries win -/
def resolvePath (inh : AttrsOf R) : List (AttrsOf R) → AttrsOf R
  | [] => inh
  | a :: rest => resolvePath (a.over inh) rest

end

/-- PDF white-space bytes -/
def isWs (c : Nat) : Bool := c = 0 || c = 9 || c = 10 || c = 12 || c = 13 || c = 32

/-- white-space separated words (the coarsest token view of a content stream) -/
def wordsAux : List Nat → List Nat → List (List Nat)
  | [], cur => if cur.isEmpty then [] else [cur.reverse]
  | c :: cs, cur =>
    if isWs c then (if cur.isEmpty then wordsAux cs [] else cur.reverse :: wordsAux cs [])
    else wordsAux cs (c :: cur)

def words (s : List Nat) : List (List Nat) := wordsAux s []

/-- `extractTextWithFragments` without its size limit: every non-empty decoded content stream
followed by a newline (the specification of the join) -/
def joinContents (parts : List (List Nat)) : List Nat :=
  parts.flatMap fun p => if p.isEmpty then [] else p ++ [10]

/-- `maxPageContentBytes` of reader/reader.go: `64 << 20` -/
def maxPageContentBytes : Nat := 67108864

/-- what one decoded stream adds to `allData`: itself and a line feed, nothing when empty -/
def joinPiece (p : List Nat) : List Nat := if p.isEmpty then [] else p ++ [10]

/-- the decoding loop of `extractTextWithFragments` as the code has it since 36a165b: `n` is
`len(allData)` when the part is reached (separators included); a part with
`len(allData)+len(data) > maxPageContentBytes` ends the loop with an error (`none`), whatever
was collected; otherwise the part and, if it is not empty, one line feed are appended. (The
check is made for an empty part too, and the separator is appended after the check: `allData`
may reach `maxPageContentBytes + 1` bytes.) The joined bytes are assembled on the way back. -/
def joinLoop : Nat → List (List Nat) → Option (List Nat)
  | _, [] => some []
  | n, p :: ps =>
    if n + p.length > maxPageContentBytes then none
    else
      match joinLoop (n + (joinPiece p).length) ps with
      | none => none
      | some r => some (joinPiece p ++ r)

/-- the joined content of a page, or `none` when the limit refuses it -/
def joinBounded (parts : List (List Nat)) : Option (List Nat) := joinLoop 0 parts

/-- the same loop on the lengths of the parts alone: does the limit let them pass? -/
def fitsLoop : Nat → List Nat → Bool
  | _, [] => true
  | n, l :: ls =>
    if n + l > maxPageContentBytes then false
    else fitsLoop (n + (if l = 0 then 0 else l + 1)) ls

end Tabula.PdfDoc
