/-
Model of the page-tree layer of the PDF reader:
  pages/pages.go  traversePageNode (flattening + inheritable attributes),
                  Page.getBox / Resources / Rotate (own value, else inherited)
  reader/reader.go extractTextWithFragments (content streams joined with a
                  white-space separator)
Core Lean only.
-/
namespace Tabula.PdfDoc

/-- the inheritable page attributes; `none` = key absent in that dictionary. `R` is what a
`/Resources` entry is represented by: a variant number in the page-tree op (`Attrs`), the
parsed object in the end-to-end reader model (`Model/Reader.lean`). -/
structure AttrsOf (R : Type) where
  mb : Option (Int × Int × Int × Int) := none
  res : Option R := none
  rot : Option Int := none
  deriving Repr, DecidableEq

abbrev Attrs := AttrsOf Nat

/-- the child's own value wins, otherwise the inherited one -/
def AttrsOf.over {R : Type} (child parent : AttrsOf R) : AttrsOf R :=
  { mb := child.mb.or parent.mb, res := child.res.or parent.res, rot := child.rot.or parent.rot }

inductive PTreeOf (R : Type)
  | leaf (a : AttrsOf R)
  | node (a : AttrsOf R) (kids : List (PTreeOf R))
  deriving Repr

abbrev PTree := PTreeOf Nat

section
variable {R : Type}

mutual
/-- `traversePageNode`: the effective attributes of every `/Page` leaf, left to right;
`inh` is what the ancestors hand down -/
def flatten : PTreeOf R → AttrsOf R → List (AttrsOf R)
  | .leaf a, inh => [a.over inh]
  | .node a kids, inh => flattenList kids (a.over inh)
def flattenList : List (PTreeOf R) → AttrsOf R → List (AttrsOf R)
  | [], _ => []
  | t :: ts, inh => flatten t inh ++ flattenList ts inh
end

mutual
def countLeaves : PTreeOf R → Nat
  | .leaf _ => 1
  | .node _ kids => countLeavesList kids
def countLeavesList : List (PTreeOf R) → Nat
  | [] => 0
  | t :: ts => countLeaves t + countLeavesList ts
end

mutual
/-- specification view: for each leaf, left to right, the attribute dictionaries on the path
from the root down to and including the leaf -/
def leafPaths : PTreeOf R → List (List (AttrsOf R))
  | .leaf a => [[a]]
  | .node a kids => (leafPathsList kids).map (a :: ·)
def leafPathsList : List (PTreeOf R) → List (List (AttrsOf R))
  | [] => []
  | t :: ts => leafPaths t ++ leafPathsList ts
end

/-- nearest definer along a root-to-leaf path, key by key: later (deeper) entries win -/
def resolvePath (inh : AttrsOf R) : List (AttrsOf R) → AttrsOf R
  | [] => inh
  | a :: rest => resolvePath (a.over inh) rest

end

/-- PDF white-space bytes -/
def isWs (c : Nat) : Bool := c = 0 || c = 9 || c = 10 || c = 12 || c = 13 || c = 32

/-- white-space separated words (the coarsest token view of a content stream) -/
def wordsAux : List Nat → List Nat → List (List Nat)
  | [], cur => if cur.isEmpty then [] else [cur.reverse]
  | c :: cs, cur =>
    if isWs c then (if cur.isEmpty then wordsAux cs [] else cur.reverse :: wordsAux cs [])
    else wordsAux cs (c :: cur)

def words (s : List Nat) : List (List Nat) := wordsAux s []

/-- `extractTextWithFragments`: every non-empty decoded content stream followed by a newline -/
def joinContents (parts : List (List Nat)) : List Nat :=
  parts.flatMap fun p => if p.isEmpty then [] else p ++ [10]

end Tabula.PdfDoc
