import TabulaModel.Model.A1
import TabulaModel.Model.HtmlGrid
/-!
Model of the Markdown emitters of tabula (C15) and of the GFM reading spec they are
judged against.  Core Lean only.  Strings are `Str = List Nat` (byte values).

Go functions mirrored (as they are after the C15 fixes in the worktree):
* `model.(*Table).ToMarkdown` + `escapeMarkdownCell`            (model/table.go)
* `docx.(*ParsedTable).ToMarkdown`, `odt.(*ParsedTable).ToMarkdown` (docx/tables.go, odt/tables.go)
* `xlsx.ParsedTable.ToMarkdown` / `xlsx.escapeMarkdown`          (xlsx/reader.go)
* `pptx.(*Table).ToMarkdown` / `pptx.escapeMarkdown`             (pptx/slide.go)
* `htmldoc.(*ParsedTable).ToMarkdown` / `htmldoc.escapeMarkdown` (htmldoc/types.go); the grid it
  writes (`(*ParsedTable).grid`, `layout`, `cellSpan`) is Model/HtmlGrid.lean
* `rag.MarkdownOptions.AdjustHeadingLevel` (used by htmldoc/pptx/xlsx `MarkdownWithRAGOptions`;
  docx and odt carry the same lines inline) and the heading arithmetic of
  `rag.(*Chunk).ToMarkdownWithOptions`                            (rag/metadata.go)
* `writeMarkdownListItem` of docx/odt, the list branch of `htmldoc.MarkdownWithOptions`
  and of `pptx.MarkdownWithOptions` (list line emitters).

Reading spec (not tabula code; written from the GFM spec, section "Tables (extension)",
and CommonMark "ATX headings" / "List items"): `gfmSplitRow`, `gfmTable`, `parseAtx`,
`parseListLine`.
-/
namespace Tabula.Markdown
open Tabula.A1 (Str dec)

/-! ## bytes and trimming -/

/-- `strings.ReplaceAll(s, string(old), new)` for a one-byte pattern -/
def replaceByte (old : Nat) (new : Str) (s : Str) : Str :=
  s.flatMap fun c => if c = old then new else [c]

/-- ASCII white space (what `strings.TrimSpace` removes among single bytes, and what a GFM
reader trims around a cell): space, \t \n \v \f \r -/
def isWs (c : Nat) : Bool := c == 32 || (9 ≤ c && c ≤ 13)

def trimLeft : Str → Str
  | [] => []
  | c :: cs => if isWs c then trimLeft cs else c :: cs

def trimRight : Str → Str
  | [] => []
  | c :: cs =>
    let r := trimRight cs
    if r.isEmpty && isWs c then [] else c :: r

/-- `strings.TrimSpace` on ASCII white space (the harness does not put non-ASCII Unicode
spaces at cell boundaries) -/
def trim (s : Str) : Str := trimRight (trimLeft s)

/-! ## cell escaping, per writer -/

inductive Writer | model | docx | odt | xlsx | pptx | html
  deriving Repr, DecidableEq

/-- `|` → `\|` -/
def escPipe (s : Str) : Str := replaceByte 124 [92, 124] s

/-- `\n` → space -/
def nlToSpace (s : Str) : Str := replaceByte 10 [32] s

/-- the text written between `| ` and ` |` for one cell, operation by operation as in the Go code -/
def escCell : Writer → Str → Str
  -- model.escapeMarkdownCell: ReplaceAll("\n"," ") then ReplaceAll("|","\\|")
  | .model, s => escPipe (nlToSpace s)
  -- docx/odt ToMarkdown: ReplaceAll("\n"," "), ReplaceAll("|","\\|"), TrimSpace
  | .docx, s => trim (escPipe (nlToSpace s))
  | .odt, s => trim (escPipe (nlToSpace s))
  -- xlsx.escapeMarkdown: ReplaceAll("|","\\|") then ReplaceAll("\n"," ")
  | .xlsx, s => nlToSpace (escPipe s)
  -- pptx.escapeMarkdown: "|" → "\|", then "\n" → " ", then "\r" → " "
  | .pptx, s => replaceByte 13 [32] (nlToSpace (escPipe s))
  -- htmldoc.escapeMarkdown: one pass; '|' → `\|`, '\n' → ' ', '\r' dropped
  | .html, s => s.flatMap fun c =>
      if c = 124 then [92, 124] else if c = 10 then [32] else if c = 13 then [] else [c]

/-- what the escaping does to a cell before the pipes are protected: the writer's own
normalisation of the cell text (newline → space, CR handling, trimming) -/
def preCell : Writer → Str → Str
  | .model, s => nlToSpace s
  | .docx, s => trim (nlToSpace s)
  | .odt, s => trim (nlToSpace s)
  | .xlsx, s => nlToSpace s
  | .pptx, s => replaceByte 13 [32] (nlToSpace s)
  | .html, s => replaceByte 13 [] (nlToSpace s)

/-- the cell text a reader gets back: the writer's normalisation, trimmed -/
def normCell (w : Writer) (s : Str) : Str := trim (preCell w s)

/-! ## row assembly -/

/-- `"|" + (" " + cell + " |")*` — docx, odt, xlsx, pptx, htmldoc -/
def rowPipe (cells : List Str) : Str :=
  124 :: cells.flatMap fun c => 32 :: c ++ [32, 124]

/-- `model.(*Table).ToMarkdown` row loop: `"| " + cell + " "` per cell and a closing `|`
after the last one (`j == len(row)-1`); nothing at all for a row without cells -/
def rowModel : List Str → Str
  | [] => []
  | [c] => [124, 32] ++ c ++ [32] ++ [124]
  | c :: cs => [124, 32] ++ c ++ [32] ++ rowModel cs

/-- separator of model.Table: `"|---"` per column, `|` after the last -/
def delimModel : Nat → Str
  | 0 => []
  | 1 => [124, 45, 45, 45, 124]
  | n + 1 => [124, 45, 45, 45] ++ delimModel n

/-- separator `"|" + piece*` with piece = `" --- |"` (docx, odt, htmldoc) or `"---|"` (xlsx, pptx) -/
def delimPipe (piece : Str) (n : Nat) : Str := 124 :: (List.replicate n piece).flatten

def delimPiece : Writer → Str
  | .xlsx => [45, 45, 45, 124]
  | .pptx => [45, 45, 45, 124]
  | _ => [32, 45, 45, 45, 32, 124]

def renderRow (w : Writer) (cells : List Str) : Str :=
  match w with
  | .model => rowModel (cells.map (escCell .model))
  | w => rowPipe (cells.map (escCell w))

def renderDelim (w : Writer) (n : Nat) : Str :=
  match w with
  | .model => delimModel n
  | w => delimPipe (delimPiece w) n

/-- a table of plain cells through writer `w`: header row, separator, data rows, each line
ended by `\n`; the empty table gives the empty string.  (For docx/odt this is the case of
cells without spans; `renderSpan` below is the general one.  For htmldoc the first row is the
header row whether or not the source had `<th>` cells.) -/
def render (w : Writer) : List (List Str) → Str
  | [] => []
  | hdr :: rows =>
    renderRow w hdr ++ [10] ++ renderDelim w hdr.length ++ [10]
      ++ rows.flatMap fun r => renderRow w r ++ [10]

/-! ## DOCX / ODT tables with merged cells -/

/-- one parsed cell of docx/odt: text, `ColSpan`, and `IsMergedContinuation` / `IsCovered` -/
structure SCell where
  text : Str
  span : Int := 1
  cont : Bool := false
  deriving Repr, DecidableEq

def SCell.cols (c : SCell) : Nat := if c.span < 1 then 1 else c.span.toNat

def rowCols (cells : List SCell) : Nat := (cells.map SCell.cols).sum

/-- `colCount`: the widest row, in grid columns -/
def colCount (t : List (List SCell)) : Nat := t.foldl (fun m r => if rowCols r > m then rowCols r else m) 0

def emptyCells (n : Nat) : Str := (List.replicate n [32, 124]).flatten

/-- what one cell writes: its text followed by empty cells for the further grid columns it
spans; a merge continuation writes empty cells only -/
def spanCellOut (w : Writer) (c : SCell) : Str :=
  if c.cont then emptyCells c.cols
  else 32 :: escCell w c.text ++ [32, 124] ++ emptyCells (c.cols - 1)

/-- one row: cells, then padding up to `colCount` -/
def renderSpanRow (w : Writer) (n : Nat) (cells : List SCell) : Str :=
  124 :: cells.flatMap (spanCellOut w) ++ emptyCells (n - rowCols cells)

/-- `docx/odt (*ParsedTable).ToMarkdown` -/
def renderSpan (w : Writer) (t : List (List SCell)) : Str :=
  let n := colCount t
  if n = 0 then [] else
  match t with
  | [] => []
  | hdr :: rows =>
    renderSpanRow w n hdr ++ [10] ++ delimPipe (delimPiece w) n ++ [10]
      ++ rows.flatMap fun r => renderSpanRow w n r ++ [10]

/-- the grid row a reader should get: text at the first grid column of a cell, empty cells
for the columns it covers and for continuations, padded to `n` -/
def gridRow (w : Writer) (n : Nat) (cells : List SCell) : List Str :=
  cells.flatMap (fun c =>
    if c.cont then List.replicate c.cols [] else normCell w c.text :: List.replicate (c.cols - 1) [])
  ++ List.replicate (n - rowCols cells) []

/-! ## htmldoc tables with colspan / rowspan -/

/-- `htmldoc.TableCell`: text, `ColSpan`, `RowSpan` (any integers: the parser stores what
`Sscanf("%d")` read, a hand-built table may hold zero values) -/
structure HCell where
  text : Str
  colSpan : Int := 1
  rowSpan : Int := 1
  deriving Repr, DecidableEq

/-- `(*ParsedTable).grid()`: the cells on the table's grid (Model/HtmlGrid.lean) -/
def htmlGrid (t : List (List HCell)) : List (List (Option HCell)) :=
  HtmlGrid.grid HCell.colSpan HCell.rowSpan t

/-- number of columns of the grid -/
def htmlWidth (t : List (List HCell)) : Nat := HtmlGrid.gridWidth HCell.colSpan HCell.rowSpan t

/-- the text `ToMarkdown` writes at a grid position: the cell's, nothing where no cell stands -/
def gridText : Option HCell → Str
  | some c => c.text
  | none => []

/-- the grid as texts: what a reader should get back (before the cell normalisation) -/
def htmlGridTexts (t : List (List HCell)) : List (List Str) := (htmlGrid t).map (·.map gridText)

/-- `htmldoc.(*ParsedTable).ToMarkdown` (after fix 72cc329): the plain writer on the grid — every
position of the grid is written as a cell, a covered or open position like a cell with empty
text; first line of the grid above the separator, as many separator cells as grid columns.
The table without rows gives the empty string (`htmlGridTexts [] = []`). -/
def renderHtmlSpan (t : List (List HCell)) : Str := render .html (htmlGridTexts t)

/-- `ToMarkdown` as it was before the fix (finding C15/table-shape-merged-html, kept for the
counterexamples): the spans are ignored — one Markdown cell per `<td>`/`<th>`, positions covered
from above do not exist, the separator has as many cells as the first row. -/
def renderHtmlSpanOld (t : List (List HCell)) : Str := render .html (t.map (·.map (·.text)))

/-- the pinned (pre-fix) row loop of docx/odt, kept for the counterexample: continuations
are skipped, a spanning cell writes one cell only -/
def renderSpanRowPinned (w : Writer) (n : Nat) (cells : List SCell) : Str :=
  let live := cells.filter (fun c => !c.cont)
  124 :: live.flatMap (fun c => 32 :: escCell w c.text ++ [32, 124]) ++ emptyCells (n - rowCols live)

/-- the pinned `model.(*Table).ToMarkdown` cell text: newlines only, `|` not escaped -/
def renderRowModelPinned (cells : List Str) : Str := rowModel (cells.map nlToSpace)

/-! ## GFM reading spec -/

/-- left-to-right scan of a row, the pipe-escape pass of GFM tables ("it is possible to include a
pipe in a cell's content by escaping it, including inside other inline spans"; cmark-gfm
`unescape_pipes`, markdown-it `escapedSplit`): a `|` that directly follows a backslash never ends
a cell, and that pair `\|` stands for a literal pipe of the cell; every other byte — a backslash
in front of anything else, at the end of the line, or in front of another backslash — is cell
text as it stands (inline Markdown inside a cell is not interpreted); a `|` not preceded by a
backslash ends the cell.  So `\\|` is a backslash followed by a literal pipe: the cell text `\|`
is written `\\|` by `escPipe` and read back as `\|`.
`cur` is the current cell, reversed.  n delimiting pipes give n+1 pieces. -/
def splitPipes : Str → Str → List Str
  | [], cur => [cur.reverse]
  | 92 :: 124 :: rest, cur => splitPipes rest (124 :: cur)
  | c :: rest, cur =>
    if c = 124 then cur.reverse :: splitPipes rest []
    else splitPipes rest (c :: cur)

def dropLastEmpty : List Str → List Str
  | [] => []
  | [x] => if x.isEmpty then [] else [x]
  | x :: xs => x :: dropLastEmpty xs

/-- cells of one table row line: the line is trimmed, one leading and one trailing pipe are
optional, cells are trimmed -/
def gfmSplitRow (line : Str) : List Str :=
  let l := trim line
  let l := match l with | 124 :: r => r | r => r
  (dropLastEmpty (splitPipes l [])).map trim

/-- split at `\n`; `"a\nb\n"` gives `["a","b",""]` -/
def splitLines : Str → List Str
  | [] => [[]]
  | c :: cs =>
    if c = 10 then [] :: splitLines cs
    else match splitLines cs with
      | l :: ls => (c :: l) :: ls
      | [] => [[c]]

/-- delimiter cell `:?-+:?` -/
def isDelimCell (s : Str) : Bool :=
  let s1 := match s with | 58 :: r => r | r => r
  let dashes := s1.takeWhile (· == 45)
  let tail := s1.dropWhile (· == 45)
  decide (1 ≤ dashes.length) && (tail == [] || tail == [58])

def isBlank (s : Str) : Bool := s.all isWs

/-- "the remainder of the table's rows may vary in the number of cells. If a number of cells
fewer than the number of cells in the header row, empty cells are inserted. If greater, the
excess is ignored" -/
def padTrunc (n : Nat) (cells : List Str) : List Str :=
  cells.take n ++ List.replicate (n - cells.length) []

/-- body rows up to the first blank line -/
def bodyRows (n : Nat) : List Str → List (List Str)
  | [] => []
  | l :: ls => if isBlank l then [] else padTrunc n (gfmSplitRow l) :: bodyRows n ls

/-- a GFM table at the start of `doc`: header row, delimiter row with the same number of
cells, body rows; `none` when the first two lines are not a table head -/
def gfmTable (doc : Str) : Option (List (List Str)) :=
  match splitLines doc with
  | h :: d :: rest =>
    let hc := gfmSplitRow h
    let dc := gfmSplitRow d
    if 1 ≤ hc.length ∧ dc.length = hc.length ∧ dc.all isDelimCell = true then
      some (hc :: bodyRows hc.length rest)
    else none
  | _ => none

/-! ## headings -/

/-- `rag.MarkdownOptions.AdjustHeadingLevel(level)` with `HeadingLevelOffset = offset`,
`MaxHeadingLevel = max`: the arithmetic of every `MarkdownWithRAGOptions` (htmldoc, pptx, xlsx
call it; docx and odt have the same five steps inline) -/
def headingLevel (level offset max : Int) : Int :=
  let l := if level < 1 then 1 else level
  let l := l + offset
  let l := if l < 1 then 1 else l
  let l := if max > 0 ∧ l > max then max else l
  if l > 6 then 6 else l

/-- heading arithmetic of `rag.(*Chunk).ToMarkdownWithOptions`: level 0 means 2; offset, floor 1,
configured maximum, and (since the fix of the worktree) the cap at 6 -/
def headingLevelRag (level offset max : Int) : Int :=
  let l := if level = 0 then 2 else level
  let l := l + offset
  let l := if l < 1 then 1 else l
  let l := if max > 0 ∧ l > max then max else l
  if l > 6 then 6 else l

/-- `strings.Repeat("#", level) + " " + text` -/
def atxLine (level : Nat) (text : Str) : Str := List.replicate level 35 ++ 32 :: text

/-- ATX heading reader: 1–6 `#`, then a space (or end of line); gives level and raw content -/
def parseAtx (line : Str) : Option (Nat × Str) :=
  let n := (line.takeWhile (· == 35)).length
  let rest := line.dropWhile (· == 35)
  if 1 ≤ n ∧ n ≤ 6 then
    match rest with
    | [] => some (n, [])
    | c :: r => if c = 32 then some (n, r) else none
  else none

/-! ## lists -/

structure Item where
  depth : Nat
  ordered : Bool
  num : Nat := 1
  text : Str
  deriving Repr, DecidableEq

/-- `writeMarkdownListItem` (docx, odt), list branch of htmldoc/pptx `MarkdownWithOptions`:
two spaces per level, `- ` or `<num>. `, the text -/
def listLine (it : Item) : Str :=
  List.replicate (2 * it.depth) 32 ++
    (if it.ordered then dec it.num ++ [46, 32] else [45, 32]) ++ it.text

def isDigit (c : Nat) : Bool := 48 ≤ c && c ≤ 57

def parseOrdered (ind : Nat) (rest : Str) : Option (Nat × Bool × Str) :=
  let ds := rest.takeWhile isDigit
  match rest.dropWhile isDigit with
  | 46 :: 32 :: t => if ds.isEmpty then none else some (ind / 2, true, t)
  | _ => none

/-- list line reader: depth = leading spaces / 2; `- ` (also `* `, `+ `) unordered, digits
followed by `. ` ordered; gives (depth, ordered, text) -/
def parseListLine (line : Str) : Option (Nat × Bool × Str) :=
  let ind := (line.takeWhile (· == 32)).length
  let rest := line.dropWhile (· == 32)
  match rest with
  | m :: 32 :: text =>
    if m = 45 ∨ m = 42 ∨ m = 43 then some (ind / 2, false, text) else parseOrdered ind rest
  | _ => parseOrdered ind rest

/-- the lines of a list, one per item, in order -/
def listLines (items : List Item) : List Str := items.map listLine

end Tabula.Markdown
