import TabulaModel.Model.A1
/-!
# RAG chunking (property C12) — executable model, core Lean only

Part 1 mirrors the element-based chunker of `rag/document_integration.go`
(`DocumentChunker.ChunkDocument / chunkPage / textBlockToChunks / create*Chunk /
pushSection`) as the code is after the C12 fixes (every chunk owns a copy of the section
path; open sections are closed by heading *level*; `resolveRepeatedHeadings` gives a
heading-like paragraph that repeats a heading text of its page the level of its own entry)
and after the C15 fix efed37d (`createListChunk` trims the end of the list text only).

Part 2 mirrors the layout-based chunker of `rag/chunker.go`
(`Chunker.buildSections / Chunk / chunkSectionTree / chunkSection /
splitSectionByParagraphs / splitBySentences / chunkByParagraphs`).

Strings are lists of byte values. Library functions outside C12 are parameters: the text
splitter `SizeCalculator.IsAboveMax`+`SplitToSize` (property C13), the list-introduction
regexps and `splitIntoSentences`; the harness supplies their results on the op line.
-/
namespace Tabula.Chunk

abbrev Str := List Nat

/-- ASCII part of `unicode.IsSpace` (the generated texts use no other white space). -/
def isSpace (c : Nat) : Bool := c == 32 || (9 ≤ c && c ≤ 13)

/-- "white space aside": all white space removed. -/
def strip (s : Str) : Str := s.filter fun c => !isSpace c

/-- `strings.TrimSpace`. -/
def trim (s : Str) : Str := ((s.dropWhile isSpace).reverse.dropWhile isSpace).reverse

/-- `strings.TrimRightFunc(s, unicode.IsSpace)`: trailing white space only
(`trim s = trimRight (s.dropWhile isSpace)` by definition). -/
def trimRight (s : Str) : Str := (s.reverse.dropWhile isSpace).reverse

def ofString (s : String) : Str := s.toList.map Char.toNat

/-! ## Part 1: the element-based chunker -/

/-- `model.Element` as the chunker's type switch sees it. -/
inductive Elem where
  | heading (level : Int) (text : Str)
  | para (text : Str)
  | list (ordered : Bool) (items : List (Int × Str))
  | table (rows : List (List Str))
  | image (alt : Str)
  deriving Repr, DecidableEq

/-- `model.Page`: number, `Layout.Headings` (`none` = nil layout), elements. -/
structure Page where
  number : Int
  layout : Option (List (Int × Str))
  elems : List Elem
  deriving Repr, DecidableEq

abbrev Doc := List Page

structure TOCEntry where
  level : Int
  text : Str
  page : Int
  deriving Repr, DecidableEq

/-- `Document.TableOfContents`. -/
def tableOfContents (d : Doc) : List TOCEntry :=
  d.flatMap fun p => match p.layout with
    | none => []
    | some hs => hs.map fun h => ⟨h.1, h.2, p.number⟩

def tocMatches (text : Str) (page : Int) (e : TOCEntry) : Bool :=
  e.page == page && trim e.text == trim text

/-- `isHeadingElement`. -/
def isHeadingElement (text : Str) (toc : List TOCEntry) (page : Int) : Bool :=
  toc.any (tocMatches text page)

/-- `getHeadingLevel`. -/
def getHeadingLevel (text : Str) (toc : List TOCEntry) (page : Int) : Int :=
  match toc.find? (tocMatches text page) with
  | some e => e.level
  | none => 1

/-- A heading as the section tracker sees it: level and trimmed text. -/
abbrev H := Int × Str

/-- How the running section path is kept. The code keeps a stack (`stackTracker`); the
specification keeps the whole history of headings (`histTracker`). -/
structure Tracker (σ : Type) where
  init : σ
  push : σ → Int → Str → σ
  path : σ → List Str

/-- `pushSection`: the stack of open headings, innermost first (the Go code keeps the two
parallel slices `currentSection`/`sectionLevels`, outermost first): close every open heading
whose level is >= the new one, then open the new one with its trimmed text. -/
def pushSection (st : List H) (level : Int) (text : Str) : List H :=
  (level, trim text) :: st.dropWhile fun e => decide (level ≤ e.1)

def stackTracker : Tracker (List H) where
  init := []
  push := pushSection
  path st := st.reverse.map (·.2)

/-- `rag.Chunk` restricted to what C12 speaks about. -/
structure Chunk where
  idx : Nat
  id : Str
  text : Str
  path : List Str
  pageStart : Int
  pageEnd : Int
  total : Nat
  deriving Repr, DecidableEq

/-- `fmt.Sprintf("chunk-%d", i)` -/
def chunkId (i : Nat) : Str := ofString "chunk-" ++ Tabula.A1.dec i

def mkChunk (text : Str) (path : List Str) (page : Int) (idx : Nat) : Chunk :=
  { idx := idx, id := chunkId idx, text := text, path := path, pageStart := page, pageEnd := page, total := 0 }

/-- The splitter at its call boundary in `textBlockToChunks`: `none` when
`IsAboveMax(text)` is false, else `some (SplitToSize text nil)`. -/
abbrev Splitter := Str → Option (List Str)

/-- `createTextChunk` for each piece (`Text: strings.TrimSpace(block.text)`). -/
def piecesToChunks (path : List Str) (page : Int) : List Str → Nat → List Chunk
  | [], _ => []
  | t :: ts, idx => mkChunk (trim t) path page idx :: piecesToChunks path page ts (idx + 1)

/-- `textBlockToChunks` -/
def textBlockToChunks (sp : Splitter) (text : Str) (path : List Str) (page : Int) (idx : Nat) : List Chunk :=
  match sp text with
  | none => piecesToChunks path page [text] idx
  | some ps => piecesToChunks path page ps idx

/-- per-level counters of `createListChunk` (`levelCounters`) -/
def ctrGet (m : List (Int × Nat)) (k : Int) : Nat :=
  match m.find? (fun e => e.1 == k) with
  | some e => e.2
  | none => 0

def ctrSet (m : List (Int × Nat)) (k : Int) (v : Nat) : List (Int × Nat) :=
  (k, v) :: m.filter fun e => !(e.1 == k)

def indent (level : Int) : Str := List.replicate (2 * level.toNat) 32

/-- the loop of `createListChunk`: one line per item, two spaces per level, `- ` or `n. ` -/
def fmtListItems (ordered : Bool) : List (Int × Str) → List (Int × Nat) → Int → Str
  | [], _, _ => []
  | (lvl, txt) :: rest, ctrs, last =>
    let ctrs := if lvl ≤ last then ctrs.filter (fun e => !(decide (lvl < e.1))) else ctrs
    if ordered then
      let n := ctrGet ctrs lvl + 1
      indent lvl ++ Tabula.A1.dec n ++ [46, 32] ++ txt ++ [10] ++ fmtListItems ordered rest (ctrSet ctrs lvl n) lvl
    else
      indent lvl ++ [45, 32] ++ txt ++ [10] ++ fmtListItems ordered rest ctrs lvl

/-- the text of the list chunk (`createListChunk` after efed37d): the item lines with the
trailing white space removed — `strings.TrimRightFunc(sb.String(), unicode.IsSpace)`; the
indentation of a nested first item stays. -/
def listText (ordered : Bool) (items : List (Int × Str)) : Str :=
  trimRight (fmtListItems ordered items [] (-1))

/-- the text of the list chunk as the pinned code wrote it (`strings.TrimSpace(sb.String())`):
a nested first item lost its indentation. Kept for `list_text_pinned_counterexample`; no model
function uses it. -/
def listTextOld (ordered : Bool) (items : List (Int × Str)) : Str :=
  trim (fmtListItems ordered items [] (-1))

/-- `escapeMarkdownCell`: a newline becomes a blank, a pipe is escaped as `\|` -/
def cellText (c : Str) : Str := c.flatMap fun b => if b == 10 then [32] else if b == 124 then [92, 124] else [b]

/-- one row of `Table.ToMarkdown`: `| c ` per cell and a closing `|` after the last one -/
def mdRow (cells : List Str) : Str :=
  (cells.flatMap fun c => [124, 32] ++ cellText c ++ [32]) ++ (if cells.isEmpty then [] else [124]) ++ [10]

def mdSep (cells : List Str) : Str :=
  (cells.flatMap fun _ => [124, 45, 45, 45]) ++ (if cells.isEmpty then [] else [124]) ++ [10]

/-- `model.Table.ToMarkdown` -/
def toMarkdown : List (List Str) → Str
  | [] => []
  | hd :: rows => mdRow hd ++ mdSep hd ++ rows.flatMap mdRow

def imageText (alt : Str) : Str := ofString "[Image: " ++ alt ++ [93]

/-- State of `ChunkDocument`/`chunkPage`: section tracker, the accumulating text block
(`currentBlock.text`, `.sectionPath`) and `chunkIndex`. -/
structure St (σ : Type) where
  sec : σ
  block : Str
  blockPath : List Str
  idx : Nat

/-- `flushTextBlock` -/
def flush {σ} (sp : Splitter) (page : Int) (st : St σ) : St σ × List Chunk :=
  if st.block = [] then (st, [])
  else
    let cs := textBlockToChunks sp st.block st.blockPath page st.idx
    ({ st with block := [], blockPath := [], idx := st.idx + cs.length }, cs)

/-- a single non-text chunk (`createChunkFromHeading`, `createHeadingChunk`,
`createListChunk`, `createTableChunk`, `createImageChunk`) after the flush -/
def emitOne {σ} (sp : Splitter) (page : Int) (st : St σ) (sec : σ) (text : Str) (path : List Str) :
    St σ × List Chunk :=
  let (st1, cs) := flush sp page st
  ({ st1 with sec := sec, idx := st1.idx + 1 }, cs ++ [mkChunk text path page st1.idx])

/-- one iteration of the element loop of `chunkPage` -/
def stepElem {σ} (tr : Tracker σ) (sp : Splitter) (toc : List TOCEntry) (page : Int)
    (st : St σ) : Elem → St σ × List Chunk
  | .para text =>
    if isHeadingElement text toc page then
      let sec := tr.push st.sec (getHeadingLevel text toc page) text
      emitOne sp page st sec text (tr.path sec)
    else
      let b := if st.block = [] then text else st.block ++ [10, 10] ++ text
      ({ st with block := b, blockPath := tr.path st.sec }, [])
  | .heading level text =>
    let sec := tr.push st.sec level text
    emitOne sp page st sec text (tr.path sec)
  | .list ordered items => emitOne sp page st st.sec (listText ordered items) (tr.path st.sec)
  | .table rows => emitOne sp page st st.sec (toMarkdown rows) (tr.path st.sec)
  | .image alt =>
    if alt = [] then flush sp page st
    else emitOne sp page st st.sec (imageText alt) (tr.path st.sec)

def runElems {σ} (tr : Tracker σ) (sp : Splitter) (toc : List TOCEntry) (page : Int) :
    St σ → List Elem → St σ × List Chunk
  | st, [] => (st, [])
  | st, e :: es =>
    let r1 := stepElem tr sp toc page st e
    let r2 := runElems tr sp toc page r1.1 es
    (r2.1, r1.2 ++ r2.2)

/-- levels of the layout headings of a page whose trimmed text is `key`, in page order
(`levels[key]` in `resolveRepeatedHeadings`) -/
def levelsOf (layout : List (Int × Str)) (key : Str) : List Int :=
  (layout.filter fun h => trim h.2 == key).map (·.1)

/-- `ls[min n (len ls - 1)]` as a total function: the `n`-th level, the last one when there
are fewer, `d` when there is none. -/
def nthClamped : List Int → Nat → Int → Int
  | [], _, d => d
  | l :: _, 0, _ => l
  | l :: ls, n + 1, _ => nthClamped ls n l

/-- the loop of `resolveRepeatedHeadings`; `seen` holds the trimmed texts of the headings met
so far on the page (a multiset kept as a list). A heading-like paragraph that repeats the text
of an earlier heading of the page becomes the heading with its own level. -/
def resolveElems (layout : List (Int × Str)) : List Str → List Elem → List Elem
  | _, [] => []
  | seen, .heading l t :: es => .heading l t :: resolveElems layout (trim t :: seen) es
  | seen, .para t :: es =>
    if levelsOf layout (trim t) = [] then .para t :: resolveElems layout seen es
    else
      let n := seen.count (trim t)
      (if n = 0 then Elem.para t else Elem.heading (nthClamped (levelsOf layout (trim t)) n 1) t)
        :: resolveElems layout (trim t :: seen) es
  | seen, .list o items :: es => .list o items :: resolveElems layout seen es
  | seen, .table rows :: es => .table rows :: resolveElems layout seen es
  | seen, .image alt :: es => .image alt :: resolveElems layout seen es

/-- `resolveRepeatedHeadings`: the elements of a page as `chunkPage` walks them. -/
def resolveRepeatedHeadings (pg : Page) : List Elem :=
  match pg.layout with
  | none => pg.elems
  | some hs => resolveElems hs [] pg.elems

/-- `chunkPage`: the element loop over `resolveRepeatedHeadings(page)`, then the final flush -/
def chunkPage {σ} (tr : Tracker σ) (sp : Splitter) (toc : List TOCEntry) (st : St σ) (pg : Page) :
    St σ × List Chunk :=
  let r1 := runElems tr sp toc pg.number st (resolveRepeatedHeadings pg)
  let r2 := flush sp pg.number r1.1
  (r2.1, r1.2 ++ r2.2)

/-- the page loop of `ChunkDocument`, one group of chunks per page -/
def chunkPages {σ} (tr : Tracker σ) (sp : Splitter) (toc : List TOCEntry) :
    St σ → List Page → List (List Chunk)
  | _, [] => []
  | st, pg :: pgs =>
    let r := chunkPage tr sp toc st pg
    r.2 :: chunkPages tr sp toc r.1 pgs

def setTotal (cs : List Chunk) : List Chunk := cs.map fun c => { c with total := cs.length }

def initSt {σ} (tr : Tracker σ) : St σ := { sec := tr.init, block := [], blockPath := [], idx := 0 }

/-- chunks of each page, before `TotalChunks` is stamped -/
def pageGroups {σ} (tr : Tracker σ) (sp : Splitter) (d : Doc) : List (List Chunk) :=
  chunkPages tr sp (tableOfContents d) (initSt tr) d

/-- `DocumentChunker.ChunkDocument` with any section tracker -/
def chunkDocumentWith {σ} (tr : Tracker σ) (sp : Splitter) (d : Doc) : List Chunk :=
  setTotal (pageGroups tr sp d).flatten

/-- `DocumentChunker.ChunkDocument` (= `rag.ChunkDocument`, `ChunkDocumentWithConfig`) -/
def chunkDocument (sp : Splitter) (d : Doc) : List Chunk := chunkDocumentWith stackTracker sp d

/-- What an element contributes to the chunk texts. -/
def render : Elem → Str
  | .heading _ t => t
  | .para t => t
  | .list o items => listText o items
  | .table rows => toMarkdown rows
  | .image alt => if alt = [] then [] else imageText alt

/-! ### the specification of the section path

`openSpec hs` keeps heading `h` of the sequence `hs` iff every later heading is strictly
deeper: the chain of headings enclosing the position after `hs`. -/

def openSpec : List H → List H
  | [] => []
  | h :: rest => if rest.all (fun r => decide (h.1 < r.1)) then h :: openSpec rest else openSpec rest

/-- the specification tracker: remember every heading; the path is read off declaratively -/
def histTracker : Tracker (List H) where
  init := []
  push hist level text := hist ++ [(level, trim text)]
  path hist := (openSpec hist).map (·.2)

end Tabula.Chunk
