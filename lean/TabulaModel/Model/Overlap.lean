import TabulaModel.Model.Split
/-
Model of `rag/overlap.go` (as it is after the C13 fixes on branch agent-C13):
`GenerateOverlap`, `generateCharacterOverlap`, `generateSentenceOverlap`,
`generateParagraphOverlap`, `truncateOverlap`, `tailAtRuneBoundary`,
`splitIntoSentencesWithPositions`, `isSentenceEndRune`, `isAbbreviationRune`,
`splitIntoParagraphs`, `ApplyOverlap`, `ApplyOverlapToChunks`, and of the overlap
configuration `Chunker.ChunkWithOverlapEnabled` derives (chunker.go).

`unicode.IsUpper/IsLetter/IsDigit/ToLower` of non-ASCII characters are a parameter
(`classes`, supplied by the harness from the Go tables); `unicode.IsSpace` is the
byte-pattern definition of `Model/Split.lean`.  Core Lean only.
-/
set_option linter.unusedVariables false
namespace Tabula.Overlap
open Tabula.Split

/-! ## runes -/

/-- code point of the well-formed encoding of length `charLen s` at the head of `s` -/
def codePoint (s : Str) : Nat :=
  match charLen s, s with
  | 1, a :: _ => a
  | 2, a :: b :: _ => (a - 0xC0) * 64 + (b - 0x80)
  | 3, a :: b :: c :: _ => (a - 0xE0) * 4096 + (b - 0x80) * 64 + (c - 0x80)
  | 4, a :: b :: c :: d :: _ => (a - 0xF0) * 262144 + (b - 0x80) * 4096 + (c - 0x80) * 64 + (d - 0x80)
  | _, _ => 0xFFFD

/-- `[]rune(text)`: an ill-formed byte becomes U+FFFD -/
def decodeRunesAux : Nat → Str → List Nat
  | 0, _ => []
  | fuel + 1, s =>
    if s = [] then [] else codePoint s :: decodeRunesAux fuel (s.drop (runeLen s))

def decodeRunes (s : Str) : List Nat := decodeRunesAux s.length s

/-- `utf8.AppendRune` -/
def encodeRune (cp : Nat) : Str :=
  if cp < 0x80 then [cp]
  else if cp < 0x800 then [0xC0 + cp / 64, 0x80 + cp % 64]
  else if 0xD800 ≤ cp ∧ cp ≤ 0xDFFF ∨ cp > 0x10FFFF then [0xEF, 0xBF, 0xBD]
  else if cp < 0x10000 then [0xE0 + cp / 4096, 0x80 + cp / 64 % 64, 0x80 + cp % 64]
  else [0xF0 + cp / 262144, 0x80 + cp / 4096 % 64, 0x80 + cp / 64 % 64, 0x80 + cp % 64]

def encodeRunes (rs : List Nat) : Str := rs.flatMap encodeRune

structure RuneClass where
  upper : Bool
  letter : Bool
  digit : Bool
  space : Bool
  lower : Nat
  isLower : Bool := false      -- `unicode.IsLower` (used by the sentence splitter of chunker.go)
  deriving Repr

abbrev Classes := List (Nat × RuneClass)

def lookup (cl : Classes) (cp : Nat) : Option RuneClass := (cl.find? fun e => e.1 == cp).map (·.2)

def isUpper (cl : Classes) (cp : Nat) : Bool :=
  if cp < 0x80 then 65 ≤ cp && cp ≤ 90 else match lookup cl cp with | some c => c.upper | none => false

def isLetter (cl : Classes) (cp : Nat) : Bool :=
  if cp < 0x80 then (65 ≤ cp && cp ≤ 90) || (97 ≤ cp && cp ≤ 122)
  else match lookup cl cp with | some c => c.letter | none => false

def isDigit (cl : Classes) (cp : Nat) : Bool :=
  if cp < 0x80 then 48 ≤ cp && cp ≤ 57 else match lookup cl cp with | some c => c.digit | none => false

def toLower (cl : Classes) (cp : Nat) : Nat :=
  if cp < 0x80 then (if 65 ≤ cp && cp ≤ 90 then cp + 32 else cp)
  else match lookup cl cp with | some c => c.lower | none => cp

/-- `unicode.IsSpace` on a code point (White_Space) -/
def isSpaceRune (cp : Nat) : Bool :=
  (9 ≤ cp && cp ≤ 13) || cp == 0x20 || cp == 0x85 || cp == 0xA0 || cp == 0x1680
  || (0x2000 ≤ cp && cp ≤ 0x200A) || cp == 0x2028 || cp == 0x2029 || cp == 0x202F
  || cp == 0x205F || cp == 0x3000

/-! ## sentences -/

def abbreviations : List (List Nat) :=
  ["mr.", "mrs.", "ms.", "dr.", "prof.", "sr.", "jr.", "vs.", "etc.", "e.g.", "i.e.",
   "inc.", "ltd.", "co.", "corp.",
   "jan.", "feb.", "mar.", "apr.", "jun.", "jul.", "aug.", "sep.", "oct.", "nov.", "dec.",
   "st.", "rd.", "ave.", "blvd.", "no.", "vol.", "pp.", "pg."].map fun s => s.toList.map Char.toNat

def getR (runes : Array Nat) (i : Nat) : Nat := runes[i]?.getD 0   -- only used with i < size

/-- backward scan of `isAbbreviationRune`: `for start > 0 && IsLetter(runes[start-1])` -/
def letterStart (cl : Classes) (runes : Array Nat) : Nat → Nat
  | 0 => 0
  | start + 1 => if isLetter cl (getR runes start) then letterStart cl runes start else start + 1

/-- `isAbbreviationRune` -/
def isAbbreviationRune (cl : Classes) (runes : Array Nat) (i : Nat) : Bool :=
  let start := letterStart cl runes i
  if start ≥ i then false
  else
    let word := ((runes.extract start (i + 1)).toList).map (toLower cl)
    abbreviations.contains word

/-- `isSentenceEndRune` -/
def isSentenceEndRune (cl : Classes) (runes : Array Nat) (i : Nat) : Bool :=
  if i ≥ runes.size then false else
  let r := getR runes i
  if r != 46 && r != 33 && r != 63 then false else
  if r == 46 && i > 0 &&
      ((isUpper cl (getR runes (i - 1)) && (i < 2 || !isLetter cl (getR runes (i - 2))))
        || isAbbreviationRune cl runes i
        || (isDigit cl (getR runes (i - 1)) && i + 1 < runes.size && isDigit cl (getR runes (i + 1))))
  then false else
  if i + 1 ≥ runes.size then true else
  if i + 2 < runes.size && isSpaceRune (getR runes (i + 1)) then
    let next := getR runes (i + 2)
    isUpper cl next || next == 34 || next == 39
  else false

/-- the whitespace skip after a sentence end: `for i+1 < len && IsSpace(runes[i+1]) { i++ }` -/
def skipSpaces (runes : Array Nat) : Nat → Nat → Nat
  | 0, i => i
  | fuel + 1, i =>
    if i + 1 < runes.size && isSpaceRune (getR runes (i + 1)) then skipSpaces runes fuel (i + 1) else i

/-- main loop of `splitIntoSentencesWithPositions`; `cur` = current sentence (runes,
reversed), `acc` = sentences so far (reversed) -/
def sentencesLoop (cl : Classes) (runes : Array Nat) : Nat → Nat → List Nat → List Str → List Str
  | 0, _, cur, acc => acc.reverse ++ (let t := trimSpace (encodeRunes cur.reverse); if t = [] then [] else [t])
  | fuel + 1, i, cur, acc =>
    if i ≥ runes.size then
      acc.reverse ++ (let t := trimSpace (encodeRunes cur.reverse); if t = [] then [] else [t])
    else
      let r := getR runes i
      let cur := r :: cur
      if (r == 46 || r == 33 || r == 63) && isSentenceEndRune cl runes i then
        let t := trimSpace (encodeRunes cur.reverse)
        let acc := if t = [] then acc else t :: acc
        let j := skipSpaces runes runes.size i
        sentencesLoop cl runes fuel (j + 1) [] acc
      else sentencesLoop cl runes fuel (i + 1) cur acc

/-- `splitIntoSentencesWithPositions` (texts only; the positions are not used by any caller) -/
def splitIntoSentences (cl : Classes) (text : Str) : List Str :=
  let runes := (decodeRunes text).toArray
  sentencesLoop cl runes (runes.size + 1) 0 [] []

def joinWith (sep : Str) : List Str → Str
  | [] => []
  | [s] => s
  | s :: rest => s ++ sep ++ joinWith sep rest

/-! ## paragraphs -/

/-- `strings.Split(text, "\n")` -/
def splitLines : Str → Str → List Str
  | [], acc => [acc.reverse]
  | c :: rest, acc => if c = 10 then acc.reverse :: splitLines rest [] else splitLines rest (c :: acc)

/-- `splitIntoParagraphs` -/
def splitIntoParagraphs (text : Str) : List Str :=
  let step (st : Str × List Str) (line : Str) : Str × List Str :=
    let trimmed := trimSpace line
    if trimmed = [] then
      (if st.1 ≠ [] then ([], trimSpace st.1 :: st.2) else st)
    else ((if st.1 ≠ [] then st.1 ++ [32] else st.1) ++ trimmed, st.2)
  let st := (splitLines text []).foldl step ([], [])
  (if st.1 ≠ [] then trimSpace st.1 :: st.2 else st.2).reverse

/-! ## overlap generation -/

structure OverlapConfig where
  strategy : Nat            -- 0 none, 1 character, 2 sentence, 3 paragraph
  size : Nat
  minOverlap : Nat
  maxOverlap : Nat
  preserveWords : Bool
  includeHeadingContext : Bool
  deriving Repr

/-- `for start < len(text) && !utf8.RuneStart(text[start]) { start++ }` on `text[start:]` -/
def skipCont : Str → Str
  | [] => []
  | b :: rest => if runeStart b then b :: rest else skipCont rest

/-- "move forward to find start of a word": skip whole characters up to the first space -/
def skipNonSpace : Nat → Str → Str
  | 0, s => s
  | fuel + 1, s =>
    if s = [] then [] else if spaceLen s ≠ 0 then s else skipNonSpace fuel (s.drop (runeLen s))

/-- `generateCharacterOverlap` -/
def generateCharacterOverlap (c : OverlapConfig) (text : Str) : Str :=
  if text.length ≤ c.size then text
  else
    let t := skipCont (text.drop (text.length - c.size))
    let t := if c.preserveWords then trimLeft (skipNonSpace t.length t) else t
    if t = [] then [] else trimSpace t

/-- `generateSentenceOverlap` -/
def generateSentenceOverlap (cl : Classes) (c : OverlapConfig) (text : Str) : Str × Nat :=
  let sentences := splitIntoSentences cl text
  if sentences = [] then ([], 0)
  else
    let n := min c.size sentences.length
    (trimSpace (joinWith [32] (sentences.drop (sentences.length - n))), n)

/-- `generateParagraphOverlap` -/
def generateParagraphOverlap (cl : Classes) (c : OverlapConfig) (text : Str) : Str × Nat :=
  let paragraphs := splitIntoParagraphs text
  if paragraphs = [] then ([], 0)
  else
    let n := min c.size paragraphs.length
    let sel := paragraphs.drop (paragraphs.length - n)
    (trimSpace (joinWith [10, 10] sel), (sel.map fun p => (splitIntoSentences cl p).length).sum)

/-- `tailAtRuneBoundary` -/
def tailAtRuneBoundary (s : Str) (n : Nat) : Str :=
  if n ≥ s.length then s else skipCont (s.drop (s.length - n))

/-- the backward loop of `truncateOverlap`: `rev` = sentences last-first, `acc` = the
selected sentences in text order, `size` = their joined length -/
def fitLast (max : Nat) : List Str → Nat → List Str → List Str
  | [], _, acc => acc
  | s :: rest, size, acc =>
    let added := s.length + (if size > 0 then 1 else 0)
    if size + added > max then acc else fitLast max rest (size + added) (s :: acc)

/-- `truncateOverlap` -/
def truncateOverlap (cl : Classes) (c : OverlapConfig) (overlap : Str) : Str :=
  if overlap.length ≤ c.maxOverlap then overlap
  else
    let sentences := splitIntoSentences cl overlap
    if sentences = [] then generateCharacterOverlap c (tailAtRuneBoundary overlap c.maxOverlap)
    else
      let sel := fitLast c.maxOverlap sentences.reverse 0 []
      if sel = [] then generateCharacterOverlap c (tailAtRuneBoundary overlap c.maxOverlap)
      else joinWith [32] sel

/-- the strategy switch of `GenerateOverlap`: overlap text and sentence count -/
def rawOverlap (cl : Classes) (c : OverlapConfig) (chunkText : Str) : Str × Nat :=
  if c.strategy = 1 then (generateCharacterOverlap c chunkText, 0)
  else if c.strategy = 2 then generateSentenceOverlap cl c chunkText
  else generateParagraphOverlap cl c chunkText

/-- `if len(overlap) > MaxOverlap { overlap = truncateOverlap(overlap) }` -/
def capOverlap (cl : Classes) (c : OverlapConfig) (overlap : Str) : Str :=
  if overlap.length > c.maxOverlap then truncateOverlap cl c overlap else overlap

/-- `GenerateOverlap` (the `Text` of the result) -/
def generateOverlap (cl : Classes) (c : OverlapConfig) (chunkText : Str) : Str :=
  if c.strategy = 0 ∨ c.size = 0 ∨ c.strategy > 3 then []
  else
    let r := rawOverlap cl c chunkText
    let overlap :=
      if r.1.length < c.minOverlap ∧ c.strategy = 2 ∧ r.2 = 0
      then generateCharacterOverlap c chunkText else r.1
    capOverlap cl c overlap

structure OverlapOut where
  has : Bool
  pref : Str
  text : Str
  deriving Repr

/-- `ApplyOverlap` -/
def applyOverlap (current overlap title : Str) (includeContext : Bool) : Str :=
  if overlap = [] then current
  else (if includeContext ∧ title ≠ [] then [91] ++ title ++ [93, 10, 10] else []) ++ overlap ++ [10, 10] ++ current

/-- `ApplyOverlapToChunks` on the chunks' own texts and section titles: the overlap for
chunk i+1 is generated from the *original* text of chunk i. -/
def applyOverlapAux (cl : Classes) (c : OverlapConfig) : Option Str → List (Str × Str) → List OverlapOut
  | _, [] => []
  | prev, (text, title) :: rest =>
    let ov := match prev with
      | some p => if c.strategy ≠ 0 then generateOverlap cl c p else []
      | none => []
    (if ov = [] then { has := false, pref := [], text := text }
     else { has := true, pref := ov, text := applyOverlap text ov title c.includeHeadingContext })
      :: applyOverlapAux cl c (some text) rest

def applyOverlapToChunks (cl : Classes) (c : OverlapConfig) (texts titles : List Str) : List OverlapOut :=
  applyOverlapAux cl c none (texts.zip (titles ++ List.replicate (texts.length - titles.length) []))

/-- the `OverlapConfig` built in `Chunker.ChunkWithOverlapEnabled`
(`getOverlapStrategy`, `getOverlapSize`) -/
def chunkerOverlapConfig (overlapSize : Nat) (sentences ctx : Bool) : OverlapConfig :=
  { strategy := if overlapSize = 0 then 0 else if sentences then 2 else 1,
    size := if sentences ∧ overlapSize > 10 then 2 else overlapSize,
    minOverlap := 20, maxOverlap := overlapSize * 3, preserveWords := true,
    includeHeadingContext := ctx }

end Tabula.Overlap
