import TabulaModel.Model.Detect
import TabulaModel.Model.Drm
/-
Model of the PUBLIC API around the C20 mechanisms, as the code is in the worktree:

  tabula.go      Open, FromReader, FromHTMLString / FromHTMLReader
  extractor.go   (*Extractor).clone (every configuration method), ensureReader,
                 ensurePDFReader, validateFormat (with its os.Open / ReadAt failures),
                 Close, and the frame of every terminal / non-terminal operation
                 (Text, Document, Chunks, ChunksWithConfig, ToMarkdown(WithOptions),
                 Fragments, Lines, Paragraphs, ReadingOrder, Analyze, Elements, Headings,
                 Lists, Blocks, PageCount, IsCharacterLevel, IsMultiColumn)
  epubdoc/reader.go  Open / OpenReader, (*Reader).init (validateMimetype, then the DRM
                 gate, then container / OPF / chapters), validateMimetype
  epubdoc/drm.go the `switch f.Name` of checkForDRM (which archive member is the rights
                 file, which the encryption metadata)

Core Lean only.  ONE archive (`AMember` list, in archive order) feeds both the content
sniffer (`Detect.detectZip`) and the DRM gate (`Drm.checkForDRM`).  External code is a
parameter: `archive/zip` (member list or error), `encoding/xml` (entries of
encryption.xml or error), `os` (the file is missing / cannot be read), and the seven
format readers past tabula's own gates (`accepts`).
-/
namespace Tabula.Admit
open Tabula.Detect Tabula.Drm

/-- `"META-INF/rights.xml"` -/
def nRights : Str := [77, 69, 84, 65, 45, 73, 78, 70, 47, 114, 105, 103, 104, 116, 115, 46, 120, 109, 108]
/-- `"META-INF/encryption.xml"` -/
def nEncryption : Str := [77, 69, 84, 65, 45, 73, 78, 70, 47, 101, 110, 99, 114, 121, 112, 116, 105, 111, 110, 46, 120, 109, 108]

/-- one archive member as the sniffer, the mimetype check and the DRM gate together see
it: its name; its content if it could be opened and read (the code reads only members
named "mimetype"); and, for a member named META-INF/encryption.xml, what `io.ReadAll` +
`xml.Unmarshal` made of it (`none` = read or parse error) -/
structure AMember where
  name : Str
  data : Option Str := none
  enc : Option (List Entry) := none
deriving Repr

/-- the member as `format.detectZIPFormat` sees it -/
def AMember.toMember (m : AMember) : Member := { name := m.name, data := m.data }

/-- the `switch f.Name` of `epubdoc.checkForDRM` -/
def classify (m : AMember) : DMember :=
  if m.name = nRights then .rights
  else if m.name = nEncryption then .encryption m.enc
  else .other

/-- `epubdoc.checkForDRM(zr)` on the archive: `true` = `ErrDRMProtected` -/
def archiveDRM (ms : List AMember) : Bool := checkForDRM (ms.map classify)

/-- `format.detectZIPFormat` on the archive -/
def archiveFormat (ms : List AMember) : Format := detectZip (ms.map AMember.toMember)

/-- result of `(*Reader).validateMimetype` -/
inductive MimeCheck where
  | ok | invalid | readErr
deriving DecidableEq, Repr

/-- `epubdoc.(*Reader).validateMimetype`: the FIRST member named "mimetype" decides;
its whole content, trimmed, must be the EPUB media type -/
def validateMimetype : List AMember → MimeCheck
  | [] => .invalid
  | m :: ms =>
    if m.name = nMimetype then
      match m.data with
      | none => .readErr
      | some d => if trimSpace d = epubMime then .ok else .invalid
    else validateMimetype ms

/-- how `epubdoc.Open` ends -/
inductive EpubOpen where
  | ok
  | invalidArchive   -- ErrInvalidArchive
  | drm              -- ErrDRMProtected
  | structure        -- parseContainer / parseOPF / loadChapters failed
deriving DecidableEq, Repr

/-- `epubdoc.(*Reader).init`: the mimetype check's verdict is dropped, the DRM gate comes
before anything else is parsed; `rest` = parseContainer, parseOPF and loadChapters all
succeed on this archive -/
def epubInit (ms : List AMember) (rest : Bool) : EpubOpen :=
  match validateMimetype ms with
  | _ =>
    if archiveDRM ms then .drm
    else if rest then .ok
    else .structure

/-- `epubdoc.Open` / `epubdoc.OpenReader`: `zip` is the result of `zip.OpenReader` -/
def epubOpen (zip : Option (List AMember)) (rest : Bool) : EpubOpen :=
  match zip with
  | none => .invalidArchive
  | some ms => epubInit ms rest

/-! ### the file behind a name -/

/-- what the operating system and the external readers say of the bytes stored under a
name at one moment -/
inductive FileState where
  /-- `os.Open` fails -/
  | missing
  /-- `os.Open` succeeds, `ReadAt` fails (a directory) -/
  | unreadable
  /-- a regular file: its bytes (the sniffer reads the first 512), what `archive/zip`
  makes of them (`none` = not an archive), and for each format whether that format's
  reader — past tabula's own gates — opens these bytes -/
  | file (head : Str) (zip : Option (List AMember)) (accepts : Format → Bool)

/-- `format.DetectFromReader` on the file (`none` = error) -/
def detectFile (head : Str) (zip : Option (List AMember)) : Option Format :=
  detectFromReader head (zip.map (·.map AMember.toMember))

/-- how an operation of the public API ends, as far as admission is concerned -/
inductive Outcome where
  | errSet        -- `e.err != nil` (invalid configuration, FromHTMLReader failure)
  | noFilename    -- "no filename specified"
  | openFailed    -- "failed to open file"
  | detectFailed  -- "failed to detect file format"
  | mismatch      -- "file format mismatch"
  | unsupported   -- "unsupported file format"
  | drm           -- errors.Is(err, epubdoc.ErrDRMProtected)
  | readerFailed  -- "failed to open <FORMAT>": the format's reader refused the bytes
  | notPdf        -- "operation is only supported for PDF documents"
  | nilReader     -- would dereference a nil reader (shown unreachable)
  | reached       -- a reader is open and the operation's body ran on it
deriving DecidableEq, Repr

/-- `validateFormat` followed by the `switch e.format` of `ensureReader`, for an
extractor whose name asks for `extF`: the format whose reader is now open, or the error -/
def admitFile (extF : Format) : FileState → Except Outcome Format
  | .missing => .error .openFailed
  | .unreadable => .error .detectFailed
  | .file head zip accepts =>
    match Detect.ensureReader extF (detectFile head zip) with
    | .detectFailed => .error .detectFailed
    | .mismatch => .error .mismatch
    | .unsupported => .error .unsupported
    | .proceed f =>
      if f = .epub then
        match epubOpen zip (accepts .epub) with
        | .ok => .ok f
        | .drm => .error .drm
        | _ => .error .readerFailed
      else if accepts f then .ok f
      else .error .readerFailed

/-! ### the extractor and its life cycle -/

/-- the reader an extractor holds: which of the seven reader fields is non-nil, and
(ghost) the bytes it was opened on — `none` for a reader over caller-supplied memory -/
structure RInfo where
  fmt : Format
  src : Option FileState

/-- the fields of `tabula.Extractor` admission depends on -/
structure Ext where
  name : Str                 -- `e.filename` (`[]` = "")
  format : Format            -- `e.format`
  err : Bool := false        -- `e.err != nil`
  opened : Bool := false     -- `e.readerOpened`
  owns : Bool := false       -- `e.ownsReader`
  reader : Option RInfo := none

/-- `tabula.Open(filename)` -/
def openExt (name : Str) : Ext := { name := name, format := detect name }

/-- `tabula.FromHTMLString` / `FromHTMLReader`: `ok` = `htmldoc.OpenReader` succeeded -/
def fromHTML (ok : Bool) : Ext :=
  if ok then { name := [], format := .html, opened := true, owns := true, reader := some ⟨.html, none⟩ }
  else { name := [], format := .html, err := true }

/-- `tabula.FromReader(r)`: a PDF reader the caller opened and keeps responsible for -/
def fromReader : Ext :=
  { name := [], format := .pdf, opened := true, owns := false, reader := some ⟨.pdf, none⟩ }

/-- `(*Extractor).clone`: a reader the extractor opened from its own file stays with it -/
def Ext.clone (e : Ext) : Ext :=
  if e.opened && !(e.owns && !e.name.isEmpty) then e
  else { e with reader := none, owns := false, opened := false }

/-- a configuration method (`Pages`, `PageRange`, `Exclude…`, `ByColumn`, …): clone;
`bad` = `PageRange(start, end)` with start > end, which sets the error -/
def Ext.derive (e : Ext) (bad : Bool) : Ext :=
  let c := e.clone
  if bad then { c with err := true } else c

/-- `(*Extractor).Close` -/
def Ext.close (e : Ext) : Ext :=
  if e.owns then
    match e.reader with
    | some _ => { e with reader := none, owns := false, opened := false }
    | none => e
  else e

/-- `(*Extractor).ensureReader` against the bytes currently stored under the name -/
def Ext.ensureReader (e : Ext) (cur : FileState) : Except Outcome Ext :=
  if e.opened then .ok e
  else if e.name.isEmpty then .error .noFilename
  else
    match admitFile e.format cur with
    | .error o => .error o
    | .ok f => .ok { e with reader := some ⟨f, some cur⟩, owns := true, opened := true }

/-- `e.reader == nil` (the PDF reader field) -/
def Ext.pdfReaderNil (e : Ext) : Bool :=
  match e.reader with
  | some r => r.fmt != .pdf
  | none => true

/-- the kinds of operation, by frame -/
inductive TKind where
  | text       -- Text:      err; ensureReader; defer Close; body
  | document   -- Document, Chunks, ChunksWithConfig: the same frame
  | markdown   -- ToMarkdown(WithOptions): no err test for the six non-PDF formats
  | pdfOnly    -- Fragments, Lines, Paragraphs, ReadingOrder, Analyze, Elements, Headings, Lists, Blocks: err; ensurePDFReader; defer Close; body
  | pageCount  -- PageCount: err; ensureReader; body (stays open)
  | pdfProbe   -- IsCharacterLevel, IsMultiColumn: err; ensurePDFReader; body (a PDF stays open; a named file of another format is closed by ensurePDFReader)
deriving DecidableEq, Repr

/-- what an operation reports: the outcome and (ghost) the reader its body ran on -/
structure Res where
  out : Outcome
  on : Option RInfo := none

/-- the body of an operation on an open reader -/
def bodyOn (e : Ext) : Res :=
  match e.reader with
  | some r => { out := .reached, on := some r }
  | none => { out := .nilReader }

/-- `err; ensureReader; [defer Close]; body` -/
def frame (e : Ext) (cur : FileState) (checkErr closes : Bool) : Ext × Res :=
  if checkErr && e.err then (e, { out := .errSet })
  else
    match e.ensureReader cur with
    | .error o => (e, { out := o })
    | .ok e1 => (if closes then e1.close else e1, bodyOn e1)

/-- the guard at the head of `(*Extractor).ensurePDFReader`:
`e.format != format.PDF && e.filename != ""` — the call is going to be refused, and the
extractor can re-open its file, so `defer e.Close()` is put in place before `ensureReader` -/
def Ext.pdfEarly (e : Ext) : Bool := e.format != .pdf && !e.name.isEmpty

/-- `err; ensurePDFReader; [defer Close]; body`.  `ensurePDFReader` is
`[if pdfEarly: defer Close]; ensureReader; format / reader test`: on an extractor with a
file name of another format its own deferred `Close` runs on every way out, so the reader
that `ensureReader` opened now — or that an earlier `PageCount` left open — is released
when the operation is refused.  An extractor without a file name (`FromHTMLReader`) keeps
its reader; the PDF path is that of `frame`. -/
def framePdf (e : Ext) (cur : FileState) (closes : Bool) : Ext × Res :=
  if e.err then (e, { out := .errSet })
  else
    match e.ensureReader cur with
    | .error o => (if e.pdfEarly then e.close else e, { out := o })
    | .ok e1 =>
      if e1.format != .pdf || e1.pdfReaderNil then (if e.pdfEarly then e1.close else e1, { out := .notPdf })
      else (if closes then e1.close else e1, bodyOn e1)

/-- one operation of kind `k` on extractor value `e` -/
def Ext.run (e : Ext) (cur : FileState) : TKind → Ext × Res
  | .text => frame e cur true true
  | .document => frame e cur true true
  | .markdown =>
    if e.format = .pdf ∨ e.format = .unknown then frame e cur true true   -- via Chunks → Document
    else frame e cur false true
  | .pdfOnly => framePdf e cur true
  | .pageCount => frame e cur true false
  | .pdfProbe => framePdf e cur false

/-! ### call histories -/

/-- a call of the public API; extractors are numbered in order of creation -/
inductive Call where
  | open (name : Str)
  | fromHTML (ok : Bool)
  | fromReader
  | derive (i : Nat) (bad : Bool)
  | op (i : Nat) (k : TKind)
  | close (i : Nat)
  /-- not an API call: the bytes stored under the names change -/
  | rewrite (fs : FileState)

structure St where
  exts : List Ext := []
  cur : FileState := .missing

/-- what a call returns -/
inductive CallRes where
  | created (i : Nat)
  | closed
  | res (r : Res)
  | rewritten
  | bad            -- no such extractor

def step (s : St) : Call → St × CallRes
  | .open name => ({ s with exts := s.exts ++ [openExt name] }, .created s.exts.length)
  | .fromHTML ok => ({ s with exts := s.exts ++ [fromHTML ok] }, .created s.exts.length)
  | .fromReader => ({ s with exts := s.exts ++ [fromReader] }, .created s.exts.length)
  | .derive i bad =>
    match s.exts[i]? with
    | none => (s, .bad)
    | some e => ({ s with exts := s.exts ++ [e.derive bad] }, .created s.exts.length)
  | .op i k =>
    match s.exts[i]? with
    | none => (s, .bad)
    | some e =>
      let (e', r) := e.run s.cur k
      ({ s with exts := s.exts.set i e' }, .res r)
  | .close i =>
    match s.exts[i]? with
    | none => (s, .bad)
    | some e => ({ s with exts := s.exts.set i e.close }, .closed)
  | .rewrite fs => ({ s with cur := fs }, .rewritten)

/-- a whole history: the final state and what each call returned -/
def runCalls : St → List Call → St × List CallRes
  | s, [] => (s, [])
  | s, c :: cs =>
    let (s1, r) := step s c
    let (s2, rs) := runCalls s1 cs
    (s2, r :: rs)

/-- `tabula.Open(name).<op>()` on a file in state `fs` -/
def openAndRun (name : Str) (fs : FileState) (k : TKind) : Res :=
  ((openExt name).run fs k).2

/-! ### the remaining methods of `format.Format` -/

/-- `Format.Extension()` -/
def extensionOf : Format → Str
  | .pdf => dotPdf | .docx => dotDocx | .odt => dotOdt | .xlsx => dotXlsx | .pptx => dotPptx
  | .html => dotHtml | .epub => dotEpub | .unknown => []

/-- a `format.Format` value by its number (`iota` order); numbers beyond EPUB fall
into the `default` branches of `String` and `Extension`, like Unknown -/
def formatOfNat : Nat → Format
  | 1 => .pdf | 2 => .docx | 3 => .odt | 4 => .xlsx | 5 => .pptx | 6 => .html | 7 => .epub
  | _ => .unknown

/-! ### how a CipherReference may spell a container path (specification side)

`pctEsc` is the percent-encoding of RFC 3986 §2.1 with the set of characters a producer
leaves alone as a parameter; it mirrors the writer of the harness (`pctEsc` in
harness/c20/docs.go), not code of tabula. -/

/-- RFC 3986 unreserved characters, and the path separator -/
def isUnreservedOrSlash (c : Nat) : Bool :=
  (65 ≤ c && c ≤ 90) || (97 ≤ c && c ≤ 122) || (48 ≤ c && c ≤ 57) ||
    c == 45 || c == 46 || c == 95 || c == 126 || c == 47

/-- upper-case hexadecimal digit -/
def hexDigitU (n : Nat) : Nat := if n < 10 then 48 + n else 55 + n

/-- percent-encode every byte that is neither unreserved, `/`, nor kept by the producer -/
def pctEsc (keep : Nat → Bool) (s : Str) : Str :=
  s.flatMap fun c => if isUnreservedOrSlash c || keep c then [c] else [37, hexDigitU (c / 16), hexDigitU (c % 16)]

/-- `!$&'()*,;=@`: the sub-delimiters a relative URI reference may carry unescaped -/
def isSubDelim (c : Nat) : Bool :=
  c == 33 || c == 36 || c == 38 || c == 39 || c == 40 || c == 41 || c == 42 || c == 44 || c == 59 || c == 61 || c == 64

/-- a container path as a relative URI reference (`hrefEsc` of the harness) -/
def hrefEsc (s : Str) : Str := pctEsc isSubDelim s

/-- each segment escaped like a URI component (`hrefEscAll` of the harness) -/
def hrefEscAll (s : Str) : Str := pctEsc (fun _ => false) s

end Tabula.Admit
