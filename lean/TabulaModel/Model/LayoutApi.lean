import TabulaModel.Model.LayoutText
/-
Model of the public entry points of package `tabula` through which C09 observes layout analysis
(`extractor.go`): the choice of the text path per page, the joining of the page texts, and the
page loops of the structured results.

* `tabula.isCharacterLevel`                                   → `isCharacterLevel`
* `tabula.detectMultiColumn`                                  → `detectMultiColumn`
* the mode dispatch in the page loop of `(*Extractor).Text`   → `textDispatch`, `pageText`
* the page loop of `(*Extractor).Text` (blank line between non-empty page texts; a page without
  fragments contributes the OCR text, an external result, or nothing)
                                                              → `docText`
* the page loops of `Lines()`, `Paragraphs()`, `Blocks()`, `ReadingOrder()`: per-page results
  appended                                                    → `docLines`, `docParagraphs`,
                                                                `docBlocks`, `docReadingOrder`

A page enters as the fragment list `reader.ExtractTextFragments` returns for it (deduplicated,
after header/footer filtering - C11) together with the outcomes of the heuristics on that page
(`Heur`): every theorem quantifies over all of them.
-/
namespace Tabula.Layout

/-- the text options of an `Extractor` -/
structure TextOpts where
  preserveLayout : Bool
  joinParagraphs : Bool
  byColumn : Bool
deriving DecidableEq, Repr

/-- the outcomes of the classification heuristics on one page, and the two float64 values
`extractPreserveLayout` measures its padding with: `cw` = `charWidth`, `lh0` = `charWidth * 1.2`
(the clamps that bound the padding - at most 100 newlines per gap, target column at most 200 -
are part of the model: `preserveLayoutGo`) -/
structure Heur where
  gaps : List Gap
  minCW : Rat
  minW : Rat
  isSpan : List Frag → List Frag → Bool
  keep : List Frag → List Frag → Bool
  tolOf : List Frag → Rat
  preserve : List Frag → Bool
  rtl : Bool
  brkOf : List (List Frag) → List (List Frag) → List Frag → List (List Frag) → Bool
  cw : Rat
  lh0 : Rat

/-- `isCharacterLevel`: at least 10 fragments, more than 60 % of them at most one byte long
after trimming -/
def isCharacterLevel (fs : List Frag) : Bool :=
  if fs.length < 10 then false
  else (((fs.filter fun f => (trimSpace f.text).length ≤ 1).length : Rat) / (fs.length : Rat)) > 3/5

/-- `detectMultiColumn`: at least 20 fragments, a page width, and more than one column in the
reading order -/
def detectMultiColumn (widthZero : Bool) (fs : List Frag) (columnCount : Nat) : Bool :=
  if fs.length < 20 || widthZero then false else columnCount > 1

/-- the `if / else if` chain of the page loop of `Text()` -/
def textDispatch (o : TextOpts) (charLevel multiCol : Bool) (pl jp bc asm : Str) : Str :=
  if o.preserveLayout then pl
  else if o.joinParagraphs then jp
  else if o.byColumn then bc
  else if charLevel || multiCol then bc
  else asm

def Heur.readingOrder (hz : Heur) (fs : List Frag) : ReadingOrder :=
  Layout.readingOrder hz.gaps hz.minCW hz.minW hz.isSpan hz.keep hz.tolOf hz.preserve hz.rtl fs

/-- the text of one page with fragments -/
def pageText (hz : Heur) (o : TextOpts) (widthZero : Bool) (fs : List Frag) : Str :=
  textDispatch o (isCharacterLevel fs) (detectMultiColumn widthZero fs (hz.readingOrder fs).columnCount)
    (preserveLayoutGo hz.cw hz.lh0 fs)
    (extractWithParagraphs hz.gaps hz.minCW hz.minW hz.isSpan hz.keep hz.tolOf hz.preserve hz.rtl hz.brkOf fs)
    (extractByColumn hz.gaps hz.minCW hz.minW hz.isSpan hz.keep hz.tolOf hz.preserve hz.rtl fs)
    (assembleText fs)

/-- one page of a document: its fragments, its heuristic outcomes, whether its width is 0, and
the text OCR returns for it when it has no fragments (empty: no OCR, or OCR failed) -/
structure PageIn where
  frags : List Frag
  hz : Heur
  widthZero : Bool
  ocr : Str

/-- what the page loop writes for one page -/
def PageIn.text (o : TextOpts) (p : PageIn) : Str :=
  if p.frags.isEmpty then p.ocr else pageText p.hz o p.widthZero p.frags

/-- the joining of the page texts: a blank line before a non-empty page text when something has
been written before -/
def joinPages : Nat → Str → List Str → Str
  | _, acc, [] => acc
  | i, acc, t :: ts =>
    joinPages (i + 1) (acc ++ (if i > 0 && !acc.isEmpty && !t.isEmpty then [10, 10] else []) ++ t) ts

/-- `(*Extractor).Text()` for a PDF: the texts of the requested pages, joined -/
def docText (o : TextOpts) (pages : List PageIn) : Str := joinPages 0 [] (pages.map (PageIn.text o))

/-- `(*Extractor).Lines()`: the lines of every page, appended -/
def docLines (pages : List PageIn) : List (List Frag) :=
  pages.flatMap fun p => detectLines (p.hz.tolOf p.frags) p.hz.minW p.hz.preserve p.frags

/-- `(*Extractor).ReadingOrder()`: fragments (and lines) of the pages' reading orders, appended -/
def docReadingOrderFragments (pages : List PageIn) : List Frag :=
  pages.flatMap fun p => (p.hz.readingOrder p.frags).fragments

def docReadingOrderLines (pages : List PageIn) : List (List Frag) :=
  pages.flatMap fun p => (p.hz.readingOrder p.frags).lines

/-- `(*Extractor).Paragraphs()`: `GetParagraphs()` of every page's reading order, appended -/
def docParagraphs (pages : List PageIn) : List (List (List Frag)) :=
  pages.flatMap fun p => roParagraphs p.hz.brkOf (p.hz.readingOrder p.frags)

/-! ## `(*Analyzer).Analyze` -/

/-- the library sorts and the block decisions of `BlockDetector.Detect` -/
structure BlockHeur where
  srt : List Frag → List Frag
  srtX : List Frag → List Frag
  srtB : List Block → List Block
  brk : List (List Frag) → List Frag → List (List Frag) → Bool
  ov : Block → Block → Bool
  minW : Rat
  minH : Rat

/-- `AnalysisResult` without the element tree (`elementTree` is stated on headings, lists and
paragraphs as boxes with fragment ids: `Props/C09.lean`) -/
structure Analysis where
  columns : ColumnLayout
  readingOrder : ReadingOrder
  lines : List (List Frag)
  blocks : List Block
  paragraphs : List (List (List Frag))

/-- `(*Analyzer).Analyze` with the default configuration (`UseReadingOrder`): every detector on
the same fragments; the paragraphs are those of the reading order -/
def analyze (hz : Heur) (bh : BlockHeur) (fs : List Frag) : Analysis :=
  { columns := if fs.isEmpty then ⟨[], []⟩ else detectColumns hz.gaps hz.minCW hz.isSpan hz.keep fs
    readingOrder := hz.readingOrder fs
    lines := if fs.isEmpty then [] else detectLines (hz.tolOf fs) hz.minW hz.preserve fs
    blocks := detectBlocksFrom bh.srt bh.srtX bh.srtB bh.brk bh.ov bh.minW bh.minH fs
    paragraphs := roParagraphs hz.brkOf (hz.readingOrder fs) }

/-- `(*AnalysisResult).GetText`: the text of the reading order -/
def Analysis.text (a : Analysis) : Str := roText a.readingOrder

end Tabula.Layout
