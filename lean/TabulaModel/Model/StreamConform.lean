import TabulaModel.Model.StreamDict
import TabulaModel.Model.FilterSpec
/-!
The writer's side of a stream dictionary, executable: the stages of a pipeline (`WStage`) and
a checker `conformingB d stages` for "the dictionary `d` describes the pipeline `stages` the
way PDF 32000-1 §7.3.8.2 / §7.4 allow". `Props/C05E.lean` states the same as the proposition
`Conforming` (the hypothesis of `decode_inverts_encoding`) and proves `conformingB` sound for
it; the harness sends every dictionary its own (specification-derived) writer produced for a
pipeline through `c05.conf` and expects `true` — so the hypothesis of the end-to-end theorem is
checked to hold on the generated inputs, not only on hand-picked examples. Core Lean only.
-/
namespace Tabula.Filters

/-- one stage of a pipeline as a conforming writer sees it -/
inductive WStage where
  | hex (short : Bool)
  | a85 (short : Bool)
  | flate (short : Bool)
  | tiff (short : Bool) (colors columns : Nat)
  | png (short : Bool) (pred : Nat) (colors columns : Nat) (tags : List Nat)
deriving Repr, DecidableEq, Inhabited

/-- the filter name, full or abbreviated -/
def WStage.name : WStage → Str
  | .hex a => if a then nAHx else nASCIIHexDecode
  | .a85 a => if a then nA85 else nASCII85Decode
  | .flate a | .tiff a _ _ | .png a _ _ _ _ => if a then nFl else nFlateDecode

/-- the integer `v` written as an Int or as a Real with the integral value `v` -/
def numB (d : Dict) (k : Str) (v : Int) : Bool :=
  match dictGet d k with
  | some (.int n) => n == v
  | some (.real m e) => m == v * (2 : Int) ^ e
  | _ => false

/-- … or left out when `v` is the default of the key -/
def numDB (d : Dict) (k : Str) (v dflt : Int) : Bool :=
  numB d k v || ((dictGet d k).isNone && v == dflt)

/-- a conforming `DecodeParms` entry for the stage (`none` = no entry) -/
def parmsOKB : WStage → Option Obj → Bool
  | .hex _, _ => true
  | .a85 _, _ => true
  | .flate _, some (.dict kvs) => (dictGet kvs kPredictor).isNone || numB kvs kPredictor 1
  | .flate _, _ => true
  | .tiff _ colors columns, some (.dict kvs) =>
    numB kvs kPredictor 2 && numDB kvs kColors colors 1 && numDB kvs kColumns columns 1 &&
      numDB kvs kBitsPerComponent 8 8
  | .tiff _ _ _, _ => false
  | .png _ pred colors columns _, some (.dict kvs) =>
    numB kvs kPredictor pred && numDB kvs kColors colors 1 && numDB kvs kColumns columns 1 &&
      numDB kvs kBitsPerComponent 8 8
  | .png _ _ _ _ _, _ => false

/-- the `Filter` array is the array of the stage names -/
def namesMatch : List Obj → List WStage → Bool
  | [], [] => true
  | .name n :: xs, s :: ss => n == s.name && namesMatch xs ss
  | _, _ => false

/-- the i-th entry of the `DecodeParms` array (nothing beyond its end) is conforming for stage i -/
def parmsAll : List WStage → List Obj → Bool
  | [], _ => true
  | s :: ss, [] => parmsOKB s none && parmsAll ss []
  | s :: ss, o :: os => parmsOKB s (some o) && parmsAll ss os

def conformingB (d : Dict) (stages : List WStage) : Bool :=
  match dictGet d kFilter with
  | some (.array xs) =>
    namesMatch xs stages &&
      (match dictGet d kDecodeParms with
       | some (.array os) => parmsAll stages os
       | o => stages.all fun s => parmsOKB s o)
  | some (.name n) =>
    match stages with
    | [s] => n == s.name && parmsOKB s (dictGet d kDecodeParms)
    | _ => false
  | none => stages.isEmpty
  | _ => false

/-! ### the encoder's side of the data, executable

`chainWritesL` checks, for the intermediates `[y, m₁, …, x]` of a pipeline the harness encoded,
that every step is an encoding the stage's conforming encoder may produce — the hypothesis
`ChainWrites` of `decode_inverts_encoding` (`Props/C05E.lean` proves the checker sound). The
checks use the *specification* side only (`HexEnc`-style digit reading, `a85Body`, `pngPredict`,
`tiffPredict`), never a decoder of the model. -/

/-- is `s` a writing of `x` in hexadecimal: two digits per byte (either case), white space
anywhere; a final low digit 0 may be left out (§7.4.2: an odd number of digits counts as if a 0
followed). `pending` = the value of a high digit already read. -/
def hexEncGo : Str → Option Nat → Str → Bool
  | [], none, x => x.isEmpty
  | [], some _, [b] => b % 16 == 0
  | [], some _, _ => false
  | c :: s, none, x =>
    if isWs c then hexEncGo s none x
    else match x with
      | [] => false
      | b :: _ => if hexVal c = some (b / 16) then hexEncGo s (some (b / 16)) x else false
  | c :: s, some hv, x =>
    if isWs c then hexEncGo s (some hv) x
    else match x with
      | [] => false
      | b :: xs => if hexVal c = some (b % 16) then hexEncGo s none xs else false

def hexWritingB (s x : Str) : Bool := hexEncGo s none x

/-- is `s` the ASCII85 body of `x` with white space interleaved -/
def a85WritingB (s x : Str) : Bool := s.filter (fun c => !isWs c) == a85Body x

def bytesB (x : Str) : Bool := x.all (· < 256)

/-- one stage: is `y` an encoding of `m` the conforming encoder of the stage may write; for the
ASCII filters `y` may go on after the EOD marker -/
def stageWritesB (inflate : Str → Option Str) : WStage → Str → Str → Bool
  | .hex _, m, y => hexWritingB (y.takeWhile (fun c => c != 62)) m
  | .a85 _, m, y => a85WritingB (cutEOD y) m
  | .flate _, m, y => inflate y == some m
  | .tiff _ colors columns, m, y =>
    decide (1 ≤ columns) && decide (1 ≤ colors) && decide (columns * colors ≤ 2147483646) &&
      decide (m.length % (columns * colors) = 0) && inflate y == some (tiffPredict colors columns m)
  | .png _ pred colors columns tags, m, y =>
    decide (10 ≤ pred) && decide (pred ≤ 15) && decide (1 ≤ columns) && decide (1 ≤ colors) &&
      decide (columns * colors ≤ 2147483646) && decide (m.length = tags.length * (columns * colors)) &&
      tags.all (· ≤ 4) && inflate y == some (pngPredict colors columns tags m)

/-- `chainWritesL inflate stages [y, m₁, …, x]`: stage i wrote mᵢ from mᵢ₊₁ -/
def chainWritesL (inflate : Str → Option Str) : List WStage → List Str → Bool
  | [], [_] => true
  | s :: ss, y :: m :: rest => bytesB m && stageWritesB inflate s m y && chainWritesL inflate ss (m :: rest)
  | _, _ => false

end Tabula.Filters
