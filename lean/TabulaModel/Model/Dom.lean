/-
Model of the DOM that `golang.org/x/net/html` hands to tabula's htmldoc package.
HTML parsing and entity decoding are a parameter of the property: the harness
dumps the tree the parser produced and the model starts from it.

Strings are lists of Unicode code points (`Nat`); a byte of invalid UTF-8 is
carried as `0x110000 + byte` so that byte lengths stay exact. Core Lean only.
-/
namespace Tabula.Html

abbrev Str := List Nat

/-- `*html.Node`: element (Data, Attr, children) | text (Data) | anything else
(document, doctype, comment) with its children. -/
inductive Dom where
  | elem (tag : Str) (attrs : List (Str × Str)) (kids : List Dom)
  | text (s : Str)
  | other (kids : List Dom)

namespace T

def «h1» : Str := [104, 49]
def «h2» : Str := [104, 50]
def «h3» : Str := [104, 51]
def «h4» : Str := [104, 52]
def «h5» : Str := [104, 53]
def «h6» : Str := [104, 54]
def «p» : Str := [112]
def «div» : Str := [100, 105, 118]
def «ul» : Str := [117, 108]
def «ol» : Str := [111, 108]
def «li» : Str := [108, 105]
def «table» : Str := [116, 97, 98, 108, 101]
def «pre» : Str := [112, 114, 101]
def «code» : Str := [99, 111, 100, 101]
def «blockquote» : Str := [98, 108, 111, 99, 107, 113, 117, 111, 116, 101]
def «a» : Str := [97]
def «br» : Str := [98, 114]
def «hr» : Str := [104, 114]
def «article» : Str := [97, 114, 116, 105, 99, 108, 101]
def «section» : Str := [115, 101, 99, 116, 105, 111, 110]
def «main» : Str := [109, 97, 105, 110]
def «header» : Str := [104, 101, 97, 100, 101, 114]
def «footer» : Str := [102, 111, 111, 116, 101, 114]
def «nav» : Str := [110, 97, 118]
def «aside» : Str := [97, 115, 105, 100, 101]
def «thead» : Str := [116, 104, 101, 97, 100]
def «tbody» : Str := [116, 98, 111, 100, 121]
def «tfoot» : Str := [116, 102, 111, 111, 116]
def «tr» : Str := [116, 114]
def «td» : Str := [116, 100]
def «th» : Str := [116, 104]
def «script» : Str := [115, 99, 114, 105, 112, 116]
def «style» : Str := [115, 116, 121, 108, 101]
def «noscript» : Str := [110, 111, 115, 99, 114, 105, 112, 116]
def «template» : Str := [116, 101, 109, 112, 108, 97, 116, 101]
def «svg» : Str := [115, 118, 103]
def «math» : Str := [109, 97, 116, 104]
def «iframe» : Str := [105, 102, 114, 97, 109, 101]
def «object» : Str := [111, 98, 106, 101, 99, 116]
def «embed» : Str := [101, 109, 98, 101, 100]
end T

namespace A
def «role» : Str := [114, 111, 108, 101]
def «class» : Str := [99, 108, 97, 115, 115]
def «id» : Str := [105, 100]
def «rowspan» : Str := [114, 111, 119, 115, 112, 97, 110]
def «colspan» : Str := [99, 111, 108, 115, 112, 97, 110]
end A

namespace R
def «navigation» : Str := [110, 97, 118, 105, 103, 97, 116, 105, 111, 110]
def «complementary» : Str := [99, 111, 109, 112, 108, 101, 109, 101, 110, 116, 97, 114, 121]
def «banner» : Str := [98, 97, 110, 110, 101, 114]
def «contentinfo» : Str := [99, 111, 110, 116, 101, 110, 116, 105, 110, 102, 111]
end R

/-- `unicode.IsSpace` (also the `space` table of package fmt) -/
def isSpace (c : Nat) : Bool :=
  (9 ≤ c && c ≤ 13) || c == 32 || c == 0x85 || c == 0xA0 || c == 0x1680 ||
  (0x2000 ≤ c && c ≤ 0x200A) || c == 0x2028 || c == 0x2029 || c == 0x202F || c == 0x205F || c == 0x3000

def trimLeft (s : Str) : Str := s.dropWhile isSpace
def trimRight (s : Str) : Str := (s.reverse.dropWhile isSpace).reverse
/-- `strings.TrimSpace` -/
def trim (s : Str) : Str := trimRight (trimLeft s)

/-- number of bytes of the UTF-8 encoding of one code point (`len` of a Go string counts bytes) -/
def utf8Len (c : Nat) : Nat :=
  if c < 0x80 then 1 else if c < 0x800 then 2 else if c < 0x10000 then 3 else if c < 0x110000 then 4 else 1

def byteLen (s : Str) : Nat := (s.map utf8Len).sum

/-- `getAttr`: value of the first attribute with the key, "" if none -/
def getAttr : List (Str × Str) → Str → Str
  | [], _ => []
  | (k, v) :: rest, key => if k = key then v else getAttr rest key

end Tabula.Html
