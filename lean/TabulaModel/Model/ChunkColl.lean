import TabulaModel.Model.ChunkMeta
import TabulaModel.Model.ChunkSent
import TabulaModel.Model.ChunkLayoutX
/-!
# RAG chunking (property C12), part 7: reading the collection a chunker returned

`rag.ChunkCollection` (`rag/metadata.go`): `Filter` and the `FilterBy…`/`FilterWith…`/`Search`
methods built on it, a sub-collection made by hand (`NewChunkCollection(ToSlice()[a:b])`), the
accessors `GetByIndex`, `GetByID`, `First`, `Last`, `Count`, `GetPageRange`, `GetAllSections`,
`GetTotalTokens` — as functions of the collection — and a *history* of such reads, some applied to
the result of an earlier one (`runHistory`). The collection a history starts from is the output of
one of the two chunkers (`elementColl`, `layoutColl`).

`strings.ToLower` / `strings.EqualFold` are modelled on texts whose upper-case letters are ASCII
(the harness checks that the texts it sends are of that kind).
-/
namespace Tabula.ChunkColl
open Tabula.Chunk Tabula.ChunkMeta

/-- what the collection's methods read of a `rag.Chunk` -/
structure QChunk where
  c : Chunk
  title : Str
  types : List Str
  hasTable : Bool
  hasList : Bool
  hasImage : Bool
  tokens : Int
  deriving Repr, DecidableEq

/-- the loop of `(*ChunkCollection).Filter` (`filtered = append(filtered, c)`) -/
def filterLoop (p : QChunk → Bool) : List QChunk → List QChunk → List QChunk
  | [], acc => acc
  | c :: cs, acc => filterLoop p cs (if p c then acc ++ [c] else acc)

/-- `(*ChunkCollection).Filter` -/
def filterC (p : QChunk → Bool) (cs : List QChunk) : List QChunk := filterLoop p cs []

/-- `for _, s := range m.SectionPath { if s == sectionTitle { return true } }` -/
def pathHas (t : Str) : List Str → Bool
  | [] => false
  | s :: rest => if s = t then true else pathHas t rest

/-- `(*ChunkMetadata).IsInSection` -/
def isInSection (q : QChunk) (t : Str) : Bool := if q.title = t then true else pathHas t q.c.path

/-- `(*ChunkMetadata).IsOnPage` -/
def isOnPage (q : QChunk) (page : Int) : Bool := decide (page ≥ q.c.pageStart) && decide (page ≤ q.c.pageEnd)

/-- `strings.ToLower` on a text whose upper-case letters are ASCII -/
def toLower (s : Str) : Str := s.map fun b => if 65 ≤ b ∧ b ≤ 90 then b + 32 else b

/-- `strings.EqualFold` on ASCII strings -/
def eqFold (a b : Str) : Bool := toLower a == toLower b

/-- `(*ChunkMetadata).ContainsElementType` -/
def containsElementType (t : Str) : List Str → Bool
  | [] => false
  | et :: rest => if eqFold et t then true else containsElementType t rest

def hasPrefixB : Str → Str → Bool
  | [], _ => true
  | _ :: _, [] => false
  | a :: as, b :: bs => a == b && hasPrefixB as bs

/-- `strings.Contains` -/
def containsB (sub : Str) : Str → Bool
  | [] => sub.isEmpty
  | c :: cs => hasPrefixB sub (c :: cs) || containsB sub cs

/-- one call that yields a collection -/
inductive Query where
  | byPage (p : Int)
  | byPageRange (s e : Int)
  | bySection (t : Str)
  | byElementType (t : Str)
  | withTables | withLists | withImages
  | minTokens (n : Int)
  | maxTokens (n : Int)
  | search (keyword : Str)
  /-- `Filter(predicate)` with a predicate of the caller -/
  | pred (p : QChunk → Bool)
  /-- `NewChunkCollection(cc.ToSlice()[a:b])` (the caller keeps `a <= b <= Count()`) -/
  | slice (a b : Nat)

/-- the predicate each `FilterBy…` / `FilterWith…` / `Search` method hands to `Filter` -/
def queryPred : Query → QChunk → Bool
  | .byPage p => fun q => isOnPage q p
  | .byPageRange s e => fun q => decide (q.c.pageEnd ≥ s) && decide (q.c.pageStart ≤ e)
  | .bySection t => fun q => isInSection q t
  | .byElementType t => fun q => containsElementType t q.types
  | .withTables => fun q => q.hasTable
  | .withLists => fun q => q.hasList
  | .withImages => fun q => q.hasImage
  | .minTokens n => fun q => decide (q.tokens ≥ n)
  | .maxTokens n => fun q => decide (q.tokens ≤ n)
  | .search kw => fun q => containsB (toLower kw) (toLower q.c.text)
  | .pred p => p
  | .slice _ _ => fun _ => true

/-- the collection a query returns -/
def applyQuery (q : Query) (cs : List QChunk) : List QChunk :=
  match q with
  | .slice a b => (cs.take b).drop a
  | q => filterC (queryPred q) cs

/-- `GetByIndex` -/
def getByIndex (cs : List QChunk) (i : Int) : Option QChunk :=
  if i < 0 ∨ i ≥ cs.length then none else cs[i.toNat]?

/-- `GetByID`: the first chunk with that id -/
def getByID (id : Str) : List QChunk → Option QChunk
  | [] => none
  | c :: rest => if c.c.id = id then some c else getByID id rest

/-- `First` -/
def first : List QChunk → Option QChunk
  | [] => none
  | c :: _ => some c

/-- `Last` -/
def last (cs : List QChunk) : Option QChunk := if cs.length = 0 then none else cs[cs.length - 1]?

/-- the loop of `GetPageRange` over `cc.Chunks[1:]` -/
def pageRangeLoop : List QChunk → Int → Int → Int × Int
  | [], lo, hi => (lo, hi)
  | c :: rest, lo, hi =>
    pageRangeLoop rest (if c.c.pageStart < lo then c.c.pageStart else lo) (if c.c.pageEnd > hi then c.c.pageEnd else hi)

/-- `GetPageRange` -/
def pageRange : List QChunk → Int × Int
  | [] => (0, 0)
  | c :: rest => pageRangeLoop rest c.c.pageStart c.c.pageEnd

/-- the loop of `GetAllSections` (`seen` = the keys of the map) -/
def sectionsLoop : List QChunk → List Str → List Str → List Str
  | [], _, acc => acc
  | c :: rest, seen, acc =>
    if c.title ≠ [] ∧ c.title ∉ seen then sectionsLoop rest (c.title :: seen) (acc ++ [c.title])
    else sectionsLoop rest seen acc

/-- `GetAllSections` -/
def sections (cs : List QChunk) : List Str := sectionsLoop cs [] []

/-- `GetTotalTokens` -/
def totalTokens : List QChunk → Int → Int
  | [], t => t
  | c :: rest, t => totalTokens rest (t + c.tokens)

/-- one call that yields something else than a collection -/
inductive Read where
  | getByIndex (i : Int)
  | getByID (id : Str)
  | first | last | count | pageRange | sections | totalTokens

inductive Result where
  | coll (cs : List QChunk)
  | chunk (c : Option QChunk)
  | num (n : Int)
  | pair (a b : Int)
  | strs (l : List Str)

def applyRead (r : Read) (cs : List QChunk) : Result :=
  match r with
  | .getByIndex i => .chunk (getByIndex cs i)
  | .getByID id => .chunk (getByID id cs)
  | .first => .chunk (first cs)
  | .last => .chunk (last cs)
  | .count => .num cs.length
  | .pageRange => .pair (pageRange cs).1 (pageRange cs).2
  | .sections => .strs (sections cs)
  | .totalTokens => .num (totalTokens cs 0)

inductive Op where
  | query (q : Query)
  | read (r : Read)

/-- one step of a history: the collection it is applied to (0 = the chunker's collection,
k = the result of the k-th query of the history) and the call -/
structure Step where
  target : Nat
  op : Op

/-- the collections the caller holds: the chunker's and the results of the queries so far -/
abbrev Store := List (List QChunk)

def stepStore (store : Store) (s : Step) : Store × Result :=
  let cs := store[s.target]?.getD []
  match s.op with
  | .query q => (store ++ [applyQuery q cs], .coll (applyQuery q cs))
  | .read r => (store, applyRead r cs)

/-- a history of reads on the collections the caller holds -/
def runStore : Store → List Step → Store × List Result
  | store, [] => (store, [])
  | store, s :: rest =>
    let r1 := stepStore store s
    let r2 := runStore r1.1 rest
    (r2.1, r1.2 :: r2.2)

/-- a history that starts from the collection `base` -/
def runHistory (base : List QChunk) (steps : List Step) : Store × List Result := runStore [base] steps

/-! ## the collections the two chunkers return -/

/-- a chunk of the element-based chunker as the collection reads it -/
def ofX (x : XChunk) : QChunk :=
  { c := x.c, title := x.title, types := [x.elementType], hasTable := x.hasTable, hasList := x.hasList,
    hasImage := x.hasImage, tokens := x.estimatedTokens }

/-- `rag.ChunkDocumentWithConfig(doc, _, sizeConfig)`: the collection -/
def elementColl (c : Tabula.Split.SizeConfig) (d : Doc) : List QChunk := (chunkDocumentXC c d).map ofX

open Tabula.ChunkLayout in
/-- `SectionTitle` of the chunks of `Chunker.Chunk`: `createChunk` copies `section.Title`. Every
section `buildSections` makes has the last entry of its `Path` as `Title` (the preamble has neither),
the one section of `chunkByParagraphs` — used when no section yields a chunk — has the document
title and no path (`C12LayoutMeta.layout_title_formula`: this is the `SectionTitle` of `Model/ChunkLayoutX.lean`). -/
def layoutTitle (cfg : Cfg) (title : Str) (d : LDoc) (c : Chunk) : Str :=
  if (chunkForest cfg (buildSections cfg d) 0).isEmpty then title else titleOf c.path

/-- a chunk of the layout-based chunker as the collection reads it (`Model/ChunkLayoutX.lean`:
`SectionTitle` from the section, `ElementTypes` and `HasList` as the loops track them,
`EstimatedTokens = len(text)/4`) -/
def ofLXS (y : Tabula.ChunkLayoutX.LXS) : QChunk :=
  { c := y.x.c, title := y.title, types := y.x.m.types, hasTable := false, hasList := y.x.m.hasList,
    hasImage := false, tokens := (y.estimatedTokens : Int) }

open Tabula.ChunkLayout in
/-- `rag.NewChunkCollection(chunker.Chunk(doc).Chunks)` with `splitIntoSentences` computed by the model -/
def layoutColl (low : Str → Bool) (cfg : Cfg) (title : Str) (d : LDoc) : List QChunk :=
  (Tabula.ChunkLayoutX.chunkX cfg title (Tabula.ChunkSent.withSents low d)).map ofLXS

end Tabula.ChunkColl
