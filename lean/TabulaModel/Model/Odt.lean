import TabulaModel.Model.XmlTree
/-
Model of tabula's ODT reader (odt/reader.go, document.go, tables.go, lists.go,
resolver.go) as it is after the C16 fixes and the resource bounds of the C02 repairs
(maxInlineDepth - beyond it `Open` fails -, maxSpaceRun, maxTableGridCells, maxCellSpan): streaming body walk, inline
content in document order, heading level, nested lists, table spans. Core Lean only.

Inputs: the authored trees of content.xml and (optionally) styles.xml.
-/
namespace Tabula.Odt
open Tabula.Xml

def sP : Str := [112]
def sH : Str := [104]
def sS : Str := [115]
def sA : Str := [97]
def sC : Str := [99]
def sSpan : Str := [115, 112, 97, 110]
def sTab : Str := [116, 97, 98]
def sLineBreak : Str := [108, 105, 110, 101, 45, 98, 114, 101, 97, 107]
def sList : Str := [108, 105, 115, 116]
def sListItem : Str := [108, 105, 115, 116, 45, 105, 116, 101, 109]
def sTable : Str := [116, 97, 98, 108, 101]
def sTableRow : Str := [116, 97, 98, 108, 101, 45, 114, 111, 119]
def sTableCell : Str := [116, 97, 98, 108, 101, 45, 99, 101, 108, 108]
def sOfficeText : Str := [111, 102, 102, 105, 99, 101, 58, 116, 101, 120, 116]
def sStyleName : Str := [115, 116, 121, 108, 101, 45, 110, 97, 109, 101]
def sOutlineLevel : Str := [111, 117, 116, 108, 105, 110, 101, 45, 108, 101, 118, 101, 108]
def sColsSpanned : Str := [110, 117, 109, 98, 101, 114, 45, 99, 111, 108, 117, 109, 110, 115, 45, 115, 112, 97, 110, 110, 101, 100]
def sRowsSpanned : Str := [110, 117, 109, 98, 101, 114, 45, 114, 111, 119, 115, 45, 115, 112, 97, 110, 110, 101, 100]
def sTableColumn : Str := [116, 97, 98, 108, 101, 45, 99, 111, 108, 117, 109, 110]
def sColsRepeated : Str := [110, 117, 109, 98, 101, 114, 45, 99, 111, 108, 117, 109, 110, 115, 45, 114, 101, 112, 101, 97, 116, 101, 100]
def sStyles : Str := [115, 116, 121, 108, 101, 115]
def sAutoStyles : Str := [97, 117, 116, 111, 109, 97, 116, 105, 99, 45, 115, 116, 121, 108, 101, 115]
def sStyle : Str := [115, 116, 121, 108, 101]
def sName : Str := [110, 97, 109, 101]
def sDefaultOutline : Str := [100, 101, 102, 97, 117, 108, 116, 45, 111, 117, 116, 108, 105, 110, 101, 45, 108, 101, 118, 101, 108]
def sHeading : Str := [104, 101, 97, 100, 105, 110, 103]
def sTitle : Str := [116, 105, 116, 108, 101]
def sSubtitle : Str := [115, 117, 98, 116, 105, 116, 108, 101]

/-! ### decodeInlineContent: mixed content of text:p / text:h in document order -/

/-- `maxSpaceRun` (odt/document.go): the longest run of spaces one `text:s` expands to -/
def maxSpaceRun : Nat := 1024

/-- the number of spaces of `<text:s text:c="…"/>`: `strconv.Atoi` succeeds and the value is
positive: that many, but at most `maxSpaceRun` (`if count > maxSpaceRun { count = maxSpaceRun }`);
anything else (absent, not a number, zero, negative, outside the 64-bit range): one -/
def spaceRun (c : Str) : Nat :=
  match atoi? c with
  | some v => if 0 < v then min v.toNat maxSpaceRun else 1
  | none => 1

mutual
/-- text one child of a paragraph-like element contributes -/
def inlineNode : Node → Str
  | .text s => s
  | .elem tag attrs kids =>
    if localName tag == sSpan || localName tag == sA then inlineList kids
    else if localName tag == sS then List.replicate (spaceRun (attrOf attrs sC)) 32
    else if localName tag == sTab then [9]
    else if localName tag == sLineBreak then [10]
    else []
def inlineList : List Node → Str
  | [] => []
  | n :: rest => inlineNode n ++ inlineList rest
end

/-- text of a `text:p` / `text:h` node (`processParagraph`, `extractParagraphText`,
`parseCellParagraph` all join the ordered pieces) -/
def paraText (p : Node) : Str := inlineList p.kids

/-! ### styles: StyleResolver.Resolve (heading part) -/

structure StyleDef where
  name : Str
  defaultOutline : Str
deriving Repr, Inhabited

def styleDefs (container : Option Node) : List StyleDef :=
  match container with
  | none => []
  | some c => (childrenNamed c.kids sStyle).map fun n => { name := n.attr sName, defaultOutline := n.attr sDefaultOutline }

/-- the style map in insertion order: styles.xml named styles, styles.xml automatic styles,
content.xml automatic styles; a later entry replaces an earlier one of the same name -/
def allStyles (content : Node) (styles : Option Node) : List StyleDef :=
  let fromStyles := match styles with
    | none => []
    | some s => styleDefs (childNamed s.kids sStyles) ++ styleDefs (childNamed s.kids sAutoStyles)
  fromStyles ++ styleDefs (childNamed content.kids sAutoStyles)

def lookup (defs : List StyleDef) (name : Str) : Option StyleDef :=
  defs.reverse.find? (·.name == name)

/-- replace every `_20_` (the escaped space of ODF style names) by a space -/
def unescapeSpace : Str → Str
  | 95 :: 50 :: 48 :: 95 :: rest => 32 :: unescapeSpace rest
  | c :: rest => c :: unescapeSpace rest
  | [] => []

def headingMap : List (Str × Nat) :=
  ((List.range 9).map fun i => (sHeading ++ [95, 49 + i], i + 1)) ++
  ((List.range 9).map fun i => (sHeading ++ [49 + i], i + 1)) ++
  [(sHeading ++ [95, 49, 48], 10), (sHeading ++ [49, 48], 10), (sTitle, 1), (sSubtitle, 2)]

def nameLevel (name : Str) : Nat :=
  if containsSub name [49, 48] then 10 else
  match (List.range 9).find? fun i => containsSub name [49 + i] with
  | some i => i + 1
  | none => 1

/-- `detectBuiltInHeading` (odt/resolver.go) -/
def detectBuiltInHeading (styleName : Str) : Option Nat :=
  let name := unescapeSpace (lower styleName)
  match headingMap.find? fun e => e.1 == name with
  | some e => some e.2
  | none => if isPrefix sHeading name then some (nameLevel name) else none

/-- `strconv.Atoi` result in 1..10 (ODF outline levels) -/
def level19 (s : Str) : Option Nat :=
  match parseNat? s with
  | some v => if 1 ≤ v ∧ v ≤ 10 then some v else none
  | none => none

/-- heading info of `Resolve(styleName)` -/
def resolveHeading (defs : List StyleDef) (styleName : Str) : Option Nat :=
  if styleName = [] then none
  else match lookup defs styleName with
    | none => detectBuiltInHeading styleName
    | some d =>
      match level19 d.defaultOutline with
      | some l => some l
      | none => detectBuiltInHeading styleName

/-! ### elements -/

structure Para where
  text : Str
  heading : Option Nat
  list : Option Nat          -- IsListItem / ListLevel
deriving Repr, Inhabited, BEq, DecidableEq

structure Cell where
  text : Str
  colSpan : Nat
  rowSpan : Nat
  covered : Bool
deriving Repr, Inhabited, BEq, DecidableEq

inductive Elem where
  | para (p : Para)
  | table (rows : List (List Cell))
deriving Repr, Inhabited, BEq, DecidableEq

/-- `processParagraph` -/
def processParagraph (p : Node) : Para := { text := paraText p, heading := none, list := none }

/-- `processHeading` (repaired, d316e04): a valid `text:outline-level` (1..10) of the `text:h`
decides (`hasOutlineLevel`); the level the heading's style resolves to is the fall-back when
the attribute is absent or no level, and 1 when the style carries none either -/
def processHeading (defs : List StyleDef) (h : Node) : Para :=
  let lvl := match level19 (h.attr sOutlineLevel) with
    | some l => l
    | none =>
      match resolveHeading defs (h.attr sStyleName) with
      | some l => if l > 0 then l else 1
      | none => 1
  { text := paraText h, heading := some lvl, list := none }

/-- `processHeading` before d316e04 (history): the outline-level attribute, overridden by a
level the style carries ("if style has heading level, prefer that") -/
def processHeadingOld (defs : List StyleDef) (h : Node) : Para :=
  let own := (level19 (h.attr sOutlineLevel)).getD 1
  let lvl := match resolveHeading defs (h.attr sStyleName) with
    | some l => if l > 0 then l else own
    | none => own
  { text := paraText h, heading := some lvl, list := none }

/-! ### lists: ListParser.ParseList / parseListItem -/
mutual
/-- `parseListItem` on a `text:list-item` node at nesting `level`: the item's paragraphs joined
by a space (if any text), then the items of its sub-lists one level deeper -/
def listItemOf (level : Nat) : Node → List (Str × Nat)
  | .text _ => []
  | .elem _ _ kids =>
    let texts := ((childrenNamed kids sP).map paraText).filter (· ≠ [])
    let own := if joinWith [32] texts ≠ [] then [(joinWith [32] texts, level)] else []
    own ++ subLists level kids
/-- the `text:list` children of an item -/
def subLists (level : Nat) : List Node → List (Str × Nat)
  | [] => []
  | .text _ :: rest => subLists level rest
  | .elem tag a kids :: rest =>
    (if localName tag == sList then listItems (level + 1) kids else []) ++ subLists level rest
/-- the `text:list-item` children of a list -/
def listItems (level : Nat) : List Node → List (Str × Nat)
  | [] => []
  | .text _ :: rest => listItems level rest
  | .elem tag a kids :: rest =>
    (if localName tag == sListItem then listItemOf level (.elem tag a kids) else []) ++ listItems level rest
end

/-! ### tables: ParseTable / parseCell / processRowSpans -/

/-- `number-columns-spanned` / `number-rows-spanned`: accepted in `1..maxCellSpan`, else 1 -/
def spanOf (s : Str) : Nat := boundedSpan s

def parseCell (tc : Node) : Cell :=
  let texts := ((childrenNamed tc.kids sP).map paraText).filter (· ≠ [])
  { text := joinWith [10] texts, colSpan := spanOf (tc.attr sColsSpanned), rowSpan := spanOf (tc.attr sRowsSpanned),
    covered := false }

/-- local names of the grouping elements `tableXML.UnmarshalXML` descends into:
table-header-rows, table-rows, table-row-group, table-columns, table-header-columns,
table-column-group -/
def tableGroups : List Str :=
  [[116, 97, 98, 108, 101, 45, 104, 101, 97, 100, 101, 114, 45, 114, 111, 119, 115],
   [116, 97, 98, 108, 101, 45, 114, 111, 119, 115],
   [116, 97, 98, 108, 101, 45, 114, 111, 119, 45, 103, 114, 111, 117, 112],
   [116, 97, 98, 108, 101, 45, 99, 111, 108, 117, 109, 110, 115],
   [116, 97, 98, 108, 101, 45, 104, 101, 97, 100, 101, 114, 45, 99, 111, 108, 117, 109, 110, 115],
   [116, 97, 98, 108, 101, 45, 99, 111, 108, 117, 109, 110, 45, 103, 114, 111, 117, 112]]

mutual
/-- `tableXML.UnmarshalXML`: the `table:table-column` and `table:table-row` elements a
child of the table contributes, in document order: itself if it is one, those inside it
if it is a grouping element (`depth++`), nothing otherwise (`d.Skip()`) -/
def tableItemsNode : Node → List Node
  | .text _ => []
  | .elem tag attrs kids =>
    if localName tag == sTableColumn || localName tag == sTableRow then [.elem tag attrs kids]
    else if tableGroups.contains (localName tag) then tableItemsList kids
    else []
def tableItemsList : List Node → List Node
  | [] => []
  | n :: rest => tableItemsNode n ++ tableItemsList rest
end

/-- `tableXML.Columns`: the column elements of the table, grouped or not, in document order -/
def tableColumns (tbl : Node) : List Node := (tableItemsList tbl.kids).filter (·.named sTableColumn)

/-- `tableXML.Rows`: the row elements of the table, grouped or not, in document order -/
def tableRows (tbl : Node) : List Node := (tableItemsList tbl.kids).filter (·.named sTableRow)

/-- `parseTableColumns`: one width per column, a `table:table-column` standing for
`number-columns-repeated` columns when that is in `1..maxCellSpan`, for one otherwise; the
result is `len(ParsedTable.ColWidths)`, which sizes the document-model table -/
def columnCount (tbl : Node) : Nat :=
  ((tableColumns tbl).map fun col => boundedSpan (col.attr sColsRepeated)).sum

def parseRows (tbl : Node) : List (List Cell) :=
  (tableRows tbl).map fun tr => (childrenNamed tr.kids sTableCell).map parseCell

def colCount (rows : List (List Cell)) : Nat :=
  rows.foldl (fun m row => max m (row.foldl (fun s c => s + c.colSpan) 0)) 0

def coveredCell : Cell := { text := [], colSpan := 1, rowSpan := 1, covered := true }

/-- the inner `for colIdx < colCount && rowSpansRemaining[colIdx] > 0` loop: emit covered
placeholders; returns (new colIdx, remaining, emitted cells) -/
def skipCovered : Nat → Nat → Nat → List Nat → List Cell → Nat × List Nat × List Cell
  | 0, _, colIdx, rem, out => (colIdx, rem, out)
  | fuel + 1, cc, colIdx, rem, out =>
    if colIdx < cc ∧ rem.getD colIdx 0 > 0 then
      skipCovered fuel cc (colIdx + 1) (rem.set colIdx (rem.getD colIdx 0 - 1)) (out ++ [coveredCell])
    else (colIdx, rem, out)

/-- `for c := 0; c < cell.ColSpan && colIdx+c < colCount; c++ { rem[colIdx+c] = RowSpan-1 }` -/
def markSpan : Nat → Nat → Nat → Nat → List Nat → List Nat
  | 0, _, _, _, rem => rem
  | n + 1, cc, col, v, rem => if col < cc then markSpan n cc (col + 1) v (rem.set col v) else rem

/-- the cells of one row -/
def spanRow (cc : Nat) : List Cell → Nat → List Nat → List Cell → Nat × List Nat × List Cell
  | [], colIdx, rem, out => (colIdx, rem, out)
  | c :: rest, colIdx, rem, out =>
    let (colIdx, rem, out) := skipCovered cc cc colIdx rem out
    if colIdx ≥ cc then (colIdx, rem, out)
    else
      let rem := if c.rowSpan > 1 then markSpan c.colSpan cc colIdx (c.rowSpan - 1) rem else rem
      spanRow cc rest (colIdx + c.colSpan) rem (out ++ [c])

/-- `processRowSpans` -/
def spanRows (cc : Nat) : List (List Cell) → List Nat → List (List Cell)
  | [], _ => []
  | row :: rest, rem =>
    let (colIdx, rem, out) := spanRow cc row 0 rem []
    let (_, rem, out) := skipCovered cc cc colIdx rem out
    out :: spanRows cc rest rem

def processRowSpans (rows : List (List Cell)) : List (List Cell) :=
  spanRows (colCount rows) rows (List.replicate (colCount rows) 0)

/-- `maxTableGridCells` (odt/tables.go): the largest grid, rows x spanned columns, on which
spans are honoured -/
def maxTableGridCells : Nat := 1048576

/-- `spans` of `limitTableGrid`: some cell spans more than one column or row -/
def hasSpans (rows : List (List Cell)) : Bool :=
  rows.any fun row => row.any fun c => decide (c.colSpan > 1) || decide (c.rowSpan > 1)

/-- `limitTableGrid`: a table that has spans, a width `cols > 0` and more than
`maxTableGridCells / cols` rows (integer division: rows x cols > 2^20) has every column and row
span set to 1; any other table is left as it is. Runs before `processRowSpans`. -/
def limitTableGrid (rows : List (List Cell)) : List (List Cell) :=
  if !hasSpans rows || colCount rows == 0 || decide (rows.length ≤ maxTableGridCells / colCount rows) then rows
  else rows.map fun row => row.map fun c => { c with colSpan := 1, rowSpan := 1 }

/-- `ParseTable`: the rows as authored, `limitTableGrid`, then `processRowSpans` -/
def parseTable (tbl : Node) : List (List Cell) := processRowSpans (limitTableGrid (parseRows tbl))

/-! ### where the decoders of a body element descend, and where they give up

`parseBodyElements` hands every `text:p`, `text:h`, `text:list` and `table:table` of the body
to `decoder.DecodeElement`. What is decoded below such an element: the inline content of a
paragraph or heading by `decodeInlineContentAt` (descends into `text:span` / `text:a`, one
level of recursion each, refused beyond `maxInlineDepth`), a list by encoding/xml
(`listXML` / `listItemXML`: items, their `text:p` and nested `text:list`), a table by
`tableXML.UnmarshalXML` (rows, grouping elements, cells, their `text:p`). Every other child
is skipped unread. When the depth check fails the error (`errInlineTooDeep`) travels up through
all of them and `DecodeElement` fails; `parseBodyElements` returns it and `odt.Open` fails.
`residualNode` / `residualList` say WHETHER that happens (`some`); what they carry - the nodes
that stand behind the refused start tag inside the paragraph the decoder gave up in - mattered
to the code before the repair only (`walkNodeOld`). -/

/-- `maxInlineDepth` (odt/document.go) -/
def maxInlineDepth : Nat := 10000

/-- which decoder reads the children of the current element -/
inductive Ctx where
  | inline (depth : Nat)   -- decodeInlineContentAt(d, style, depth): text:p / text:h / text:span / text:a
  | list                   -- listXML: children of text:list
  | item                   -- listItemXML: children of text:list-item
  | table                  -- tableXML.UnmarshalXML: children of table:table and of its grouping elements
  | row                    -- tableRowXML: children of table:table-row
  | cell                   -- tableCellXML: children of table:table-cell
deriving Repr, DecidableEq

/-- the decoder reads the inline content of a paragraph or heading -/
def Ctx.isInline : Ctx → Bool
  | .inline _ => true
  | _ => false

/-- what a decoder does with a child element -/
inductive Step where
  | skip                   -- not read (`d.Skip()`, no struct field) or read without descending
  | fail                   -- `decodeInlineContentAt` is entered with a depth beyond `maxInlineDepth`
  | into (c : Ctx)         -- its children are read by `c`
deriving Repr, DecidableEq

/-- the decoder `ctx` meets a child element with local name `loc`. `decodeInlineContentAt`
calls itself with `depth+1` for `span` / `a`, and the callee's first statement is
`if depth > maxInlineDepth { return nil, error }`. -/
def descend : Ctx → Str → Step
  | .inline d, loc =>
    if loc == sSpan || loc == sA then (if d + 1 > maxInlineDepth then .fail else .into (.inline (d + 1))) else .skip
  | .list, loc => if loc == sListItem then .into .item else .skip
  | .item, loc => if loc == sP then .into (.inline 0) else if loc == sList then .into .list else .skip
  | .table, loc =>
    if loc == sTableRow then .into .row else if tableGroups.contains loc then .into .table else .skip
  | .row, loc => if loc == sTableCell then .into .cell else .skip
  | .cell, loc => if loc == sP then .into (.inline 0) else .skip

mutual
/-- decoding a child with `ctx`: `none` when it is read to its end; when the depth check
fails below it, the nodes that are still read afterwards, in document order: what comes after
the refused start tag inside the paragraph the decoder gave up in (the children of the refused
element, then what follows it at every level up to the end of that paragraph - not what
follows the paragraph in its list item, cell or table) -/
def residualNode (ctx : Ctx) : Node → Option (List Node)
  | .text _ => none
  | .elem tag _ kids =>
    match descend ctx (localName tag) with
    | .skip => none
    | .fail => some kids
    | .into c => residualList c kids
def residualList (ctx : Ctx) : List Node → Option (List Node)
  | [] => none
  | n :: rest =>
    match residualNode ctx n with
    | some r => some (if ctx.isInline then r ++ rest else r)
    | none => residualList ctx rest
end

/-- `DecodeElement` succeeds on a `text:p` / `text:h` -/
def paraDecodes (p : Node) : Bool := (residualList (.inline 0) p.kids).isNone

/-- `DecodeElement` succeeds on a body element whose children the decoder `ctx` reads: the
depth check fails nowhere below it -/
def decodes (ctx : Ctx) (kids : List Node) : Bool := (residualList ctx kids).isNone

/-! ### parseBodyElements: the streaming walk

`parseBodyElements` hands every `text:p`, `text:h`, `text:list`, `table:table` of the body to
`decoder.DecodeElement`. When the depth check of `decodeInlineContentAt` fails below such an
element (`residualList` answers `some`), `DecodeElement` returns `errInlineTooDeep`,
`parseBodyElements` returns it (`if errors.Is(err, errInlineTooDeep) { return err }`), and
`odt.Open` fails with "parsing content: inline content nested deeper than 10000 levels" - as
`docx.Open` does. (Any other `DecodeElement` error still leaves the element out with `continue`;
on the well-formed trees the model starts from there is none.) Before that repair the error was
swallowed: `walkNodeOld` below. -/

/-- state of the loop of `parseBodyElements`: `inBody`, the elements recorded, and `failed` =
the loop has returned the depth error (`Open` fails) -/
structure Walk where
  inBody : Bool
  failed : Bool := false
  acc : List Elem
deriving Repr, Inhabited

def listElems (list : Node) : List Elem :=
  (listItems 0 list.kids).map fun it => .para { text := it.1, heading := none, list := some it.2 }

mutual
/-- one subtree of the token stream: `office:text` switches the body on (start) and off
(end); inside the body `p`, `h`, `list`, `table` are decoded whole (`DecodeElement` consumes
the subtree) and recorded - unless the decoder gives up inside (`decodes` is false): then
`parseBodyElements` returns the error and nothing more is read (`failed`); any other element is
walked through. -/
def walkNode (defs : List StyleDef) : Node → Walk → Walk
  | .text _, w => w
  | .elem tag attrs kids, w =>
    if w.failed then w
    else if tag == sOfficeText then
      { walkList defs kids { w with inBody := true } with inBody := false }
    else if !w.inBody then walkList defs kids w
    else if localName tag == sP then
      (if decodes (.inline 0) kids then { w with acc := w.acc ++ [.para (processParagraph (.elem tag attrs kids))] }
       else { w with failed := true })
    else if localName tag == sH then
      (if decodes (.inline 0) kids then { w with acc := w.acc ++ [.para (processHeading defs (.elem tag attrs kids))] }
       else { w with failed := true })
    else if localName tag == sList then
      (if decodes .list kids then { w with acc := w.acc ++ listElems (.elem tag attrs kids) }
       else { w with failed := true })
    else if localName tag == sTable then
      (if decodes .table kids then { w with acc := w.acc ++ [.table (parseTable (.elem tag attrs kids))] }
       else { w with failed := true })
    else walkList defs kids w
def walkList (defs : List StyleDef) : List Node → Walk → Walk
  | [], w => w
  | n :: rest, w => walkList defs rest (walkNode defs n w)
end

/-- the walk of `parseBodyElements` over content.xml -/
def bodyWalk (content : Node) (styles : Option Node) : Walk :=
  walkNode (allStyles content styles) content { inBody := false, acc := [] }

/-- the element list the walk records for content.xml and an optional styles.xml (what the
reader holds when `Open` succeeds) -/
def elements (content : Node) (styles : Option Node) : List Elem := (bodyWalk content styles).acc

/-- `odt.Open` as far as the element list goes: `parseContent` returns the depth error and
`Open` fails - `none`; otherwise the reader holds `elements`. -/
def openElements (content : Node) (styles : Option Node) : Option (List Elem) :=
  if (bodyWalk content styles).failed then none else some (elements content styles)

/-! ### the walk before the repair (kept for the record: `Props/C16Bounds.lean`, `…_pinned_counterexample`)

Until the repair `parseBodyElements` said `continue` on EVERY `DecodeElement` error - the element
was dropped - and went on reading tokens FROM WHERE THE DECODER STOOD: right behind the start tag
that was refused. It did so up to the end tag of the PARAGRAPH the decoder gave up in, no
further: encoding/xml marks the decoder's stack below every element it hands to an
`UnmarshalXML` method (`pushEOF`; `paragraphXML` and `headingXML` have one), takes the mark off
only when the method succeeds, and `Token` answers `io.EOF` as soon as a mark is on top - which
ended the loop of `parseBodyElements`. Everything behind that paragraph (the rest of its list or
table, the rest of the body) was never read, and `odt.Open` reported NO error. -/

/-- state of the old loop: `done` = `decoder.Token()` has answered `io.EOF` and the loop has
ended (`break`) -/
structure WalkOld where
  inBody : Bool
  done : Bool := false
  acc : List Elem
deriving Repr, Inhabited

mutual
/-- the old `parseBodyElements` on one subtree: when the decoder gives up inside a body element
(`scanListOld` answers `some`) nothing is recorded for the element, the walk goes on behind the
refused start tag to the end of the paragraph the decoder gave up in, and there the loop ends
(`done`) -/
def walkNodeOld (defs : List StyleDef) : Node → WalkOld → WalkOld
  | .text _, w => w
  | .elem tag attrs kids, w =>
    if w.done then w
    else if tag == sOfficeText then
      { walkListOld defs kids { w with inBody := true } with inBody := false }
    else if !w.inBody then walkListOld defs kids w
    else if localName tag == sP then
      (match scanListOld defs (.inline 0) kids w with
       | some w' => { w' with done := true }
       | none => { w with acc := w.acc ++ [.para (processParagraph (.elem tag attrs kids))] })
    else if localName tag == sH then
      (match scanListOld defs (.inline 0) kids w with
       | some w' => { w' with done := true }
       | none => { w with acc := w.acc ++ [.para (processHeading defs (.elem tag attrs kids))] })
    else if localName tag == sList then
      (match scanListOld defs .list kids w with
       | some w' => { w' with done := true }
       | none => { w with acc := w.acc ++ listElems (.elem tag attrs kids) })
    else if localName tag == sTable then
      (match scanListOld defs .table kids w with
       | some w' => { w' with done := true }
       | none => { w with acc := w.acc ++ [.table (parseTable (.elem tag attrs kids))] })
    else walkListOld defs kids w
def walkListOld (defs : List StyleDef) : List Node → WalkOld → WalkOld
  | [], w => w
  | n :: rest, w => walkListOld defs rest (walkNodeOld defs n w)
/-- the decoder `ctx` reads a child while the old `parseBodyElements` waits in `DecodeElement`:
`none` = read to its end, nothing happens to the walk; `some w'` = the depth check failed below
the child, `DecodeElement` returned the error, and the walk has gone on, as the ordinary body
walk, over the rest of the paragraph it happened in (`w'` is the walk when `Token` says `io.EOF`) -/
def scanNodeOld (defs : List StyleDef) (ctx : Ctx) : Node → WalkOld → Option WalkOld
  | .text _, _ => none
  | .elem tag _ kids, w =>
    match descend ctx (localName tag) with
    | .skip => none
    | .fail => some (walkListOld defs kids w)
    | .into c => scanListOld defs c kids w
def scanListOld (defs : List StyleDef) (ctx : Ctx) : List Node → WalkOld → Option WalkOld
  | [], _ => none
  | n :: rest, w =>
    match scanNodeOld defs ctx n w with
    | some w' => some (if ctx.isInline then walkListOld defs rest w' else w')
    | none => scanListOld defs ctx rest w
end

/-- what the reader held before the repair - for every content.xml, with no error -/
def elementsOld (content : Node) (styles : Option Node) : List Elem :=
  (walkNodeOld (allStyles content styles) content { inBody := false, acc := [] }).acc

end Tabula.Odt
