/-
Model of `model.Matrix` (model/geometry.go): the PDF affine matrix `[a b c d e f]`
in the row-vector convention, over an arbitrary commutative ring `α`
(`Lean.Grind.CommRing`, core Lean; instantiated at `Rat` by the driver and at
`Int` in examples).  Core Lean only.
-/
namespace Tabula

/-- `model.Matrix` = `[6]float64{a,b,c,d,e,f}`; the 3×3 matrix
```
a b 0
c d 0
e f 1
```
acting on row vectors `[x y 1]`. -/
structure Matrix (α : Type) where
  a : α
  b : α
  c : α
  d : α
  e : α
  f : α
deriving DecidableEq, Repr

namespace Matrix
variable {α : Type} [Lean.Grind.CommRing α]

/-- `model.Identity()` -/
def identity : Matrix α := ⟨1, 0, 0, 1, 0, 0⟩

/-- `model.Translate(tx, ty)` -/
def translate (tx ty : α) : Matrix α := ⟨1, 0, 0, 1, tx, ty⟩

/-- `model.Matrix.Multiply`: `m.Multiply(o)` is the product `m × o` (apply `m` first). -/
def mul (m o : Matrix α) : Matrix α :=
  ⟨m.a * o.a + m.b * o.c,
   m.a * o.b + m.b * o.d,
   m.c * o.a + m.d * o.c,
   m.c * o.b + m.d * o.d,
   m.e * o.a + m.f * o.c + o.e,
   m.e * o.b + m.f * o.d + o.f⟩

/-- `model.Matrix.Transform`: the row vector `[x y 1] × m`. -/
def transformPoint (m : Matrix α) (p : α × α) : α × α :=
  (m.a * p.1 + m.c * p.2 + m.e, m.b * p.1 + m.d * p.2 + m.f)

/-- determinant of the linear part -/
def det (m : Matrix α) : α := m.a * m.d - m.b * m.c

/-- squared length of the image of the text-space unit vector (1,0) -/
def hScale2 (m : Matrix α) : α := m.a * m.a + m.b * m.b

/-- squared length of the image of the unit vector (0,1) -/
def vScale2 (m : Matrix α) : α := m.c * m.c + m.d * m.d

end Matrix
end Tabula
