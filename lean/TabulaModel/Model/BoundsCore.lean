/-
Bounded-work models of the guards that the C02 repairs put into tabula's PDF core
(each function names the Go function it mirrors; constants are the Go constants):
  core/lexer.go     (*Lexer).ReadBytes                   (2380535)
  reader/reader.go  (*Reader).GetObject  loading guard   (2076bf7, 129dd3d)
  pages/pages.go    (*PageTree).Count / loadPages / traversePageNode
                                                         (121f90e, bb86423, 86b42aa, cd93b07)
  core/objstm.go    NewObjectStream / parseHeader / GetObjectByIndex (78b7a87)
  reader/reader.go  (*Reader).ResolveDeep                (4d61f20)
  resolver/resolver.go (*ObjectResolver).ResolveDeep     (8b68946)
Core Lean only.
-/
namespace Tabula.BoundsCore

/-! ### 1. `Lexer.ReadBytes`: the count comes from `/Length`, the buffer grows with the data -/

inductive ReadRes
  | bad                 -- negative count: error before anything is read
  | eof (got : Nat)     -- the input ended first: `got` bytes kept, error "unexpected EOF"
  | ok (got : Nat)
  deriving Repr, DecidableEq

/-- `ReadBytes(n)` on an input that still has `avail` bytes: `io.CopyN` into a growing
buffer copies `min n avail` bytes; nothing is sized from `n`. -/
def readBytes (n : Int) (avail : Nat) : ReadRes :=
  if n < 0 then .bad
  else if avail < n.toNat then .eof avail
  else .ok n.toNat

/-- bytes held by the buffer when `ReadBytes` returns -/
def ReadRes.held : ReadRes → Nat
  | .bad => 0
  | .eof got => got
  | .ok got => got

/-! ### 2. `Reader.GetObject`: objects being loaded inside each other -/

/-- what an object of the file is, as far as loading it is concerned: a stream whose
`/Length` is an indirect reference makes `GetObject` re-enter itself for that reference -/
inductive LObj
  | int                       -- an integer (a legal target of an indirect /Length)
  | other                     -- any other non-stream object
  | stream                    -- a stream with a direct /Length
  | streamRef (m : Nat)       -- a stream whose /Length is `m 0 R`
  deriving Repr, DecidableEq

inductive LKind | int | other | stream
  deriving Repr, DecidableEq

inductive LErr
  | notFound      -- not in the cross-reference table
  | selfRef       -- "refers to itself while being loaded"
  | tooDeep       -- "more than 16 objects being loaded inside each other"
  | lengthType    -- "stream length reference resolved to %T, expected Int"
  | fuel          -- model artefact: shown impossible
  deriving Repr, DecidableEq

abbrev LGraph := List (Nat × LObj)

def lookupL {β : Type} (l : List (Nat × β)) (n : Nat) : Option β :=
  match l.find? (·.1 = n) with
  | some (_, v) => some v
  | none => none

def maxNestedLoads : Nat := 16

structure LOut where
  res : Except LErr LKind
  cache : List (Nat × LKind × Nat)   -- `r.objCache` with `r.objNeed`: the nested loads a hit stands for
  peak : Nat                  -- largest number of objects in `r.loading` at any moment
  reach : Nat                 -- `r.reach`: as `peak`, a cache hit counted as the loads it stands for
  deriving Repr

/-- `GetObject(n)` with `r.objCache`/`r.objNeed = cache` and `r.loading = loading` (same order of
checks as the Go code: cache - a hit is refused by `nestCached` when the objects being loaded
plus the loads the hit stands for exceed the limit (8b2d749) -, xref table, self reference,
nesting limit, load, cache the result with `need = reach - len(loading) + 1`) -/
def getObject (g : LGraph) : Nat → List (Nat × LKind × Nat) → List Nat → Nat → LOut
  | 0, cache, loading, _ => ⟨.error .fuel, cache, loading.length, loading.length⟩
  | fuel + 1, cache, loading, n =>
    match lookupL cache n with
    | some (k, need) =>
      if loading.length + need > maxNestedLoads then ⟨.error .tooDeep, cache, loading.length, loading.length⟩
      else ⟨.ok k, cache, loading.length, loading.length + need⟩
    | none =>
      match lookupL g n with
      | none => ⟨.error .notFound, cache, loading.length, loading.length⟩
      | some o =>
        if loading.contains n then ⟨.error .selfRef, cache, loading.length, loading.length⟩
        else if loading.length ≥ maxNestedLoads then ⟨.error .tooDeep, cache, loading.length, loading.length⟩
        else match o with
          | .int => ⟨.ok .int, (n, .int, 1) :: cache, loading.length + 1, loading.length + 1⟩
          | .other => ⟨.ok .other, (n, .other, 1) :: cache, loading.length + 1, loading.length + 1⟩
          | .stream => ⟨.ok .stream, (n, .stream, 1) :: cache, loading.length + 1, loading.length + 1⟩
          | .streamRef m =>
            let r := getObject g fuel cache (n :: loading) m
            let reach := max (loading.length + 1) r.reach
            match r.res with
            | .ok .int => ⟨.ok .stream, (n, .stream, reach - loading.length) :: r.cache, r.peak, reach⟩
            | .ok _ => ⟨.error .lengthType, r.cache, r.peak, reach⟩
            | .error e => ⟨.error e, r.cache, r.peak, reach⟩

/-- a top-level `GetObject` call -/
def getObjectTop (g : LGraph) (cache : List (Nat × LKind × Nat)) (n : Nat) : LOut :=
  getObject g (maxNestedLoads + 1) cache [] n

/-- a history of top-level calls on one reader (the cache persists) -/
def getObjectHist (g : LGraph) : List (Nat × LKind × Nat) → List Nat → List LOut
  | _, [] => []
  | cache, n :: rest =>
    let r := getObjectTop g cache n
    r :: getObjectHist g r.cache rest

/-! ### 3. the page tree: visited set, depth limit, indirect `/Kids` arrays, inline nodes -/

/-- a value of the page-tree universe -/
inductive PV where
  | ref (n : Nat)            -- an indirect reference (as an entry of /Kids, or as /Kids itself)
  | page                     -- a dictionary with /Type /Page
  | pages (kids : PV)        -- a dictionary with /Type /Pages and this /Kids value
  | arr (items : List PV)    -- an array
  | other                    -- anything else (no /Type, wrong type, /Kids missing, a number …)
  deriving Repr

mutual
def PV.size : PV → Nat
  | .ref _ => 1
  | .page => 1
  | .other => 1
  | .pages k => 1 + k.size
  | .arr items => 1 + PV.sizeList items
def PV.sizeList : List PV → Nat
  | [] => 0
  | v :: rest => v.size + PV.sizeList rest
end

abbrev PGraph := List (Nat × PV)

def maxPageTreeDepth : Nat := 10000

/-- the walk: a stack of (depth, kid entry) still to be traversed, the visited set, the
number of `/Page` leaves appended so far, and the deepest `t.depth` seen -/
structure PState where
  stack : List (Nat × PV)
  visited : List Nat
  pages : Nat
  peak : Nat
  deriving Repr

inductive POutcome
  | running (s : PState)
  | done (pages : Nat) (peak : Nat)
  | error
  deriving Repr

/-- `traversePageNode(node)` entered with `t.depth = d` (after the kid entry has been
resolved to the dictionary `node`): depth check, then by `/Type` -/
def traverseNode (g : PGraph) (lim : Nat) (d : Nat) (node : PV) (rest : List (Nat × PV))
    (visited : List Nat) (pages peak : Nat) : POutcome :=
  if d ≥ lim then .error
  else
    let peak' := max peak (d + 1)
    match node with
    | .page => .running ⟨rest, visited, pages + 1, peak'⟩
    | .pages (.arr items) =>
      .running ⟨items.map (fun v => (d + 1, v)) ++ rest, visited, pages, peak'⟩
    | .pages (.ref a) =>
      -- an indirect /Kids array belongs to one node
      if visited.contains a then .error
      else match lookupL g a with
        | some (.arr items) =>
          .running ⟨items.map (fun v => (d + 1, v)) ++ rest, a :: visited, pages, peak'⟩
        | _ => .error
    | _ => .error

/-- one kid entry of the `for i, kidObj := range kids` loop -/
def pstep (g : PGraph) (lim : Nat) (s : PState) : POutcome :=
  match s.stack with
  | [] => .done s.pages s.peak
  | (d, .ref n) :: rest =>
    if s.visited.contains n then .error
    else match lookupL g n with
      | some (.page) => traverseNode g lim d .page rest (n :: s.visited) s.pages s.peak
      | some (.pages k) => traverseNode g lim d (.pages k) rest (n :: s.visited) s.pages s.peak
      | _ => .error            -- missing object, or not a dictionary: "invalid kid type"
  | (d, .page) :: rest => traverseNode g lim d .page rest s.visited s.pages s.peak
  | (d, .pages k) :: rest => traverseNode g lim d (.pages k) rest s.visited s.pages s.peak
  | (_, _) :: _ => .error

inductive PResult
  | ok (pages : Nat) (peak : Nat)
  | error
  | fuel
  deriving Repr, DecidableEq

def prun (g : PGraph) (lim : Nat) : Nat → PState → PResult
  | 0, _ => .fuel
  | fuel + 1, s =>
    match pstep g lim s with
    | .done p k => .ok p k
    | .error => .error
    | .running s' => prun g lim fuel s'

/-- the weight of the objects not yet visited: what the walk may still have to expand -/
def pweight (g : PGraph) (visited : List Nat) : Nat :=
  match g with
  | [] => 0
  | (k, v) :: rest => (if visited.contains k then 0 else 1 + v.size) + pweight rest visited

def stackSize : List (Nat × PV) → Nat
  | [] => 0
  | (_, v) :: rest => v.size + stackSize rest

/-- the explicit step bound: (size of the root node) + Σ over objects (1 + size) + 1 -/
def pfuel (g : PGraph) (root : PV) : Nat := root.size + pweight g [] + 2

/-- `loadPages`: the root dictionary (not itself in the visited set) is traversed at depth 0 -/
def loadPagesWith (g : PGraph) (lim : Nat) (root : PV) : PResult :=
  match traverseNode g lim 0 root [] [] 0 0 with
  | .done p k => .ok p k
  | .error => .error
  | .running s => prun g lim (pfuel g root) s

/-- `PageTree.Count()`: `/Count` must be present and an integer (`declared = some c`), but
its VALUE is not used: the count is the number of leaves -/
def pageCount (g : PGraph) (root : PV) (declared : Option Int) : Option Nat :=
  match declared with
  | none => none
  | some _ =>
    match loadPagesWith g maxPageTreeDepth root with
    | .ok p _ => some p
    | _ => none

/-! ### 4. object streams: `/N`, `/First` and the header pairs -/

/-- capacity reserved for the offset table: never more than the header can hold -/
def objstmCapacity (n headerLen : Nat) : Nat :=
  if n > headerLen / 4 + 1 then headerLen / 4 + 1 else n

/-- the `for i := 0; i < os.n; i++` loop of `parseHeader` over the objects the parser finds in
the header (`none` = an object that is not an integer, or no object at all past the end):
object number, then offset, which must lie in `0..decodedLen` -/
def parsePairs : Nat → Nat → List (Option Int) → Option (List (Int × Nat))
  | 0, _, _ => some []
  | n + 1, len, some a :: some off :: rest =>
    if off < 0 ∨ off > (len : Int) then none
    else (parsePairs n len rest).map ((a, off.toNat) :: ·)
  | _ + 1, _, _ => none

structure ObjStm where
  first : Nat
  decodedLen : Nat
  pairs : List (Int × Nat)
  deriving Repr

/-- `NewObjectStream` + `decode`/`parseHeader`: `/N` and `/First` negative are refused, `/First`
beyond the data is refused -/
def objstmOpen (n first : Int) (decodedLen : Nat) (toks : List (Option Int)) : Option ObjStm :=
  if n < 0 ∨ first < 0 then none
  else if first.toNat > decodedLen then none
  else match parsePairs n.toNat decodedLen toks with
    | none => none
    | some ps => some ⟨first.toNat, decodedLen, ps⟩

/-- `GetObjectByIndex`: the slice `decoded[offset:endOffset]` that is parsed, and the object number -/
def objstmSlice (s : ObjStm) (index : Int) : Option (Int × Nat × Nat) :=
  if index < 0 ∨ index ≥ (s.pairs.length : Int) then none
  else
    let i := index.toNat
    match s.pairs[i]? with
    | none => none
    | some (num, off) =>
      let offset := s.first + off
      let endOffset := match s.pairs[i + 1]? with
        | some (_, off') => s.first + off'
        | none => s.decodedLen
      if offset ≥ s.decodedLen then none
      else
        let endOffset := if endOffset > s.decodedLen ∨ endOffset < offset then s.decodedLen else endOffset
        some (num, offset, endOffset)

/-! ### 5. `ResolveDeep`: memoised traversal of the object graph -/

/-- a PDF value as far as `ResolveDeep` is concerned (dictionaries are arrays of their values;
a stream is its dictionary) -/
inductive RV where
  | ref (n : Nat)
  | leaf (tag : Nat)
  | arr (items : List RV)
  deriving Repr

mutual
def RV.size : RV → Nat
  | .ref _ => 1
  | .leaf _ => 1
  | .arr items => 1 + RV.sizeList items
def RV.sizeList : List RV → Nat
  | [] => 0
  | v :: rest => v.size + RV.sizeList rest
end

abbrev RGraph := List (Nat × RV)

inductive RErr
  | missing      -- ResolveReference failed
  | tooDeep      -- nesting limit
  | circular     -- resolver.ObjectResolver only
  | fuel         -- model artefact: shown impossible
  deriving Repr, DecidableEq

/-- what the two implementations do differently -/
structure RMode where
  lim : Nat              -- recursion is refused when depth ≥ lim
  leaveActive : Bool     -- true: a reference to an object being resolved is left (Reader);
                         -- false: it is a "circular reference" error (resolver)
  needAware : Bool := false  -- true: a shared result is refused where resolving the reference
                         -- again would pass the limit (resolver since 48aa74b)
  deriving Repr

/-- `reader.(*Reader).ResolveDeep`: `depth > 2000` is the error -/
def readerMode : RMode := ⟨2001, true, false⟩
/-- `resolver.(*ObjectResolver).ResolveDeep` with `maxDepth = m`: `currentDepth >= m` is the error -/
def resolverMode (m : Nat) : RMode := ⟨m, false, true⟩

/-- the memo table and the log of `ResolveReference` calls (newest first), and the number of
activations of `resolveDeep` -/
structure RSt where
  done : List (Nat × RV × Nat)   -- result and `need`: the levels below the reference its resolution took
  fetched : List Nat
  calls : Nat
  reach : Nat := 0               -- `r.reach`: deepest level seen since the innermost reference was entered
  deriving Repr

/-- run `f` over the items left to right, threading the state, stopping at the first error -/
def seqList (f : RV → RSt → Except RErr RV × RSt) : List RV → RSt → Except RErr (List RV) × RSt
  | [], st => (.ok [], st)
  | v :: rest, st =>
    match f v st with
    | (.error e, st') => (.error e, st')
    | (.ok v', st') =>
      match seqList f rest st' with
      | (.error e, st'') => (.error e, st'')
      | (.ok vs, st'') => (.ok (v' :: vs), st'')

/-- `resolveDeep(obj, done, active, depth)` -/
def resolveDeep (g : RGraph) (m : RMode) : Nat → List Nat → Nat → RV → RSt → Except RErr RV × RSt
  | 0, _, _, _, st => (.error .fuel, st)
  | fuel + 1, active, depth, v, st =>
    let st := { st with calls := st.calls + 1, reach := max st.reach depth }
    if depth ≥ m.lim then (.error .tooDeep, st)
    else match v with
      | .leaf t => (.ok (.leaf t), st)
      | .arr items =>
        (match seqList (resolveDeep g m fuel active (depth + 1)) items st with
         | (.error e, st') => (.error e, st')
         | (.ok vs, st') => (.ok (.arr vs), st'))
      | .ref n =>
        match lookupL st.done n with
        | some (res, need) =>
          if m.needAware && decide (depth + need ≥ m.lim) then (.error .tooDeep, st)
          else (.ok res, { st with reach := max st.reach (depth + need) })
        | none =>
          if active.contains n then
            (if m.leaveActive then (.ok (.ref n), st) else (.error .circular, st))
          else
            let st := { st with fetched := n :: st.fetched }
            match lookupL g n with
            | none => (.error .missing, st)
            | some target =>
              match resolveDeep g m fuel (n :: active) (depth + 1) target { st with reach := depth } with
              | (.error e, st') => (.error e, st')
              | (.ok res, st') =>
                (.ok res, { st' with done := (n, res, st'.reach - depth) :: st'.done, reach := max st'.reach st.reach })

/-- a top-level call: fresh memo table, depth 0 -/
def resolveDeepTop (g : RGraph) (m : RMode) (v : RV) : Except RErr RV × RSt :=
  resolveDeep g m (m.lim + 1) [] 0 v ⟨[], [], 0, 0⟩

/-- the keys of the graph, each once -/
def RGraph.keys (g : RGraph) : List Nat := (g.map Prod.fst).eraseDups

end Tabula.BoundsCore
