/-!
# The reader's caches on a chain of nested loads (reader/reader.go `GetObject`, `objCache`,
`objStmCache`, `loading`, `maxNestedLoads`, `objNeed`, `stmNeed`, `reach`, `nestCached`)

`Model/XrefFile.lean: getObjectB` is `GetObject` without the caches. `GetObject` refuses a load
when 16 objects are already being loaded inside each other. Since the repair of
C04/nested-limit-answer-depends-on-earlier-lookups a cache hit is counted as the load it stands
for: with each cached object (`objNeed`) and each cached object stream (`stmNeed`) the reader
remembers how many objects were being loaded inside each other while it was loaded, and
`nestCached` refuses the hit when `len(r.loading)` + that need exceeds the limit. `reach` is the
high-water mark of `len(r.loading)` that measures the need. This file models exactly that, on
the family of files the harness writes for it:

* integers `A 1 … A d`; for `i < d`, `A i` is member 0 of the object stream `S i`, and the
  `/Length` of `S i` is the reference `A (i+1)`; `A d` is a plain object;
* integers `B 1 … B (d-1)`: `B i` is member 1 of `S i` (looking it up opens `S i` - it goes
  into `objStmCache` - without putting `A i` into `objCache`);
* optionally a plain stream `T` whose `/Length` is the reference `A 1`.

Loading `A i` (or `B i`) therefore loads `A (i+1)` inside it, and so on to `A d`: `d - i + 1`
nested loads. (ISO 32000-1 7.5.7 forbids holding the `/Length` of an object stream in an
object stream: a conforming file has `d ≤ 2`.)

`namespace Old` keeps the cache rule of 129dd3d as it stood before the repair (`objCache` and
`objStmCache` consulted without counting), for the pinned counterexample. Core Lean only.
-/
namespace Tabula.XrefNest

/-- `maxNestedLoads` of reader/reader.go -/
def maxNestedLoads : Nat := 16

/-- `objCache` with `objNeed` (the `A i`, the `B i`, the `S i` looked up as objects, `T`: number
and need), `objStmCache` with `stmNeed` (the `S i` opened as object streams), and `reach` -/
structure Caches where
  objA : List (Nat × Nat) := []
  objB : List (Nat × Nat) := []
  objS : List (Nat × Nat) := []
  objT : Option Nat := none
  stm : List (Nat × Nat) := []
  reach : Nat := 0
  deriving Repr, DecidableEq

/-- `nestCached(need)` with `L` objects being loaded: the hit is refused where the load it
stands for would be; otherwise `reach` is raised as that load would have raised it -/
def nestCached (need L : Nat) (st : Caches) : Bool × Caches :=
  if maxNestedLoads < L + need then (false, st)
  else (true, { st with reach := max st.reach (L + need) })

/-- `objCache[n]`/`objNeed[n]` of a member: `b = false` the `A i`, `b = true` the `B i` -/
def Caches.member (st : Caches) (b : Bool) : List (Nat × Nat) := if b then st.objB else st.objA

/-- `r.objCache[objNum] = obj; r.objNeed[objNum] = need` -/
def Caches.cacheMember (st : Caches) (b : Bool) (i need : Nat) : Caches :=
  if b then { st with objB := (i, need) :: st.objB } else { st with objA := (i, need) :: st.objA }

/-- is `A i` (`b = false`) / `B i` (`b = true`) an object of the file -/
def memberExists (d : Nat) (b : Bool) (i : Nat) : Bool :=
  if b then decide (1 ≤ i ∧ i < d) else decide (1 ≤ i ∧ i ≤ d)

/-- the deferred `if r.reach < outer { r.reach = outer }` -/
def restoreReach (outer : Nat) (st : Caches) : Caches := { st with reach := max st.reach outer }

/-- `getObjectStream(S i)` with `L` objects being loaded (the member included); `nested` is the
`GetObject(A (i+1))` by which `getUncompressedObject` → `parseStream` resolves the `/Length` -/
def openStm (i L : Nat) (st : Caches) (nested : Caches → Bool × Caches) : Bool × Caches :=
  match st.stm.lookup i with
  | some need => nestCached need L st                           -- objStmCache: counted as its load
  | none =>
    -- outer := r.reach; r.reach = len(r.loading); getUncompressedObject
    let r := nested { st with reach := L }
    let need := r.2.reach - L
    let st3 := restoreReach st.reach r.2
    if r.1 then (true, { st3 with stm := (i, need) :: st3.stm }) else (false, st3)

/-- `GetObject(A i)` / `GetObject(B i)` with `L` objects already being loaded: found or error,
and the reader's state afterwards. `fuel` makes the recursion structural (`d + 1` is enough). -/
def getM (d : Nat) : Nat → Bool → Nat → Nat → Caches → Bool × Caches
  | 0, _, _, _, st => (false, st)
  | fuel + 1, b, i, L, st =>
    match (st.member b).lookup i with
    | some need => nestCached need L st                         -- objCache: counted as its load
    | none =>
      if !memberExists d b i then (false, st)                   -- no entry in the table
      else if maxNestedLoads ≤ L then (false, st)               -- len(r.loading) >= maxNestedLoads
      else
        -- r.loading[objNum] = true; outer := r.reach; r.reach = len(r.loading)
        let st1 : Caches := { st with reach := L + 1 }
        let r : Bool × Caches :=
          if !b && i = d then (true, st1)                       -- a plain object
          else openStm i (L + 1) st1 (getM d fuel false (i + 1) (L + 1))  -- getCompressedObject
        -- r.objCache[objNum] = obj; r.objNeed[objNum] = r.reach - len(r.loading) + 1
        let st4 := if r.1 then r.2.cacheMember b i (r.2.reach - (L + 1) + 1) else r.2
        (r.1, restoreReach st.reach st4)

/-- `GetObject(S i)` from outside: the object stream as a plain stream object (it goes through
`getUncompressedObject`, neither reading nor filling `objStmCache`) -/
def getS (d : Nat) (i : Nat) (st : Caches) : Bool × Caches :=
  match st.objS.lookup i with
  | some need => nestCached need 0 st
  | none =>
    if i = 0 ∨ d ≤ i then (false, st)
    else
      let r := getM d (d + 1) false (i + 1) 1 { st with reach := 1 }
      let st4 := if r.1 then { r.2 with objS := (i, r.2.reach - 1 + 1) :: r.2.objS } else r.2
      (r.1, restoreReach st.reach st4)

/-- `GetObject(T)` from outside -/
def getT (d : Nat) (top : Bool) (st : Caches) : Bool × Caches :=
  match st.objT with
  | some need => nestCached need 0 st
  | none =>
    if !top then (false, st)
    else
      let r := getM d (d + 1) false 1 1 { st with reach := 1 }
      let st4 := if r.1 then { r.2 with objT := some (r.2.reach - 1 + 1) } else r.2
      (r.1, restoreReach st.reach st4)

inductive Op
  | a (i : Nat)
  | b (i : Nat)
  | s (i : Nat)
  | t
  | clear
  deriving Repr, DecidableEq

/-- one operation; `ClearCache` answers nothing (`none`) and empties the caches with their
needs (`reach` stays: every load sets it anew) -/
def step (d : Nat) (top : Bool) (st : Caches) : Op → Option Bool × Caches
  | .a i => let r := getM d (d + 1) false i 0 st; (some r.1, r.2)
  | .b i => let r := getM d (d + 1) true i 0 st; (some r.1, r.2)
  | .s i => let r := getS d i st; (some r.1, r.2)
  | .t => let r := getT d top st; (some r.1, r.2)
  | .clear => (none, { reach := st.reach })

def run (d : Nat) (top : Bool) : Caches → List Op → List (Option Bool)
  | _, [] => []
  | st, op :: ops => (step d top st op).1 :: run d top (step d top st op).2 ops

/-- the answer of a fresh reader (what the cache-free `getObjectB` says): the object is in the
table and its chain of nested loads fits the limit -/
def cold (d : Nat) (top : Bool) : Op → Option Bool
  | .a i => some (decide (1 ≤ i ∧ i ≤ d ∧ d - i + 1 ≤ maxNestedLoads))
  | .b i => some (decide (1 ≤ i ∧ i < d ∧ d - i + 1 ≤ maxNestedLoads))
  | .s i => some (decide (1 ≤ i ∧ i < d ∧ d - i + 1 ≤ maxNestedLoads))
  | .t => some (top && decide (1 ≤ d ∧ d + 1 ≤ maxNestedLoads))
  | .clear => none

/-! ## The cache rule before the repair (129dd3d as it stood): `objCache` is consulted before
`len(r.loading)` is counted, `objStmCache` without counting. Kept for
`C04NC.nested_cache_order_dependence_pinned_counterexample`. -/
namespace Old

/-- `objCache` (the `A i`, the `S i` looked up as objects, `T`) and `objStmCache` (the `S i`
opened as object streams) -/
structure Caches where
  objA : List Nat := []
  objS : List Nat := []
  objT : Bool := false
  stm : List Nat := []
  deriving Repr, DecidableEq

/-- `GetObject(A i)` with `L` objects already being loaded: found or error, and the caches
afterwards. `fuel` makes the recursion structural (`d + 1` is enough). -/
def getA (d : Nat) : Nat → Nat → Nat → Caches → Bool × Caches
  | 0, _, _, st => (false, st)
  | fuel + 1, i, L, st =>
    if st.objA.contains i then (true, st)                       -- objCache, before anything else
    else if i = 0 ∨ d < i then (false, st)                      -- no entry in the table
    else if maxNestedLoads ≤ L then (false, st)                 -- len(r.loading) >= maxNestedLoads
    else if i = d then (true, { st with objA := i :: st.objA }) -- a plain object
    else if st.stm.contains i then (true, { st with objA := i :: st.objA }) -- objStmCache
    else
      -- getObjectStream(S i) → getUncompressedObject: the stream is parsed, its /Length
      -- resolved by GetObject(A (i+1)) with A i in `loading`
      match getA d fuel (i + 1) (L + 1) st with
      | (true, st') => (true, { st' with stm := i :: st'.stm, objA := i :: st'.objA })
      | (false, st') => (false, st')

/-- `GetObject(S i)` from outside: the object stream as a plain stream object (it goes through
`getUncompressedObject`, neither reading nor filling `objStmCache`) -/
def getS (d : Nat) (i : Nat) (st : Caches) : Bool × Caches :=
  if st.objS.contains i then (true, st)
  else if i = 0 ∨ d ≤ i then (false, st)
  else
    match getA d (d + 1) (i + 1) 1 st with
    | (true, st') => (true, { st' with objS := i :: st'.objS })
    | (false, st') => (false, st')

/-- `GetObject(T)` from outside -/
def getT (d : Nat) (top : Bool) (st : Caches) : Bool × Caches :=
  if st.objT then (true, st)
  else if !top then (false, st)
  else
    match getA d (d + 1) 1 1 st with
    | (true, st') => (true, { st' with objT := true })
    | (false, st') => (false, st')

inductive Op
  | a (i : Nat)
  | s (i : Nat)
  | t
  | clear
  deriving Repr, DecidableEq

/-- one operation; `ClearCache` answers nothing (`none`) -/
def step (d : Nat) (top : Bool) (st : Caches) : Op → Option Bool × Caches
  | .a i => let r := getA d (d + 1) i 0 st; (some r.1, r.2)
  | .s i => let r := getS d i st; (some r.1, r.2)
  | .t => let r := getT d top st; (some r.1, r.2)
  | .clear => (none, {})

def run (d : Nat) (top : Bool) : Caches → List Op → List (Option Bool)
  | _, [] => []
  | st, op :: ops => (step d top st op).1 :: run d top (step d top st op).2 ops

end Old

end Tabula.XrefNest
