/-!
# The reader's caches on a chain of nested loads (reader/reader.go `GetObject`, `objCache`,
`objStmCache`, `loading`, `maxNestedLoads`)

`Model/XrefFile.lean: getObjectB` is `GetObject` without the caches. Within the limit of 16
objects being loaded inside each other the caches change no answer; beyond it they do, because
`GetObject` looks into `objCache` BEFORE it counts `len(r.loading)`: an object whose chain of
nested loads is too long for a fresh reader is answered once the far end of its chain has
been looked up (and cached) by itself. This file models exactly that, on the family of files
the harness writes for it:

* integers `A 1 … A d`; for `i < d`, `A i` is member 0 of the object stream `S i`, and the
  `/Length` of `S i` is the reference `A (i+1)`; `A d` is a plain object;
* optionally a plain stream `T` whose `/Length` is the reference `A 1`.

Loading `A i` therefore loads `A (i+1)` inside it, and so on to `A d`: `d - i + 1` nested loads.
(ISO 32000-1 7.5.7 forbids holding the `/Length` of an object stream in an object stream: a
conforming file has `d ≤ 2`.) Core Lean only.
-/
namespace Tabula.XrefNest

/-- `maxNestedLoads` of reader/reader.go -/
def maxNestedLoads : Nat := 16

/-- `objCache` (the `A i`, the `S i` looked up as objects, `T`) and `objStmCache` (the `S i`
opened as object streams) -/
structure Caches where
  objA : List Nat := []
  objS : List Nat := []
  objT : Bool := false
  stm : List Nat := []
  deriving Repr, DecidableEq

/-- `GetObject(A i)` with `L` objects already being loaded: found or error, and the caches
afterwards. `fuel` makes the recursion structural (`d + 1` is enough). -/
def getA (d : Nat) : Nat → Nat → Nat → Caches → Bool × Caches
  | 0, _, _, st => (false, st)
  | fuel + 1, i, L, st =>
    if st.objA.contains i then (true, st)                       -- objCache, before anything else
    else if i = 0 ∨ d < i then (false, st)                      -- no entry in the table
    else if maxNestedLoads ≤ L then (false, st)                 -- len(r.loading) >= maxNestedLoads
    else if i = d then (true, { st with objA := i :: st.objA }) -- a plain object
    else if st.stm.contains i then (true, { st with objA := i :: st.objA }) -- objStmCache
    else
      -- getObjectStream(S i) → getUncompressedObject: the stream is parsed, its /Length
      -- resolved by GetObject(A (i+1)) with A i in `loading`
      match getA d fuel (i + 1) (L + 1) st with
      | (true, st') => (true, { st' with stm := i :: st'.stm, objA := i :: st'.objA })
      | (false, st') => (false, st')

/-- `GetObject(S i)` from outside: the object stream as a plain stream object (it goes through
`getUncompressedObject`, neither reading nor filling `objStmCache`) -/
def getS (d : Nat) (i : Nat) (st : Caches) : Bool × Caches :=
  if st.objS.contains i then (true, st)
  else if i = 0 ∨ d ≤ i then (false, st)
  else
    match getA d (d + 1) (i + 1) 1 st with
    | (true, st') => (true, { st' with objS := i :: st'.objS })
    | (false, st') => (false, st')

/-- `GetObject(T)` from outside -/
def getT (d : Nat) (top : Bool) (st : Caches) : Bool × Caches :=
  if st.objT then (true, st)
  else if !top then (false, st)
  else
    match getA d (d + 1) 1 1 st with
    | (true, st') => (true, { st' with objT := true })
    | (false, st') => (false, st')

inductive Op
  | a (i : Nat)
  | s (i : Nat)
  | t
  | clear
  deriving Repr, DecidableEq

/-- one operation; `ClearCache` answers nothing (`none`) -/
def step (d : Nat) (top : Bool) (st : Caches) : Op → Option Bool × Caches
  | .a i => let r := getA d (d + 1) i 0 st; (some r.1, r.2)
  | .s i => let r := getS d i st; (some r.1, r.2)
  | .t => let r := getT d top st; (some r.1, r.2)
  | .clear => (none, {})

def run (d : Nat) (top : Bool) : Caches → List Op → List (Option Bool)
  | _, [] => []
  | st, op :: ops => (step d top st op).1 :: run d top (step d top st op).2 ops

/-- the answer of a fresh reader (what the cache-free `getObjectB` says): the object is in the
table and its chain of nested loads fits the limit -/
def cold (d : Nat) (top : Bool) : Op → Option Bool
  | .a i => some (decide (1 ≤ i ∧ i ≤ d ∧ d - i + 1 ≤ maxNestedLoads))
  | .s i => some (decide (1 ≤ i ∧ i < d ∧ d - i + 1 ≤ maxNestedLoads))
  | .t => some (top && decide (1 ≤ d ∧ d + 1 ≤ maxNestedLoads))
  | .clear => none

end Tabula.XrefNest
