import TabulaModel.Model.CSParser
/-
Observable positions of the two parsers (property C06, progress).  Core Lean only.

* core/lexer.go: every `Token` carries `Pos` (the offset of its first byte; for the end of input the
  offset at which the input ended) and `SkippedBytes` (the white space `skipWhitespace` consumed in
  front of it).  `nextTokenP` is `(*Lexer).NextToken` with these two fields and the lexer's `pos`
  after the call; `lexTokens` is `NextToken` called until the end of input or the first error (what
  the harness does).
* core/parser.go: the two-token window (`currentToken`, `peekToken`) and the recorded lexical error
  (`p.err != nil`) after `NewParser` and after every `ParseObject` call (`windowTrace`).  (`p.depth`
  is an argument of the model's functions, so "it is 0 again after every call" holds by construction;
  on the Go side the harness checks it as an oracle.)
* contentstream/parser.go: `(*Parser).parseOperand` on a fresh parser, with `p.pos` after the call
  (`csOperandAt`).
-/
namespace Tabula.Pdf

/-- a token as `NextToken` returns it: `Type`+`Value`, `Pos`, `SkippedBytes` -/
structure PosTok where
  tok : Token
  pos : Nat
  skipped : Str
  deriving Repr

/-- `(*Lexer).NextToken` with the lexer standing at offset `off` on the unread input `inp`:
the token, `l.pos` after the call, the unread input after the call -/
def nextTokenP (off : Nat) (inp : Str) : Option (PosTok × Nat × Str) :=
  match nextToken inp with
  | none => none
  | some (t, r) =>
    let ws := inp.takeWhile isWs
    some ({ tok := t, pos := off + ws.length, skipped := ws }, off + (inp.length - r.length), r)

/-- how a run of `NextToken` calls ended: `TokenEOF`, an error, or (model only) the loop bound -/
inductive LexEnd
  | eof | err | fuel
  deriving DecidableEq, Repr

/-- `NextToken` called again and again until `TokenEOF` (included in the list) or an error -/
def lexAllP : Nat → Nat → Str → List PosTok → List PosTok × LexEnd
  | 0, _, _, acc => (acc, .fuel)
  | n + 1, off, inp, acc =>
    match nextTokenP off inp with
    | none => (acc, .err)
    | some (pt, off', r) =>
      if pt.tok = .eof then (acc ++ [pt], .eof) else lexAllP n off' r (acc ++ [pt])

/-- all tokens of `inp` (a new lexer starts at offset 0).  The bound `inp.length + 1` is never
reached: every token but the last consumes a byte (`Props/C06Progress.lean`). -/
def lexTokens (inp : Str) : List PosTok × LexEnd := lexAllP (inp.length + 1) 0 inp []

/-- what the harness reads off a `core.Parser` between calls: `currentToken`, `peekToken`
(`none` = nil), `p.err != nil` -/
structure Window where
  cur : Option Token
  peek : Option Token
  err : Bool
  deriving Repr

def PState.window (s : PState) : Window := { cur := s.cur, peek := s.peek, err := s.err }

/-- `NewParser`, then `ParseObject` until it fails: the window after `NewParser` and after every
successful call, and how the run ended.  The per-call fuel and the bound on the number of calls
are those of `coreParseAll`; neither is ever reached (`Props/C06Progress.lean`). -/
def windowTrace (inp : Str) : List Window × Option PErr :=
  let rec go : Nat → PState → List Window → List Window × Option PErr
    | 0, _, acc => (acc, none)
    | n + 1, s, acc =>
      match parseObject (fuelFor inp) 0 s with
      | .error e => (acc, some e)
      | .ok (_, s') => go n s' (acc ++ [s'.window])
  go (inp.length + 2) (newParser inp) [(newParser inp).window]

/-- `contentstream.NewParser(data).parseOperand()`: the operand and `p.pos` after the call -/
def csOperandAt (inp : Str) : Option (Obj × Nat) :=
  match CS.parseOperand (CS.fuelFor inp) 0 inp with
  | none => none
  | some (o, r) => some (o, inp.length - r.length)

end Tabula.Pdf
