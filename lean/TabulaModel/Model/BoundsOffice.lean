/-
Bounded-work models of the guards the C02 repairs put into the office-format readers, the HTML
and EPUB readers and the TrueType parser (each function names the Go function it mirrors;
constants are the Go constants):
  docx/reader.go  parseListLevel; docx/tables.go parseCell (gridSpan), limitTableGrid   (89ab1e8, bfe6db9)
  odt/tables.go   parseCell, parseTableColumns, limitTableGrid                          (89ab1e8, bfe6db9)
  pptx/reader.go  extractParagraph (lvl)                                               (89ab1e8)
  odt/document.go decodeInlineContentAt (<text:s text:c>, nesting)                     (e9888b1, a4063ea)
  docx/document.go (*paragraphXML).decodeContent (nesting)                             (a4063ea)
  docx/resolver.go, odt/resolver.go buildInheritanceChain                              (a4b8840)
  xlsx/cell.go ColumnToIndex; xlsx/reader.go parseWorksheetPart (merge budget, workbook grid budget)
                                                          (1d0a707, a885d55, 34e785c, 13aebe0, 344ff0c)
  htmldoc/reader.go, epubdoc/navigation.go treeDeeperThan                              (a65974f, a10b9de)
  font/truetype.go parseCmapFormat4                                                    (9eefe9e)
  font/cmap.go addBfRangeArray
Results of strconv.Atoi, encoding/xml and x/net/html are parameters. Core Lean only.
-/
namespace Tabula.BoundsOffice

/-! ### 1. spans, repetitions, levels, space runs -/

def maxCellSpan : Nat := 1024

/-- `w:gridSpan`, `table:number-columns-spanned`, `-rows-spanned`, `-columns-repeated`: the value
`strconv.Atoi` gives (`none` = not a number or out of range) is used only in `1..1024` -/
def acceptSpan (v : Option Int) : Nat :=
  match v with
  | some s => if s > 0 ∧ s ≤ (maxCellSpan : Int) then s.toNat else 1
  | none => 1

def maxListLevel : Nat := 8

/-- docx `parseListLevel`: the digits of the string, stopping at 8 -/
def parseListLevelGo : List Nat → Nat → Nat
  | [], level => level
  | c :: rest, level =>
    if 48 ≤ c ∧ c ≤ 57 then
      let l := level * 10 + (c - 48)
      if l > maxListLevel then maxListLevel else parseListLevelGo rest l
    else parseListLevelGo rest level

def parseListLevel (s : List Nat) : Nat := if s = [] then 0 else parseListLevelGo s 0

/-- pptx `extractParagraph`: `lvl` kept in 0..8 -/
def clampLevel (l : Int) : Nat := if l < 0 then 0 else if l > (maxListLevel : Int) then maxListLevel else l.toNat

def maxSpaceRun : Nat := 1024

/-- ODT `<text:s text:c="N"/>`: the number of spaces written -/
def spaceRun (c : Option Int) : Nat :=
  let count : Int := match c with
    | some v => if v > 0 then v else 1
    | none => 1
  if count > (maxSpaceRun : Int) then maxSpaceRun else count.toNat

/-! ### 2. inline containers of DOCX and ODT paragraphs -/

/-- the inline content of a paragraph as the token stream presents it -/
inductive Inl where
  | leaf                      -- a run / a text node / <text:tab/>: one entry of the result
  | skip                      -- an element that is skipped with its subtree
  | box (kids : List Inl)     -- an inline container: one level of recursion
  deriving Repr

mutual
def Inl.depth : Inl → Nat
  | .leaf => 0
  | .skip => 0
  | .box kids => Inl.depthList kids + 1
def Inl.depthList : List Inl → Nat
  | [] => 0
  | x :: rest => max x.depth (Inl.depthList rest)
end

def maxInlineDepth : Nat := 10000

mutual
/-- the loop of `decodeContent`/`decodeInlineContentAt` at `depth`: the number of entries found,
`none` = "nested deeper than … levels" -/
def decodeList (lim d : Nat) : List Inl → Option Nat
  | [] => some 0
  | x :: rest =>
    match decodeOne lim d x with
    | none => none
    | some a =>
      match decodeList lim d rest with
      | none => none
      | some b => some (a + b)
def decodeOne (lim d : Nat) : Inl → Option Nat
  | .leaf => some 1
  | .skip => some 0
  | .box kids => if d + 1 > lim then none else decodeList lim (d + 1) kids
end

def decodeParagraph (lim : Nat) (kids : List Inl) : Option Nat := decodeList lim 0 kids

/-! ### 3. style inheritance chains -/

def lookupS (l : List (Nat × Nat)) (n : Nat) : Option Nat :=
  match l.find? (·.1 = n) with
  | some (_, v) => some v
  | none => none

/-- `buildInheritanceChain`: style ids are numbers, 0 is the empty string; `styles` maps an id to
its basedOn / parent-style-name. The chain comes out base first. `none` = model fuel exhausted
(shown impossible). -/
def chainGo (styles : List (Nat × Nat)) : Nat → Nat → List Nat → Option (List Nat)
  | 0, _, _ => none
  | fuel + 1, cur, acc =>
    if cur = 0 ∨ acc.contains cur then some acc
    else match lookupS styles cur with
      | some parent => chainGo styles fuel parent (cur :: acc)
      | none => some (cur :: acc)

def styleChain (styles : List (Nat × Nat)) (id : Nat) : Option (List Nat) :=
  chainGo styles (styles.length + 2) id []

/-! ### 4. xlsx -/

def maxColumnNumber : Nat := 1099511627776     -- 1 << 40

def upper (c : Nat) : Nat := if 97 ≤ c ∧ c ≤ 122 then c - 32 else c

/-- the loop of `ColumnToIndex` (`none` = return -1) -/
def columnGo : List Nat → Nat → Option Nat
  | [], r => some r
  | c :: rest, r =>
    let c := upper c
    if c < 65 ∨ c > 90 then none
    else
      let r' := r * 26 + (c - 65) + 1
      if r' > maxColumnNumber then none else columnGo rest r'

def columnToIndex (s : List Nat) : Int :=
  match columnGo s 0 with
  | some r => (r : Int) - 1
  | none => -1

def maxGridCells : Nat := 8388608
def gridCellsPerElement : Nat := 16

structure Region where
  sr : Nat
  sc : Nat
  er : Int
  ec : Int
  deriving Repr

/-- a region clipped to the grid: (rows, cols) as the loop computes them -/
def clipCells (maxRow maxCol : Nat) (mr : Region) : Int × Int :=
  let endRow : Int := if mr.er > (maxRow : Int) - 1 then (maxRow : Int) - 1 else mr.er
  let endCol : Int := if mr.ec > (maxCol : Int) then (maxCol : Int) else mr.ec
  (endRow - (mr.sr : Int) + 1, endCol - (mr.sc : Int) + 1)

/-- the merged-region loop of `parseWorksheetPart` on a grid of `maxRow` rows and `maxCol+1`
columns: for every region whether it was applied, and the number of cells walked in all -/
def applyMerges (maxRow maxCol : Nat) : List Region → Nat → List Bool × Nat
  | [], _ => ([], 0)
  | mr :: rest, budget =>
    let rc := clipCells maxRow maxCol mr
    if rc.1 ≤ 0 ∨ rc.2 ≤ 0 then
      ((false :: (applyMerges maxRow maxCol rest budget).1), (applyMerges maxRow maxCol rest budget).2)
    else if (rc.1 * rc.2).toNat > budget then (false :: rest.map (fun _ => false), 0)
    else
      ((true :: (applyMerges maxRow maxCol rest (budget - (rc.1 * rc.2).toNat)).1),
       (applyMerges maxRow maxCol rest (budget - (rc.1 * rc.2).toNat)).2 + (rc.1 * rc.2).toNat)

def mergeAll (maxRow maxCol : Nat) (regions : List Region) : List Bool × Nat :=
  applyMerges maxRow maxCol regions (maxRow * (maxCol + 1))

/-- one `<sheet>` entry of the workbook, as `parseWorksheets` meets it: the ZIP member it names,
the number of `<c>` elements of that part, its largest row number and column index -/
structure SheetReq where
  member : Nat
  elems : Nat
  maxRow : Nat
  maxCol : Nat
  deriving Repr

structure WB where
  gridCells : Nat          -- r.gridCells
  parts : List Nat         -- r.gridParts
  deriving Repr

/-- 16 cells per `<c>` element when no earlier entry was loaded from the same member, else 0 -/
def allowanceFor (wb : WB) (s : SheetReq) : Nat :=
  if wb.parts.contains s.member then 0 else gridCellsPerElement * s.elems

/-- `parseWorksheets` + the size check of `parseWorksheetPart` for one entry: accepted?, new state -/
def loadSheet (wb : WB) (s : SheetReq) : Bool × WB :=
  if s.maxRow > 0 ∧ s.maxCol + 1 > (maxGridCells - wb.gridCells + allowanceFor wb s) / s.maxRow then
    (false, ⟨wb.gridCells, s.member :: wb.parts⟩)
  else
    (true, ⟨wb.gridCells + (s.maxRow * (s.maxCol + 1) - allowanceFor wb s), s.member :: wb.parts⟩)

/-- the history of one `Open`: which entries got a grid -/
def loadSheets : WB → List SheetReq → List Bool
  | _, [] => []
  | wb, s :: rest => let (ok, wb') := loadSheet wb s; ok :: loadSheets wb' rest

/-- the grid cells allocated in all by the accepted entries -/
def allocated : WB → List SheetReq → Nat
  | _, [] => 0
  | wb, s :: rest =>
    let (ok, wb') := loadSheet wb s
    (if ok then s.maxRow * (s.maxCol + 1) else 0) + allocated wb' rest

/-- 16 cells for every `<c>` element of every DISTINCT member named (first mention counts) -/
def allowanceOf : List Nat → List SheetReq → Nat
  | _, [] => 0
  | seen, s :: rest =>
    (if seen.contains s.member then 0 else gridCellsPerElement * s.elems) + allowanceOf (s.member :: seen) rest

/-! ### 5. DOCX/ODT table grids -/

def maxTableGridCells : Nat := 1048576

abbrev TRows := List (List (Nat × Nat))    -- rows of cells (ColSpan, RowSpan)

def rowCols (row : List (Nat × Nat)) : Nat := (row.map Prod.fst).sum
def gridCols : TRows → Nat
  | [] => 0
  | r :: rest => max (rowCols r) (gridCols rest)
def hasSpans (rows : TRows) : Bool := rows.any (fun r => r.any (fun c => c.1 > 1 || c.2 > 1))

/-- `limitTableGrid` -/
def limitTableGrid (rows : TRows) : TRows :=
  let cols := gridCols rows
  if !hasSpans rows || cols == 0 || rows.length ≤ maxTableGridCells / cols then rows
  else rows.map (fun r => r.map (fun _ => (1, 1)))

/-! ### 6. `treeDeeperThan` (x/net/html trees walked without recursion) -/

inductive HT where
  | node (kids : List HT)
  deriving Repr

mutual
def HT.size : HT → Nat
  | .node kids => 1 + HT.sizeList kids
def HT.sizeList : List HT → Nat
  | [] => 0
  | k :: ks => k.size + HT.sizeList ks
end

mutual
def HT.height : HT → Nat
  | .node kids => HT.heightList kids
def HT.heightList : List HT → Nat      -- 0 for no children, else 1 + the tallest child
  | [] => 0
  | k :: ks => max (k.height + 1) (HT.heightList ks)
end

def HT.kids : HT → List HT
  | .node ks => ks

/-- the position of the walk: the current node and, for every ancestor level, the siblings still
to the right; `path.length` is `depth` -/
structure Zip where
  cur : HT
  path : List (List HT)
  deriving Repr

/-- `for n != root && n.NextSibling == nil { n = n.Parent; depth-- }`, then the next sibling -/
def climb : List (List HT) → Option Zip
  | [] => none                               -- back at the root: not deeper
  | [] :: rest => climb rest
  | (s :: ss) :: rest => some ⟨s, ss :: rest⟩

inductive ZOut
  | deeper
  | notDeeper
  | next (z : Zip)
  deriving Repr

def zstep (limit : Nat) (z : Zip) : ZOut :=
  match z.cur.kids with
  | k :: ks => if z.path.length + 1 > limit then .deeper else .next ⟨k, ks :: z.path⟩
  | [] =>
    match climb z.path with
    | none => .notDeeper
    | some z' => .next z'

/-- `none` = fuel exhausted (shown impossible with fuel = number of nodes + 1) -/
def zrun (limit : Nat) : Nat → Zip → Option Bool
  | 0, _ => none
  | fuel + 1, z =>
    match zstep limit z with
    | .deeper => some true
    | .notDeeper => some false
    | .next z' => zrun limit fuel z'

def treeDeeperThan (root : HT) (limit : Nat) : Option Bool := zrun limit (root.size + 1) ⟨root, []⟩

def maxTreeDepth : Nat := 10000

/-- `htmldoc.OpenReader` / `epubdoc.parseNavXHTML` on the tree x/net/html built: `some true` = the
document is refused ("nested deeper than 10000 levels") before any recursive walk -/
def treeRefused (root : HT) : Option Bool := treeDeeperThan root maxTreeDepth

/-! ### 7. TrueType cmap format 4 -/

/-- the segments with `startCode ≤ endCode` -/
def cmap4Segs : List Nat → List Nat → List (Nat × Nat)
  | s :: ss, e :: es => if s ≤ e then (s, e) :: cmap4Segs ss es else cmap4Segs ss es
  | _, _ => []

def insertSeg (x : Nat × Nat) : List (Nat × Nat) → List (Nat × Nat)
  | [] => [x]
  | y :: rest => if x.1 < y.1 then x :: y :: rest else y :: insertSeg x rest

/-- `sort.Slice(segs, lo <)` (any order of equal keys enters the same codes) -/
def sortSegs : List (Nat × Nat) → List (Nat × Nat)
  | [] => []
  | x :: rest => insertSeg x (sortSegs rest)

/-- the walk over the sorted segments: `next` is the first code not entered yet; the result is
the list of (first, last) runs of codes entered into the map, and the number of map writes -/
def cmap4Walk : List (Nat × Nat) → Nat → List (Nat × Nat) × Nat
  | [], _ => ([], 0)
  | (lo, hi) :: rest, next =>
    let c := if lo < next then next else lo
    let next' := if hi + 1 > next then hi + 1 else next
    let (runs, w) := cmap4Walk rest next'
    if c ≤ hi then ((c, hi) :: runs, w + (hi + 1 - c)) else (runs, w)

def cmap4 (startCode endCode : List Nat) : List (Nat × Nat) × Nat :=
  cmap4Walk (sortSegs (cmap4Segs startCode endCode)) 0

/-! ### 8. bfrange with an array of destinations -/

/-- `addBfRangeArray`: one map write for every array entry whose code (counted up from `start`,
wrapping at 2^32 like the uint32 it is) is ≤ `end`; the codes written -/
def bfRangeArray (start endc : Nat) : Nat → Nat → List Nat
  | 0, _ => []
  | n + 1, cur =>
    (if cur ≤ endc then [cur] else []) ++ bfRangeArray start endc n ((cur + 1) % 4294967296)

end Tabula.BoundsOffice
