import TabulaModel.Model.Markdown
import TabulaModel.Model.HeaderFooter
/-!
Model of the Markdown *document* writers of tabula (C15): the public entry points that wrap the
table / heading / list emitters of `Model/Markdown.lean`, and the reading spec for whole Markdown
documents they are judged against.  Core Lean only.  Strings are `Str = List Nat` (byte values).

Go functions mirrored (as they are in the worktree):
* `docx.(*Reader).Markdown / MarkdownWithOptions / MarkdownWithRAGOptions / writeMarkdownListItem`
  (docx/reader.go)
* `odt.(*Reader).Markdown / MarkdownWithOptions / MarkdownWithRAGOptions / writeMarkdownListItem`
  (odt/reader.go)
* `htmldoc.(*Reader).Markdown / MarkdownWithOptions / markdown / MarkdownWithRAGOptions /
  getElements` (htmldoc/reader.go)
* `pptx.(*Reader).Markdown / MarkdownWithOptions / markdown / MarkdownWithRAGOptions` (pptx/reader.go)
* `xlsx.(*Reader).Markdown / MarkdownWithOptions / markdown / MarkdownWithRAGOptions /
  findContentBounds` (xlsx/reader.go)
* `rag.(*Chunk).ToMarkdownWithOptions / contentToMarkdown / isSectionHeading`,
  `rag.(*ChunkCollection).ToMarkdown / ToMarkdownWithOptions / generateTableOfContents /
  GetPageRange / GetTotalWords`, `rag.(*ChunkMetadata).GetPageRange` (rag/metadata.go),
  `rag.(*DocumentChunker).createListChunk` (rag/document_integration.go)
* `tabula.(*Extractor).ToMarkdown / ToMarkdownWithOptions` (extractor.go): the per-format
  dispatch (`extractorMarkdown`).

Parameters (external libraries, or code that is another property's subject):
* `Ext.quote` = `fmt.Sprintf("%q", s)` (strconv.Quote), `Ext.lower` = `strings.ToLower`;
* DOCX `getListFormat(numID, level)` (numbering.xml resolution, C16) and ODT
  `styleResolver.ResolveListLevel(style, level).IsBullet` (C16): a function argument;
* the parsed element lists themselves (XML/HTML parsing is C16/C19; the model starts at the
  element list the reader holds, exported by the `VerifElements` hooks).

Reading spec (not tabula code; CommonMark ATX headings, list item lines, GFM pipe tables,
YAML front matter and the generated table of contents skipped): `classify`, `pipeBlocks`,
`skipFront`, `dropToc`, `readLines`, `readMd`.
-/
namespace Tabula.MarkdownDoc
open Tabula.A1 (Str dec decInt)
open Tabula.Markdown

/-! ## string constants -/

/-- `"---"` -/
def hrLine : Str := [45, 45, 45]
/-- `"## Table of Contents"` -/
def tocTitle : Str :=
  [35, 35, 32, 84, 97, 98, 108, 101, 32, 111, 102, 32, 67, 111, 110, 116, 101, 110, 116, 115]
/-- `"---\n"` -/
def sFmOpen : Str := [45, 45, 45, 10]
/-- `"---\n\n"` -/
def sFmClose : Str := [45, 45, 45, 10, 10]
/-- `"## Table of Contents\n\n"` -/
def sTocHead : Str := tocTitle ++ [10, 10]
/-- `"\n---\n\n"` -/
def sTocEnd : Str := [10, 45, 45, 45, 10, 10]
def sTitle : Str := [116, 105, 116, 108, 101, 58, 32]
def sAuthor : Str := [97, 117, 116, 104, 111, 114, 58, 32]
def sSubject : Str := [115, 117, 98, 106, 101, 99, 116, 58, 32]
def sKeywordsNl : Str := [107, 101, 121, 119, 111, 114, 100, 115, 58, 10]
def sKeywords : Str := [107, 101, 121, 119, 111, 114, 100, 115, 58, 32]
def sGenerator : Str := [103, 101, 110, 101, 114, 97, 116, 111, 114, 58, 32]
def sDescription : Str := [100, 101, 115, 99, 114, 105, 112, 116, 105, 111, 110, 58, 32]
def sSlides : Str := [115, 108, 105, 100, 101, 115, 58, 32]
def sSheets : Str := [115, 104, 101, 101, 116, 115, 58, 32]
def sSlide : Str := [83, 108, 105, 100, 101, 32]
def sChunks : Str := [99, 104, 117, 110, 107, 115, 58, 32]
def sWords : Str := [119, 111, 114, 100, 115, 58, 32]
def sPages : Str := [112, 97, 103, 101, 115, 58, 32]
/-- `"\n> **Notes:** "` -/
def sNotes : Str := [10, 62, 32, 42, 42, 78, 111, 116, 101, 115, 58, 42, 42, 32]
/-- `"<!-- chunk: "` -/
def sChunkOpen : Str := [60, 33, 45, 45, 32, 99, 104, 117, 110, 107, 58, 32]
/-- `" -->\n"` -/
def sChunkClose : Str := [32, 45, 45, 62, 10]
/-- `"heading"` -/
def sHeading : Str := [104, 101, 97, 100, 105, 110, 103]

/-! ## reading spec for a whole Markdown document -/

def isPipeLine : Str → Bool
  | 124 :: _ => true
  | _ => false

def isQuoteLine : Str → Bool
  | 62 :: 32 :: _ => true
  | _ => false

/-- a line of one or more `#` followed by a space or the end of the line: its `#` count (any
count: more than six are "too deep", not an ATX heading) and its content -/
def atxAny (line : Str) : Option (Nat × Str) :=
  let n := (line.takeWhile (· == 35)).length
  let rest := line.dropWhile (· == 35)
  if 1 ≤ n then
    match rest with
    | [] => some (n, [])
    | c :: r => if c = 32 then some (n, r) else none
  else none

inductive Kind where
  | skip
  | pipe
  | quote
  | heading (n : Nat) (t : Str)
  | item (d : Nat) (o : Bool) (t : Str)
  | para
  deriving Repr, DecidableEq

/-- what one line of a Markdown document is, in the reader's order of precedence: blank or a
thematic break `---`; a pipe-table line; a block-quote line; an ATX heading; a list item line;
else paragraph text -/
def classify (l : Str) : Kind :=
  if isBlank l || l == hrLine then .skip
  else if isPipeLine l then .pipe
  else if isQuoteLine l then .quote
  else match atxAny l with
    | some (n, t) => .heading n t
    | none =>
      match parseListLine l with
      | some (d, o, t) => .item d o t
      | none => .para

/-- `gfmTable` on a list of lines -/
def gfmTableL : List Str → Option (List (List Str))
  | h :: d :: rest =>
    let hc := gfmSplitRow h
    let dc := gfmSplitRow d
    if 1 ≤ hc.length ∧ dc.length = hc.length ∧ dc.all isDelimCell = true then
      some (hc :: bodyRows hc.length rest)
    else none
  | _ => none

/-- maximal runs of consecutive pipe lines; `cur` is the run being collected -/
def pipeBlocksAux : List Str → List Str → List (List Str)
  | [], cur => if cur.isEmpty then [] else [cur]
  | l :: ls, cur =>
    if isPipeLine l then pipeBlocksAux ls (cur ++ [l])
    else (if cur.isEmpty then [] else [cur]) ++ pipeBlocksAux ls []

def pipeBlocks (lines : List Str) : List (List Str) := pipeBlocksAux lines []

/-- YAML front matter: when the first line is `---`, everything up to and including the next
`---` line is skipped -/
def skipFront : List Str → List Str
  | [] => []
  | l :: ls => if l == hrLine then (ls.dropWhile (· != hrLine)).drop 1 else l :: ls

/-- the generated table of contents: the first `## Table of Contents` line and everything up to
and including the next `---` line are skipped -/
def dropToc : List Str → List Str
  | [] => []
  | l :: ls => if l == tocTitle then (ls.dropWhile (· != hrLine)).drop 1 else l :: dropToc ls

/-- the lines the structure is read from -/
def content (lines : List Str) : List Str := dropToc (skipFront lines)

structure MdDoc where
  /-- ATX-shaped lines in order: number of `#` (1..6 = a heading of that level) and content -/
  headings : List (Nat × Str)
  /-- list item lines in order: depth (indentation / 2), ordered, text -/
  items : List (Nat × Bool × Str)
  /-- pipe blocks in order, each read as a GFM table (`none`: not a table) -/
  tables : List (Option (List (List Str)))
  /-- paragraph lines in order -/
  paras : List Str
  deriving Repr, DecidableEq

def headingOf (l : Str) : Option (Nat × Str) :=
  match classify l with
  | .heading n t => some (n, t)
  | _ => none

def itemOf (l : Str) : Option (Nat × Bool × Str) :=
  match classify l with
  | .item d o t => some (d, o, t)
  | _ => none

def isPara (l : Str) : Bool :=
  match classify l with
  | .para => true
  | _ => false

def readLines (lines : List Str) : MdDoc :=
  let c := content lines
  { headings := c.filterMap headingOf
    items := c.filterMap itemOf
    tables := (pipeBlocks c).map gfmTableL
    paras := c.filter isPara }

/-- the Markdown reader: lines, front matter and TOC skipped, headings / list items / tables /
paragraph lines -/
def readMd (md : Str) : MdDoc := readLines (splitLines md)

/-! ## options and external functions -/

/-- `rag.MarkdownOptions` -/
structure MdOpts where
  «meta» : Bool := false
  toc : Bool := false
  seps : Bool := false
  pages : Bool := false
  ids : Bool := false
  offset : Int := 0
  max : Int := 6
  sectionSep : Str := [10, 10, 45, 45, 45, 10, 10]
  deriving Repr, DecidableEq

/-- external library functions: `fmt.Sprintf("%q", s)` and `strings.ToLower` -/
structure Ext where
  quote : Str → Str
  lower : Str → Str

/-- `model.Metadata` as the front matter reads it -/
structure Meta where
  title : Str := []
  author : Str := []
  subject : Str := []
  keywords : List Str := []
  creator : Str := []
  deriving Repr, DecidableEq

/-- `if v != "" { "key: %q\n" }` -/
def kvLine (ext : Ext) (key val : Str) : Str :=
  if val.isEmpty then [] else key ++ ext.quote val ++ [10]

/-- front matter of docx / odt `MarkdownWithRAGOptions` -/
def frontMatterDoc (ext : Ext) (m : Meta) : Str :=
  sFmOpen ++ kvLine ext sTitle m.title ++ kvLine ext sAuthor m.author ++ kvLine ext sSubject m.subject
    ++ (if m.keywords.isEmpty then [] else
          sKeywordsNl ++ m.keywords.flatMap fun k => [32, 32, 45, 32] ++ ext.quote k ++ [10])
    ++ kvLine ext sGenerator m.creator ++ sFmClose

/-- front matter of pptx / xlsx `MarkdownWithRAGOptions`: title, author, subject, generator and
the `slides:` / `sheets:` count -/
def frontMatterCount (ext : Ext) (m : Meta) (countKey : Str) (n : Nat) : Str :=
  sFmOpen ++ kvLine ext sTitle m.title ++ kvLine ext sAuthor m.author ++ kvLine ext sSubject m.subject
    ++ kvLine ext sGenerator m.creator ++ countKey ++ dec n ++ [10] ++ sFmClose

/-- `strings.Trim(s, "\n")` -/
def trimNl (s : Str) : Str := ((s.dropWhile (· == 10)).reverse.dropWhile (· == 10)).reverse

/-- `strings.ReplaceAll(strings.ToLower(t), " ", "-")` (docx, odt, rag) -/
def anchorLowerFirst (ext : Ext) (t : Str) : Str := replaceByte 32 [45] (ext.lower t)

/-- `strings.ToLower(strings.ReplaceAll(t, " ", "-"))` (htmldoc, pptx, xlsx) -/
def anchorReplaceFirst (ext : Ext) (t : Str) : Str := ext.lower (replaceByte 32 [45] t)

/-- `"%s- [%s](#%s)\n"` with `indent = strings.Repeat("  ", level-1)` -/
def tocBullet (level : Int) (text anchor : Str) : Str :=
  List.replicate (2 * (level - 1).toNat) 32 ++ [45, 32, 91] ++ text ++ [93, 40, 35] ++ anchor ++ [41, 10]

/-- `"%d. [%s](#%s)\n"` -/
def tocNumbered (n : Nat) (text anchor : Str) : Str :=
  dec n ++ [46, 32, 91] ++ text ++ [93, 40, 35] ++ anchor ++ [41, 10]

/-- level of a TOC entry of docx / odt: offset, floor 1, configured maximum (no 6-cap) -/
def tocLevel (level offset max : Int) : Int :=
  let l := level + offset
  let l := if l < 1 then 1 else l
  if max > 0 ∧ l > max then max else l

/-- two spaces per level (`for j := 0; j < level; j++`) -/
def indent2 (level : Int) : Str := List.replicate (2 * level.toNat) 32

/-! ## counters of the list writers (`map[string]map[int]int`) -/

abbrev Ctr := List (Int × Int)
abbrev Ctrs := List (Str × Ctr)

def ctrGet? (m : Ctr) (k : Int) : Option Int := (m.find? fun e => e.1 == k).map (·.2)

/-- a Go map read: the zero value for a missing key -/
def ctrGet (m : Ctr) (k : Int) : Int :=
  match ctrGet? m k with
  | some v => v
  | none => 0

def ctrSet (m : Ctr) (k v : Int) : Ctr := (k, v) :: m.filter fun e => e.1 != k

def ctrsGet (cs : Ctrs) (id : Str) : Ctr :=
  match cs.find? fun e => e.1 == id with
  | some e => e.2
  | none => []

def ctrsSet (cs : Ctrs) (id : Str) (c : Ctr) : Ctrs := (id, c) :: cs.filter fun e => e.1 != id

/-! ## DOCX -/

/-- `parsedParagraph` as the Markdown writers read it -/
structure DPara where
  text : Str
  isHeading : Bool := false
  level : Int := 0
  isListItem : Bool := false
  numID : Str := []
  listLevel : Int := 0
  deriving Repr, DecidableEq

/-- one entry of `r.elements` (paragraph / table pointers are never nil in what the parser builds) -/
inductive DElem where
  | para (p : DPara)
  | table (t : List (List SCell))
  deriving Repr, DecidableEq

/-- result of `getListFormat(numID, level)`: ordered?, start value -/
structure NumFmt where
  ordered : Bool
  startAt : Int
  deriving Repr, DecidableEq

/-- "reset child level counters when going back to a parent level": when a last level is
recorded (key −1) and the item is not deeper than it, the counters of all deeper levels go -/
def ctrClearDeeper (c : Ctr) (level : Int) : Ctr :=
  match ctrGet? c (-1) with
  | some last => if level ≤ last then c.filter (fun e => !(decide (e.1 > level))) else c
  | none => c

/-- `docx.(*Reader).writeMarkdownListItem`: indentation, the per-list counters (key −1 holds the
last level; deeper levels are cleared when the list comes back up), marker, text -/
def docxListItem (fmt : Str → Int → NumFmt) (p : DPara) (cs : Ctrs) : Str × Ctrs :=
  let c := ctrClearDeeper (ctrsGet cs p.numID) p.listLevel
  let c := ctrSet c (-1) p.listLevel
  let f := fmt p.numID p.listLevel
  if f.ordered then
    let n := ctrGet c p.listLevel + 1
    let c := ctrSet c p.listLevel n
    (indent2 p.listLevel ++ decInt (f.startAt + n - 1) ++ [46, 32] ++ p.text ++ [10], ctrsSet cs p.numID c)
  else
    (indent2 p.listLevel ++ [45, 32] ++ p.text ++ [10], ctrsSet cs p.numID c)

/-- loop state of `MarkdownWithOptions` / `MarkdownWithRAGOptions`: the builder, `inList`,
`lastNumID`, `listCounters` -/
structure DSt where
  out : Str
  inList : Bool := false
  lastNum : Str := []
  ctrs : Ctrs := []
  deriving Repr, DecidableEq

/-- is the paragraph written as a list item (`IsListItem && NumID != "" && NumID != "0"`) -/
def DPara.listed (p : DPara) : Bool := p.isListItem && !p.numID.isEmpty && p.numID != [48]

/-- one iteration of the element loop; `hl` is the heading level arithmetic of the entry point -/
def docxStep (excl : Str → Bool) (hl : Int → Int) (fmt : Str → Int → NumFmt) (i : Nat) (st : DSt) :
    DElem → DSt
  | .para p =>
    if excl p.text then st else
    let st :=
      if (decide (i > 0) && !st.out.isEmpty) && (st.inList && (!p.isListItem || p.numID != st.lastNum)) then
        { st with out := st.out ++ [10], inList := false }
      else st
    if p.isHeading then
      { st with out := st.out ++ atxLine (hl p.level).toNat p.text ++ [10, 10], inList := false }
    else if p.listed then
      let r := docxListItem fmt p st.ctrs
      { out := st.out ++ r.1, inList := true, lastNum := p.numID, ctrs := r.2 }
    else if !p.text.isEmpty then
      { st with out := st.out ++ p.text ++ [10, 10], inList := false }
    else st
  | .table t =>
    let st := if st.inList then { st with out := st.out ++ [10], inList := false } else st
    { st with out := st.out ++ renderSpan .docx t ++ [10] }

def docxLoop (excl : Str → Bool) (hl : Int → Int) (fmt : Str → Int → NumFmt) :
    Nat → DSt → List DElem → DSt
  | _, st, [] => st
  | i, st, e :: es => docxLoop excl hl fmt (i + 1) (docxStep excl hl fmt i st e) es

/-- headings collected for the TOC of docx: level (offset, floor 1, maximum) and text -/
def docxTocHeadings (o : MdOpts) (els : List DElem) : List (Int × Str) :=
  els.filterMap fun
    | .para p => if p.isHeading then some (tocLevel p.level o.offset o.max, p.text) else none
    | .table _ => none

def tocOfHeadings (ext : Ext) (hs : List (Int × Str)) : Str :=
  if hs.isEmpty then [] else
    sTocHead ++ (hs.flatMap fun h => tocBullet h.1 h.2 (anchorLowerFirst ext h.2)) ++ sTocEnd

/-- what is in the builder before the element loop starts -/
def docPreamble (ext : Ext) (o : MdOpts) (m : Meta) (hs : List (Int × Str)) : Str :=
  (if o.meta then frontMatterDoc ext m else []) ++ (if o.toc then tocOfHeadings ext hs else [])

/-- `docx.(*Reader).MarkdownWithRAGOptions(extractOpts, mdOpts)`; `nParas = len(r.paragraphs)`,
`hdrs` / `ftrs` the reader's header and footer texts, `exH` / `exF` the extract options -/
def docxMarkdownRag (ext : Ext) (fmt : Str → Int → NumFmt) (hdrs ftrs : List Str) (exH exF : Bool)
    (o : MdOpts) (m : Meta) (nParas : Nat) (els : List DElem) : Str :=
  if els.isEmpty && nParas == 0 then [] else
  trimNl (docxLoop (fun t => HF.shouldExcludeParagraph t hdrs ftrs exH exF)
    (fun l => headingLevel l o.offset o.max) fmt 0
    { out := docPreamble ext o m (docxTocHeadings o els) } els).out

/-- `docx.(*Reader).MarkdownWithOptions(opts)`: levels clamped to 1..6, nothing else -/
def docxMarkdownWithOptions (fmt : Str → Int → NumFmt) (hdrs ftrs : List Str) (exH exF : Bool)
    (nParas : Nat) (els : List DElem) : Str :=
  if els.isEmpty && nParas == 0 then [] else
  trimNl (docxLoop (fun t => HF.shouldExcludeParagraph t hdrs ftrs exH exF)
    (fun l => if l < 1 then 1 else if l > 6 then 6 else l) fmt 0 { out := [] } els).out

/-- `docx.(*Reader).Markdown()` -/
def docxMarkdown (fmt : Str → Int → NumFmt) (hdrs ftrs : List Str) (nParas : Nat) (els : List DElem) : Str :=
  docxMarkdownWithOptions fmt hdrs ftrs false false nParas els

/-! ## ODT -/

structure OPara where
  text : Str
  isHeading : Bool := false
  level : Int := 0
  isListItem : Bool := false
  styleName : Str := []
  listLevel : Int := 0
  deriving Repr, DecidableEq

inductive OElem where
  | para (p : OPara)
  | table (t : List (List SCell))
  deriving Repr, DecidableEq

/-- `odt.(*Reader).writeMarkdownListItem`; `ord style level` is
`r.styleResolver != nil && !ResolveListLevel(style, level).IsBullet`; the counters are keyed by
style name and level and are never reset -/
def odtListItem (ord : Str → Int → Bool) (p : OPara) (cs : Ctrs) : Str × Ctrs :=
  if !p.styleName.isEmpty && ord p.styleName p.listLevel then
    let c := ctrsGet cs p.styleName
    let n := ctrGet c p.listLevel + 1
    (indent2 p.listLevel ++ decInt n ++ [46, 32] ++ p.text ++ [10], ctrsSet cs p.styleName (ctrSet c p.listLevel n))
  else
    (indent2 p.listLevel ++ [45, 32] ++ p.text ++ [10], cs)

structure OSt where
  out : Str
  inList : Bool := false
  ctrs : Ctrs := []
  deriving Repr, DecidableEq

def odtStep (excl : Str → Bool) (hl : Int → Int) (ord : Str → Int → Bool) (i : Nat) (st : OSt) :
    OElem → OSt
  | .para p =>
    if excl p.text then st else
    let st :=
      if (decide (i > 0) && !st.out.isEmpty) && (st.inList && !p.isListItem) then
        { st with out := st.out ++ [10], inList := false }
      else st
    if p.isHeading then
      { st with out := st.out ++ atxLine (hl p.level).toNat p.text ++ [10, 10], inList := false }
    else if p.isListItem then
      let r := odtListItem ord p st.ctrs
      { out := st.out ++ r.1, inList := true, ctrs := r.2 }
    else if !p.text.isEmpty then
      { st with out := st.out ++ p.text ++ [10, 10], inList := false }
    else st
  | .table t =>
    let st := if st.inList then { st with out := st.out ++ [10], inList := false } else st
    { st with out := st.out ++ renderSpan .odt t ++ [10] }

def odtLoop (excl : Str → Bool) (hl : Int → Int) (ord : Str → Int → Bool) :
    Nat → OSt → List OElem → OSt
  | _, st, [] => st
  | i, st, e :: es => odtLoop excl hl ord (i + 1) (odtStep excl hl ord i st e) es

def odtTocHeadings (o : MdOpts) (els : List OElem) : List (Int × Str) :=
  els.filterMap fun
    | .para p => if p.isHeading then some (tocLevel p.level o.offset o.max, p.text) else none
    | .table _ => none

/-- `odt.(*Reader).MarkdownWithRAGOptions` -/
def odtMarkdownRag (ext : Ext) (ord : Str → Int → Bool) (hdrs ftrs : List Str) (exH exF : Bool)
    (o : MdOpts) (m : Meta) (nParas : Nat) (els : List OElem) : Str :=
  if els.isEmpty && nParas == 0 then [] else
  trimNl (odtLoop (fun t => HF.shouldExcludeParagraph t hdrs ftrs exH exF)
    (fun l => headingLevel l o.offset o.max) ord 0
    { out := docPreamble ext o m (odtTocHeadings o els) } els).out

/-- `odt.(*Reader).MarkdownWithOptions` -/
def odtMarkdownWithOptions (ord : Str → Int → Bool) (hdrs ftrs : List Str) (exH exF : Bool)
    (nParas : Nat) (els : List OElem) : Str :=
  if els.isEmpty && nParas == 0 then [] else
  trimNl (odtLoop (fun t => HF.shouldExcludeParagraph t hdrs ftrs exH exF)
    (fun l => if l < 1 then 1 else if l > 6 then 6 else l) ord 0 { out := [] } els).out

/-- `odt.(*Reader).Markdown()` -/
def odtMarkdown (ord : Str → Int → Bool) (hdrs ftrs : List Str) (nParas : Nat) (els : List OElem) : Str :=
  odtMarkdownWithOptions ord hdrs ftrs false false nParas els

/-! ## HTML -/

structure HItem where
  text : Str
  level : Int := 0
  ordered : Bool := false
  deriving Repr, DecidableEq

/-- `parsedElement` as the writer loop of `markdown` uses it: of a table it calls `ToMarkdown()`
only, which is the plain writer on the texts of the table's grid (`renderHtmlSpan`), so a table is
here its grid of texts — for a table without spans and with rows of equal length the rows of cell
texts themselves (`HSrc.view` takes the reader's elements, cells with `colspan`/`rowspan`, to
these); `none` = nil table pointer -/
inductive HElem where
  | heading (level : Int) (text : Str)
  | para (text : Str)
  | list (items : List HItem)
  | table (rows : Option (List (List Str)))
  | code (text : Str)
  | quote (text : Str)
  deriving Repr, DecidableEq

/-- `parsedElement` as the reader holds it (`VerifElements`): a table is `ParsedTable.Rows`, the
cells of every row with their `ColSpan`/`RowSpan` -/
inductive HSrc where
  | heading (level : Int) (text : Str)
  | para (text : Str)
  | list (items : List HItem)
  | table (rows : Option (List (List HCell)))
  | code (text : Str)
  | quote (text : Str)
  deriving Repr, DecidableEq

/-- what `markdown` sees of an element: of a table the grid `ToMarkdown` writes
(`(*ParsedTable).grid`, Model/HtmlGrid.lean), as texts; the grid has one line per row, so
`len(elem.Table.Rows) > 0` is `!rows.isEmpty` on either side -/
def HSrc.view : HSrc → HElem
  | .heading l t => .heading l t
  | .para t => .para t
  | .list items => .list items
  | .table none => .table none
  | .table (some rows) => .table (some (htmlGridTexts rows))
  | .code t => .code t
  | .quote t => .quote t

/-- `"\n\n"` unless nothing has been written yet -/
def sep2 (acc : Str) : Str := if acc.isEmpty then [] else [10, 10]

/-- the item loop of the list branch: `"\n"` before every item but the first -/
def htmlItems : List HItem → Bool → Str
  | [], _ => []
  | it :: rest, first =>
    (if first then [] else [10]) ++ indent2 it.level ++ (if it.ordered then [49, 46, 32] else [45, 32])
      ++ it.text ++ htmlItems rest false

/-- `"> "` before every line of the text -/
def htmlQuote (t : Str) : Str := [62, 32] ++ replaceByte 10 [10, 62, 32] t

/-- one iteration of `htmldoc.(*Reader).markdown` -/
def htmlStep (hl : Int → Int) (acc : Str) : HElem → Str
  | .heading l t => acc ++ sep2 acc ++ List.replicate (hl l).toNat 35 ++ [32] ++ t
  | .para t => acc ++ sep2 acc ++ t
  | .list items => acc ++ sep2 acc ++ htmlItems items true
  | .table none => acc
  | .table (some rows) => if rows.isEmpty then acc else acc ++ sep2 acc ++ render .html rows
  | .code t => acc ++ sep2 acc ++ [96, 96, 96, 10] ++ t ++ [10, 96, 96, 96]
  | .quote t => acc ++ sep2 acc ++ htmlQuote t

/-- `htmldoc.(*Reader).markdown(opts, headingLevel)` on the elements of the mode -/
def htmlBody (hl : Int → Int) (els : List HElem) : Str := els.foldl (htmlStep hl) []

/-- what the front matter of htmldoc reads: `r.title` and three optional `<meta>` values -/
structure HMeta where
  title : Str := []
  author : Option Str := none
  description : Option Str := none
  keywords : Option Str := none
  deriving Repr, DecidableEq

def kvOpt (ext : Ext) (key : Str) : Option Str → Str
  | some v => key ++ ext.quote v ++ [10]
  | none => []

def htmlFrontMatter (ext : Ext) (m : HMeta) : Str :=
  sFmOpen ++ kvLine ext sTitle m.title ++ kvOpt ext sAuthor m.author
    ++ kvOpt ext sDescription m.description ++ kvOpt ext sKeywords m.keywords ++ sFmClose

def htmlHeadingTexts (els : List HElem) : List Str :=
  els.filterMap fun
    | .heading _ t => some t
    | _ => none

/-- numbered TOC lines `1. [text](#anchor)`, counted from `k + 1` -/
def tocNumberedFrom (ext : Ext) : Nat → List Str → Str
  | _, [] => []
  | k, t :: ts => tocNumbered (k + 1) t (anchorReplaceFirst ext t) ++ tocNumberedFrom ext (k + 1) ts

/-- the TOC of htmldoc: only with more than one heading -/
def htmlToc (ext : Ext) (els : List HElem) : Str :=
  let hs := htmlHeadingTexts els
  if hs.length > 1 then sTocHead ++ tocNumberedFrom ext 0 hs ++ sTocEnd else []

/-- `htmldoc.(*Reader).MarkdownWithRAGOptions` on the elements of the requested mode -/
def htmlMarkdownRag (ext : Ext) (o : MdOpts) (m : HMeta) (els : List HElem) : Str :=
  (if o.meta then htmlFrontMatter ext m else []) ++ (if o.toc then htmlToc ext els else [])
    ++ htmlBody (fun l => headingLevel l o.offset o.max) els

/-- `htmldoc.(*Reader).MarkdownWithOptions`: levels as they are -/
def htmlMarkdownWithOptions (els : List HElem) : Str := htmlBody id els

/-- the same entry points on the elements the reader holds (tables with their spans) -/
def htmlMarkdownRagSrc (ext : Ext) (o : MdOpts) (m : HMeta) (els : List HSrc) : Str :=
  htmlMarkdownRag ext o m (els.map HSrc.view)

def htmlMarkdownWithOptionsSrc (els : List HSrc) : Str := htmlMarkdownWithOptions (els.map HSrc.view)

/-! ### the reader's cache of filtered element lists (`getElements`) -/

/-- `htmldoc.Reader` as the Markdown entry points see it: the pre-parsed elements of mode 0 and
the cache `filteredCache` -/
structure HReader where
  elements : List HElem
  cache : List (Int × List HElem) := []

def cacheGet? (c : List (Int × List HElem)) (m : Int) : Option (List HElem) :=
  (c.find? fun e => e.1 == m).map (·.2)

/-- `getElements(mode)`; `extract` is `extractBodyWithMode(r.doc, mode)` (C19) -/
def getElements (extract : Int → List HElem) (r : HReader) (m : Int) : List HElem × HReader :=
  if m = 0 then (r.elements, r)
  else match cacheGet? r.cache m with
    | some els => (els, r)
    | none => (extract m, { r with cache := (m, extract m) :: r.cache })

/-- the Markdown calls of an htmldoc reader -/
inductive HCall where
  | markdown                                        -- `Markdown()`: mode Standard (2)
  | withOptions (mode : Int)                        -- `MarkdownWithOptions`
  | rag (mode : Int) (o : MdOpts)                   -- `MarkdownWithRAGOptions`
  deriving Repr, DecidableEq

def HCall.mode : HCall → Int
  | .markdown => 2
  | .withOptions m => m
  | .rag m _ => m

def HCall.render (ext : Ext) (m : HMeta) : HCall → List HElem → Str
  | .markdown, els => htmlMarkdownWithOptions els
  | .withOptions _, els => htmlMarkdownWithOptions els
  | .rag _ o, els => htmlMarkdownRag ext o m els

/-- one call on a reader: the output and the reader afterwards -/
def hCall (ext : Ext) (m : HMeta) (extract : Int → List HElem) (r : HReader) (c : HCall) : Str × HReader :=
  let g := getElements extract r c.mode
  (c.render ext m g.1, g.2)

def hRun (ext : Ext) (m : HMeta) (extract : Int → List HElem) : HReader → List HCall → List Str
  | _, [] => []
  | r, c :: cs => (hCall ext m extract r c).1 :: hRun ext m extract (hCall ext m extract r c).2 cs

/-! ## PPTX -/

structure PPara where
  text : Str
  level : Int := 0
  isBullet : Bool := false
  isNumbered : Bool := false
  deriving Repr, DecidableEq

structure PBlock where
  isTitle : Bool := false
  placeholder : Str := []
  paras : List PPara
  deriving Repr, DecidableEq

structure PSlide where
  title : Str := []
  content : List PBlock := []
  tables : List (List (List Str)) := []
  notes : Str := []
  deriving Repr, DecidableEq

def pptxPara (p : PPara) : Str :=
  if p.text.isEmpty then []
  else if p.isBullet || p.isNumbered then
    indent2 p.level ++ (if p.isNumbered then [49, 46, 32] else [45, 32]) ++ p.text ++ [10]
  else p.text ++ [10, 10]

def pptxBlock (exH exF : Bool) (b : PBlock) : Str :=
  if b.isTitle then []
  else if exF && HF.isFooterPlaceholder b.placeholder then []
  else if exH && HF.isHeaderPlaceholder b.placeholder then []
  else b.paras.flatMap pptxPara

/-- one slide of `pptx.(*Reader).markdown` (without the separator before it) -/
def pptxSlide (exH exF notes : Bool) (titleLevel : Int) (s : PSlide) : Str :=
  (if s.title.isEmpty then [] else atxLine titleLevel.toNat s.title ++ [10, 10])
    ++ s.content.flatMap (pptxBlock exH exF)
    ++ (s.tables.flatMap fun t => [10] ++ render .pptx t)
    ++ (if notes && !s.notes.isEmpty then sNotes ++ replaceByte 10 [10, 62, 32] s.notes ++ [10] else [])

def pptxSlides (exH exF notes : Bool) (titleLevel : Int) : List PSlide → Bool → Str
  | [], _ => []
  | s :: rest, first =>
    (if first then [] else sTocEnd) ++ pptxSlide exH exF notes titleLevel s
      ++ pptxSlides exH exF notes titleLevel rest false

/-- `opts.SlideNumbers` / `opts.Sheets`: the valid indices in the order given, all when empty -/
def selectIdx {α} (all : List α) (sel : List Int) : List α :=
  if sel.isEmpty then all
  else sel.filterMap fun i => if i < 0 then none else all[i.toNat]?

/-- `pptx.(*Reader).markdown(opts, titleLevel)`: trailing white space and surrounding blank lines
go, the indentation of a first nested list item stays (`strings.TrimLeft(strings.TrimRightFunc(s,
unicode.IsSpace), "\n")`, since the fix of the worktree) -/
def pptxBody (exH exF notes : Bool) (sel : List Int) (titleLevel : Int) (slides : List PSlide) : Str :=
  (trimRight (pptxSlides exH exF notes titleLevel (selectIdx slides sel) true)).dropWhile (· == 10)

/-- TOC of pptx: every slide of the deck, `Slide n` for an untitled one -/
def pptxTocFrom (ext : Ext) : Nat → List PSlide → Str
  | _, [] => []
  | k, s :: rest =>
    let t := if s.title.isEmpty then sSlide ++ dec (k + 1) else s.title
    tocNumbered (k + 1) t (anchorReplaceFirst ext t) ++ pptxTocFrom ext (k + 1) rest

/-- `pptx.(*Reader).MarkdownWithRAGOptions` -/
def pptxMarkdownRag (ext : Ext) (exH exF notes : Bool) (sel : List Int) (o : MdOpts) (m : Meta)
    (slides : List PSlide) : Str :=
  (if o.meta then frontMatterCount ext m sSlides slides.length else [])
    ++ (if o.toc && decide (slides.length > 1) then sTocHead ++ pptxTocFrom ext 0 slides ++ sTocEnd else [])
    ++ pptxBody exH exF notes sel (headingLevel 1 o.offset o.max) slides

/-- `pptx.(*Reader).MarkdownWithOptions` (titles are level-1 headings); `Markdown()` is this with
no exclusion, no notes, all slides -/
def pptxMarkdownWithOptions (exH exF notes : Bool) (sel : List Int) (slides : List PSlide) : Str :=
  pptxBody exH exF notes sel 1 slides

/-! ## XLSX -/

/-- `xlsx.Cell` as the Markdown writer reads it -/
structure XCell where
  value : Str := []
  typeEmpty : Bool := false
  merged : Bool := false
  mergeRoot : Bool := false
  deriving Repr, DecidableEq

/-- `(*Cell).IsEmpty` -/
def XCell.isEmpty (c : XCell) : Bool := c.typeEmpty || c.value.isEmpty

/-- only the root of a merged region shows its value -/
def XCell.shown (c : XCell) : Bool := !c.merged || c.mergeRoot

structure XSheet where
  name : Str
  rows : List (List XCell)
  maxCol : Int := 0
  deriving Repr, DecidableEq

/-- `(minRow, maxRow, minCol, maxCol)` of `findContentBounds` -/
structure Bounds where
  minRow : Int
  maxRow : Int
  minCol : Int
  maxCol : Int
  deriving Repr, DecidableEq

def boundsCell (r c : Int) (b : Bounds) (cell : XCell) : Bounds :=
  if !cell.isEmpty && cell.shown then
    { minRow := if r < b.minRow then r else b.minRow
      maxRow := if r > b.maxRow then r else b.maxRow
      minCol := if c < b.minCol then c else b.minCol
      maxCol := if c > b.maxCol then c else b.maxCol }
  else b

def boundsRow (r : Int) : Int → Bounds → List XCell → Bounds
  | _, b, [] => b
  | c, b, cell :: rest => boundsRow r (c + 1) (boundsCell r c b cell) rest

def boundsRows : Int → Bounds → List (List XCell) → Bounds
  | _, b, [] => b
  | r, b, row :: rest => boundsRows (r + 1) (boundsRow r 0 b row) rest

/-- `xlsx.(*Reader).findContentBounds` -/
def findContentBounds (s : XSheet) : Bounds :=
  boundsRows 0 { minRow := s.rows.length, maxRow := -1, minCol := s.maxCol + 1, maxCol := -1 } s.rows

/-- what one cell position of the inline table writer puts between `" "` and `" |"` -/
def xCellOut (rows : List (List XCell)) (r c : Nat) : Str :=
  match rows[r]? with
  | none => []
  | some row =>
    match row[c]? with
    | none => []
    | some cell => if cell.shown then escCell .xlsx cell.value else []

/-- one table line of the inline writer: `|` then `" " cell " |"` for `col = minCol..maxCol` -/
def xRow (rows : List (List XCell)) (r minCol n : Nat) : Str :=
  124 :: ((List.range n).flatMap fun k => 32 :: xCellOut rows r (minCol + k) ++ [32, 124]) ++ [10]

/-- header row, separator, data rows for the bounds (all non-negative, `minRow ≤ maxRow`,
`minCol ≤ maxCol`) -/
def xTable (rows : List (List XCell)) (b : Bounds) : Str :=
  let n := (b.maxCol - b.minCol + 1).toNat
  xRow rows b.minRow.toNat b.minCol.toNat n
    ++ 124 :: (List.replicate n [45, 45, 45, 124]).flatten ++ [10]
    ++ (List.range (b.maxRow - b.minRow).toNat).flatMap fun k =>
        xRow rows (b.minRow.toNat + 1 + k) b.minCol.toNat n

/-- one sheet of `xlsx.(*Reader).markdown` (without the separator before it) -/
def xSheet (nameLevel : Int) (s : XSheet) : Str :=
  atxLine nameLevel.toNat s.name ++ [10, 10] ++
    (if s.rows.isEmpty then [] else
      let b := findContentBounds s
      if b.minRow > b.maxRow || b.minCol > b.maxCol then [] else xTable s.rows b)

def xSheets (nameLevel : Int) : List XSheet → Bool → Str
  | [], _ => []
  | s :: rest, first => (if first then [] else [10, 10]) ++ xSheet nameLevel s ++ xSheets nameLevel rest false

/-- `xlsx.(*Reader).markdown(opts, nameLevel)` -/
def xlsxBody (sel : List Int) (nameLevel : Int) (sheets : List XSheet) : Str :=
  trim (xSheets nameLevel (selectIdx sheets sel) true)

def xlsxToc (ext : Ext) (sheets : List XSheet) : Str :=
  sTocHead ++ (sheets.flatMap fun s =>
    [45, 32, 91] ++ s.name ++ [93, 40, 35] ++ anchorReplaceFirst ext s.name ++ [41, 10]) ++ sTocEnd

/-- `xlsx.(*Reader).MarkdownWithRAGOptions` -/
def xlsxMarkdownRag (ext : Ext) (sel : List Int) (o : MdOpts) (m : Meta) (sheets : List XSheet) : Str :=
  (if o.meta then frontMatterCount ext m sSheets sheets.length else [])
    ++ (if o.toc && decide (sheets.length > 1) then xlsxToc ext sheets else [])
    ++ xlsxBody sel (headingLevel 2 o.offset o.max) sheets

/-- `xlsx.(*Reader).MarkdownWithOptions` (sheet names are level-2 headings) -/
def xlsxMarkdownWithOptions (sel : List Int) (sheets : List XSheet) : Str := xlsxBody sel 2 sheets

/-! ## RAG: chunks to Markdown -/

/-- `rag.Chunk` as the Markdown writer reads it -/
structure RChunk where
  id : Str := []
  text : Str := []
  sectionTitle : Str := []
  docTitle : Str := []
  headingLevel : Int := 0
  pageStart : Int := 0
  pageEnd : Int := 0
  wordCount : Int := 0
  /-- `Metadata.Level == ChunkLevelSection` -/
  isSection : Bool := false
  elementTypes : List Str := []
  deriving Repr, DecidableEq

/-- `(*ChunkMetadata).GetPageRange`: `p. N` or `pp. N-M` -/
def pageRange (c : RChunk) : Str :=
  if c.pageStart = c.pageEnd then [112, 46, 32] ++ decInt c.pageStart
  else [112, 112, 46, 32] ++ decInt c.pageStart ++ [45] ++ decInt c.pageEnd

def chunkIdComment (o : MdOpts) (c : RChunk) : Str :=
  if o.ids && !c.id.isEmpty then sChunkOpen ++ c.id ++ sChunkClose else []

/-- `"\n\n*<page range>*"` -/
def chunkPageRef (o : MdOpts) (c : RChunk) : Str :=
  if o.pages && decide (c.pageStart > 0) then [10, 10, 42] ++ pageRange c ++ [42] else []

/-- `rag.(*Chunk).ToMarkdownWithOptions` -/
def chunkMd (o : MdOpts) (c : RChunk) : Str :=
  chunkIdComment o c
    ++ (if c.sectionTitle.isEmpty then [] else
          atxLine (headingLevelRag c.headingLevel o.offset o.max).toNat c.sectionTitle ++ [10, 10])
    ++ (if c.text != c.sectionTitle then c.text else [])
    ++ chunkPageRef o c

/-- `rag.(*Chunk).contentToMarkdown` -/
def contentMd (o : MdOpts) (c : RChunk) : Str := chunkIdComment o c ++ c.text ++ chunkPageRef o c

/-- `rag.(*Chunk).isSectionHeading` -/
def isSectionHeading (c : RChunk) : Bool :=
  c.isSection && c.elementTypes == [sHeading] && !c.sectionTitle.isEmpty && trim c.text == c.sectionTitle

/-- `generateTableOfContents`: one entry per distinct section title, in order of first occurrence -/
def ragTocLines (ext : Ext) : List RChunk → List Str → Str
  | [], _ => []
  | c :: rest, seen =>
    if c.sectionTitle.isEmpty || seen.contains c.sectionTitle then ragTocLines ext rest seen
    else
      let level := if c.headingLevel = 0 then 1 else c.headingLevel
      tocBullet level c.sectionTitle (anchorLowerFirst ext c.sectionTitle)
        ++ ragTocLines ext rest (c.sectionTitle :: seen)

/-- `(*ChunkCollection).GetPageRange` -/
def collPageRange : List RChunk → Int × Int
  | [] => (0, 0)
  | c :: rest =>
    rest.foldl (fun (a : Int × Int) d =>
      (if d.pageStart < a.1 then d.pageStart else a.1, if d.pageEnd > a.2 then d.pageEnd else a.2))
      (c.pageStart, c.pageEnd)

/-- the chunk loop of `ToMarkdownWithOptions`: separator, then the chunk with or without its
section heading; `cur` is `currentSection` -/
def ragChunks (o : MdOpts) : List RChunk → Str → Bool → Str
  | [], _, _ => []
  | c :: rest, cur, first =>
    let sepr := if first then [] else if o.seps then o.sectionSep else [10, 10]
    if !c.sectionTitle.isEmpty && c.sectionTitle != cur then
      sepr ++ chunkMd o c ++ ragChunks o rest c.sectionTitle false
    else if isSectionHeading c then
      sepr ++ chunkMd o c ++ ragChunks o rest cur false
    else
      sepr ++ contentMd o c ++ ragChunks o rest cur false

/-- `rag.(*ChunkCollection).ToMarkdownWithOptions` -/
def collectionMd (ext : Ext) (o : MdOpts) : List RChunk → Str
  | [] => []
  | c0 :: rest =>
    let cs := c0 :: rest
    (if o.meta then
        sFmOpen ++ kvLine ext sTitle c0.docTitle
          ++ sChunks ++ dec cs.length ++ [10]
          ++ sWords ++ decInt (cs.foldl (fun a c => a + c.wordCount) 0) ++ [10]
          ++ sPages ++ decInt (collPageRange cs).1 ++ [45] ++ decInt (collPageRange cs).2 ++ [10]
          ++ sFmClose
      else [])
    ++ (if !c0.docTitle.isEmpty && !o.meta then [35, 32] ++ c0.docTitle ++ [10, 10] else [])
    ++ (if o.toc then
          let t := ragTocLines ext cs []
          if t.isEmpty then [] else sTocHead ++ t ++ [10] ++ sTocEnd
        else [])
    ++ ragChunks o cs [] true

/-- `rag.DefaultMarkdownOptions()` -/
def defaultOpts : MdOpts := {}

/-- `rag.(*ChunkCollection).ToMarkdown()` -/
def collectionMdDefault (ext : Ext) (cs : List RChunk) : Str := collectionMd ext defaultOpts cs

/-! ### `createListChunk` -/

/-- the item loop of `rag.(*DocumentChunker).createListChunk`: `levelCounters` (cleared below the
item's level when the list comes back up), two spaces per level, `- ` or `n. ` -/
def ragListItems (ordered : Bool) : List (Int × Str) → Ctr → Int → Str
  | [], _, _ => []
  | (lvl, txt) :: rest, ctrs, last =>
    let ctrs := if lvl ≤ last then ctrs.filter (fun e => !(decide (e.1 > lvl))) else ctrs
    if ordered then
      let n := ctrGet ctrs lvl + 1
      indent2 lvl ++ decInt n ++ [46, 32] ++ txt ++ [10] ++ ragListItems ordered rest (ctrSet ctrs lvl n) lvl
    else
      indent2 lvl ++ [45, 32] ++ txt ++ [10] ++ ragListItems ordered rest ctrs lvl

/-- the text of the list chunk (after efed37d): the item lines without their trailing white
space, `strings.TrimRightFunc(sb.String(), unicode.IsSpace)` — the indentation of a nested first
item is part of the text -/
def ragListText (ordered : Bool) (items : List (Int × Str)) : Str :=
  trimRight (ragListItems ordered items [] (-1))

/-- the text of the list chunk as the pinned code wrote it, `strings.TrimSpace` of the item
lines (recorded for `rag_list_first_nested_pinned_counterexample`; nothing else uses it) -/
def ragListTextPinned (ordered : Bool) (items : List (Int × Str)) : Str :=
  trim (ragListItems ordered items [] (-1))

/-! ## `tabula.(*Extractor).ToMarkdownWithOptions`: the per-format dispatch -/

/-- what the extractor holds when the terminal operation runs: the open reader of the format -/
inductive Source where
  | docx (fmt : Str → Int → NumFmt) (hdrs ftrs : List Str) (m : Meta) (nParas : Nat) (els : List DElem)
  | odt (ord : Str → Int → Bool) (hdrs ftrs : List Str) (m : Meta) (nParas : Nat) (els : List OElem)
  | xlsx (m : Meta) (sheets : List XSheet)
  | pptx (m : Meta) (slides : List PSlide)
  | html (m : HMeta) (els : List HElem)
  | pdf (chunks : List RChunk)

/-- `tabula.(*Extractor).ToMarkdownWithOptions(opts)` with the extractor's
`excludeHeaders` / `excludeFooters` switches; DOCX, ODT, XLSX, PPTX and HTML go to their reader's
`MarkdownWithRAGOptions` (PPTX with notes and titles, HTML with the zero navigation mode), a PDF
to the chunk collection's writer -/
def extractorMarkdown (ext : Ext) (exH exF : Bool) (o : MdOpts) : Source → Str
  | .docx fmt hdrs ftrs m n els => docxMarkdownRag ext fmt hdrs ftrs exH exF o m n els
  | .odt ord hdrs ftrs m n els => odtMarkdownRag ext ord hdrs ftrs exH exF o m n els
  | .xlsx m sheets => xlsxMarkdownRag ext [] o m sheets
  | .pptx m slides => pptxMarkdownRag ext exH exF true [] o m slides
  | .html m els => htmlMarkdownRag ext o m els
  | .pdf chunks => collectionMd ext o chunks

/-- `tabula.(*Extractor).ToMarkdown()` -/
def extractorMarkdownDefault (ext : Ext) (exH exF : Bool) (s : Source) : Str :=
  extractorMarkdown ext exH exF defaultOpts s

end Tabula.MarkdownDoc
