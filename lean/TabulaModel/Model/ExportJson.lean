import TabulaModel.Model.ExportApi
import TabulaModel.Model.Json
/-
Text level of tabula's JSON exports (rag/export.go): which JSON value each Go value handed to
`encoding/json` becomes — struct fields in declaration order under their `json:"…"` names,
`omitempty`, maps with keys in ascending byte order — and the text the exporters write:
`exportJSONL`, `exportJSON` (PrettyPrint), `(*Exporter).Export / ExportToString` (format
dispatch), `ToJSON / ToJSONL / ToCSV / ToTSV`, `(*StreamExporter).WriteChunk`,
`ExportForPinecone / ExportForChroma / ExportForWeaviate`, `json.Marshal` inside `formatValue`.
The JSON text itself is the assumed `encoding/json` writer of `Model/Json.lean`.  Core Lean only.
-/
namespace Tabula.Export
open Tabula.Csv (Str)
open Tabula.Json (J)

/-! ## Go values → JSON values -/

def insertMember (x : Str × J) : List (Str × J) → List (Str × J)
  | [] => [x]
  | y :: ys => if strLe x.1 y.1 then x :: y :: ys else y :: insertMember x ys

/-- `encoding/json` writes a map with its keys sorted (bytewise) -/
def sortMembers : List (Str × J) → List (Str × J)
  | [] => []
  | x :: xs => insertMember x (sortMembers xs)

/-- `[]string` (non-nil) -/
def jStrs (l : List Str) : J := .arr (l.map J.str)

mutual
  /-- a dynamic value of a metadata map (`interface{}`) -/
  def valToJ : Val → J
    | .str s => .str s
    | .int i => .num (decInt i)
    | .bool b => .bool b
    | .strs l => jStrs l
    | .obj kvs => .obj (sortMembers (valsToJ kvs))
  def valsToJ : List (Str × Val) → List (Str × J)
    | [] => []
    | (k, v) :: rest => (k, valToJ v) :: valsToJ rest
end

/-- `map[string]interface{}` -/
def mapToJ (m : MapSV) : J := .obj (sortMembers (valsToJ m))

/-- `json.Marshal(v)` of `formatValue`'s nested-map case: the `marshal` parameter of `Model/Export.lean` -/
def goMarshal (m : MapSV) : Str := Tabula.Json.marshal (mapToJ m)

def omitStr (k s : Str) : List (Str × J) := if s.isEmpty then [] else [(k, .str s)]
def omitInt (k : Str) (i : Int) : List (Str × J) := if i = 0 then [] else [(k, .num (decInt i))]
def omitBool (k : Str) (b : Bool) : List (Str × J) := if b then [(k, .bool true)] else []

/-- `ExportedChunk` under its struct tags (every field `omitempty`; `Embeddings` is never set) -/
def exportedToJ (e : Exported) : J :=
  .obj (omitStr kId e.id ++ omitStr kText e.text ++
    (match e.metadata with
     | some m => if m.isEmpty then [] else [(kMetadata, mapToJ m)]
     | none => []) ++
    omitStr kDocumentTitle e.documentTitle ++ omitInt kPageStart e.pageStart ++ omitInt kPageEnd e.pageEnd ++
    omitInt kChunkIndex e.chunkIndex ++ omitStr kSectionTitle e.sectionTitle ++
    (if e.sectionPath.isEmpty then [] else [(kSectionPath, jStrs e.sectionPath)]) ++
    omitBool kHasTable e.hasTable ++ omitBool kHasList e.hasList ++ omitBool kHasImage e.hasImage)

/-! ## the exporters' text -/

/-- `exportJSONL`: one `encoder.Encode` per chunk, never indented -/
def exportJSONLText (cfg : Config) (chunks : List Chunk) : Str :=
  exportJSONL (fun r => Tabula.Json.marshal (exportedToJ r)) cfg chunks

/-- `exportJSON`: one `encoder.Encode` of the slice of records, indented iff PrettyPrint -/
def exportJSONText (cfg : Config) (chunks : List Chunk) : Str :=
  Tabula.Json.encode cfg.prettyPrint (.arr ((exportRecords cfg chunks).map exportedToJ))

/-- `(*Exporter).Export` into a buffer = `ExportToString`; `none` = error -/
def exportToString (cfg : Config) (chunks : List Chunk) : Option Str :=
  match cfg.format with
  | .jsonl => some (exportJSONLText cfg chunks)
  | .json => some (exportJSONText cfg chunks)
  | .csv | .tsv => exportCSV goMarshal cfg chunks
  | .other => none

/-- `(*ChunkCollection).ToJSONL / ToJSON / ToCSV / ToTSV` -/
def toJSONL (chunks : List Chunk) : Option Str := exportToString jsonlExportConfig chunks
def toJSON (chunks : List Chunk) : Option Str := exportToString toJSONConfig chunks
def toCSV (chunks : List Chunk) : Option Str := exportToString csvExportConfig chunks
def toTSV (chunks : List Chunk) : Option Str := exportToString tsvExportConfig chunks

/-- the bytes one successful `WriteChunk` appends to the stream (JSON and JSON Lines alike) -/
def streamLine (cfg : Config) (c : Chunk) : Str :=
  Tabula.Json.encode false (exportedToJ (prepareChunkForExport cfg c))

/-- the stream's content after the records `written` -/
def streamText (written : List Exported) : Str :=
  written.flatMap (fun r => Tabula.Json.encode false (exportedToJ r))

/-! ## vector databases (embedding components are their JSON number text) -/

/-- `[]float64`: nil = `null` -/
def embToJ : Emb Str → J
  | none => .null
  | some l => .arr (l.map J.num)

def pineconeRecordToJ (r : PineconeRecord Str) : J :=
  .obj ([(kId, .str r.id), (kValues, .arr (r.values.map J.num))] ++
    (if r.metadata.isEmpty then [] else [(kMetadata, mapToJ r.metadata)]))

/-- `ExportForPinecone`: `{"vectors": […]}`, indented -/
def pineconeText (chunks : List Chunk) (embs : List (Emb Str)) : Str :=
  Tabula.Json.encode true (.obj [(kVectors, .arr ((pineconeVectors chunks embs).map pineconeRecordToJ))])

def chromaRecordToJ (r : ChromaRecord Str) : J :=
  .obj ([(kIds, jStrs r.ids), (kDocuments, jStrs r.documents)] ++
    (match r.embeddings with
     | some es => [(kEmbeddings, .arr (es.map embToJ))]
     | none => []) ++
    (if r.metadatas.isEmpty then [] else [(kMetadatas, .arr (r.metadatas.map mapToJ))]))

/-- `ExportForChroma`, indented -/
def chromaText (chunks : List Chunk) (embs : List (Emb Str)) : Str :=
  Tabula.Json.encode true (chromaRecordToJ (chromaRecord chunks embs))

def weaviateObjectToJ (o : WeaviateObject Str) : J :=
  .obj ([(kClass, .str o.cls)] ++ omitStr kId o.id ++ [(kProperties, mapToJ o.properties)] ++
    (if o.vector.isEmpty then [] else [(kVector, .arr (o.vector.map J.num))]))

/-- `ExportForWeaviate`: one compact line per chunk -/
def weaviateText (cls : Str) (chunks : List Chunk) (embs : List (Emb Str)) : Str :=
  (weaviateObjects cls chunks embs).flatMap (fun o => Tabula.Json.encode false (weaviateObjectToJ o))

end Tabula.Export
