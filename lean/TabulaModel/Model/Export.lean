import TabulaModel.Model.Csv
/-
Model of rag/export.go (Exporter, BatchExporter, StreamExporter) and of the
collection filters of rag/metadata.go.  Core Lean only.  Strings are byte
lists (`Str`), Go `int` is `Int`, a Go `map[string]interface{}` is an
association list with distinct keys (`MapSV`; iteration order of a Go map is
unspecified, so every consumer of a map in the model is either order
insensitive or sorts, exactly like the Go code has to).

The model follows the tree as it is after the three C14 fix commits (metadata columns only
with IncludeMetadata; JSON Lines never indented; TSV always tab-separated and an unset
CSVDelimiter meaning comma) — see known_findings.txt.

External calls that are parameters: `encoding/json` (the JSON text of a record),
`encoding/csv` (modelled separately in `Model/Csv.lean` as the assumed contract),
`strings.ToLower` / `strings.EqualFold` (Unicode tables), `sort.Strings`
(modelled as insertion sort on bytewise order; its result on distinct keys is
determined by "sorted permutation", which is what the theorems state).
-/
namespace Tabula.Export
open Tabula.Csv (Str)

/-! ## literals (byte values of the Go string constants) -/
def kDocumentTitle : Str := [100, 111, 99, 117, 109, 101, 110, 116, 95, 116, 105, 116, 108, 101]  -- "document_title"
def kSectionPath : Str := [115, 101, 99, 116, 105, 111, 110, 95, 112, 97, 116, 104]  -- "section_path"
def kSectionTitle : Str := [115, 101, 99, 116, 105, 111, 110, 95, 116, 105, 116, 108, 101]  -- "section_title"
def kHeadingLevel : Str := [104, 101, 97, 100, 105, 110, 103, 95, 108, 101, 118, 101, 108]  -- "heading_level"
def kPageStart : Str := [112, 97, 103, 101, 95, 115, 116, 97, 114, 116]  -- "page_start"
def kPageEnd : Str := [112, 97, 103, 101, 95, 101, 110, 100]  -- "page_end"
def kChunkIndex : Str := [99, 104, 117, 110, 107, 95, 105, 110, 100, 101, 120]  -- "chunk_index"
def kTotalChunks : Str := [116, 111, 116, 97, 108, 95, 99, 104, 117, 110, 107, 115]  -- "total_chunks"
def kLevel : Str := [108, 101, 118, 101, 108]  -- "level"
def kParentId : Str := [112, 97, 114, 101, 110, 116, 95, 105, 100]  -- "parent_id"
def kChildIds : Str := [99, 104, 105, 108, 100, 95, 105, 100, 115]  -- "child_ids"
def kElementTypes : Str := [101, 108, 101, 109, 101, 110, 116, 95, 116, 121, 112, 101, 115]  -- "element_types"
def kHasTable : Str := [104, 97, 115, 95, 116, 97, 98, 108, 101]  -- "has_table"
def kHasList : Str := [104, 97, 115, 95, 108, 105, 115, 116]  -- "has_list"
def kHasImage : Str := [104, 97, 115, 95, 105, 109, 97, 103, 101]  -- "has_image"
def kCharCount : Str := [99, 104, 97, 114, 95, 99, 111, 117, 110, 116]  -- "char_count"
def kWordCount : Str := [119, 111, 114, 100, 95, 99, 111, 117, 110, 116]  -- "word_count"
def kEstimatedTokens : Str := [101, 115, 116, 105, 109, 97, 116, 101, 100, 95, 116, 111, 107, 101, 110, 115]  -- "estimated_tokens"
def kId : Str := [105, 100]  -- "id"
def kText : Str := [116, 101, 120, 116]  -- "text"
def kEmbeddings : Str := [101, 109, 98, 101, 100, 100, 105, 110, 103, 115]  -- "embeddings"
def kMeta : Str := [109, 101, 116, 97, 95]  -- "meta_"
def kTrue : Str := [116, 114, 117, 101]  -- "true"
def kFalse : Str := [102, 97, 108, 115, 101]  -- "false"
def kDocument : Str := [100, 111, 99, 117, 109, 101, 110, 116]  -- "document"
def kSection : Str := [115, 101, 99, 116, 105, 111, 110]  -- "section"
def kParagraph : Str := [112, 97, 114, 97, 103, 114, 97, 112, 104]  -- "paragraph"
def kSentence : Str := [115, 101, 110, 116, 101, 110, 99, 101]  -- "sentence"
def kUnknown : Str := [117, 110, 107, 110, 111, 119, 110]  -- "unknown"

/-! ## values and maps -/

/-- the dynamic values that occur in an export metadata map -/
inductive Val where
  | str (s : Str)
  | int (i : Int)
  | bool (b : Bool)
  | strs (l : List Str)              -- `[]string`
  | obj (kvs : List (Str × Val))     -- nested `map[string]interface{}` (never produced from a chunk)

abbrev MapSV := List (Str × Val)

/-- `m[k] = v` -/
def mapInsert (m : MapSV) (k : Str) (v : Val) : MapSV :=
  match m with
  | [] => [(k, v)]
  | (k', v') :: rest => if k' = k then (k, v) :: rest else (k', v') :: mapInsert rest k v

/-- `v, ok := m[k]` -/
def mapLookup (m : MapSV) (k : Str) : Option Val :=
  match m with
  | [] => none
  | (k', v') :: rest => if k' = k then some v' else mapLookup rest k

def mapKeys (m : MapSV) : List Str := m.map (·.1)

/-! ## chunks -/

structure Meta where
  documentTitle : Str := []
  sectionPath : List Str := []
  sectionTitle : Str := []
  headingLevel : Int := 0
  pageStart : Int := 0
  pageEnd : Int := 0
  chunkIndex : Int := 0
  totalChunks : Int := 0
  level : Int := 0
  parentID : Str := []
  childIDs : List Str := []
  elementTypes : List Str := []
  hasTable : Bool := false
  hasList : Bool := false
  hasImage : Bool := false
  charCount : Int := 0
  wordCount : Int := 0
  estimatedTokens : Int := 0

structure Chunk where
  id : Str
  text : Str
  md : Meta

/-- `ChunkLevel.String` -/
def levelString (l : Int) : Str :=
  if l = 0 then kDocument else if l = 1 then kSection else if l = 2 then kParagraph
  else if l = 3 then kSentence else kUnknown

/-! ## decimal printing (`%d`) -/

def decAux : Nat → Str → Str
  | n, acc =>
    if n < 10 then (48 + n) :: acc
    else decAux (n / 10) ((48 + n % 10) :: acc)
decreasing_by omega

def dec (n : Nat) : Str := decAux n []

/-- `fmt.Sprintf("%d", i)` -/
def decInt (i : Int) : Str := if i < 0 then 45 :: dec i.natAbs else dec i.natAbs

/-! ## configuration -/

inductive Format where
  | jsonl | json | csv | tsv | other
  deriving DecidableEq, Repr

structure Config where
  format : Format := .jsonl
  includeMetadata : Bool := true
  metadataFields : Option (List Str) := none     -- `nil` = all
  includeText : Bool := true
  includeEmbeddings : Bool := false
  flattenMetadata : Bool := false
  csvDelimiter : Nat := 44
  includeHeader : Bool := true
  prettyPrint : Bool := false
  textColumnName : Str := kText
  chunkIDColumnName : Str := [99, 104, 117, 110, 107, 95, 105, 100]  -- "chunk_id"

/-- `ExportedChunk` (the `Embeddings` field is never set by `prepareChunkForExport`) -/
structure Exported where
  id : Str
  text : Str
  metadata : Option MapSV     -- `none` = nil map (IncludeMetadata = false)
  documentTitle : Str
  pageStart : Int
  pageEnd : Int
  chunkIndex : Int
  sectionTitle : Str
  sectionPath : List Str
  hasTable : Bool
  hasList : Bool
  hasImage : Bool

/-! ## rag/export.go -/

/-- `chunkMetadataToMap` (insertion order of the Go code; all keys distinct) -/
def chunkMetadataToMap (m : Meta) : MapSV :=
  (if m.documentTitle ≠ [] then [(kDocumentTitle, Val.str m.documentTitle)] else []) ++
  (if m.sectionPath ≠ [] then [(kSectionPath, Val.strs m.sectionPath)] else []) ++
  (if m.sectionTitle ≠ [] then [(kSectionTitle, Val.str m.sectionTitle)] else []) ++
  (if m.headingLevel > 0 then [(kHeadingLevel, Val.int m.headingLevel)] else []) ++
  (if m.pageStart > 0 then [(kPageStart, Val.int m.pageStart)] else []) ++
  (if m.pageEnd > 0 then [(kPageEnd, Val.int m.pageEnd)] else []) ++
  [(kChunkIndex, Val.int m.chunkIndex)] ++
  (if m.totalChunks > 0 then [(kTotalChunks, Val.int m.totalChunks)] else []) ++
  [(kLevel, Val.str (levelString m.level))] ++
  (if m.parentID ≠ [] then [(kParentId, Val.str m.parentID)] else []) ++
  (if m.childIDs ≠ [] then [(kChildIds, Val.strs m.childIDs)] else []) ++
  (if m.elementTypes ≠ [] then [(kElementTypes, Val.strs m.elementTypes)] else []) ++
  (if m.hasTable then [(kHasTable, Val.bool true)] else []) ++
  (if m.hasList then [(kHasList, Val.bool true)] else []) ++
  (if m.hasImage then [(kHasImage, Val.bool true)] else []) ++
  (if m.charCount > 0 then [(kCharCount, Val.int m.charCount)] else []) ++
  (if m.wordCount > 0 then [(kWordCount, Val.int m.wordCount)] else []) ++
  (if m.estimatedTokens > 0 then [(kEstimatedTokens, Val.int m.estimatedTokens)] else [])

/-- `fullKey := key; if prefix != "" { fullKey = prefix + "." + key }` -/
def fullKeyOf (pre k : Str) : Str := if pre = [] then k else pre ++ 46 :: k

/-- the loop of `flattenMetadata(data, prefix)` with `result` as accumulator.  Entries are
visited in list order; on colliding flattened keys (only possible with dotted keys) the Go
result depends on map iteration order — the harness does not generate such maps. -/
def flattenGo : MapSV → Str → MapSV → MapSV
  | [], _, acc => acc
  | (k, .obj kvs) :: rest, pre, acc =>
    let nested := flattenGo kvs (fullKeyOf pre k) []
    flattenGo rest pre (nested.foldl (fun r (e : Str × Val) => mapInsert r e.1 e.2) acc)
  | (k, v) :: rest, pre, acc => flattenGo rest pre (mapInsert acc (fullKeyOf pre k) v)

/-- `flattenMetadata` -/
def flattenMetadata (data : MapSV) (pre : Str) : MapSV := flattenGo data pre []

/-- loop `for _, field := range e.config.MetadataFields` of `filterMetadata` -/
def filterFields : List Str → MapSV → MapSV → MapSV
  | [], _, acc => acc
  | f :: fs, md, acc =>
    match mapLookup md f with
    | some v => filterFields fs md (mapInsert acc f v)
    | none => filterFields fs md acc

/-- `(*Exporter).filterMetadata` -/
def filterMetadata (cfg : Config) (md : MapSV) : MapSV :=
  match cfg.metadataFields with
  | none => if cfg.flattenMetadata then flattenMetadata md [] else md
  | some fields =>
    let filtered := filterFields fields md []
    if cfg.flattenMetadata then flattenMetadata filtered [] else filtered

/-- `(*Exporter).prepareChunkForExport` -/
def prepareChunkForExport (cfg : Config) (c : Chunk) : Exported :=
  { id := c.id
    chunkIndex := c.md.chunkIndex
    documentTitle := c.md.documentTitle
    pageStart := c.md.pageStart
    pageEnd := c.md.pageEnd
    sectionTitle := c.md.sectionTitle
    sectionPath := c.md.sectionPath
    hasTable := c.md.hasTable
    hasList := c.md.hasList
    hasImage := c.md.hasImage
    text := if cfg.includeText then c.text else []
    metadata := if cfg.includeMetadata then some (filterMetadata cfg (chunkMetadataToMap c.md)) else none }

/-- `isStandardColumn` -/
def standardKeys : List Str :=
  [kDocumentTitle, kPageStart, kPageEnd, kChunkIndex, kSectionTitle, kHasTable, kHasList, kHasImage, kId, kText]

def isStandardColumn (k : Str) : Bool := standardKeys.contains k

/-- `metadataKeys[key] = true` on a set kept as a duplicate-free list -/
def setInsert (s : List Str) (k : Str) : List Str := if k ∈ s then s else s ++ [k]

/-- the metadata keys one chunk contributes in `collectCSVColumns` (before the standard-column test) -/
def chunkKeys (cfg : Config) (c : Chunk) : List Str :=
  let metaMap := chunkMetadataToMap c.md
  let m := if cfg.flattenMetadata then flattenMetadata metaMap [] else metaMap
  mapKeys (filterMetadata cfg m)

/-- `for key := range filtered { if !isStandardColumn(key) { metadataKeys[key] = true } }` -/
def addKeys : List Str → List Str → List Str
  | [], keys => keys
  | k :: ks, keys => addKeys ks (if isStandardColumn k then keys else setInsert keys k)

/-- `for _, chunk := range chunks { … }` of `collectCSVColumns` -/
def collectKeys (cfg : Config) : List Chunk → List Str → List Str
  | [], keys => keys
  | c :: cs, keys => collectKeys cfg cs (addKeys (chunkKeys cfg c) keys)

/-- bytewise `a <= b` (Go string comparison) -/
def strLe : Str → Str → Bool
  | [], _ => true
  | _ :: _, [] => false
  | a :: as, b :: bs => if a < b then true else if a = b then strLe as bs else false

def insertSorted (x : Str) : List Str → List Str
  | [] => [x]
  | y :: ys => if strLe x y then x :: y :: ys else y :: insertSorted x ys

/-- `sort.Strings` -/
def sortStrings : List Str → List Str
  | [] => []
  | x :: xs => insertSorted x (sortStrings xs)

/-- the columns every export starts with -/
def fixedColumns (cfg : Config) : List Str :=
  [cfg.chunkIDColumnName] ++ (if cfg.includeText then [cfg.textColumnName] else []) ++
  [kChunkIndex, kDocumentTitle, kPageStart, kPageEnd, kSectionTitle, kHasTable, kHasList, kHasImage]

/-- sorted metadata keys of `collectCSVColumns` (metadata columns only when IncludeMetadata is set) -/
def sortedMetaKeys (cfg : Config) (chunks : List Chunk) : List Str :=
  if cfg.includeMetadata then sortStrings (collectKeys cfg chunks []) else []

/-- `(*Exporter).collectCSVColumns` -/
def collectCSVColumns (cfg : Config) (chunks : List Chunk) : List Str :=
  fixedColumns cfg ++ (sortedMetaKeys cfg chunks).map (kMeta ++ ·) ++
  (if cfg.includeEmbeddings then [kEmbeddings] else [])

/-- `strings.Join(v, ",")` -/
def joinComma : List Str → Str
  | [] => []
  | [s] => s
  | s :: t :: rest => s ++ 44 :: joinComma (t :: rest)

/-- `formatValue`; `marshal` stands for `json.Marshal` of a nested map -/
def formatValue (marshal : MapSV → Str) : Val → Str
  | .str s => s
  | .int i => decInt i
  | .bool b => if b then kTrue else kFalse
  | .strs l => 91 :: (joinComma l ++ [93])
  | .obj kvs => marshal kvs

def boolStr (b : Bool) : Str := if b then kTrue else kFalse

/-- `strings.HasPrefix(column, "meta_")` / `strings.TrimPrefix` -/
def stripMeta (col : Str) : Option Str :=
  if kMeta.isPrefixOf col then some (col.drop kMeta.length) else none

/-- `(*Exporter).getColumnValue` (a Go `switch` takes the first matching case) -/
def getColumnValue (marshal : MapSV → Str) (cfg : Config) (ec : Exported) (column : Str) : Str :=
  if column = cfg.chunkIDColumnName then ec.id
  else if column = cfg.textColumnName then ec.text
  else if column = kChunkIndex then decInt ec.chunkIndex
  else if column = kDocumentTitle then ec.documentTitle
  else if column = kPageStart then decInt ec.pageStart
  else if column = kPageEnd then decInt ec.pageEnd
  else if column = kSectionTitle then ec.sectionTitle
  else if column = kHasTable then boolStr ec.hasTable
  else if column = kHasList then boolStr ec.hasList
  else if column = kHasImage then boolStr ec.hasImage
  else if column = kEmbeddings then []
  else match stripMeta column with
    | some key =>
      (match ec.metadata with
       | some md => (match mapLookup md key with
                     | some v => formatValue marshal v
                     | none => [])
       | none => [])
    | none => []

/-- `(*Exporter).chunkToCSVRow`: `for i, col := range columns { row[i] = getColumnValue(chunk, col) }` -/
def chunkToCSVRow (marshal : MapSV → Str) (cfg : Config) (ec : Exported) : List Str → List Str
  | [] => []
  | col :: cols => getColumnValue marshal cfg ec col :: chunkToCSVRow marshal cfg ec cols

/-- the data-row loop of `exportCSV`: one `csvWriter.Write(row)` per chunk -/
def csvDataRows (marshal : MapSV → Str) (cfg : Config) (columns : List Str) : List Chunk → List (List Str)
  | [] => []
  | c :: cs => chunkToCSVRow marshal cfg (prepareChunkForExport cfg c) columns :: csvDataRows marshal cfg columns cs

/-- the records `exportCSV` hands to `csv.Writer.Write`, in call order -/
def exportCSVRecords (marshal : MapSV → Str) (cfg : Config) (chunks : List Chunk) : List (List Str) :=
  let columns := collectCSVColumns cfg chunks
  (if cfg.includeHeader then [columns] else []) ++ csvDataRows marshal cfg columns chunks

/-- the delimiter `exportCSV` configures: TSV is tab-separated, CSV uses `CSVDelimiter`
(comma when unset) -/
def delimiter (cfg : Config) : Nat :=
  if cfg.format = .tsv then 9 else if cfg.csvDelimiter = 0 then 44 else cfg.csvDelimiter

/-- `(*Exporter).exportCSV` as text, through the assumed `encoding/csv` writer.
`none` = the error `csv: invalid field or comment delimiter` of the first `Write`. -/
def exportCSV (marshal : MapSV → Str) (cfg : Config) (chunks : List Chunk) : Option Str :=
  let recs := exportCSVRecords marshal cfg chunks
  if recs = [] then some []
  else if Tabula.Csv.validDelim (delimiter cfg) then some (Tabula.Csv.csvWrite Tabula.Csv.goExtra (delimiter cfg) recs)
  else none

/-- the loop of `exportJSONL` / `exportJSON`: the records handed to `encoding/json`, in order -/
def exportRecords (cfg : Config) : List Chunk → List Exported
  | [] => []
  | c :: cs => prepareChunkForExport cfg c :: exportRecords cfg cs

/-- `exportJSONL`: one `encoder.Encode` per chunk (`enc` = JSON text of a record, without the
trailing newline that `Encode` appends; JSON Lines is never indented) -/
def exportJSONL (enc : Exported → Str) (cfg : Config) (chunks : List Chunk) : Str :=
  (exportRecords cfg chunks).flatMap (fun r => enc r ++ [10])

/-! ### BatchExporter -/

structure Batch (α : Type) where
  batchNumber : Nat
  startIndex : Nat
  endIndex : Nat
  chunkCount : Nat
  items : List α            -- `chunks[i:end]`, what `Data` is exported from

/-- `for i := 0; i < len(chunks); i += be.batchSize { … }` of `(*BatchExporter).Export` -/
def batchLoop {α : Type} (size : Nat) (hs : 0 < size) (chunks : List α) (i : Nat) : List (Batch α) :=
  if h : i < chunks.length then
    let e := if i + size > chunks.length then chunks.length else i + size
    { batchNumber := i / size, startIndex := i, endIndex := e, chunkCount := e - i,
      items := (chunks.drop i).take (e - i) } :: batchLoop size hs chunks (i + size)
  else []
termination_by chunks.length - i
decreasing_by omega

/-- `(*BatchExporter).Export`; `none` for batch size 0 = the error "batch size must be positive" (fix e7cdf1b;
before it the call panicked on a non-empty collection — not, as an earlier comment said, a loop that does not
terminate; every `int` size incl. negative ones: `batchExportRunInt` in `Model/ExportIO.lean`) -/
def batchExport {α : Type} (size : Nat) (chunks : List α) : Option (List (Batch α)) :=
  if hs : 0 < size then some (batchLoop size hs chunks 0) else none

/-! ### StreamExporter -/

/-- `(*StreamExporter).WriteChunk`: appends one record to the stream, or fails for CSV/TSV -/
def writeChunk (cfg : Config) (stream : List Exported) (c : Chunk) : Option (List Exported) :=
  match cfg.format with
  | .jsonl | .json => some (stream ++ [prepareChunkForExport cfg c])
  | _ => none

/-- a caller's loop `for i, c := range chunks { se.WriteChunk(c, i) }; se.Close()` -/
def streamAll (cfg : Config) : List Chunk → List Exported → Option (List Exported)
  | [], stream => some stream
  | c :: cs, stream =>
    match writeChunk cfg stream c with
    | none => none
    | some s' => streamAll cfg cs s'

/-! ## rag/metadata.go: collection filters -/

/-- the loop of `(*ChunkCollection).Filter` (`filtered = append(filtered, c)`) -/
def filterLoop (p : Chunk → Bool) : List Chunk → List Chunk → List Chunk
  | [], acc => acc
  | c :: cs, acc => filterLoop p cs (if p c then acc ++ [c] else acc)

/-- `(*ChunkCollection).Filter` -/
def filterC (p : Chunk → Bool) (cs : List Chunk) : List Chunk := filterLoop p cs []

/-- `for _, s := range m.SectionPath { if s == sectionTitle { return true } }` -/
def pathHas (t : Str) : List Str → Bool
  | [] => false
  | s :: rest => if s = t then true else pathHas t rest

/-- `(*ChunkMetadata).IsInSection` -/
def isInSection (m : Meta) (t : Str) : Bool :=
  if m.sectionTitle = t then true else pathHas t m.sectionPath

/-- `(*ChunkMetadata).IsOnPage` -/
def isOnPage (m : Meta) (page : Int) : Bool := decide (page ≥ m.pageStart) && decide (page ≤ m.pageEnd)

/-- `(*ChunkMetadata).ContainsElementType`; `eqFold` = `strings.EqualFold` -/
def containsElementType (eqFold : Str → Str → Bool) (t : Str) : List Str → Bool
  | [] => false
  | et :: rest => if eqFold et t then true else containsElementType eqFold t rest

/-- `strings.Contains` -/
def hasPrefixB : Str → Str → Bool
  | [], _ => true
  | _ :: _, [] => false
  | a :: as, b :: bs => a == b && hasPrefixB as bs

def containsB (sub : Str) : Str → Bool
  | [] => sub.isEmpty
  | c :: cs => hasPrefixB sub (c :: cs) || containsB sub cs

/-- one filtering call on a collection -/
inductive FilterOp where
  | section (t : Str)
  | page (p : Int)
  | pageRange (s e : Int)
  | elementType (t : Str)
  | tables | lists | images
  | minTokens (n : Int)
  | maxTokens (n : Int)
  | search (keyword : Str)

/-- environment: the two Unicode-table functions of package `strings` -/
structure StrEnv where
  toLower : Str → Str
  eqFold : Str → Str → Bool

/-- the predicate each `FilterBy*`/`Search` method passes to `Filter` -/
def opPred (env : StrEnv) : FilterOp → Chunk → Bool
  | .section t => fun c => isInSection c.md t
  | .page p => fun c => isOnPage c.md p
  | .pageRange s e => fun c => decide (c.md.pageEnd ≥ s) && decide (c.md.pageStart ≤ e)
  | .elementType t => fun c => containsElementType env.eqFold t c.md.elementTypes
  | .tables => fun c => c.md.hasTable
  | .lists => fun c => c.md.hasList
  | .images => fun c => c.md.hasImage
  | .minTokens n => fun c => decide (c.md.estimatedTokens ≥ n)
  | .maxTokens n => fun c => decide (c.md.estimatedTokens ≤ n)
  | .search kw => fun c => containsB (env.toLower kw) (env.toLower c.text)

/-- `cc.FilterBy…(…)` -/
def applyOp (env : StrEnv) (op : FilterOp) (cs : List Chunk) : List Chunk := filterC (opPred env op) cs

/-- `cc.FilterA(…).FilterB(…)…` -/
def applyChain (env : StrEnv) : List FilterOp → List Chunk → List Chunk
  | [], cs => cs
  | op :: ops, cs => applyChain env ops (applyOp env op cs)

end Tabula.Export
