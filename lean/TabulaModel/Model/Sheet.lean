import TabulaModel.Model.A1
/-
Model of xlsx/reader.go parseWorksheet (dimension pass, allocation, placement by
reference, type switch, merge pass), TextWithOptions (default options) and the
Markdown/Document content-bounds logic.  Core Lean only.
-/
namespace Tabula.Sheet
open Tabula.A1

inductive CType | str | num | bool | formula | err | empty
  deriving Repr, DecidableEq, Inhabited

structure Cell where
  value : Str := []
  type : CType := .empty
  merged : Bool := false
  root : Bool := false
  mergeRows : Nat := 1
  mergeCols : Nat := 1
  deriving Repr, DecidableEq, Inhabited

/-- one `<c>` element as unmarshalled: r, t, v, f, inline-string text (none = no `<is>`) -/
structure CellXML where
  ref : Str
  t : Str
  v : Str
  f : Str
  is : Option Str
  deriving Repr

structure RowXML where
  r : Int
  cells : List CellXML
  deriving Repr

abbrev Grid := List (List Cell)

def Grid.get (g : Grid) (r c : Nat) : Option Cell := (g[r]?).bind (·[c]?)

def Grid.modify (g : Grid) (r c : Nat) (f : Cell → Cell) : Grid :=
  match g[r]? with
  | none => g
  | some row =>
    match row[c]? with
    | none => g
    | some cell => g.set r (row.set c (f cell))

/-- column of a cell reference, `none` when `ParseCellRef` fails -/
def refCol (ref : Str) : Option Nat :=
  match parseCellRef ref with
  | .ok (c, _) => some c.toNat
  | .error _ => none

def maxRowOf (rows : List RowXML) : Nat :=
  rows.foldl (fun m r => if r.r > (m : Int) then r.r.toNat else m) 0

def maxColOf (rows : List RowXML) : Nat :=
  rows.foldl (fun m r => r.cells.foldl (fun m c =>
    match refCol c.ref with
    | some col => if col > m then col else m
    | none => m) m) 0

def tS : Str := [115]
def tB : Str := [98]
def tE : Str := [101]
def tStr : Str := [115, 116, 114]
def tInline : Str := [105, 110, 108, 105, 110, 101, 83, 116, 114]
def sTRUE : Str := [84, 82, 85, 69]
def sFALSE : Str := [70, 65, 76, 83, 69]

/-- the type switch of `parseWorksheet`: (type,value) written into the cell.
`none` for a component means "left as it was". -/
def cellContent (shared : List Str) (x : CellXML) (old : Cell) : Cell :=
  if x.t = tS then
    let v := match atoi x.v with
      | some idx => if 0 ≤ idx then (match shared[idx.toNat]? with | some s => s | none => old.value) else old.value
      | none => old.value
    { old with type := .str, value := v }
  else if x.t = tB then
    { old with type := .bool, value := if x.v = [49] then sTRUE else sFALSE }
  else if x.t = tE then { old with type := .err, value := x.v }
  else if x.t = tStr then { old with type := .str, value := x.v }
  else if x.t = tInline then
    { old with type := .str, value := match x.is with | some s => s | none => old.value }
  else if x.v ≠ [] then { old with type := .num, value := x.v }
  else if x.f ≠ [] then { old with type := .formula, value := [] }
  else old

def placeCell (shared : List Str) (rowIdx : Nat) (g : Grid) (x : CellXML) : Grid :=
  match refCol x.ref with
  | none => g
  | some col => g.modify rowIdx col (cellContent shared x)

def placeRow (shared : List Str) (g : Grid) (row : RowXML) : Grid :=
  if row.r - 1 < 0 then g
  else if (row.r - 1).toNat ≥ g.length then g
  else row.cells.foldl (placeCell shared (row.r - 1).toNat) g

structure Region where
  sr : Nat
  sc : Nat
  er : Nat
  ec : Nat
  deriving Repr, DecidableEq

def parseRegion (ref : Str) : Option Region :=
  match parseRangeRef ref with
  | .ok (sc, sr, ec, er) => some ⟨sr.toNat, sc.toNat, er.toNat, ec.toNat⟩
  | .error _ => none

/-- positions covered by a region, row-major, as the Go double loop visits them -/
def regionCells (m : Region) : List (Nat × Nat) :=
  (List.range (m.er + 1 - m.sr)).flatMap fun dr =>
    (List.range (m.ec + 1 - m.sc)).map fun dc => (m.sr + dr, m.sc + dc)

/-- what the merge pass does to the cell at position `rc` of region `m` -/
def markCell (m : Region) (rc : Nat × Nat) (cell : Cell) : Cell :=
  if rc.1 = m.sr ∧ rc.2 = m.sc then
    { cell with merged := true, root := true,
                mergeRows := m.er - m.sr + 1, mergeCols := m.ec - m.sc + 1 }
  else { cell with merged := true }

def applyRegion (g : Grid) (m : Region) : Grid :=
  (regionCells m).foldl (fun g (rc : Nat × Nat) => g.modify rc.1 rc.2 (markCell m rc)) g

def emptyGrid (nrows ncols : Nat) : Grid := List.replicate nrows (List.replicate ncols {})

/-- `rows*cols` of the budget test in the merge loop of `parseWorksheet`: the cells of region `m`
clipped to a grid of `nrows` x `ncols` cells.  The Go code computes `endRow = min(EndRow,
maxRow-1)`, `rows = endRow-StartRow+1` (likewise columns) on `int`s and charges `rows*cols` only
if `rows > 0 && cols > 0`; with truncated subtraction `rows = min(EndRow+1, maxRow) - StartRow`
is 0 exactly where the Go value is `<= 0` and equal to it otherwise. -/
def clipArea (nrows ncols : Nat) (m : Region) : Nat :=
  (min (m.er + 1) nrows - m.sr) * (min (m.ec + 1) ncols - m.sc)

/-- the merge loop of `parseWorksheet` (`for _, mr := range sheet.MergedRegions`) since the fixes
"merged regions of a worksheet are applied within a budget of one grid" and "merged regions with
no cell inside the grid are skipped": the regions are taken in file order; a region whose clipped
rectangle is empty (`rows <= 0 || cols <= 0`) is skipped (`continue`: no loop runs for it, nothing
is charged); any other region is charged its `rows*cols` cells against `budget` (initially
`maxRow*(maxCol+1)`), and the first one that exceeds what is left ends the loop (`break`): it and
every later region are not applied.  `mark` is the double loop that marks the cells of one region. -/
def mergeLoop (mark : Grid → Region → Grid) (nrows ncols : Nat) : List Region → Nat → Grid → Grid
  | [], _, g => g
  | m :: ms, budget, g =>
    let rows := min (m.er + 1) nrows - m.sr
    let cols := min (m.ec + 1) ncols - m.sc
    if rows = 0 ∨ cols = 0 then mergeLoop mark nrows ncols ms budget g
    else if rows * cols > budget then g
    else mergeLoop mark nrows ncols ms (budget - rows * cols) (mark g m)

/-- `parseWorksheet` (one sheet on its own: dimension pass, allocation, placement, merge loop) -/
def parseWorksheet (shared : List Str) (rows : List RowXML) (merges : List Str) : Grid :=
  let g0 := emptyGrid (maxRowOf rows) (maxColOf rows + 1)
  let g1 := rows.foldl (placeRow shared) g0
  mergeLoop applyRegion (maxRowOf rows) (maxColOf rows + 1) (merges.filterMap parseRegion)
    (maxRowOf rows * (maxColOf rows + 1)) g1

def intercalate (sep : Str) : List Str → Str
  | [] => []
  | [x] => x
  | x :: xs => x ++ sep ++ intercalate sep xs

def cellText (c : Cell) : Str := if c.merged && !c.root then [] else c.value

/-- `TextWithOptions` for one sheet, default delimiter -/
def sheetText (g : Grid) : Str :=
  intercalate [10] (g.map fun row => intercalate [9] (row.map cellText))

end Tabula.Sheet

namespace Tabula.Sheet
open Tabula.A1

/-- split at every occurrence of `sep` (n separators give n+1 fields) — how a reader of the
tab-separated text recovers lines and fields -/
def splitAux (sep : Nat) : Str → Str → List Str
  | [], cur => [cur.reverse]
  | c :: cs, cur => if c = sep then cur.reverse :: splitAux sep cs [] else splitAux sep cs (c :: cur)

def splitOn (sep : Nat) (s : Str) : List Str := splitAux sep s []

end Tabula.Sheet
