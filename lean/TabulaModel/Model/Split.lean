/-
Model of `rag/size_config.go` (as it is after the C13 fixes on branch agent-C13):
`SizeCalculator.GetSize/IsAboveMax`, `FindSplitPointAt`, `findBestBoundaryNear`,
`findSentenceEndNear`, `findWordBoundaryBefore`, `findWordBoundaryNear`,
`runeBoundaryNear`, `SplitToSize`, `adjustBoundaryPositions`, and of the pieces of
the Go standard library they use (`strings.TrimSpace`, `utf8.RuneStart`,
`utf8.DecodeRuneInString`, `unicode.IsSpace`) as byte patterns.

Strings are byte lists (`List Nat`, every element < 256 on the wire).  Core Lean only.
-/
set_option linter.unusedVariables false
namespace Tabula.Split

abbrev Str := List Nat

/-! ## UTF-8 (unicode/utf8) -/

/-- continuation byte `10xxxxxx` -/
def isCont (b : Nat) : Bool := 0x80 ≤ b && b ≤ 0xBF

/-- `utf8.RuneStart(b)`: `b&0xC0 != 0x80` -/
def runeStart (b : Nat) : Bool := !isCont b

def ok2 (a b : Nat) : Bool := 0xC2 ≤ a && a ≤ 0xDF && isCont b

def ok3 (a b c : Nat) : Bool :=
  ((a == 0xE0 && 0xA0 ≤ b && b ≤ 0xBF) || (0xE1 ≤ a && a ≤ 0xEC && isCont b)
    || (a == 0xED && 0x80 ≤ b && b ≤ 0x9F) || (0xEE ≤ a && a ≤ 0xEF && isCont b)) && isCont c

def ok4 (a b c d : Nat) : Bool :=
  ((a == 0xF0 && 0x90 ≤ b && b ≤ 0xBF) || (0xF1 ≤ a && a ≤ 0xF3 && isCont b)
    || (a == 0xF4 && 0x80 ≤ b && b ≤ 0x8F)) && isCont c && isCont d

/-- Length of the well-formed UTF-8 encoding of one scalar value at the head of `s`
(the `first`/`acceptRanges` tables of unicode/utf8: no overlongs, no surrogates,
nothing above U+10FFFF); 0 if there is none. -/
def charLen : Str → Nat
  | [] => 0
  | a :: rest =>
    if a < 0x80 then 1 else
    match rest with
    | [] => 0
    | b :: rest2 =>
      if ok2 a b then 2 else
      match rest2 with
      | [] => 0
      | c :: rest3 =>
        if ok3 a b c then 3 else
        match rest3 with
        | [] => 0
        | d :: _ => if ok4 a b c d then 4 else 0

theorem charLen_le_length (s : Str) : charLen s ≤ s.length := by
  unfold charLen
  repeat' split
  all_goals simp

/-- `utf8.DecodeRuneInString(s)` size: an ill-formed head decodes as U+FFFD of width 1 -/
def runeLen (s : Str) : Nat := if charLen s = 0 then 1 else charLen s

/-- `utf8.Valid`: the string is a concatenation of well-formed encodings -/
def validUtf8 (s : Str) : Bool :=
  if h : s = [] then true
  else if h2 : charLen s = 0 then false
  else validUtf8 (s.drop (charLen s))
termination_by s.length
decreasing_by
  have : 0 < s.length := List.length_pos_iff.mpr h
  simp only [List.length_drop]; omega

/-! ## unicode.IsSpace / strings.TrimSpace -/

def isAsciiSpace (b : Nat) : Bool := (9 ≤ b && b ≤ 13) || b == 32

/-- the three-byte White_Space characters: U+1680, U+2000–U+200A, U+2028, U+2029,
U+202F, U+205F, U+3000 -/
def isSpace3 (b c d : Nat) : Bool :=
  (b == 0xE1 && c == 0x9A && d == 0x80)
  || (b == 0xE2 && c == 0x80 && ((0x80 ≤ d && d ≤ 0x8A) || d == 0xA8 || d == 0xA9 || d == 0xAF))
  || (b == 0xE2 && c == 0x81 && d == 0x9F)
  || (b == 0xE3 && c == 0x80 && d == 0x80)

/-- the two-byte White_Space characters U+0085 and U+00A0 -/
def isSpace2 (b c : Nat) : Bool := b == 0xC2 && (c == 0x85 || c == 0xA0)

/-- Length of the encoding of a White_Space character at the head of `s`
(`unicode.IsSpace(utf8.DecodeRuneInString(s))`), 0 if the head is not one. -/
def spaceLen : Str → Nat
  | [] => 0
  | b :: rest =>
    if isAsciiSpace b then 1 else
    match rest with
    | [] => 0
    | c :: rest2 =>
      if isSpace2 b c then 2 else
      match rest2 with
      | [] => 0
      | d :: _ => if isSpace3 b c d then 3 else 0

/-- the same for the *last* character, on the reversed string
(`unicode.IsSpace(utf8.DecodeLastRuneInString(s))`) -/
def spaceLenRev : Str → Nat
  | [] => 0
  | d :: rest =>
    if isAsciiSpace d then 1 else
    match rest with
    | [] => 0
    | c :: rest2 =>
      if isSpace2 c d then 2 else
      match rest2 with
      | [] => 0
      | b :: _ => if isSpace3 b c d then 3 else 0

theorem spaceLen_le_length (s : Str) : spaceLen s ≤ s.length := by
  unfold spaceLen
  repeat' split
  all_goals simp

theorem spaceLenRev_le_length (s : Str) : spaceLenRev s ≤ s.length := by
  unfold spaceLenRev
  repeat' split
  all_goals simp

/-- `strings.TrimLeftFunc(s, unicode.IsSpace)` -/
def trimLeft (s : Str) : Str :=
  if h : spaceLen s = 0 then s else trimLeft (s.drop (spaceLen s))
termination_by s.length
decreasing_by
  have := spaceLen_le_length s
  simp only [List.length_drop]; omega

/-- `TrimRightFunc` on the reversed string -/
def trimLeftRev (s : Str) : Str :=
  if h : spaceLenRev s = 0 then s else trimLeftRev (s.drop (spaceLenRev s))
termination_by s.length
decreasing_by
  have := spaceLenRev_le_length s
  simp only [List.length_drop]; omega

/-- `strings.TrimRightFunc(s, unicode.IsSpace)` -/
def trimRight (s : Str) : Str := (trimLeftRev s.reverse).reverse

/-- `strings.TrimSpace` -/
def trimSpace (s : Str) : Str := trimRight (trimLeft s)

theorem trimLeft_length_le (s : Str) : (trimLeft s).length ≤ s.length := by
  induction s using trimLeft.induct with
  | case1 s h => rw [trimLeft, dif_pos h]; exact Nat.le_refl _
  | case2 s h ih =>
    rw [trimLeft, dif_neg h]
    have := List.length_drop (i := spaceLen s) (l := s)
    omega

theorem trimLeftRev_length_le (s : Str) : (trimLeftRev s).length ≤ s.length := by
  induction s using trimLeftRev.induct with
  | case1 s h => rw [trimLeftRev, dif_pos h]; exact Nat.le_refl _
  | case2 s h ih =>
    rw [trimLeftRev, dif_neg h]
    have := List.length_drop (i := spaceLenRev s) (l := s)
    omega

theorem trimSpace_length_le (s : Str) : (trimSpace s).length ≤ s.length := by
  unfold trimSpace trimRight
  have h1 := trimLeft_length_le s
  have h2 := trimLeftRev_length_le (trimLeft s).reverse
  simp only [List.length_reverse] at *
  omega

/-! ## Size units and metrics (`SizeCalculator.GetSize`) -/

inductive SizeUnit where
  | characters | tokens | words | sentences | paragraphs
  deriving DecidableEq, Repr

/-- The part of `rag.SizeConfig` that splitting reads. `TokensPerChar` is the
rational `tpcNum / tpcDen` (the harness generates dyadic values, for which the
float64 arithmetic of the code is exact). `maxValue` is `Max.Value` (limits ≥ 1 in the
property; a negative limit is outside the model). -/
structure SizeConfig where
  maxValue : Nat
  maxUnit : SizeUnit
  tpcNum : Int
  tpcDen : Nat
  sem : Bool            -- SplitAtSemanticBoundaries
  deriving Repr

/-- `ratio := TokensPerChar; if ratio <= 0 { ratio = 0.25 }` as numerator/denominator -/
def SizeConfig.ratio (c : SizeConfig) : Nat × Nat :=
  if c.tpcNum ≤ 0 ∨ c.tpcDen = 0 then (1, 4) else (c.tpcNum.toNat, c.tpcDen)

/-- `EstimateTokens`: `int(float64(len(text)) * ratio)` -/
def estimateTokens (c : SizeConfig) (s : Str) : Nat := s.length * c.ratio.1 / c.ratio.2

/-- `countWords` (chunker.go): ranges over the runes of `text`; fuel = remaining length -/
def countWordsAux : Nat → Str → Bool → Nat → Nat
  | 0, _, _, words => words
  | fuel + 1, s, inWord, words =>
    if s = [] then words
    else if spaceLen s ≠ 0 then countWordsAux fuel (s.drop (spaceLen s)) false words
    else if inWord then countWordsAux fuel (s.drop (runeLen s)) true words
    else countWordsAux fuel (s.drop (runeLen s)) true (words + 1)

def countWords (s : Str) : Nat := countWordsAux s.length s false 0

def isSentenceEndChar (c : Nat) : Bool := c == 46 || c == 33 || c == 63   -- . ! ?

/-- `countSentences`: `first` is `i == 0` -/
def countSentencesAux : Str → Bool → Bool → Nat → Nat
  | [], _, inS, count => if inS then count + 1 else count
  | c :: rest, first, inS, count =>
    let inS := if !inS && c != 32 && c != 10 && c != 9 then true else inS
    if inS && isSentenceEndChar c then
      match rest with
      | [] => countSentencesAux rest false false (count + 1)
      | next :: _ =>
        if !first then
          if next == 32 || next == 10 || next == 9 then countSentencesAux rest false false (count + 1)
          else countSentencesAux rest false inS count
        else countSentencesAux rest false inS count
    else countSentencesAux rest false inS count

def countSentences (s : Str) : Nat := countSentencesAux s true false 0

/-- `strings.Split(text, "\n\n")`; `acc` is the current part, reversed -/
def splitParagraphs : Str → Str → List Str
  | [], acc => [acc.reverse]
  | [c], acc => [(c :: acc).reverse]
  | c :: d :: rest, acc =>
    if c = 10 ∧ d = 10 then acc.reverse :: splitParagraphs rest []
    else splitParagraphs (d :: rest) (c :: acc)

/-- `countParagraphs` -/
def countParagraphs (s : Str) : Nat :=
  if s = [] then 0 else
  let t := trimSpace s
  if t = [] then 0 else
  let count := ((splitParagraphs t []).filter fun p => trimSpace p ≠ []).length
  if count = 0 then 1 else count

/-- `SizeCalculator.GetSize` -/
def getSize (c : SizeConfig) (s : Str) : SizeUnit → Nat
  | .characters => s.length
  | .tokens => estimateTokens c s
  | .words => countWords s
  | .sentences => countSentences s
  | .paragraphs => countParagraphs s

/-- `SizeCalculator.IsAboveMax` -/
def isAboveMax (c : SizeConfig) (s : Str) : Bool := getSize c s c.maxUnit > c.maxValue

/-! ## Split point search -/

/-- `rag.Boundary` (position, score). A boundary with a negative position is never
selected (`minPos ≥ 0`) and is dropped by the first adjustment, so positions are `Nat`. -/
structure Boundary where
  pos : Nat
  score : Int
  deriving Repr

/-- `findBestBoundaryNear`: the first boundary of highest score (> -1) within
`position ± tolerance` -/
def findBestBoundaryNear (bs : List Boundary) (position tolerance : Nat) : Option Boundary :=
  let minPos := position - tolerance      -- clipped at 0 like the code
  let maxPos := position + tolerance
  let step (acc : Option Boundary × Int) (b : Boundary) : Option Boundary × Int :=
    if minPos ≤ b.pos ∧ b.pos ≤ maxPos ∧ b.score > acc.2 then (some b, b.score) else acc
  (bs.foldl step (none, -1)).1

def isBreak (c : Nat) : Bool := c == 32 || c == 10      -- ' ' or '\n'

def isBreakAt (text : Str) (i : Nat) : Bool :=
  match text[i]? with | some c => isBreak c | none => false

def isSentenceEndAt (text : Str) (i : Nat) : Bool :=
  match text[i]? with | some c => isSentenceEndChar c | none => false

/-- backward sentence-end loop of `findSentenceEndNear`: examines `i, i-1, …`
(`steps` positions, stopping at 0); a hit returns `i+1` -/
def sentBack (text : Str) : Nat → Nat → Option Nat
  | _, 0 => none
  | i, steps + 1 =>
    if isSentenceEndAt text i && isBreakAt text (i + 1) then some (i + 1)
    else if i = 0 then none else sentBack text (i - 1) steps

/-- loop of `findWordBoundaryBefore` -/
def wordBack (text : Str) : Nat → Nat → Option Nat
  | _, 0 => none
  | i, steps + 1 =>
    if isBreakAt text i then some (i + 1)
    else if i = 0 then none else wordBack text (i - 1) steps

/-- `findWordBoundaryBefore`: position after the last space in the 50 bytes before
`targetPos`, 0 if none -/
def findWordBoundaryBefore (text : Str) (targetPos : Nat) : Nat :=
  if targetPos = 0 then 0 else (wordBack text (targetPos - 1) 50).getD 0

/-- forward sentence-end loop: `rest = text[i:]` -/
def sentFwd : Str → Nat → Nat → Option Nat
  | _, _, 0 => none
  | [], _, _ => none
  | c :: rest, i, steps + 1 =>
    if isSentenceEndChar c then
      match rest with
      | [] => some (i + 1)
      | d :: _ => if isBreak d then some (i + 1) else sentFwd rest (i + 1) steps
    else sentFwd rest (i + 1) steps

/-- forward word-boundary loop -/
def wordFwd : Str → Nat → Nat → Option Nat
  | _, _, 0 => none
  | [], _, _ => none
  | c :: rest, i, steps + 1 => if isBreak c then some (i + 1) else wordFwd rest (i + 1) steps

/-- backward scan of `runeBoundaryNear`: from `start`, at most `steps` more steps back
while the byte is not a rune start -/
def backToStart (text : Str) : Nat → Nat → Nat
  | start, 0 => start
  | start, steps + 1 =>
    if start = 0 then 0
    else match text[start]? with
      | some b => if runeStart b then start else backToStart text (start - 1) steps
      | none => start

/-- `runeBoundaryNear` -/
def runeBoundaryNear (text : Str) (pos : Nat) : Nat :=
  if pos = 0 ∨ pos ≥ text.length then pos
  else match text[pos]? with
    | none => pos
    | some b =>
      if runeStart b then pos else
      -- start := pos-1; for start > 0 && pos-start < 3 && !RuneStart(text[start]) { start-- }
      let start := backToStart text (pos - 1) 2
      let size := runeLen (text.drop start)
      if start + size ≤ pos then pos
      else if start > 0 then start
      else size

/-- `findWordBoundaryNear` -/
def findWordBoundaryNear (text : Str) (targetPos : Nat) : Nat :=
  if targetPos ≥ text.length then text.length
  else
    let p := findWordBoundaryBefore text targetPos
    if p > 0 then p
    else match wordFwd (text.drop targetPos) targetPos 50 with
      | some q => q
      | none => runeBoundaryNear text targetPos

/-- `findSentenceEndNear` -/
def findSentenceEndNear (text : Str) (targetPos : Nat) : Nat :=
  if targetPos ≥ text.length then text.length
  else match (if targetPos = 0 then none else sentBack text (targetPos - 1) 99) with
    | some p => p
    | none =>
      let p := findWordBoundaryBefore text targetPos
      if p > 0 then p
      else match sentFwd (text.drop targetPos) targetPos 100 with
        | some q => q
        | none => findWordBoundaryNear text targetPos

/-- the conversion of a limit to a byte position in `FindSplitPointAt` -/
def targetPosOf (c : SizeConfig) (targetSize : Nat) : SizeUnit → Nat
  | .characters => targetSize
  | .tokens => targetSize * c.ratio.2 / c.ratio.1     -- int(float64(targetSize) / ratio)
  | .words => targetSize * 6
  | .sentences => targetSize * 80
  | .paragraphs => targetSize * 400

/-- `SizeCalculator.FindSplitPointAt` -/
def findSplitPointAt (c : SizeConfig) (text : Str) (bs : List Boundary) (targetSize : Nat)
    (unit : SizeUnit) : Nat :=
  let targetPos := targetPosOf c targetSize unit
  if targetPos ≥ text.length then text.length
  else
    match (if c.sem && !bs.isEmpty then findBestBoundaryNear bs targetPos (targetPos / 4) else none) with
    | some b => b.pos
    | none => findSentenceEndNear text targetPos

/-- `adjustBoundaryPositions` -/
def adjustBoundaryPositions (bs : List Boundary) (offset : Nat) : List Boundary :=
  (bs.filter fun b => b.pos > offset).map fun b => { b with pos := b.pos - offset }

/-- `len(rest) - len(strings.TrimLeftFunc(rest, unicode.IsSpace))`: the number of bytes of
white space in front of `rest` -/
def leadingSpace (rest : Str) : Nat := rest.length - (trimLeft rest).length

/-- `SizeCalculator.SplitToSize`. The recursion is on the length of `remaining`; that
Lean accepts it is the termination proof (`decreasing_by` below): every iteration that
continues drops at least `splitPos ≥ 1` bytes.  The supplied boundaries are shifted by the
split position AND the white space trimmed in front of the new remainder (fix cf372da), so
that they keep pointing at the same place of the text. -/
def splitToSize (c : SizeConfig) (remaining : Str) (bs : List Boundary) : List Str :=
  if remaining.length = 0 then []
  else if !isAboveMax c remaining then [remaining]
  else
    let splitPos := findSplitPointAt c remaining bs c.maxValue c.maxUnit
    if h : splitPos = 0 ∨ splitPos ≥ remaining.length then [remaining]
    else
      let chunk := trimSpace (remaining.take splitPos)
      let rest := trimSpace (remaining.drop splitPos)
      let bs' := adjustBoundaryPositions bs (splitPos + leadingSpace (remaining.drop splitPos))
      if chunk = [] then splitToSize c rest bs'
      else chunk :: splitToSize c rest bs'
termination_by remaining.length
decreasing_by
  all_goals
    have h1 := trimSpace_length_le (remaining.drop (findSplitPointAt c remaining bs c.maxValue c.maxUnit))
    simp only [List.length_drop] at h1
    omega

/-! ## `DocumentChunker.ChunkDocument` on a page of paragraphs (document_integration.go) -/

/-- `chunkPage` accumulation of non-heading paragraphs into one text block -/
def joinParagraphs (paras : List Str) : Str :=
  paras.foldl (fun acc p => (if acc = [] then acc else acc ++ [10, 10]) ++ p) []

/-- `textBlockToChunks` + `createTextChunk` (chunk texts only) -/
def docChunks (c : SizeConfig) (paras : List Str) : List Str :=
  let text := joinParagraphs paras
  if text = [] then []
  else if !isAboveMax c text then [trimSpace text]
  else (splitToSize c text []).map trimSpace

/-- `ChunkDocument` on several pages of paragraphs: `chunkPage` flushes its text block at the
end of every page, so a block never spans pages -/
def docChunksPages (c : SizeConfig) (pages : List (List Str)) : List Str :=
  pages.flatMap (docChunks c)

/-! ## The non-whitespace content of a text (specification side) -/

theorem runeLen_pos (s : Str) : 0 < runeLen s := by
  unfold runeLen; split <;> omega

/-- The non-whitespace characters of `s`, in order: every White_Space character is removed,
every other character is kept; a byte that is not part of a well-formed character counts as
a character of its own.  This is the property's "non-whitespace characters" (the harness
computes the same thing from Go's `unicode.IsSpace`, op `c13.nonspace`). -/
def stripWs (s : Str) : Str :=
  if h : s = [] then []
  else if h2 : spaceLen s ≠ 0 then stripWs (s.drop (spaceLen s))
  else s.take (runeLen s) ++ stripWs (s.drop (runeLen s))
termination_by s.length
decreasing_by
  · have : 0 < s.length := List.length_pos_iff.mpr h
    simp only [List.length_drop]; omega
  · have : 0 < s.length := List.length_pos_iff.mpr h
    have := runeLen_pos s
    simp only [List.length_drop]; omega

/-! ## Public entry points around the mechanism (size_config.go) -/

/-- `rag.SizeMetrics` -/
structure SizeMetrics where
  characters : Nat
  tokens : Nat
  words : Nat
  sentences : Nat
  paragraphs : Nat
  deriving Repr, DecidableEq

/-- `SizeCalculator.Calculate` -/
def calculate (c : SizeConfig) (s : Str) : SizeMetrics :=
  { characters := s.length, tokens := estimateTokens c s, words := countWords s,
    sentences := countSentences s, paragraphs := countParagraphs s }

/-- `SizeMetrics.GetByUnit` -/
def SizeMetrics.getByUnit (m : SizeMetrics) : SizeUnit → Nat
  | .characters => m.characters
  | .tokens => m.tokens
  | .words => m.words
  | .sentences => m.sentences
  | .paragraphs => m.paragraphs

/-- `SizeCalculator.ExceedsLimit` -/
def exceedsLimit (c : SizeConfig) (s : Str) (limit : Nat) (unit : SizeUnit) : Bool :=
  getSize c s unit > limit

/-- `SizeCalculator.FindSplitPoint`: `FindSplitPointAt` at the configured target (the target
limit is not part of the model's `SizeConfig`, which keeps what splitting reads; it is passed
explicitly) -/
def findSplitPoint (c : SizeConfig) (text : Str) (bs : List Boundary) (targetValue : Nat)
    (targetUnit : SizeUnit) : Nat :=
  findSplitPointAt c text bs targetValue targetUnit

/-! ### preset configurations (the `Max`, `TokensPerChar` and `SplitAtSemanticBoundaries`
fields of the constructors of size_config.go; limits are naturals, as everywhere in the model) -/

/-- `DefaultSizeConfig` / `MediumChunkConfig` -/
def defaultSizeConfig : SizeConfig :=
  { maxValue := 2000, maxUnit := .characters, tpcNum := 1, tpcDen := 4, sem := true }

/-- `TokenBasedSizeConfig(targetTokens, maxTokens)` (only `maxTokens` reaches the fields modelled) -/
def tokenBasedSizeConfig (maxTokens : Nat) : SizeConfig :=
  { maxValue := maxTokens, maxUnit := .tokens, tpcNum := 1, tpcDen := 4, sem := true }

/-- `SemanticSizeConfig(targetParagraphs, maxParagraphs)` -/
def semanticSizeConfig (maxParagraphs : Nat) : SizeConfig :=
  { maxValue := maxParagraphs, maxUnit := .paragraphs, tpcNum := 1, tpcDen := 4, sem := true }

/-- `SmallChunkConfig` -/
def smallChunkConfig : SizeConfig :=
  { maxValue := 800, maxUnit := .characters, tpcNum := 1, tpcDen := 4, sem := true }

/-- `LargeChunkConfig` -/
def largeChunkConfig : SizeConfig :=
  { maxValue := 4000, maxUnit := .characters, tpcNum := 1, tpcDen := 4, sem := true }

/-- `OpenAIEmbeddingConfig` = `TokenBasedSizeConfig(512, 8000)` -/
def openAIEmbeddingConfig : SizeConfig := tokenBasedSizeConfig 8000

/-- `CohereEmbeddingConfig` = `TokenBasedSizeConfig(256, 512)` -/
def cohereEmbeddingConfig : SizeConfig := tokenBasedSizeConfig 512

/-- `ClaudeContextConfig` = `TokenBasedSizeConfig(2000, 8000)` -/
def claudeContextConfig : SizeConfig := tokenBasedSizeConfig 8000

/-- the presets without parameters, by the name the harness uses -/
def presetByName : String → Option SizeConfig
  | "default" => some defaultSizeConfig
  | "medium" => some defaultSizeConfig
  | "small" => some smallChunkConfig
  | "large" => some largeChunkConfig
  | "openai" => some openAIEmbeddingConfig
  | "cohere" => some cohereEmbeddingConfig
  | "claude" => some claudeContextConfig
  | _ => none

end Tabula.Split
