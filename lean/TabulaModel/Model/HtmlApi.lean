import TabulaModel.Model.Html
/-
Model of the public entry points of htmldoc / epubdoc / tabula that wrap the
mechanisms of Model/Html.lean and Model/Nav.lean (C19):

* `findElement(n, "body")` and the `body == nil` fall-back of `extractBodyWithMode`
  and `newExclusionChecker`: the model starts from the DOCUMENT node the parser
  returned, not from body;
* `NavigationExclusionMode` as the Go `int` it is (epubdoc converts any `int`):
  `shouldExclude` with its `!=`, `>=` comparisons on the raw value;
* `OpenReader` (elements parsed once with mode None), `getElements` with its
  map keyed by the raw mode value;
* `DefaultExtractOptions`, `Text`, `Markdown`, `Document` and the `…WithOptions`
  variants; `markdown` with `(*ParsedTable).ToMarkdown`, `escapeMarkdown`;
  the element list of `DocumentWithOptions` (grid of `model.NewTable`);
* `epubdoc.(*Reader).TextWithOptions / MarkdownWithOptions / Text / Markdown`
  over the chapters' parse trees;
* the HTML branches of `tabula.(*Extractor).Text / ToMarkdown / Document`.

* the depth limit of `OpenReader` (fix a65974f / 616a480): `treeDeeperThan(doc, maxTreeDepth)`
  with `maxTreeDepth = 10000`, measured in edges from the document node, text nodes
  counted; beyond it `OpenReader` returns an error (`openReaderE … = none`), and the EPUB
  chapter loops, which `continue` on that error, leave the chapter out.

Core Lean only.  The parser (x/net/html) stays a parameter: every function takes
the tree it produced.
-/
namespace Tabula.Html

namespace T
def «body» : Str := [98, 111, 100, 121]
end T

/-! ### locating body -/

mutual
/-- `findElement(n, "body")`: first element named body in pre-order -/
def findBody : Dom → Option Dom
  | .elem tag attrs kids => if tag = T.body then some (.elem tag attrs kids) else findBodyL kids
  | .other kids => findBodyL kids
  | .text _ => none
def findBodyL : List Dom → Option Dom
  | [] => none
  | k :: ks => match findBody k with
    | some b => some b
    | none => findBodyL ks
end

/-- `body := findElement(n, "body"); if body == nil { body = n }` -/
def bodyOf (doc : Dom) : Dom :=
  match findBody doc with
  | some b => b
  | none => doc

/-! ### the depth limit of OpenReader -/

mutual
/-- number of edges on the longest path from a node down to a leaf (any node type counts:
`treeDeeperThan` follows `FirstChild`/`NextSibling` of every node) -/
def depth : Dom → Nat
  | .elem _ _ kids => depthL kids
  | .other kids => depthL kids
  | .text _ => 0
/-- 0 for a node without children, else 1 + the deepest child -/
def depthL : List Dom → Nat
  | [] => 0
  | k :: ks => max (depth k + 1) (depthL ks)
end

mutual
/-- the walk of `treeDeeperThan(root, limit)` below a node that sits `d` edges under the root:
stepping down to a first child does `depth++; if depth > limit { return true }`; siblings are
visited at the same depth (the Go loop is iterative, with parent pointers; here the depth
counter is the parameter) -/
def deeper (limit : Nat) (d : Nat) : Dom → Bool
  | .elem _ _ kids => deeperL limit d kids
  | .other kids => deeperL limit d kids
  | .text _ => false
/-- the children of a node at depth `d` -/
def deeperL (limit : Nat) (d : Nat) : List Dom → Bool
  | [] => false
  | k :: ks => decide (d + 1 > limit) || deeper limit (d + 1) k || deeperL limit d ks
end

/-- `const maxTreeDepth = 10000` (htmldoc/reader.go) -/
def maxTreeDepth : Nat := 10000

/-- `treeDeeperThan(root, limit)` for `limit ≥ 0` -/
def treeDeeperThan (root : Dom) (limit : Nat) : Bool := deeper limit 0 root

/-- what `OpenReader` does with a value computed from the parsed tree: an error
(`"parsing HTML: elements nested deeper than 10000 levels"`) when the tree is deeper than
`maxTreeDepth`, the value otherwise (`macro_inline`: like the code, the compiled model computes
nothing from a tree it refuses) -/
@[macro_inline] def guarded {α : Type} (doc : Dom) (x : α) : Option α :=
  if treeDeeperThan doc maxTreeDepth then none else some x

/-! ### the mode as a raw integer -/

/-- `exclusionChecker.shouldExclude` with `ec.mode` any value of the underlying `int`
(`mode == None`, `mode >= Standard`, `mode >= Aggressive` compare the raw value) -/
def excludedI (m : Int) (pos : Pos) : Dom → Bool
  | .elem tag attrs kids =>
    m != 0 &&
    (excludedExplicit pos tag attrs ||
     (decide (m ≥ 2) && excludedPattern vocabExcluded attrs) ||
     (decide (m ≥ 3) && excludedLinkDensity tag kids))
  | _ => false

/-- `NavigationExclusionNone … Aggressive` as raw values -/
def Mode.toInt : Mode → Int
  | .none => 0 | .explicit => 1 | .standard => 2 | .aggressive => 3

/-- the documented mode a raw value behaves as -/
def clampMode (m : Int) : Mode :=
  if m = 0 then .none else if m ≥ 3 then .aggressive else if m = 2 then .standard else .explicit

/-- `extractBodyWithMode(doc, mode)`: a nil checker (mode None) excludes nothing -/
def extractI (m : Int) (doc : Dom) : List Element :=
  extractWith (if m = 0 then fun _ _ => false else excludedI m) (bodyOf doc)

/-! ### reader state -/

/-- `htmldoc.Reader`: the document, the elements parsed at open time, the per-mode cache -/
structure ReaderI where
  doc : Dom
  elements : List Element
  cache : List (Int × List Element) := []

/-- the reader `OpenReader` builds once the tree has passed the depth check -/
def openReader (doc : Dom) : ReaderI := { doc := doc, elements := extractI 0 doc }

/-- `OpenReader` after `html.Parse`: the depth check comes first, nothing is walked by recursion
before it; `none` is the error -/
def openReaderE (doc : Dom) : Option ReaderI := guarded doc (openReader doc)

def lookupI : List (Int × List Element) → Int → Option (List Element)
  | [], _ => none
  | (k, v) :: rest, m => if k = m then some v else lookupI rest m

/-- `(*Reader).getElements` -/
def getElementsI (r : ReaderI) (m : Int) : List Element × ReaderI :=
  if m = 0 then (r.elements, r)
  else match lookupI r.cache m with
    | some v => (v, r)
    | none => let v := extractI m r.doc; (v, { r with cache := (m, v) :: r.cache })

/-! ### Markdown -/

/-- `escapeMarkdown` (ranges over runes: an invalid byte comes back as U+FFFD) -/
def escapeMarkdown (s : Str) : Str :=
  s.flatMap fun c =>
    if c = 124 then [92, 124] else if c = 10 then [32] else if c = 13 then []
    else if c ≥ 0x110000 then [0xFFFD] else [c]

/-- one `| a | b |` line -/
def mdRow (r : List Cell) : Str :=
  [124] ++ r.flatMap (fun c => [32] ++ escapeMarkdown c.text ++ [32, 124]) ++ [10]

/-- the row loop of `(*ParsedTable).ToMarkdown` on lines of cells: first line, separator with as
many cells, the other lines.  Before fix 72cc329 the lines were `t.Rows` themselves
(`tableToMarkdownOld`): one Markdown cell per `<td>`/`<th>`, spans ignored. -/
def mdLines : List (List Cell) → Str
  | [] => []
  | first :: rest =>
    mdRow first ++ [124] ++ first.flatMap (fun _ => [32, 45, 45, 45, 32, 124]) ++ [10] ++ rest.flatMap mdRow

/-- a position of the table's grid as a cell: the cell that stands there, or — a position
covered by a span or left open by a short row — the empty cell (`model.NewTable`'s default in
`DocumentWithOptions`, the empty text in `ToMarkdown`) -/
def gridCell : Option Cell → Cell
  | some c => c
  | none => ⟨[], false, 1, 1⟩

/-- `(*ParsedTable).grid()` (Model/HtmlGrid.lean), every position as a cell -/
def tableGrid (rows : List (List Cell)) : List (List Cell) :=
  (HtmlGrid.grid Cell.colSpan Cell.rowSpan rows).map (·.map gridCell)

/-- `(*ParsedTable).ToMarkdown` (since fix 72cc329): the lines of the table's grid -/
def tableToMarkdown (rows : List (List Cell)) : Str := mdLines (tableGrid rows)

/-- `(*ParsedTable).ToMarkdown` before the fix -/
def tableToMarkdownOld (rows : List (List Cell)) : Str := mdLines rows

def hashes : Nat → Str
  | 0 => []
  | n + 1 => 35 :: hashes n

def mdItems : List Item → Bool → Str
  | [], _ => []
  | i :: rest, first =>
    (if first then [] else [10]) ++ spaces i.level ++ (if i.ordered then [49, 46, 32] else [45, 32]) ++ i.text
      ++ mdItems rest false

/-- the block-quote branch: `"> "` before every line of the text -/
def mdQuote (t : Str) : Str :=
  [62, 32] ++ t.flatMap fun c => if c = 10 then [10, 62, 32] else [c]

/-- `(*Reader).markdown(opts, headingLevel)` over the element list -/
def renderMd (hl : Nat → Nat) : List Element → Str → Str
  | [], acc => acc
  | e :: rest, acc =>
    let acc1 := match e with
      | .heading l t => acc ++ sep acc ++ hashes (hl l) ++ [32] ++ t
      | .para t => acc ++ sep acc ++ t
      | .list _ items => acc ++ sep acc ++ mdItems items true
      | .table _ rows => if rows = [] then acc else acc ++ sep acc ++ tableToMarkdown rows
      | .code t => acc ++ sep acc ++ [96, 96, 96, 10] ++ t ++ [10, 96, 96, 96]
      | .quote t => acc ++ sep acc ++ mdQuote t
    renderMd hl rest acc1

/-- `rag.MarkdownOptions.AdjustHeadingLevel` of `DefaultMarkdownOptions()` (offset 0, maximum 6) -/
def adjustDefault (l : Nat) : Nat := if l < 1 then 1 else if l > 6 then 6 else l

/-! ### Document -/

/-- the element kinds `DocumentWithOptions` puts on the page -/
inductive DocEl where
  | heading (level : Nat) (text : Str)
  | para (text : Str)
  | list (ordered : Bool) (items : List (Nat × Str))
  | table (rows : List (List Cell))
  deriving DecidableEq, Repr

/-- widest row (the model table's width before fix 72cc329) -/
def numCols (rows : List (List Cell)) : Nat := rows.foldl (fun a r => max a r.length) 0

/-- a row of the `model.NewTable(numRows, numCols)` grid after the copy loop, before fix 72cc329:
the cells by their index in the row -/
def padRow (n : Nat) (r : List Cell) : List Cell := r ++ List.replicate (n - r.length) ⟨[], false, 1, 1⟩

/-- the loop of `DocumentWithOptions`; a table is copied from its grid (`tableGrid`): the model
table has the grid's rows and columns, a cell at the position where it stands -/
def docElements : List Element → List DocEl
  | [] => []
  | e :: rest =>
    (match e with
      | .heading l t => [DocEl.heading l t]
      | .para t => [.para t]
      | .code t => [.para t]
      | .quote t => [.para t]
      | .list o items => [.list o (items.map fun i => (i.level, i.text))]
      | .table _ rows => if rows = [] then [] else [.table (tableGrid rows)]) ++ docElements rest

/-! ### the public calls -/

/-- what a call returns -/
inductive Out where
  | str (s : Str)
  | doc (els : List DocEl)
  deriving DecidableEq, Repr

/-- one call on an open `htmldoc.Reader` -/
inductive Call where
  | textOpts (m : Int)   -- TextWithOptions{NavigationExclusion: m}
  | mdOpts (m : Int)     -- MarkdownWithOptions
  | docOpts (m : Int)    -- DocumentWithOptions
  | text                 -- Text()
  | md                   -- Markdown()
  | doc                  -- Document()
  deriving DecidableEq, Repr

/-- `DefaultExtractOptions().NavigationExclusion` = `NavigationExclusionStandard` -/
def defaultMode : Int := 2

/-- the mode a call asks `getElements` for -/
def Call.mode : Call → Int
  | .textOpts m => m | .mdOpts m => m | .docOpts m => m
  | .text => defaultMode | .md => defaultMode | .doc => defaultMode

/-- the view a call renders -/
def Call.render : Call → List Element → Out
  | .textOpts _, els => .str (renderText els [])
  | .text, els => .str (renderText els [])
  | .mdOpts _, els => .str (renderMd id els [])
  | .md, els => .str (renderMd id els [])
  | .docOpts _, els => .doc (docElements els)
  | .doc, els => .doc (docElements els)

/-- one call: result and new reader state -/
def call (r : ReaderI) (c : Call) : Out × ReaderI :=
  let (els, r') := getElementsI r c.mode
  (c.render els, r')

/-- a call sequence on one reader -/
def runCalls : ReaderI → List Call → List Out
  | _, [] => []
  | r, c :: cs => (call r c).1 :: runCalls (call r c).2 cs

/-- the same call on a reader opened for it alone -/
def fresh (doc : Dom) (c : Call) : Out := (call (openReader doc) c).1

/-- `OpenReader(doc)` followed by a call sequence on the reader; `none`: OpenReader returned an error -/
def runCallsE (doc : Dom) (cs : List Call) : Option (List Out) := (openReaderE doc).map fun r => runCalls r cs

/-- `OpenReader(doc)` followed by one call -/
def freshE (doc : Dom) (c : Call) : Option Out := (openReaderE doc).map fun r => (call r c).1

/-- the text view of the reader `OpenReader` returned for `doc` (see `openText` for the whole call) -/
def textWithOptions (m : Int) (doc : Dom) : Str := renderText (extractI m doc) []

/-- the Markdown view of the reader `OpenReader` returned for `doc` -/
def markdownWithOptions (m : Int) (doc : Dom) : Str := renderMd id (extractI m doc) []

/-- the Document view (page elements) of the reader `OpenReader` returned for `doc` -/
def documentWithOptions (m : Int) (doc : Dom) : List DocEl := docElements (extractI m doc)

/-- `OpenReader(doc)` then `TextWithOptions{m}`: `none` = the error of OpenReader -/
def openText (m : Int) (doc : Dom) : Option Str := guarded doc (textWithOptions m doc)

/-- `OpenReader(doc)` then `MarkdownWithOptions{m}` -/
def openMarkdown (m : Int) (doc : Dom) : Option Str := guarded doc (markdownWithOptions m doc)

/-- `OpenReader(doc)` then `DocumentWithOptions{m}` -/
def openDocument (m : Int) (doc : Dom) : Option (List DocEl) := guarded doc (documentWithOptions m doc)

/-! ### tabula.Extractor (HTML branch) -/

/-- `tabula.FromHTMLString(s).Text()` / `FromHTMLReader` / `Open(file.html)`: the extract options
are built without a NavigationExclusion, i.e. with its zero value None -/
def extractorText (doc : Dom) : Str := textWithOptions 0 doc

/-- `….ToMarkdown()`: `MarkdownWithRAGOptions(ExtractOptions{}, rag.DefaultMarkdownOptions())`
(no front matter, no table of contents, heading levels through `AdjustHeadingLevel`) -/
def extractorMarkdown (doc : Dom) : Str := renderMd adjustDefault (extractI 0 doc) []

/-- `….Document()`: `htmlReader.Document()`, i.e. the default options (Standard) -/
def extractorDocument (doc : Dom) : List DocEl := documentWithOptions defaultMode doc

/-- the three Extractor calls from the bytes: each opens the document with `htmldoc.OpenReader`
(tabula.go, `htmlReader, err := htmldoc.OpenReader(r)`) and hands its error on -/
def extractorTextE (doc : Dom) : Option Str := guarded doc (extractorText doc)
def extractorMarkdownE (doc : Dom) : Option Str := guarded doc (extractorMarkdown doc)
def extractorDocumentE (doc : Dom) : Option (List DocEl) := guarded doc (extractorDocument doc)

/-! ### EPUB -/

/-- `strings.Join(parts, sep)` -/
def joinWith (sepr : Str) : List Str → Str
  | [] => []
  | [x] => x
  | x :: y :: rest => x ++ sepr ++ joinWith sepr (y :: rest)

/-- the chapter loop of `epubdoc.(*Reader).TextWithOptions` / `MarkdownWithOptions`: every chapter is
opened by a reader of its own (`htmldoc.OpenReader`; `if err != nil { continue }`: a chapter nested
deeper than `maxTreeDepth` is left out without an error), its view is trimmed, empty chapters are
left out -/
def epubParts (view : Dom → Str) (chapters : List Dom) : List Str :=
  chapters.filterMap fun doc =>
    match guarded doc (view doc) with
    | none => none
    | some v => let t := trim v; if t = [] then none else some t

/-- `epubdoc.(*Reader).TextWithOptions{NavigationExclusion: m}` (m is an `int` there) -/
def epubText (m : Int) (chapters : List Dom) : Str :=
  joinWith [10, 10] (epubParts (textWithOptions m) chapters)

/-- `epubdoc.(*Reader).MarkdownWithOptions` -/
def epubMarkdown (m : Int) (chapters : List Dom) : Str :=
  joinWith [10, 10, 45, 45, 45, 10, 10] (epubParts (markdownWithOptions m) chapters)

end Tabula.Html
