import TabulaModel.Model.LayoutOrder
/-
Model of the plain-text renderings of the layout results (property C09: "… and in every
plain-text rendering of a page"). Each function mirrors one `GetText`:

* `layout.(*LineLayout).GetText` with `calculateSpacing` / `calculateStatistics`
                                                              → `lineLayoutText`
* `layout.(*ReadingOrderResult).GetText` (= `(*AnalysisResult).GetText`) with the spacings
  `reorderLinesByY` recomputes and `calculateAverageSpacing`  → `roText`
* `layout.(*ColumnLayout).GetText` / `getSpanningText` / `getColumnText`
                                                              → `columnLayoutText`
* `layout.(*Block).GetText` / `(*BlockLayout).GetText`        → `blockText`, `blockLayoutText`
* `layout.(*BlockDetector).groupIntoLines` / `Detect` from the fragments on
                                                              → `blockLinesOf`, `detectBlocksFrom`
  (the three `sort.Slice` calls are parameters `srt`, `srtX`, `srtB`: library sorts, unstable,
  the first with a comparator that is not transitive; the theorems ask only that they permute)
* `text.groupFragments`                                       → `groupFragments`
* `text.(*Extractor).GetText`                                 → `textGetText`
  (`reorderFragmentsForReading` enters as two decisions per line - keep the stream order? sort
  right to left? - and `shouldInsertSpaceSmart` as one decision per adjacent pair: `keepS`,
  `rtlOf`, `spaceOf` are parameters, the theorems hold for all of them)
-/
namespace Tabula.Layout

/-- mean of the positive entries, 0 if there is none -/
def meanPos (l : List Rat) : Rat :=
  let p := l.filter (fun v => v > 0)
  if p.isEmpty then 0 else sumR p / (p.length : Rat)

/-! ## `(*LineLayout).GetText` -/

/-- `Line.Height`: the tallest fragment -/
def lineHeightMax (l : List Frag) : Rat := maxOf 0 (l.map (·.h))

/-- `calculateSpacing`: `SpacingBefore` of `cur` after `prev` (base lines are the least Y) -/
def spacingLD (prev cur : List Frag) : Rat := bboxY prev - (bboxY cur + lineHeightMax cur)

def spacingsLD : List (List Frag) → List Rat
  | a :: b :: l => spacingLD a b :: spacingsLD (b :: l)
  | _ => []

/-- `calculateStatistics`: the average of the positive spacings -/
def avgSpacingLD (lines : List (List Frag)) : Rat := meanPos (spacingsLD lines)

def lineLayoutTextAux (avg : Rat) : List (List Frag) → Str
  | [] => []
  | [l] => lineText l
  | l :: l2 :: ls =>
    lineText l ++ (if spacingLD l l2 > avg * (3/2) then [10, 10] else [10]) ++ lineLayoutTextAux avg (l2 :: ls)

/-- `(*LineLayout).GetText` on the lines of `(*LineDetector).Detect` -/
def lineLayoutText (lines : List (List Frag)) : Str := lineLayoutTextAux (avgSpacingLD lines) lines

/-! ## `(*ReadingOrderResult).GetText` -/

/-- the spacing `reorderLinesByY` recomputes: box to box, never negative -/
def spacingRO (prev cur : List Frag) : Rat := maxR 0 (bboxY prev - (bboxY cur + bboxH cur))

/-- `SpacingAfter` of every line of one section (the last line: 0) -/
def secSpacingsAfter : List (List Frag) → List Rat
  | a :: b :: l => spacingRO a b :: secSpacingsAfter (b :: l)
  | [_] => [0]
  | [] => []

/-- texts joined; after text `i` (not the last) a blank line when its spacing exceeds 1.5 × avg -/
def joinBySpacing (avg : Rat) : List (Str × Rat) → Str
  | [] => []
  | [t] => t.1
  | t :: t2 :: ts => t.1 ++ (if t.2 > avg * (3/2) then [10, 10] else [10]) ++ joinBySpacing avg (t2 :: ts)

/-- `(*ReadingOrderResult).GetText` -/
def roText (ro : ReadingOrder) : Str :=
  let sp := ro.sections.flatMap fun s => secSpacingsAfter s.lines
  joinBySpacing (meanPos sp) ((ro.sections.flatMap fun s => s.lines.map lineText).zip sp)

/-! ## `(*ColumnLayout).GetText` -/

/-- the space rule of `getColumnText` / `getSpanningText`: a gap wider than a tenth of the
height, or an overlap of more than half of it -/
def colLineTextAux : Frag → List Frag → Str
  | _, [] => []
  | p, f :: fs =>
    (if f.x - right p > f.h * (1/10) || f.x - right p < -(f.h * (1/2)) then [32] else []) ++ f.text ++
      colLineTextAux f fs

def colLineText : List Frag → Str
  | [] => []
  | f :: fs => f.text ++ colLineTextAux f fs

/-- `getSpanningText`: the bands, each ordered and written, joined by line breaks -/
def spanningTextAux (preserve : List Frag → Bool) : List (List Frag) → Str
  | [] => []
  | [b] => colLineText (orderLine preserve b)
  | b :: b2 :: bs => colLineText (orderLine preserve b) ++ [10] ++ spanningTextAux preserve (b2 :: bs)

def getSpanningText (preserve : List Frag → Bool) (sp : List Frag) : Str :=
  spanningTextAux preserve (bands sp)

/-- first fragment's Y and height (`line[0]`) -/
def headY (l : List Frag) : Rat := (l.head?.map (·.y)).getD 0
def headH (l : List Frag) : Rat := (l.head?.map (·.h)).getD 0

/-- `getColumnText`: between the (ordered) line and the next band (still in stream order) a
blank line when the first fragments are more than 1.5 heights apart -/
def columnTextAux (preserve : List Frag → Bool) : List (List Frag) → Str
  | [] => []
  | [b] => colLineText (orderLine preserve b)
  | b :: b2 :: bs =>
    let l := orderLine preserve b
    colLineText l ++ (if headY l - headY b2 > headH l * (3/2) then [10, 10] else [10]) ++
      columnTextAux preserve (b2 :: bs)

def getColumnText (preserve : List Frag → Bool) (col : List Frag) : Str :=
  columnTextAux preserve (bands col)

/-- the loop over the columns: a blank line after a column that wrote something, except the last -/
def columnsTextAux (preserve : List Frag → Bool) : List (List Frag) → Str
  | [] => []
  | [c] => getColumnText preserve c
  | c :: c2 :: cs =>
    getColumnText preserve c ++ (if (getColumnText preserve c).isEmpty then [] else [10, 10]) ++
      columnsTextAux preserve (c2 :: cs)

/-- `(*ColumnLayout).GetText` -/
def columnLayoutText (preserve : List Frag → Bool) (cl : ColumnLayout) : Str :=
  (if cl.spanning.isEmpty || (getSpanningText preserve cl.spanning).isEmpty then []
    else getSpanningText preserve cl.spanning ++ [10, 10]) ++
  columnsTextAux preserve cl.columns

/-- `(*ColumnLayout).GetFragmentsInReadingOrder` after fix 22e6b71: the spanning fragments, then
the columns -/
def columnLayoutFragments (cl : ColumnLayout) : List Frag := cl.spanning ++ cl.columns.flatten

/-- before the fix: the columns only -/
def columnLayoutFragmentsOld (cl : ColumnLayout) : List Frag := cl.columns.flatten

/-! ## `(*Block).GetText`, `(*BlockLayout).GetText` -/

/-- `(*Block).GetText`: the lines (space rule of `assembleLineText`) joined by line breaks -/
def blockTextAux : List (List Frag) → Str
  | [] => []
  | [l] => lineText l
  | l :: l2 :: ls => lineText l ++ [10] ++ blockTextAux (l2 :: ls)

def blockText (b : Block) : Str := blockTextAux b.lines

/-- `(*BlockLayout).GetText` -/
def blockLayoutText : List Block → Str
  | [] => []
  | [b] => blockText b
  | b :: b2 :: bs => blockText b ++ (if (blockText b).isEmpty then [] else [10, 10]) ++ blockLayoutText (b2 :: bs)

/-! ## `(*BlockDetector).groupIntoLines` and `Detect` from the fragments on -/

/-- the comparator of the first `sort.Slice` (`LineHeightTolerance` = 0.5) -/
def blLess (a b : Frag) : Bool :=
  if absR (a.y - b.y) > (a.h + b.h) / 2 * (1/2) then a.y - b.y > 0 else a.x < b.x

/-- the sweep: a fragment stays on the line of the previous one when their Ys differ by at most
half of their average height -/
def blineBreak (cur : List Frag) (f : Frag) (_ : List Frag) : Bool :=
  match cur.getLast? with
  | none => false
  | some p => !(absR (f.y - p.y) ≤ (f.h + p.h) / 2 * (1/2))

/-- `(*BlockDetector).groupIntoLines`: sort, sweep, sort every line by X -/
def blockLinesOf (srt srtX : List Frag → List Frag) (fs : List Frag) : List (List Frag) :=
  (segment blineBreak (srt fs) []).map srtX

/-- `(*BlockDetector).Detect`: group the lines into blocks, merge, sort the blocks
(`sortBlocksInReadingOrder`, a third library sort: parameter `srtB`), validate -/
def detectBlocksFrom (srt srtX : List Frag → List Frag) (srtB : List Block → List Block)
    (brk : List (List Frag) → List Frag → List (List Frag) → Bool) (ov : Block → Block → Bool)
    (minW minH : Rat) (fs : List Frag) : List Block :=
  if fs.isEmpty then []
  else validateBlocks minW minH (srtB (mergeAll ov (groupBlocks brk (blockLinesOf srt srtX fs))))

/-! ## `text.groupFragments`, `text.(*Extractor).GetText` -/

/-- the decision of `groupFragments` to start a new line before `f`, given the current line
`cur` (its last fragment is `prevFrag`, its X extent is `lineMinX..lineMaxX`) -/
def gfBreak (cur : List Frag) (f : Frag) (_ : List Frag) : Bool :=
  match cur.getLast? with
  | none => false
  | some p =>
    let vd := absR (f.y - p.y)
    let sameY := vd ≤ p.h * (1/2)
    let wrap := sameY && (right p - f.x > p.h * (3/2))
    let thr := if p.h * (3/20) < 1 then 1 else p.h * (3/20)
    let minX := minOf 0 (cur.map (·.x))
    let maxX := maxOf 0 (cur.map right)
    let within := f.x ≥ minX && f.x ≤ maxX
    let ws := f.text == [32] || f.text == []
    let overlapCol := sameY && (vd > thr) && within && !ws
    !(sameY && !wrap && !overlapCol)

/-- `text.groupFragments` -/
def groupFragments (fs : List Frag) : List (List Frag) := segment gfBreak fs []

/-- `reorderFragmentsForReading` with its two decisions as parameters -/
def lessXDesc (a b : Frag) : Bool := !(absR (a.x - b.x) < a.fs * (1/4)) && a.x > b.x

def reorderForReading (keepS rtlOf : List Frag → Bool) (l : List Frag) : List Frag :=
  if l.length ≤ 1 then l
  else if keepS l then l
  else stableSort (if rtlOf l then lessXDesc else lessX) l

/-- one line of `GetText`: the texts in reading order, a blank where `spaceOf` says so -/
def gtLineAux (spaceOf : Frag → Frag → Bool) : Frag → List Frag → Str
  | _, [] => []
  | p, f :: fs => (if spaceOf p f then [32] else []) ++ f.text ++ gtLineAux spaceOf f fs

def gtLine (spaceOf : Frag → Frag → Bool) : List Frag → Str
  | [] => []
  | f :: fs => f.text ++ gtLineAux spaceOf f fs

/-- the loop over the lines; the separator compares the first fragments in stream order -/
def gtLines (keepS rtlOf : List Frag → Bool) (spaceOf : List Frag → Frag → Frag → Bool) : List (List Frag) → Str
  | [] => []
  | [l] => gtLine (spaceOf l) (reorderForReading keepS rtlOf l)
  | l :: l2 :: ls =>
    gtLine (spaceOf l) (reorderForReading keepS rtlOf l) ++
      (if absR (headY l2 - headY l) > headH l * (3/2) then [10, 10] else [10]) ++
      gtLines keepS rtlOf spaceOf (l2 :: ls)

/-- `text.(*Extractor).GetText`: deduplicate, group, sort the lines by the Y of their first
fragment (stable), write -/
def textGetText (keepS rtlOf : List Frag → Bool) (spaceOf : List Frag → Frag → Frag → Bool) (fs : List Frag) : Str :=
  gtLines keepS rtlOf spaceOf
    (stableSort (fun a b => headY a > headY b) (groupFragments (dedupe fs)))

end Tabula.Layout
