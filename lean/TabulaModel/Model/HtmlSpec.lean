import TabulaModel.Model.HtmlApi
/-
Specification side of C19 at the level of TEXT NODES: which raw text nodes of the
parsed tree a conforming extraction returns, written from the property text and
from the DOM only (no call of getTextContent / getDirectTextContent / parseTable).
Text is compared up to white space (`squeeze`), as the property does not fix it.
Core Lean only (the c19.src op evaluates `src`).
-/
namespace Tabula.Html

/-- remove all white space -/
def squeeze (s : Str) : Str := s.filter fun c => !isSpace c

mutual
/-- the text nodes of a subtree in document order (skipped elements left out) -/
def tn : Dom → List Str
  | .text s => [s]
  | .elem tag _ kids => if isSkip tag then [] else tnL kids
  | .other kids => tnL kids
def tnL : List Dom → List Str
  | [] => []
  | k :: ks => tn k ++ tnL ks
end

mutual
/-- … concatenated -/
def tnFlat : Dom → Str
  | .text s => s
  | .elem tag _ kids => if isSkip tag then [] else tnFlatL kids
  | .other kids => tnFlatL kids
def tnFlatL : List Dom → Str
  | [] => []
  | k :: ks => tnFlat k ++ tnFlatL ks
end

/-- what a piece of `getTextContentRecursive`'s output is -/
inductive Piece where
  | text (s : Str)   -- the data of one text node
  | nl               -- "\n" written for a br
  | sp               -- " " written after p, div, li, h1-h6, tr
  deriving DecidableEq, Repr

def Piece.render : Piece → Str
  | .text s => s | .nl => [10] | .sp => [32]

def Piece.text? : Piece → Option Str
  | .text s => some s | _ => none

mutual
/-- the output of `getTextContentRecursive` cut into its pieces -/
def pieces : Dom → List Piece
  | .text s => [.text s]
  | .elem tag _ kids =>
    if isSkip tag then []
    else (if tag = T.br then [Piece.nl] else []) ++ piecesL kids ++ (if spaceAfter tag then [Piece.sp] else [])
  | .other kids => piecesL kids
def piecesL : List Dom → List Piece
  | [] => []
  | k :: ks => pieces k ++ piecesL ks
end

/-- the own text of a list item: everything but the nested lists that are its direct children -/
def directSrc : Dom → Str
  | .text s => s
  | .elem tag attrs kids => if tag = T.ul ∨ tag = T.ol then [] else tnFlat (.elem tag attrs kids)
  | .other _ => []

def isCellElem : Dom → Bool
  | .elem tag _ _ => tag == T.td || tag == T.th
  | _ => false

/-- the td/th children of a tr -/
def rowCellNodes (kids : List Dom) : List Dom := kids.filter isCellElem

/-- the td/th of the tr children of a thead/tbody/tfoot -/
def sectionCellNodes : List Dom → List Dom
  | [] => []
  | .elem tag _ ks :: rest => (if tag = T.tr then rowCellNodes ks else []) ++ sectionCellNodes rest
  | _ :: rest => sectionCellNodes rest

/-- all cells of a table in document order: td/th of rows that are children of the table or
of its thead/tbody/tfoot -/
def tableCellNodes : List Dom → List Dom
  | [] => []
  | .elem tag _ ks :: rest =>
    (if tag = T.thead ∨ tag = T.tbody ∨ tag = T.tfoot then sectionCellNodes ks
     else if tag = T.tr then rowCellNodes ks else []) ++ tableCellNodes rest
  | _ :: rest => tableCellNodes rest

mutual
/-- SOURCE TEXT of a document under exclusion predicate `p`: the raw text nodes of the content
elements (heading, paragraph, list item, table cell, pre/code, block quote) that are neither
skipped nor excluded, concatenated in the order of their content elements (a list item's own
text first, its nested lists after it).  A p/div that has a block-level child is read child by
child (`srcM`, fix 75d57dc): an inline child gives all its text, any other child its own source
text. -/
def src (p : Pos → Dom → Bool) (w : Bool) (pos : Pos) : Dom → Str
  | .text _ => []
  | .other kids => srcL p w (pos.kid w []) kids
  | .elem tag attrs kids =>
    if isSkip tag then []
    else if p pos (.elem tag attrs kids) then []
    else
      let kp := pos.kid w tag
      match classify tag with
      | .heading _ => tnFlatL kids
      | .pdiv _ => if squeeze (tnFlatL kids) != [] && !isBlockContainer kids then tnFlatL kids else srcM p w kp kids
      | .list _ => srcL p w kp kids
      | .li => kids.flatMap directSrc ++ srcLi p w kp kids
      | .table => (tableCellNodes kids).flatMap tnFlat
      | .code => tnFlatL kids
      | .quote => tnFlatL kids
      | .void => []
      | .other => srcL p w kp kids
def srcL (p : Pos → Dom → Bool) (w : Bool) (kp : Pos) : List Dom → Str
  | [] => []
  | k :: ks => src p w kp k ++ srcL p w kp ks
def srcLi (p : Pos → Dom → Bool) (w : Bool) (kp : Pos) : List Dom → Str
  | [] => []
  | k :: ks => (if isListElem k then src p w kp k else []) ++ srcLi p w kp ks
/-- the children of a p/div that has a block-level child -/
def srcM (p : Pos → Dom → Bool) (w : Bool) (kp : Pos) : List Dom → Str
  | [] => []
  | k :: ks => (if isInline k then tnFlat k else src p w kp k) ++ srcM p w kp ks
end

/-- source text of a whole document (from the document node) for a raw mode value -/
def srcOf (m : Int) (doc : Dom) : Str :=
  src (if m = 0 then fun _ _ => false else excludedI m) (hasWrapper (bodyOf doc)) .root (bodyOf doc)

/-- the text an atom carries -/
def Atom.text : Atom → Str
  | .heading _ t => t | .para t => t | .item _ t => t | .cell c => c.text | .code t => t | .quote t => t

/-- all text of an element list, in order -/
def elementsText (els : List Element) : Str := (flatten els).flatMap Atom.text

/-- what an atom contributes to the plain-text view once white space is removed: its text, a
bullet before a list item -/
def Atom.sq : Atom → Str
  | .item _ t => 0x2022 :: squeeze t
  | a => squeeze a.text

/-! ### blocks: the specification with tables whole and item kinds kept

`atoms` (Model/Html.lean) opens a table into its cells and forgets the kind of the list an item
was met in; the Markdown and Document views show both, so their statements use this finer
specification (same shape; evaluated by the c19.blk op). -/

inductive Block where
  | heading (level : Nat) (text : Str)
  | para (text : Str)
  | item (level : Nat) (text : Str) (ordered : Bool)
  | table (hasHeader : Bool) (rows : List (List Cell))
  | code (text : Str)
  | quote (text : Str)
  deriving DecidableEq, Repr

/-- list context: inside a list?, nesting level of its items, kind of the innermost list
(false outside a list) -/
structure LCB where
  inList : Bool
  level : Nat
  ordered : Bool
  deriving DecidableEq, Repr

/-- entering a ul/ol of kind `ord` -/
def LCB.enter (lc : LCB) (ord : Bool) : LCB := ⟨true, if lc.inList then lc.level else 0, ord⟩

/-- the context an `li` records its own text in: its list, or (stray `li`) a list of its own -/
def LCB.forItem (lc : LCB) : LCB := if lc.inList then lc else ⟨true, 0, false⟩

/-- the paragraph an inline run becomes -/
def runBlocks (run : Str) : List Block := if trim run != [] then [.para (trim run)] else []

mutual
def blocks (p : Pos → Dom → Bool) (w : Bool) (pos : Pos) (lc : LCB) : Dom → List Block
  | .text _ => []
  | .other kids => blocksL p w (pos.kid w []) lc kids
  | .elem tag attrs kids =>
    if isSkip tag then []
    else if p pos (.elem tag attrs kids) then []
    else
      let kp := pos.kid w tag
      match classify tag with
      | .heading lvl =>
        let t := trim (getTextContent (.elem tag attrs kids))
        if t != [] then [.heading lvl t] else []
      | .pdiv _ =>
        let t := trim (getTextContent (.elem tag attrs kids))
        if t != [] && !isBlockContainer kids then [.para t] else blocksM p w kp lc kids []
      | .list ord => blocksL p w kp (lc.enter ord) kids
      | .li =>
        let text := getDirectTextContent kids
        (if text != [] then [Block.item lc.forItem.level text lc.forItem.ordered] else []) ++
          blocksLi p w kp ⟨true, lc.forItem.level + 1, lc.forItem.ordered⟩ kids
      | .table =>
        if (parseTable kids).1 != [] then [.table (parseTable kids).2 (parseTable kids).1] else []
      | .code =>
        let t := getTextContent (.elem tag attrs kids)
        if t != [] then [.code t] else []
      | .quote =>
        let t := trim (getTextContent (.elem tag attrs kids))
        if t != [] then [.quote t] else []
      | .void => []
      | .other => blocksL p w kp lc kids
def blocksL (p : Pos → Dom → Bool) (w : Bool) (kp : Pos) (lc : LCB) : List Dom → List Block
  | [] => []
  | k :: ks => blocks p w kp lc k ++ blocksL p w kp lc ks
def blocksLi (p : Pos → Dom → Bool) (w : Bool) (kp : Pos) (lc : LCB) : List Dom → List Block
  | [] => []
  | k :: ks => (if isListElem k then blocks p w kp lc k else []) ++ blocksLi p w kp lc ks
/-- the children of a p/div block container, by runs (as `atomsM`) -/
def blocksM (p : Pos → Dom → Bool) (w : Bool) (kp : Pos) (lc : LCB) : List Dom → Str → List Block
  | [], run => runBlocks run
  | k :: ks, run =>
    if isInline k then blocksM p w kp lc ks (run ++ textRec k)
    else runBlocks run ++ blocks p w kp lc k ++ blocksM p w kp lc ks []
end

def blocksOf (p : Pos → Dom → Bool) (body : Dom) : List Block :=
  blocks p (hasWrapper body) .root ⟨false, 0, false⟩ body

def itemBlock (i : Item) : Block := .item i.level i.text i.ordered

def Element.blocks : Element → List Block
  | .heading l t => [.heading l t]
  | .para t => [.para t]
  | .list _ items => items.map itemBlock
  | .table hd rows => [.table hd rows]
  | .code t => [.code t]
  | .quote t => [.quote t]

def flattenB (els : List Element) : List Block := els.flatMap Element.blocks

/-- the cell-level atoms of a block: `atoms` is `blocks` with tables opened and kinds forgotten -/
def Block.atoms : Block → List Atom
  | .heading l t => [.heading l t]
  | .para t => [.para t]
  | .item l t _ => [.item l t]
  | .table _ rows => rows.flatten.map .cell
  | .code t => [.code t]
  | .quote t => [.quote t]

/-! ### what the property asks for (no knowledge of how the traversal reads a paragraph) -/

def isBlockNode : Dom → Bool
  | .elem tag _ _ => isBlockTag tag
  | _ => false

mutual
/-- WANTED TEXT: like `src`, but a paragraph returns ALL its text.  A `p` without block-level
children is one unit of text.  In a `p` that has block-level children, the content elements
inside it (headings, lists, tables, pre/code, block quotes, further paragraphs) are read by their
own rules and everything else is the paragraph's own text and is kept in place: its inline
children whole, and what sits in an element that merely wraps some of those content elements — a
`div`, a sectioning element, a span/a/form around a table — likewise (`inP`: we are inside such a
paragraph, wrappers are transparent).  As everywhere, an element that is traversed is asked for
exclusion; inline content is not.  (`div` is not one of the content elements the property names;
outside a paragraph it is read as the code reads it.) -/
def want (p : Pos → Dom → Bool) (w : Bool) (pos : Pos) (inP : Bool) : Dom → Str
  | .text _ => []
  | .other kids => if inP then wantD p w (pos.kid w []) true kids else wantL p w (pos.kid w []) kids
  | .elem tag attrs kids =>
    if isSkip tag then []
    else if p pos (.elem tag attrs kids) then []
    else
      let kp := pos.kid w tag
      match classify tag with
      | .heading _ => tnFlatL kids
      | .pdiv true => if !isBlockContainer kids then tnFlatL kids else wantD p w kp true kids
      | .pdiv false =>
        if squeeze (tnFlatL kids) != [] && !isBlockContainer kids then tnFlatL kids else wantD p w kp inP kids
      | .list _ => wantL p w kp kids
      | .li => kids.flatMap directSrc ++ wantLi p w kp kids
      | .table => (tableCellNodes kids).flatMap tnFlat
      | .code => tnFlatL kids
      | .quote => tnFlatL kids
      | .void => []
      | .other => if inP then wantD p w kp true kids else wantL p w kp kids
def wantL (p : Pos → Dom → Bool) (w : Bool) (kp : Pos) : List Dom → Str
  | [] => []
  | k :: ks => want p w kp false k ++ wantL p w kp ks
def wantLi (p : Pos → Dom → Bool) (w : Bool) (kp : Pos) : List Dom → Str
  | [] => []
  | k :: ks => (if isListElem k then want p w kp false k else []) ++ wantLi p w kp ks
/-- the children of a p/div with block-level children, or of a wrapper inside such a paragraph -/
def wantD (p : Pos → Dom → Bool) (w : Bool) (kp : Pos) (inP : Bool) : List Dom → Str
  | [] => []
  | k :: ks => (if isInline k then tnFlat k else want p w kp inP k) ++ wantD p w kp inP ks
end

/-- the inline children are all blank -/
def blankInline (kids : List Dom) : Bool :=
  kids.all fun k => !isInline k || squeeze (tnFlat k) == []

mutual
/-- NO WRAPPED TEXT: wherever `want` walks inside a paragraph that has block-level children
(`inP`), an element that is only a wrapper (not a content element, not a `div`) has no text in
its inline children.  Such a wrapper is traversed by the reader like anywhere else, and what a
wrapper holds outside the content elements inside it — its own direct text — is returned by
nothing, also when the wrapper sits in a paragraph (finding C19/content-missing-para-in-wrapper).
In no-quirks documents the parser never builds a `p` with a block-level child at all, so
`noWrapped` holds. -/
def okP (inP : Bool) : Dom → Bool
  | .text _ => true
  | .other kids => if inP then blankInline kids && okD true kids else okL kids
  | .elem tag _ kids =>
    if isSkip tag then true
    else match classify tag with
      | .pdiv true => if !isBlockContainer kids then true else okD true kids
      | .pdiv false =>
        if squeeze (tnFlatL kids) != [] && !isBlockContainer kids then true else okD inP kids
      | .list _ => okL kids
      | .li => okLi kids
      | .other => if inP then blankInline kids && okD true kids else okL kids
      | _ => true
def okL : List Dom → Bool
  | [] => true
  | k :: ks => okP false k && okL ks
def okLi : List Dom → Bool
  | [] => true
  | k :: ks => (if isListElem k then okP false k else true) && okLi ks
def okD (inP : Bool) : List Dom → Bool
  | [] => true
  | k :: ks => (isInline k || okP inP k) && okD inP ks
end

/-- the hypothesis of `content_complete_unless_wrapped_paragraph` for a whole document -/
def noWrapped (body : Dom) : Bool := okP false body

/-- the hypothesis of the statement before fix 75d57dc, kept for the history: own text of a
paragraph that also has block-level children is blank -/
def blankOutsideBlocks (kids : List Dom) : Bool :=
  kids.all fun k => isBlockNode k || squeeze (tnFlat k) == []

mutual
/-- … in every `p` of the tree -/
def noMixed : Dom → Bool
  | .text _ => true
  | .other kids => noMixedL kids
  | .elem tag _ kids =>
    (if tag = T.p ∧ isBlockContainer kids = true then blankOutsideBlocks kids else true) && noMixedL kids
def noMixedL : List Dom → Bool
  | [] => true
  | k :: ks => noMixed k && noMixedL ks
end

/-- wanted text of a whole document for a raw mode value -/
def wantOf (m : Int) (doc : Dom) : Str :=
  want (if m = 0 then fun _ _ => false else excludedI m) (hasWrapper (bodyOf doc)) .root false (bodyOf doc)

end Tabula.Html
