import TabulaModel.Model.XmlTree
import TabulaModel.Model.HeaderFooter
/-
Rendering helpers shared by the DOCX and ODT readers' public views (plain text,
Markdown, document model): number formatting, bullets, the table writers
`ParsedTable.ToText` / `ParsedTable.ToMarkdown` (docx/tables.go and odt/tables.go hold
the same code, only the name of the "covered" flag differs), the document-model grid.
Core Lean only. Strings are UTF-8 byte lists.
-/
namespace Tabula.Render
open Tabula.Xml

/-! ### numbers -/

/-- `strconv.Itoa` / `%d` on a non-negative number -/
def natToDec (n : Nat) : Str := (Nat.toDigits 10 n).map Char.toNat

/-- `fmt.Sprintf("%d", i)` -/
def intToDec (i : Int) : Str := if i < 0 then 45 :: natToDec i.natAbs else natToDec i.toNat

/-- two's-complement wrap-around of Go's 64-bit `int` (list numbers are `startAt + count - 1`) -/
def wrap64 (x : Int) : Int := Tabula.HF.wrap64 x

/-- the loop of `toLowerLetter`: `for n > 0 { n--; result = string('a'+n%26) + result; n /= 26 }` -/
def lettersFrom (n : Nat) (acc : Str) : Str :=
  if _h : n = 0 then acc else lettersFrom ((n - 1) / 26) ((97 + (n - 1) % 26) :: acc)
termination_by n
decreasing_by omega

/-- `toLowerLetter` (1 = a, 26 = z, 27 = aa; below 1: "a") -/
def toLowerLetter (n : Int) : Str := if n < 1 then [97] else lettersFrom n.toNat []

def upperAscii (s : Str) : Str := s.map fun c => if 97 ≤ c ∧ c ≤ 122 then c - 32 else c
def lowerAscii (s : Str) : Str := s.map fun c => if 65 ≤ c ∧ c ≤ 90 then c + 32 else c

/-- `toUpperLetter` -/
def toUpperLetter (n : Int) : Str := upperAscii (toLowerLetter n)

/-- the `romanNumerals` table -/
def romanTable : List (Nat × Str) :=
  [(1000, [77]), (900, [67, 77]), (500, [68]), (400, [67, 68]), (100, [67]), (90, [88, 67]), (50, [76]),
   (40, [88, 76]), (10, [88]), (9, [73, 88]), (5, [86]), (4, [73, 86]), (1, [73])]

/-- the two nested loops of `toUpperRoman`: for each numeral, `for n >= value { result += symbol; n -= value }` -/
def romanFrom : List (Nat × Str) → Nat → Str
  | [], _ => []
  | (v, s) :: rest, n =>
    if h : 0 < v ∧ v ≤ n then s ++ romanFrom ((v, s) :: rest) (n - v) else romanFrom rest n
termination_by tbl n => (tbl.length, n)
decreasing_by
  · apply Prod.Lex.right; omega
  · apply Prod.Lex.left; simp

/-- `toUpperRoman` (outside 1..3999: the decimal number) -/
def toUpperRoman (n : Int) : Str := if n < 1 ∨ n > 3999 then intToDec n else romanFrom romanTable n.toNat

/-- `toLowerRoman` -/
def toLowerRoman (n : Int) : Str := lowerAscii (toUpperRoman n)

/-! ### strings -/

/-- `strings.ReplaceAll(text, "\n", " ")` -/
def replaceNL (s : Str) : Str := s.map fun c => if c = 10 then 32 else c

/-- `strings.ReplaceAll(text, "|", "\\|")` -/
def escapePipes (s : Str) : Str := s.flatMap fun c => if c = 124 then [92, 124] else [c]

/-- `strings.Trim(s, "\n")` -/
def trimNL (s : Str) : Str := ((s.dropWhile (· == 10)).reverse.dropWhile (· == 10)).reverse

/-- `strings.TrimSpace` (Unicode white space, see `HF.spaceSeqs`) -/
def trimSpace (s : Str) : Str := Tabula.HF.trimSpace s

/-- `for j := 0; j < level; j++ { sb.WriteString("  ") }` -/
def indent (level : Nat) : Str := List.replicate (2 * level) 32

/-- `strings.Repeat(s, n)` -/
def repeatStr (s : Str) : Nat → Str
  | 0 => []
  | n + 1 => s ++ repeatStr s n

/-! ### UTF-8 decoding as done by `for _, r := range s` -/

def isCont (b : Nat) : Bool := 128 ≤ b && b ≤ 191

/-- `utf8.DecodeRuneInString` at the front of the bytes: (rune, width); an invalid or
truncated sequence is U+FFFD of width 1 -/
def decodeRune : Str → Nat × Nat
  | [] => (65533, 1)
  | b0 :: rest =>
    if b0 < 128 then (b0, 1)
    else if 194 ≤ b0 ∧ b0 ≤ 223 then
      match rest with
      | b1 :: _ => if isCont b1 then ((b0 - 192) * 64 + (b1 - 128), 2) else (65533, 1)
      | _ => (65533, 1)
    else if 224 ≤ b0 ∧ b0 ≤ 239 then
      match rest with
      | b1 :: b2 :: _ =>
        let lo := if b0 = 224 then 160 else 128
        let hi := if b0 = 237 then 159 else 191
        if lo ≤ b1 ∧ b1 ≤ hi ∧ isCont b2 then ((b0 - 224) * 4096 + (b1 - 128) * 64 + (b2 - 128), 3) else (65533, 1)
      | _ => (65533, 1)
    else if 240 ≤ b0 ∧ b0 ≤ 244 then
      match rest with
      | b1 :: b2 :: b3 :: _ =>
        let lo := if b0 = 240 then 144 else 128
        let hi := if b0 = 244 then 143 else 191
        if lo ≤ b1 ∧ b1 ≤ hi ∧ isCont b2 ∧ isCont b3 then
          ((b0 - 240) * 262144 + (b1 - 128) * 4096 + (b2 - 128) * 64 + (b3 - 128), 4)
        else (65533, 1)
      | _ => (65533, 1)
    else (65533, 1)

/-- the runes of a string, in order (fuel = number of bytes) -/
def runesAux : Nat → Str → List Nat
  | 0, _ => []
  | _, [] => []
  | fuel + 1, s => let (r, w) := decodeRune s; r :: runesAux fuel (s.drop w)

def runes (s : Str) : List Nat := runesAux s.length s

/-! ### bullets -/

/-- "•" -/
def bulletDot : Str := [226, 128, 162]

/-- `bullets := []string{"•", "○", "■", "□", "▪", "▫", "►", "◦"}` -/
def bulletTable : List Str :=
  [[226, 128, 162], [226, 151, 139], [226, 150, 160], [226, 150, 161], [226, 150, 170], [226, 150, 171],
   [226, 150, 186], [226, 151, 166]]

/-- the level's default bullet: `if level < len(bullets) { return bullets[level] }; return "•"` -/
def levelBullet (level : Nat) : Str := bulletTable.getD level bulletDot

/-! ### tables: `ParsedTable.ToText`, `ParsedTable.ToMarkdown` -/

/-- what the table writers read of a parsed cell: text, column span, and the flag
"covered by a merge from above" (docx `IsMergedContinuation`, odt `IsCovered`) -/
structure RCell where
  text : Str
  colSpan : Nat
  covered : Bool
deriving Repr, Inhabited, BEq, DecidableEq

/-- `ToText`: cells of a row joined by a tab, rows by a newline, newlines inside a cell
replaced by spaces -/
def tableToText (rows : List (List RCell)) : Str :=
  joinWith [10] (rows.map fun row => joinWith [9] (row.map fun c => replaceNL c.text))

/-- `span := cell.ColSpan; if span < 1 { span = 1 }` -/
def spanOf (c : RCell) : Nat := if c.colSpan < 1 then 1 else c.colSpan

def rowWidth (row : List RCell) : Nat := (row.map spanOf).sum

/-- the widest row, in grid columns -/
def mdColCount (rows : List (List RCell)) : Nat := rows.foldl (fun m row => max m (rowWidth row)) 0

/-- one cell of a Markdown row: a covered cell keeps its columns empty, a cell of its
own is written once and followed by empty cells for the further columns it spans -/
def mdCell (c : RCell) : Str :=
  if c.covered then repeatStr [32, 124] (spanOf c)
  else [32] ++ trimSpace (escapePipes (replaceNL c.text)) ++ [32, 124] ++ repeatStr [32, 124] (spanOf c - 1)

/-- one row: the cells, then padding up to the column count -/
def mdRow (colCount : Nat) (row : List RCell) : Str :=
  [124] ++ row.flatMap mdCell ++ repeatStr [32, 124] (colCount - rowWidth row) ++ [10]

/-- the separator line after the first row -/
def mdSeparator (colCount : Nat) : Str := [124] ++ repeatStr [32, 45, 45, 45, 32, 124] colCount ++ [10]

/-- `ToMarkdown` -/
def tableToMarkdown (rows : List (List RCell)) : Str :=
  match rows with
  | [] => []
  | first :: rest =>
    let cc := mdColCount rows
    if cc = 0 then []
    else mdRow cc first ++ mdSeparator cc ++ rest.flatMap (mdRow cc)

/-! ### the document-model table (`model.Table`) -/

/-- `model.Cell` as far as the property goes -/
structure MCell where
  text : Str
  rowSpan : Nat
  colSpan : Nat
deriving Repr, Inhabited, BEq, DecidableEq

/-- the cell `model.NewTable` fills the grid with -/
def blankCell : MCell := { text := [], rowSpan := 1, colSpan := 1 }

/-- `model.NewTable(rows, cols)` -/
def newGrid (rows cols : Nat) : List (List MCell) := List.replicate rows (List.replicate cols blankCell)

/-- `table.SetCell(row, col, cell)` (out of range: nothing happens) -/
def setCell (g : List (List MCell)) (r c : Nat) (cell : MCell) : List (List MCell) :=
  g.modify r fun row => row.set c cell

/-- the loop over the cells of one row of `ToModelTable` (docx/tables.go and odt/tables.go):
`width` = the grid columns the cell takes, `skip` = the cell is covered by a merge from above
(it takes its columns and sets nothing), `mk` = the model cell; the loop stops at the first
cell that starts beyond the grid -/
def fillRowG {α : Type} (width : α → Nat) (skip : α → Bool) (mk : α → MCell) (colCount rowIdx : Nat) :
    List α → Nat → List (List MCell) → List (List MCell)
  | [], _, g => g
  | c :: rest, colIdx, g =>
    if colIdx ≥ colCount then g
    else if skip c then fillRowG width skip mk colCount rowIdx rest (colIdx + width c) g
    else fillRowG width skip mk colCount rowIdx rest (colIdx + width c) (setCell g rowIdx colIdx (mk c))

/-- the loop over the rows -/
def fillRowsG {α : Type} (width : α → Nat) (skip : α → Bool) (mk : α → MCell) (colCount : Nat) :
    List (List α) → Nat → List (List MCell) → List (List MCell)
  | [], _, g => g
  | row :: rest, rowIdx, g =>
    fillRowsG width skip mk colCount rest (rowIdx + 1) (fillRowG width skip mk colCount rowIdx row 0 g)

end Tabula.Render
