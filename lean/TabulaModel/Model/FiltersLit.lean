import TabulaModel.Model.Filters
/-!
Loop-level ("literal") models of the two ASCII decoders of `internal/filters/ascii.go`.

`Model/Filters.lean` renders `ASCIIHexDecode` and `ASCII85Decode` as one-pass state machines over the
remaining input (`hexGo`, `a85Go`) and works with unbounded natural numbers. That rendering is the
modeller's reading of the Go loops. Here the loops are transcribed statement by statement instead:
an index `i` into `data`, `data[i]` / `data[i+1]` with the bounds tests of the source, the inner
white-space loops, the special case `i+1 >= len(data)` of the hexadecimal decoder, the nested digit
loop of the base-85 decoder with its `break`s, `numBytes` and its clamp, the `u` padding loop, the
`uint64` accumulator and the `byte(value >> (24 - j*8))` extraction, `(b1 << 4) | b2` in byte
arithmetic. `Lemmas/FiltersLit.lean` proves that these loops compute exactly `hexDecode` /
`a85Decode` on every input (`hexDecodeLit_eq`, `a85DecodeLit_eq`); the harness compares them with
the implementation as well (`c05.lit.hex`, `c05.lit.a85`). Core Lean only.
-/
namespace Tabula.Filters

/-- Go's conversion `byte(x)` and the wrap-around of arithmetic on `byte` values -/
def toByte (n : Nat) : Nat := n % 256

/-- the wrap-around of arithmetic on `uint64` values -/
def toU64 (n : Nat) : Nat := n % 18446744073709551616

/-- `for i < len(data) && isWhitespace(data[i]) { i++ }`: the index after the loop -/
def skipWs (data : Str) (i : Nat) : Nat :=
  if h : i < data.length then
    if isWs data[i] then skipWs data (i + 1) else i
  else i
termination_by data.length - i

theorem skipWs_ge (data : Str) : ∀ (n i : Nat), data.length - i = n → i ≤ skipWs data i := by
  intro n
  induction n using Nat.strongRecOn with
  | _ n ih =>
    intro i hn
    rw [skipWs]
    split
    · split
      · have := ih (data.length - (i + 1)) (by omega) (i + 1) rfl
        omega
      · exact Nat.le_refl _
    · exact Nat.le_refl _

/-- the body of `for i < len(data) { … }` in `filters.ASCIIHexDecode`, from index `i` with the
bytes written to `result` so far in `out` -/
def hexLoop (data : Str) (i : Nat) (out : Str) : Option Str :=
  if h : i < data.length then
    -- Skip whitespace
    if isWs data[i] then hexLoop data (i + 1) out
    -- Check for EOD marker
    else if data[i] = 62 then some out
    -- Read two hex digits
    else if i + 1 ≥ data.length then
      -- Odd number of digits - assume trailing 0
      match hexVal data[i] with
      | none => none
      | some b => some (out ++ [toByte (b <<< 4)])
    else
      -- Get first hex digit
      match hexVal data[i] with
      | none => none
      | some b1 =>
        -- Skip whitespace before second digit
        if hj : skipWs data (i + 1) < data.length then
          if data[skipWs data (i + 1)] = 62 then
            -- Odd number of digits
            some (out ++ [toByte (b1 <<< 4)])
          else
            -- Get second hex digit
            match hexVal data[skipWs data (i + 1)] with
            | none => none
            | some b2 =>
              -- Combine two hex digits into one byte
              hexLoop data (skipWs data (i + 1) + 1) (out ++ [toByte (b1 <<< 4) ||| b2])
        else some (out ++ [toByte (b1 <<< 4)])
  else some out
termination_by data.length - i
decreasing_by
  · omega
  · have := skipWs_ge data _ (i + 1) rfl
    omega

/-- `filters.ASCIIHexDecode`, loop by loop -/
def hexDecodeLit (data : Str) : Option Str := hexLoop data 0 []

/-! ### ASCII85 -/

/-- `i+1 < len(data) && data[i] == '~' && data[i+1] == '>'` -/
def isEODAt (data : Str) (i : Nat) : Bool :=
  decide (i + 1 < data.length) && data[i]? == some 126 && data[i + 1]? == some 62

/-- the inner loop `for len(digits) < 5 && i < len(data) { … }` of `filters.ASCII85Decode`: the
index and the digits when the loop is left, `none` for `return nil, error` -/
def a85Inner (data : Str) (i : Nat) (digits : List Nat) : Option (Nat × List Nat) :=
  if h : digits.length < 5 ∧ i < data.length then
    if isWs (data[i]'h.2) then a85Inner data (i + 1) digits
    else if isEODAt data i then some (i, digits)
    else if data[i]'h.2 < 33 ∨ data[i]'h.2 > 117 then none
    else a85Inner data (i + 1) (digits ++ [toByte (data[i]'h.2 - 33)])
  else some (i, digits)
termination_by data.length - i

/-- `for len(digits) < 5 { digits = append(digits, 84) }` -/
def padTo5 (digits : List Nat) : List Nat := digits ++ List.replicate (5 - digits.length) 84

/-- `value := uint64(0); for _, d := range digits { value = value*85 + uint64(d) }` -/
def a85ValueU64 (digits : List Nat) : Nat := digits.foldl (fun v d => toU64 (v * 85 + d)) 0

/-- `for j := 0; j < numBytes; j++ { result.WriteByte(byte(value >> (24 - j*8))) }` -/
def a85Emit (value numBytes : Nat) : Str := (List.range numBytes).map fun j => toByte (value >>> (24 - j * 8))

/-- the outer loop `for i < len(data) { … }` of `filters.ASCII85Decode` -/
def a85Outer (data : Str) (i : Nat) (out : Str) : Option Str :=
  if h : i < data.length then
    -- Skip whitespace
    if isWs data[i] then a85Outer data (i + 1) out
    -- Check for EOD marker ~>
    else if isEODAt data i then some out
    -- Special case: 'z' represents 0x00000000
    else if data[i] = 122 then a85Outer data (i + 1) (out ++ [0, 0, 0, 0])
    else
      -- Read up to 5 base-85 digits
      match a85Inner data i [] with
      | none => none
      | some (i', digits) =>
        if digits.length = 0 then some out
        else
          let numBytes := if digits.length - 1 > 4 then 4 else digits.length - 1
          let value := a85ValueU64 (padTo5 digits)
          if value > 4294967295 then none
          else if i < i' then a85Outer data i' (out ++ a85Emit value numBytes)
          else none -- not reachable: the inner loop has stored a digit, so it has advanced (`a85Inner_progress`)
  else some out
termination_by data.length - i

/-- `filters.ASCII85Decode`, loop by loop: the leading white space is skipped first -/
def a85DecodeLit (data : Str) : Option Str := a85Outer data (skipWs data 0) []

end Tabula.Filters
