import TabulaModel.Model.Detect
/-
Model of epubdoc/drm.go (checkForDRM, hasEncryptedContent, isFontObfuscation,
isContentFile), as the code is after the fix "recognise the standard font
obfuscation algorithm URIs".  Core Lean only.

External calls are parameters: `archive/zip` gives the member list in archive
order, of which only META-INF/rights.xml and META-INF/encryption.xml matter;
`encoding/xml` gives, for encryption.xml, either an error or the list of
(EncryptionMethod/@Algorithm, CipherData/CipherReference/@URI) pairs in
document order.  `strings.ToLower` is modelled on ASCII.
-/
namespace Tabula.Drm
open Tabula.Detect

/-- `"adobe.com"` -/
def sAdobeCom : Str := [97, 100, 111, 98, 101, 46, 99, 111, 109]
/-- `"idpf.org"` -/
def sIdpfOrg : Str := [105, 100, 112, 102, 46, 111, 114, 103]
/-- `"obfuscation"` -/
def sObfuscation : Str := [111, 98, 102, 117, 115, 99, 97, 116, 105, 111, 110]
/-- `"http://www.idpf.org/2008/embedding"` -/
def algoIdpf : Str := [104, 116, 116, 112, 58, 47, 47, 119, 119, 119, 46, 105, 100, 112, 102, 46, 111, 114, 103, 47, 50, 48, 48, 56, 47, 101, 109, 98, 101, 100, 100, 105, 110, 103]
/-- `"http://ns.adobe.com/pdf/enc#RC"` -/
def algoAdobe : Str := [104, 116, 116, 112, 58, 47, 47, 110, 115, 46, 97, 100, 111, 98, 101, 46, 99, 111, 109, 47, 112, 100, 102, 47, 101, 110, 99, 35, 82, 67]
/-- `".xhtml"` -/
def sfxXhtml : Str := [46, 120, 104, 116, 109, 108]
/-- `".html"` -/
def sfxHtml : Str := [46, 104, 116, 109, 108]
/-- `".htm"` -/
def sfxHtm : Str := [46, 104, 116, 109]
/-- `".xml"` -/
def sfxXml : Str := [46, 120, 109, 108]
/-- `".css"` -/
def sfxCss : Str := [46, 99, 115, 115]

/-- `epubdoc.isFontObfuscation` -/
def isFontObfuscation (algorithm : Str) : Bool :=
  if algorithm = algoIdpf ∨ algorithm = algoAdobe then true
  else if hasSub sAdobeCom algorithm && hasSub sObfuscation algorithm then true
  else if hasSub sIdpfOrg algorithm && hasSub sObfuscation algorithm then true
  else false

/-- `epubdoc.isContentFile` -/
def isContentFile (uri : Str) : Bool :=
  let u := lower uri
  if hasSuffix u sfxXhtml || hasSuffix u sfxHtml || hasSuffix u sfxHtm || hasSuffix u sfxXml then true
  else if hasSuffix u sfxCss then true
  else false

/-- one `EncryptedData` element as unmarshalled -/
structure Entry where
  algorithm : Str
  uri : Str
deriving DecidableEq, Repr

/-- the loop of `hasEncryptedContent` over the unmarshalled entries -/
def hasEncryptedContent : List Entry → Bool
  | [] => false
  | ed :: rest =>
    let uri := lower ed.uri
    if isFontObfuscation ed.algorithm then hasEncryptedContent rest
    else if isContentFile uri then true
    else hasEncryptedContent rest

/-- an archive member as `checkForDRM` classifies it -/
inductive DMember where
  | rights                          -- META-INF/rights.xml
  | encryption (parsed : Option (List Entry))  -- META-INF/encryption.xml; none = read/parse error
  | other
deriving Repr

/-- `epubdoc.checkForDRM`: `true` = `ErrDRMProtected` -/
def checkForDRM : List DMember → Bool
  | [] => false
  | .rights :: _ => true
  | .encryption none :: _ => true
  | .encryption (some es) :: rest => if hasEncryptedContent es then true else checkForDRM rest
  | .other :: rest => checkForDRM rest

end Tabula.Drm
