/-
Bounded-work models of the guards the C02 repairs put around DATA-sized work in the PDF path
(each function names the Go function it mirrors; constants are the Go constants):
  internal/filters/ccittfax.go  CCITTFaxDecode                       (0d4fd26, 6dc2783)
  layout/columns.go             (*ColumnDetector).findVerticalGaps   (988a551, 541d4a6)
  reader/image.go               (*PageImage).ToPNG, parseColorSpaceAt (0297b1b, 3b6b3b5)
  extractor.go                  (*Extractor).extractPreserveLayout   (daef69b)
  reader/reader.go              extractTextWithFragments (/Contents) (36a165b)
Floats never appear: the harness hands over the integers the Go code obtains from its
float-to-int conversions (bucket numbers, columns, gaps in lines); those conversions are the Go
runtime's, not tabula's. Core Lean only.
-/
namespace Tabula.BoundsData

/-! ### 1. CCITTFaxDecode -/

def maxCCITTOutput : Nat := 64 * 1024 * 1024

inductive CCRes
  | badParams               -- Columns < 1 or Rows < 0
  | tooLarge                -- "image larger than 67108864 bytes"
  | ok (n : Nat)
  deriving Repr, DecidableEq

/-- `CCITTFaxDecode` with `/Columns`, `/Rows` as read and `avail` the number of bytes the
x/image/ccitt reader would deliver if read to its end (a parameter: external library). The
result and the number of bytes actually read into memory (`io.LimitReader(max+1)`). -/
def ccittDecode (columns rows : Int) (avail : Nat) : CCRes × Nat :=
  if columns < 1 then (.badParams, 0)
  else if rows < 0 then (.badParams, 0)
  else
    let read := if avail > maxCCITTOutput + 1 then maxCCITTOutput + 1 else avail
    if read > maxCCITTOutput then (.tooLarge, read) else (.ok read, read)

/-! ### 2. the column histogram of `findVerticalGaps` -/

def maxBuckets : Nat := 1048576

/-- the width check: `none` = no gaps are reported; `some nb` = the number of buckets.
`w` is the page width in points (an integer here; `w/5.0 >= 2^20` iff `w >= 5*2^20`). -/
def numBuckets (w : Int) : Option Nat :=
  if w < 0 ∨ w ≥ 5 * (maxBuckets : Int) then none else some ((w / 5).toNat + 1)

/-- a fragment's run of buckets after clamping: `int(X/5)` and `int((X+Width)/5)` as computed,
then `startBucket < 0 → 0`, `endBucket ≥ nb → nb-1`; `none` when the run is empty -/
def clampStart (s : Int) : Int := if s < 0 then 0 else s
def clampEnd (nb : Nat) (e : Int) : Int := if e ≥ (nb : Int) then (nb : Int) - 1 else e
def clampRun (nb : Nat) (s e : Int) : Option (Nat × Nat) :=
  if clampStart s ≤ clampEnd nb e then some ((clampStart s).toNat, (clampEnd nb e).toNat) else none

/-- `histogram[start]++ ; histogram[end+1]--` on the difference array (length nb+1) -/
def bump (h : List Int) (i : Nat) (d : Int) : List Int :=
  match h[i]? with
  | some v => h.set i (v + d)
  | none => h          -- out of range: would be a Go panic; shown impossible

def histDiff (nb : Nat) : List (Int × Int) → List Int → List Int
  | [], h => h
  | (s, e) :: rest, h =>
    match clampRun nb s e with
    | some (a, b) => histDiff nb rest (bump (bump h a 1) (b + 1) (-1))
    | none => histDiff nb rest h

/-- `for b := 1; b < len(histogram); b++ { histogram[b] += histogram[b-1] }` -/
def prefixSumsGo : List Int → Int → List Int → List Int
  | [], _, out => out.reverse
  | x :: rest, acc, out => prefixSumsGo rest (acc + x) ((acc + x) :: out)

def prefixSums (l : List Int) (acc : Int) : List Int := prefixSumsGo l acc []

def histogram (nb : Nat) (frags : List (Int × Int)) : List Int :=
  (prefixSums (histDiff nb frags (List.replicate (nb + 1) 0)) 0).take nb

/-- the number of runs covering bucket `b` -/
def cover (nb : Nat) (frags : List (Int × Int)) (b : Nat) : Int :=
  ((frags.filter (fun (s, e) =>
      match clampRun nb s e with
      | some (a, c) => decide (a ≤ b ∧ b ≤ c)
      | none => false)).length : Int)

/-- the histogram the replaced code built: every bucket of every run incremented -/
def histNaive (nb : Nat) (frags : List (Int × Int)) : List Int :=
  (List.range nb).map (cover nb frags)

/-- the number of elementary steps of the repaired code: one per fragment, one per bucket -/
def histSteps (nb : Nat) (frags : List (Int × Int)) : Nat := frags.length + (nb + 1)

def minOf : List Int → Int → Int
  | [], m => m
  | x :: rest, m => minOf rest (if x < m then x else m)
def maxOf : List Int → Int → Int
  | [], m => m
  | x :: rest, m => maxOf rest (if x > m then x else m)

structure Valley where
  inValley : Bool
  start : Nat
  gaps : List (Nat × Nat)      -- (valleyStart, valleyEnd) in buckets, newest first
  deriving Repr

/-- the valley scan over buckets `sb..eb`: a bucket is low when `hist[b] < 0.2 * total/content`,
i.e. `hist[b] * 5 * content < total` -/
def valleyScan (hist : List Int) (total content : Int) : List Nat → Valley → Valley
  | [], v => v
  | b :: rest, v =>
    let isLow := decide ((hist.getD b 0) * 5 * content < total)
    if isLow && !v.inValley then valleyScan hist total content rest { v with inValley := true, start := b }
    else if !isLow && v.inValley then
      -- gap width (b - start) * 5 ≥ MinGapWidth = 20
      let gaps := if (b - v.start) * 5 ≥ 20 then (v.start, b) :: v.gaps else v.gaps
      valleyScan hist total content rest { v with inValley := false, gaps := gaps }
    else valleyScan hist total content rest v

/-- `if len(gaps) >= MaxColumns { gaps = gaps[:MaxColumns-1] }` with MaxColumns = 6 -/
def capGaps (gaps : List (Nat × Nat)) : List (Nat × Nat) :=
  if gaps.length ≥ 6 then gaps.take 5 else gaps

/-- the part of `findVerticalGaps` after the histogram is built -/
def gapsIn (nb : Nat) (hist : List Int) (minStart maxEnd : Int) : List (Nat × Nat) :=
  let sb : Int := clampStart minStart
  let eb : Int := clampEnd nb maxEnd
  if sb > eb then []
  else
    let bs := (List.range (eb.toNat + 1)).drop sb.toNat
    let total := (bs.map (fun b => hist.getD b 0)).foldl (· + ·) 0
    let v := valleyScan hist total (bs.length : Int) bs ⟨false, 0, []⟩
    let gaps := if v.inValley then
        (if (eb.toNat - v.start) * 5 ≥ 20 then (v.start, eb.toNat) :: v.gaps else v.gaps)
      else v.gaps
    capGaps gaps.reverse

/-- `findVerticalGaps` (default configuration) on integer bucket data: fragments as
`(int(X/5), int((X+Width)/5))`; the gaps as pairs of bucket numbers -/
def findGaps (w : Int) (frags : List (Int × Int)) : List (Nat × Nat) :=
  match frags with
  | [] => []
  | (s0, e0) :: _ =>
    match numBuckets w with
    | none => []
    | some nb =>
      gapsIn nb (histogram nb frags) (minOf (frags.map Prod.fst) s0) (maxOf (frags.map Prod.snd) e0)

/-! ### 3. `PageImage.ToPNG` and the colour space of an image -/

def maxImagePixels : Nat := 67108864

/-- the check before any raw image is allocated: one pixel per bit of data at most -/
def imageFits (w h : Int) (len : Nat) : Bool :=
  let bits : Int := (len : Int) * 8
  !(decide (w ≤ 0) || decide (h ≤ 0) || decide (w > bits) || decide (h > bits / w))

inductive ImgCS | gray | rgb | cmyk
  deriving Repr, DecidableEq

inductive PngErr
  | fit      -- "image of %d x %d pixels does not fit its %d bytes of data" (nothing allocated)
  | data     -- "insufficient data …" (the image was allocated: at most 8 pixels per byte)
  | bpc      -- "unsupported bits per component"
  deriving Repr, DecidableEq

/-- `ToPNG` on raw (not JPEG) data: `.ok pixels` = an image of that many pixels was allocated
and encoded -/
def toPNG (cs : ImgCS) (bpc : Int) (w h : Int) (len : Nat) : Except PngErr Nat :=
  if !imageFits w h len then .error .fit
  else
    let W := w.toNat
    let H := h.toNat
    match cs with
    | .gray =>
      if bpc = 1 then (if len < (W + 7) / 8 * H then .error .data else .ok (W * H))
      else if bpc = 8 then (if len < W * H then .error .data else .ok (W * H))
      else if bpc = 4 then (if len < (W + 1) / 2 * H then .error .data else .ok (W * H))
      else .error .bpc
    | .rgb => if bpc ≠ 8 then .error .bpc else if len < W * H * 3 then .error .data else .ok (W * H)
    | .cmyk => if bpc ≠ 8 then .error .bpc else if len < W * H * 4 then .error .data else .ok (W * H)

/-- the check on a JPEG frame header before `jpeg.Decode` allocates what it announces -/
def jpegFits (w h : Int) : Bool :=
  !(decide (w ≤ 0) || decide (h ≤ 0) || decide (w > (maxImagePixels : Int) / h))

/-- a colour-space value: names are numbers (0 = DeviceGray) -/
inductive CS where
  | ref (n : Nat)
  | name (id : Nat)
  | indexed (base : CS)       -- [/Indexed base …]
  | icc                       -- [/ICCBased stream]
  | arrName (id : Nat)        -- [/Name …] any other array colour space
  | other
  deriving Repr

def maxColorSpaceDepth : Nat := 8

def lookupC (g : List (Nat × CS)) (n : Nat) : Option CS :=
  match g.find? (·.1 = n) with
  | some (_, v) => some v
  | none => none

/-- `parseColorSpaceAt(obj, depth)`; names: 0 DeviceGray, 3 ICCBased. Returns the name and the
deepest `depth` reached. `none` = model fuel exhausted (shown impossible). -/
def parseColorSpaceAt (g : List (Nat × CS)) : Nat → CS → Nat → Option (Nat × Nat)
  | 0, _, _ => none
  | fuel + 1, obj, depth =>
    if depth > maxColorSpaceDepth then some (0, depth)
    else
      let resolved : Option CS := match obj with
        | .ref n => lookupC g n
        | v => some v
      match resolved with
      | none => some (0, depth)                       -- Resolve failed
      | some (.name id) => some (id, depth)
      | some (.indexed base) => parseColorSpaceAt g fuel base (depth + 1)
      | some .icc => some (3, depth)
      | some (.arrName id) => some (id, depth)
      | some _ => some (0, depth)

def parseColorSpace (g : List (Nat × CS)) (obj : CS) : Option (Nat × Nat) :=
  parseColorSpaceAt g (maxColorSpaceDepth + 2) obj 0

/-! ### 4. `extractPreserveLayout` -/

def maxCharsPerLine : Nat := 200
def maxGapLines : Nat := 100

/-- one output line: the gap to the previous line in line heights as computed
(`int(verticalGap/lineHeight + 0.5)`), and its fragments (`int(X/charWidth)`, `len(Text)`) -/
structure PLine where
  gap : Int
  frags : List (Int × Nat)
  deriving Repr

def clampGap (g : Int) : Nat := if g < 1 then 1 else if g > (maxGapLines : Int) then maxGapLines else g.toNat
def clampCol (c : Int) : Nat := if c < 0 then 0 else if c > (maxCharsPerLine : Int) then maxCharsPerLine else c.toNat

/-- the padding written before each fragment of one line, given the current column -/
def linePads : List (Int × Nat) → Nat → List Nat
  | [], _ => []
  | (c, len) :: rest, cur =>
    let t := clampCol c
    if t > cur then (t - cur) :: linePads rest (t + len)
    else 0 :: linePads rest (cur + len)

/-- the output, as runs: (newlines before the line, [(spaces, text length)]) -/
def preserveLayout : List PLine → Bool → List (Nat × List (Nat × Nat))
  | [], _ => []
  | ln :: rest, first =>
    ((if first then 0 else clampGap ln.gap), (linePads ln.frags 0).zip (ln.frags.map Prod.snd))
      :: preserveLayout rest false

def runLen (r : Nat × List (Nat × Nat)) : Nat := r.1 + (r.2.map (fun p => p.1 + p.2)).sum
def outputLen (out : List (Nat × List (Nat × Nat))) : Nat := (out.map runLen).sum
def textLen (lines : List PLine) : Nat := (lines.map (fun l => (l.frags.map Prod.snd).sum)).sum

/-! ### 5. the content of one page -/

def maxPageContentBytes : Nat := 64 * 1024 * 1024

/-- the concatenation loop over the decoded streams of `/Contents` (their lengths): the total
kept, or `none` = "content streams of the page exceed 67108864 bytes" -/
def concatContents : List Nat → Nat → Option Nat
  | [], total => some total
  | len :: rest, total =>
    if total + len > maxPageContentBytes then none
    else concatContents rest (total + len + (if len > 0 then 1 else 0))

end Tabula.BoundsData
