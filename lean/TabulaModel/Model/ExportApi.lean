import TabulaModel.Model.Export
/-
Model of the parts of rag/export.go around the core of `Model/Export.lean`: the library's
configurations (`DefaultExportConfig`, `JSONLExportConfig`, `CSVExportConfig`, `TSVExportConfig`,
`VectorDBExportConfig`, the configuration `ToJSON` builds), `(*BatchExporter).Export` with its
`Data` and its two error exits, `(*StreamExporter).WriteChunk/Close` under arbitrary call
sequences, and the record building of `(*EmbeddingExporter).PrepareForVectorDB /
ExportForPinecone / ExportForChroma / ExportForWeaviate`.  Also the SPECIFICATION of a metadata
value in terms of the chunk's own fields (`metaField`), which the theorems compare
`chunkMetadataToMap`/`filterMetadata` with.  Core Lean only.

Embedding components are `float64` in Go; the model is polymorphic in their type `F` (nothing
in the record building looks at a component, only at lengths).
-/
namespace Tabula.Export
open Tabula.Csv (Str)

def kChunkId : Str := [99, 104, 117, 110, 107, 95, 105, 100]  -- "chunk_id"
def kValues : Str := [118, 97, 108, 117, 101, 115]  -- "values"
def kMetadata : Str := [109, 101, 116, 97, 100, 97, 116, 97]  -- "metadata"
def kVectors : Str := [118, 101, 99, 116, 111, 114, 115]  -- "vectors"
def kIds : Str := [105, 100, 115]  -- "ids"
def kDocuments : Str := [100, 111, 99, 117, 109, 101, 110, 116, 115]  -- "documents"
def kMetadatas : Str := [109, 101, 116, 97, 100, 97, 116, 97, 115]  -- "metadatas"
def kClass : Str := [99, 108, 97, 115, 115]  -- "class"
def kProperties : Str := [112, 114, 111, 112, 101, 114, 116, 105, 101, 115]  -- "properties"
def kVector : Str := [118, 101, 99, 116, 111, 114]  -- "vector"
def kEmbedding : Str := [101, 109, 98, 101, 100, 100, 105, 110, 103]  -- "embedding"
def kContent : Str := [99, 111, 110, 116, 101, 110, 116]  -- "content"
def kDocumentTitleC : Str := [100, 111, 99, 117, 109, 101, 110, 116, 84, 105, 116, 108, 101]  -- "documentTitle"
def kPageStartC : Str := [112, 97, 103, 101, 83, 116, 97, 114, 116]  -- "pageStart"
def kSectionTitleC : Str := [115, 101, 99, 116, 105, 111, 110, 84, 105, 116, 108, 101]  -- "sectionTitle"
def kChunkIndexC : Str := [99, 104, 117, 110, 107, 73, 110, 100, 101, 120]  -- "chunkIndex"

/-! ## the library's configurations -/

/-- `DefaultExportConfig` -/
def defaultExportConfig : Config :=
  { format := .jsonl, includeMetadata := true, metadataFields := none, includeText := true,
    includeEmbeddings := false, flattenMetadata := false, csvDelimiter := 44, includeHeader := true,
    prettyPrint := false, textColumnName := kText, chunkIDColumnName := kChunkId }

/-- `JSONLExportConfig` -/
def jsonlExportConfig : Config := { defaultExportConfig with format := .jsonl }

/-- `CSVExportConfig` -/
def csvExportConfig : Config := { defaultExportConfig with format := .csv, flattenMetadata := true }

/-- `TSVExportConfig` -/
def tsvExportConfig : Config :=
  { defaultExportConfig with format := .tsv, flattenMetadata := true, csvDelimiter := 9 }

/-- the configuration `(*ChunkCollection).ToJSON` builds -/
def toJSONConfig : Config := { defaultExportConfig with format := .json, prettyPrint := true }

/-- `VectorDBExportConfig` (a struct literal: `CSVDelimiter` and `IncludeHeader` keep their zero values) -/
def vectorDBExportConfig : Config :=
  { format := .jsonl, includeMetadata := true,
    metadataFields := some [kDocumentTitle, kPageStart, kChunkIndex, kSectionTitle, kSectionPath, kElementTypes],
    includeText := true, includeEmbeddings := true, flattenMetadata := false, csvDelimiter := 0,
    includeHeader := false, prettyPrint := false, textColumnName := kText, chunkIDColumnName := kId }

/-! ## specification of one metadata value from the chunk's fields -/

/-- What the property calls "the metadata value" of key `k` of a chunk: the typed value of the
source field, absent when the field is empty/zero (the export omits empty values).  Written as
a table over the key, independent of `chunkMetadataToMap`. -/
def metaField (m : Meta) (k : Str) : Option Val :=
  if k = kDocumentTitle then (if m.documentTitle ≠ [] then some (.str m.documentTitle) else none)
  else if k = kSectionPath then (if m.sectionPath ≠ [] then some (.strs m.sectionPath) else none)
  else if k = kSectionTitle then (if m.sectionTitle ≠ [] then some (.str m.sectionTitle) else none)
  else if k = kHeadingLevel then (if m.headingLevel > 0 then some (.int m.headingLevel) else none)
  else if k = kPageStart then (if m.pageStart > 0 then some (.int m.pageStart) else none)
  else if k = kPageEnd then (if m.pageEnd > 0 then some (.int m.pageEnd) else none)
  else if k = kChunkIndex then some (.int m.chunkIndex)
  else if k = kTotalChunks then (if m.totalChunks > 0 then some (.int m.totalChunks) else none)
  else if k = kLevel then some (.str (levelString m.level))
  else if k = kParentId then (if m.parentID ≠ [] then some (.str m.parentID) else none)
  else if k = kChildIds then (if m.childIDs ≠ [] then some (.strs m.childIDs) else none)
  else if k = kElementTypes then (if m.elementTypes ≠ [] then some (.strs m.elementTypes) else none)
  else if k = kHasTable then (if m.hasTable then some (.bool true) else none)
  else if k = kHasList then (if m.hasList then some (.bool true) else none)
  else if k = kHasImage then (if m.hasImage then some (.bool true) else none)
  else if k = kCharCount then (if m.charCount > 0 then some (.int m.charCount) else none)
  else if k = kWordCount then (if m.wordCount > 0 then some (.int m.wordCount) else none)
  else if k = kEstimatedTokens then (if m.estimatedTokens > 0 then some (.int m.estimatedTokens) else none)
  else none

/-- does the configuration ask for metadata field `k`? (`MetadataFields == nil` = all) -/
def allowedField (cfg : Config) (k : Str) : Bool :=
  match cfg.metadataFields with
  | none => true
  | some fs => fs.contains k

/-- the metadata value of key `k` an export under `cfg` carries for a chunk -/
def exportedMeta (cfg : Config) (m : Meta) (k : Str) : Option Val :=
  if cfg.includeMetadata && allowedField cfg k then metaField m k else none

/-! ## specification of a cell, and column-name hygiene -/

/-- SPECIFICATION of a CSV/TSV cell: the value of column `col` for chunk `c`, read off the
chunk's own fields (id, text, positional metadata, `exportedMeta` for `meta_<key>`). -/
def cellSpec (cfg : Config) (c : Chunk) (col : Str) : Str :=
  if col = cfg.chunkIDColumnName then c.id
  else if col = cfg.textColumnName then (if cfg.includeText then c.text else [])
  else if col = kChunkIndex then decInt c.md.chunkIndex
  else if col = kDocumentTitle then c.md.documentTitle
  else if col = kPageStart then decInt c.md.pageStart
  else if col = kPageEnd then decInt c.md.pageEnd
  else if col = kSectionTitle then c.md.sectionTitle
  else if col = kHasTable then boolStr c.md.hasTable
  else if col = kHasList then boolStr c.md.hasList
  else if col = kHasImage then boolStr c.md.hasImage
  else if col = kEmbeddings then []
  else match stripMeta col with
    | some key =>
      (match exportedMeta cfg c.md key with
       | some v => formatValue (fun _ => []) v
       | none => [])
    | none => []

def positionalColumns : List Str :=
  [kChunkIndex, kDocumentTitle, kPageStart, kPageEnd, kSectionTitle, kHasTable, kHasList, kHasImage]

/-- the configured id/text column names are distinct, are not one of the fixed column names and do
not start with `meta_` -/
def namesOk (cfg : Config) : Bool :=
  cfg.textColumnName != cfg.chunkIDColumnName &&
  !(kEmbeddings :: positionalColumns).contains cfg.chunkIDColumnName &&
  !(kEmbeddings :: positionalColumns).contains cfg.textColumnName &&
  (stripMeta cfg.chunkIDColumnName).isNone && (stripMeta cfg.textColumnName).isNone

/-! ## BatchExporter with `Data`, export errors and callback errors -/

/-- how `(*BatchExporter).Export` returns -/
inductive BatchResult where
  | ok
  | exportErr (start : Nat)          -- "exporting batch starting at %d"
  | callbackErr (batchNumber : Nat)  -- "processing batch %d"
  deriving DecidableEq, Repr

/-- `(*BatchExporter).Export`, the loop as written: `exportFn` = `exporter.ExportToString`
(`none` = error), `cb` = the caller's callback (`false` = it returns an error).  The result is
the list of callback invocations (batch and its `Data`), in call order, and the return value. -/
def batchLoopRun {α β : Type} (size : Nat) (hs : 0 < size) (exportFn : List α → Option β)
    (cb : Batch α → β → Bool) (chunks : List α) (i : Nat) : List (Batch α × β) × BatchResult :=
  if h : i < chunks.length then
    let e := if i + size > chunks.length then chunks.length else i + size
    let batch := (chunks.drop i).take (e - i)
    match exportFn batch with
    | none => ([], .exportErr i)
    | some data =>
      let b : Batch α := { batchNumber := i / size, startIndex := i, endIndex := e, chunkCount := e - i, items := batch }
      if cb b data then
        let r := batchLoopRun size hs exportFn cb chunks (i + size)
        ((b, data) :: r.1, r.2)
      else ([(b, data)], .callbackErr (i / size))
  else ([], .ok)
termination_by chunks.length - i
decreasing_by omega

/-- `(*BatchExporter).Export`; `none` for batch size 0 = the size error (see `batchExport`; all `int` sizes:
`batchExportRunInt` in `Model/ExportIO.lean`) -/
def batchExportRun {α β : Type} (size : Nat) (exportFn : List α → Option β) (cb : Batch α → β → Bool)
    (chunks : List α) : Option (List (Batch α × β) × BatchResult) :=
  if hs : 0 < size then some (batchLoopRun size hs exportFn cb chunks 0) else none

/-- the same run over an already computed list of batches (specification form) -/
def batchRun {α β : Type} (exportFn : List α → Option β) (cb : Batch α → β → Bool) :
    List (Batch α) → List (Batch α × β) × BatchResult
  | [] => ([], .ok)
  | b :: bs =>
    match exportFn b.items with
    | none => ([], .exportErr b.startIndex)
    | some data =>
      if cb b data then ((b, data) :: (batchRun exportFn cb bs).1, (batchRun exportFn cb bs).2)
      else ([(b, data)], .callbackErr b.batchNumber)

/-! ## StreamExporter under arbitrary call sequences -/

/-- one call on a `*StreamExporter` -/
inductive StreamCall where
  | write (c : Chunk) (index : Int)   -- `WriteChunk(chunk, index)`
  | close                              -- `Close()`

/-- state of a stream: the records written so far (in order) and the results of the calls so
far (`true` = nil error) -/
structure StreamState where
  written : List Exported
  results : List Bool

/-- one call: `WriteChunk` ignores `index`; `Close` does nothing and returns nil -/
def streamCall (cfg : Config) (st : StreamState) : StreamCall → StreamState
  | .write c _ =>
    match writeChunk cfg st.written c with
    | some w => { written := w, results := st.results ++ [true] }
    | none => { st with results := st.results ++ [false] }
  | .close => { st with results := st.results ++ [true] }

def streamRun (cfg : Config) : List StreamCall → StreamState → StreamState
  | [], st => st
  | call :: rest, st => streamRun cfg rest (streamCall cfg st call)

/-- the chunks a call sequence asks to write, in call order -/
def writtenChunks : List StreamCall → List Chunk
  | [] => []
  | .write c _ :: rest => c :: writtenChunks rest
  | .close :: rest => writtenChunks rest

/-! ## EmbeddingExporter: record building -/

/-- a Go `[]float64`: `none` = nil slice -/
abbrev Emb (F : Type) := Option (List F)

/-- `embeddings[i]` guarded by `i < len(embeddings)`, as a possibly empty list -/
def embAt {F : Type} (embs : List (Emb F)) (i : Nat) : List F :=
  match embs[i]? with
  | some (some v) => v
  | _ => []

/-- `EmbeddingRecord` (the `Embedding` field is never set by `PrepareForVectorDB`) -/
structure EmbeddingRecord where
  id : Str
  text : Str
  metadata : MapSV

/-- the metadata map `PrepareForVectorDB` builds -/
def vdbMetadata (m : Meta) : MapSV :=
  [(kDocumentTitle, Val.str m.documentTitle), (kPageStart, Val.int m.pageStart),
   (kChunkIndex, Val.int m.chunkIndex), (kSectionTitle, Val.str m.sectionTitle)] ++
  (if m.sectionPath ≠ [] then [(kSectionPath, Val.strs m.sectionPath)] else []) ++
  (if m.elementTypes ≠ [] then [(kElementTypes, Val.strs m.elementTypes)] else [])

/-- `(*EmbeddingExporter).PrepareForVectorDB` -/
def prepareForVectorDB : List Chunk → List EmbeddingRecord
  | [] => []
  | c :: cs => { id := c.id, text := c.text, metadata := vdbMetadata c.md } :: prepareForVectorDB cs

/-- `PineconeRecord` -/
structure PineconeRecord (F : Type) where
  id : Str
  values : List F
  metadata : MapSV

/-- the metadata map of a Pinecone record -/
def pineconeMetadata (c : Chunk) : MapSV :=
  [(kText, Val.str c.text), (kDocumentTitle, Val.str c.md.documentTitle),
   (kPageStart, Val.int c.md.pageStart), (kSectionTitle, Val.str c.md.sectionTitle)]

/-- the loop of `ExportForPinecone`: chunks without an embedding are skipped -/
def pineconeLoop {F : Type} (embs : List (Emb F)) : List Chunk → Nat → List (PineconeRecord F)
  | [], _ => []
  | c :: cs, i =>
    match embAt embs i with
    | [] => pineconeLoop embs cs (i + 1)
    | v :: vs => { id := c.id, values := v :: vs, metadata := pineconeMetadata c } :: pineconeLoop embs cs (i + 1)

/-- `ExportForPinecone`: the `vectors` array -/
def pineconeVectors {F : Type} (chunks : List Chunk) (embs : List (Emb F)) : List (PineconeRecord F) :=
  pineconeLoop embs chunks 0

/-- `ChromaRecord`: `embeddings = none` = field omitted (`omitempty` on an empty slice) -/
structure ChromaRecord (F : Type) where
  ids : List Str
  documents : List Str
  embeddings : Option (List (Emb F))
  metadatas : List MapSV

def chromaMetadata (m : Meta) : MapSV :=
  [(kDocumentTitle, Val.str m.documentTitle), (kPageStart, Val.int m.pageStart),
   (kSectionTitle, Val.str m.sectionTitle), (kChunkIndex, Val.int m.chunkIndex)]

/-- the loop of `ExportForChroma` filling `IDs[i]`, `Documents[i]`, `Metadatas[i]` -/
def chromaLoop : List Chunk → List Str × List Str × List MapSV
  | [] => ([], [], [])
  | c :: cs =>
    let r := chromaLoop cs
    (c.id :: r.1, c.text :: r.2.1, chromaMetadata c.md :: r.2.2)

/-- `ExportForChroma`: the embeddings are passed through as given (not aligned with the chunks) -/
def chromaRecord {F : Type} (chunks : List Chunk) (embs : List (Emb F)) : ChromaRecord F :=
  let r := chromaLoop chunks
  { ids := r.1, documents := r.2.1, metadatas := r.2.2,
    embeddings := if embs.length > 0 then some embs else none }

/-- `WeaviateObject`: `vector = []` = field omitted -/
structure WeaviateObject (F : Type) where
  cls : Str
  id : Str
  properties : MapSV
  vector : List F

def weaviateProps (c : Chunk) : MapSV :=
  [(kContent, Val.str c.text), (kDocumentTitleC, Val.str c.md.documentTitle),
   (kPageStartC, Val.int c.md.pageStart), (kSectionTitleC, Val.str c.md.sectionTitle),
   (kChunkIndexC, Val.int c.md.chunkIndex)]

/-- the loop of `ExportForWeaviate`: one object per chunk -/
def weaviateLoop {F : Type} (cls : Str) (embs : List (Emb F)) : List Chunk → Nat → List (WeaviateObject F)
  | [], _ => []
  | c :: cs, i =>
    { cls := cls, id := c.id, properties := weaviateProps c, vector := embAt embs i } ::
      weaviateLoop cls embs cs (i + 1)

def weaviateObjects {F : Type} (cls : Str) (chunks : List Chunk) (embs : List (Emb F)) : List (WeaviateObject F) :=
  weaviateLoop cls embs chunks 0

end Tabula.Export
