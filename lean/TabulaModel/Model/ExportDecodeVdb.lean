import TabulaModel.Model.ExportDecode
/-
The INVERSE READER of the vector-database exports (`ExportForPinecone`, `ExportForChroma`,
`ExportForWeaviate`): what a consumer gets out of the parsed JSON — per record the chunk's id,
its text, document title, first page, section title, chunk index (not in Pinecone records) and
the embedding (as the JSON number tokens).  Specification-side code, like `Model/ExportDecode.lean`.

Unlike `ExportedChunk`, the metadata maps of these records are written WITHOUT `omitempty` (map
entries are always present), so their members are required; only Weaviate's `id` and `vector`,
Chroma's `embeddings` / `metadatas` and Pinecone's `metadata` are `omitempty`.  Core Lean only.
-/
namespace Tabula.Export
open Tabula.Csv (Str)
open Tabula.Json (J getMember mapOpt)

/-- what a vector-database record carries of a chunk -/
structure VdbView where
  id : Str
  text : Str
  title : Str
  pageStart : Int
  sectionTitle : Str
  chunkIndex : Int      -- 0 where the format does not carry it (Pinecone)
  vector : List Str     -- the embedding, as JSON number tokens; [] = none
  deriving DecidableEq, Repr

/-- the view of a chunk (with or without its index) and its embedding -/
def vdbView (withIndex : Bool) (c : Chunk) (vec : List Str) : VdbView :=
  { id := c.id, text := c.text, title := c.md.documentTitle, pageStart := c.md.pageStart,
    sectionTitle := c.md.sectionTitle, chunkIndex := if withIndex then c.md.chunkIndex else 0, vector := vec }

/-- a required string member -/
def jReqStr : Option J → Option Str
  | some (.str s) => some s
  | _ => none

/-- a required integer member -/
def jReqInt : Option J → Option Int
  | some (.num raw) => readInt raw
  | _ => none

/-- a required object member -/
def jReqObj : Option J → Option (List (Str × J))
  | some (.obj ms) => some ms
  | _ => none

/-- the number tokens of an array of numbers -/
def jNumItems : List J → Option (List Str)
  | [] => some []
  | .num raw :: r => (jNumItems r).map (raw :: ·)
  | _ :: _ => none

/-- an embedding: absent or `null` = none, else an array of numbers -/
def jVecOpt : Option J → Option (List Str)
  | none => some []
  | some .null => some []
  | some (.arr l) => jNumItems l
  | some _ => none

/-! ## Weaviate: one object per line -/

/-- one Weaviate object: class name and view -/
def decodeWeaviate (v : J) : Option (Str × VdbView) :=
  match v with
  | .obj ms =>
    (jReqStr (getMember kClass ms)).bind fun cls =>
    (jStrOpt (getMember kId ms)).bind fun id =>
    (jReqObj (getMember kProperties ms)).bind fun ps =>
    (jReqStr (getMember kContent ps)).bind fun text =>
    (jReqStr (getMember kDocumentTitleC ps)).bind fun title =>
    (jReqInt (getMember kPageStartC ps)).bind fun page =>
    (jReqStr (getMember kSectionTitleC ps)).bind fun sect =>
    (jReqInt (getMember kChunkIndexC ps)).bind fun ci =>
    (jVecOpt (getMember kVector ms)).bind fun vec =>
    some (cls, { id := id, text := text, title := title, pageStart := page, sectionTitle := sect,
                 chunkIndex := ci, vector := vec })
  | _ => none

/-- a Weaviate export text: JSON Lines, one object per line -/
def decodeWeaviateText (text : Str) : Option (List (Str × VdbView)) :=
  (Tabula.Json.jsonlRead text).bind (mapOpt decodeWeaviate)

/-! ## Pinecone: `{"vectors": [ … ]}` -/

/-- one Pinecone record -/
def decodePineconeRecord (v : J) : Option VdbView :=
  match v with
  | .obj ms =>
    (jReqStr (getMember kId ms)).bind fun id =>
    (match getMember kValues ms with
     | some (.arr l) => jNumItems l
     | _ => none).bind fun vec =>
    (jReqObj (getMember kMetadata ms)).bind fun md =>
    (jReqStr (getMember kText md)).bind fun text =>
    (jReqStr (getMember kDocumentTitle md)).bind fun title =>
    (jReqInt (getMember kPageStart md)).bind fun page =>
    (jReqStr (getMember kSectionTitle md)).bind fun sect =>
    some { id := id, text := text, title := title, pageStart := page, sectionTitle := sect,
           chunkIndex := 0, vector := vec }
  | _ => none

/-- a Pinecone upsert document -/
def decodePineconeText (text : Str) : Option (List VdbView) :=
  match Tabula.Json.jsonRead text with
  | some (.obj ms) =>
    (match getMember kVectors ms with
     | some (.arr rs) => mapOpt decodePineconeRecord rs
     | _ => none)
  | _ => none

/-! ## Chroma: parallel arrays -/

/-- the parallel arrays `ids`, `documents`, `metadatas` zipped; `es` = the `embeddings` array
(possibly shorter or longer than the others), `i` = index of the head -/
def chromaZip : List J → List J → List J → Nat → List J → Option (List VdbView)
  | [], [], [], _, _ => some []
  | .str id :: ids, .str doc :: docs, .obj md :: mds, i, es =>
    (jReqStr (getMember kDocumentTitle md)).bind fun title =>
    (jReqInt (getMember kPageStart md)).bind fun page =>
    (jReqStr (getMember kSectionTitle md)).bind fun sect =>
    (jReqInt (getMember kChunkIndex md)).bind fun ci =>
    (jVecOpt es[i]?).bind fun vec =>
    (chromaZip ids docs mds (i + 1) es).bind fun rest =>
    some ({ id := id, text := doc, title := title, pageStart := page, sectionTitle := sect,
            chunkIndex := ci, vector := vec } :: rest)
  | _, _, _, _, _ => none

/-- an array member that `omitempty` leaves out when empty -/
def jArrOpt : Option J → Option (List J)
  | none => some []
  | some (.arr l) => some l
  | some _ => none

/-- a Chroma document -/
def decodeChromaText (text : Str) : Option (List VdbView) :=
  match Tabula.Json.jsonRead text with
  | some (.obj ms) =>
    (match getMember kIds ms, getMember kDocuments ms with
     | some (.arr ids), some (.arr docs) =>
       (jArrOpt (getMember kMetadatas ms)).bind fun mds =>
       (jArrOpt (getMember kEmbeddings ms)).bind fun es =>
       chromaZip ids docs mds 0 es
     | _, _ => none)
  | _ => none

end Tabula.Export
