import TabulaModel.Model.Package
import TabulaModel.Model.Detect
/-!
Model of what the container readers do AFTER the part list is known (C18):

* PPTX speaker notes — `pptx.(*Reader).parseSlideRelationships` / `parseSlideNotes`
  (relationship part of the slide, first `notesSlide` relationship, target resolved
  against the slide's directory, tolerated root-relative spelling);
* the public API of the three readers on ONE opened reader, as a state machine over
  call histories — `xlsx.(*Reader)`: `SheetCount`/`PageCount`/`SheetNames`/`Sheet`/
  `SheetByName`/`TextWithOptions`/`markdown` (selection)/`Document`;
  `pptx.(*Reader)`: `SlideCount`/`PageCount`/`Slide`/`TextWithOptions`/`markdown`
  (selection)/`Document`; `epubdoc.(*Reader)`: `ChapterCount`/`Chapters`/
  `TextWithOptions`/`MarkdownWithOptions`/`Document`;
* the front door `tabula.Open(f).PageCount()/Text()/Document()` (`extractor.go`:
  `ensureReader` + the per-format branches).

Core Lean only. What a part's bytes parse to (sheet grid, slide blocks, notes text,
chapter text: C17 / C19 / htmldoc territory) is a parameter keyed by content id.
-/
namespace Tabula.PackageApi
open Tabula.Package

/-! ### `path.Dir`, `path.Base`, `path.Join` with any number of elements -/

/-- `path.Dir` -/
def pathDir (p : Str) : Str := clean (splitDir p)

/-- `path.Base` -/
def pathBase (p : Str) : Str :=
  if p = [] then sDot else
  let q := (p.reverse.dropWhile (· = 47)).reverse
  let b := (q.reverse.takeWhile (· ≠ 47)).reverse
  if b = [] then [47] else b

/-- the buffer loop of `path.Join`: once something was written every further element,
empty or not, is preceded by a `/` -/
def joinBuf : Str → List Str → Str
  | buf, [] => buf
  | buf, e :: rest =>
    if buf ≠ [] then joinBuf (buf ++ 47 :: e) rest
    else if e ≠ [] then joinBuf e rest
    else joinBuf buf rest

/-- `path.Join(elem...)` -/
def pathJoin (es : List Str) : Str :=
  if es.all (· = []) then [] else clean (joinBuf [] es)

/-- `".rels"` -/
def sRelsExt : Str := [46, 114, 101, 108, 115]
/-- `"notesSlide"` -/
def sNotesSlide : Str := [110, 111, 116, 101, 115, 83, 108, 105, 100, 101]
/-- `"ppt/"` -/
def sPptSlash : Str := [112, 112, 116, 47]

/-! ### PPTX speaker notes -/

/-- the relationship part `parseSlideRelationships` asks for:
`path.Join(dir, "_rels", base+".rels")` -/
def slideRelsPath (slidePath : Str) : Str :=
  pathJoin [pathDir slidePath, sRelsDir, pathBase slidePath ++ sRelsExt]

/-- `parseSlideRelationships`: the slide's own relationships (`none`: no such part, or
it does not unmarshal) -/
def slideRels (look : Str → Option Nat) (x : Docs) (slidePath : Str) : Option (List (Str × Str × Str)) :=
  match look (slideRelsPath slidePath) with
  | none => none
  | some c => (x c).relTriples?

/-- the `for … { if strings.Contains(rel.Type, "notesSlide") { notesPath = rel.Target; break } }`
loop: target of the FIRST relationship whose type mentions `notesSlide` (`""`: none) -/
def notesTarget : List (Str × Str × Str) → Str
  | [] => []
  | r :: rest => if hasSub sNotesSlide r.2.1 then r.2.2 else notesTarget rest

/-- the name the target denotes: against the slide's directory, or against the
package root when it starts with `/` -/
def notesResolved (dir target : Str) : Str :=
  if hasPrefix [47] target then (clean target).drop 1 else join2 dir target

/-- the one or two `getFileContent` calls of `parseSlideNotes` -/
def notesLookup (look : Str → Option Nat) (dir target : Str) : Option Nat :=
  let resolved := notesResolved dir target
  match look resolved with
  | some c => some c
  | none =>
    if !hasPrefix sPptSlash target || target = resolved then none
    else look target

/-- `parseSlideNotes`: content id of the notes part whose text becomes `Slide.Notes`
(`none`: the slide keeps `Notes == ""`) -/
def slideNotes (look : Str → Option Nat) (x : Docs) (slidePath : Str) : Option Nat :=
  match slideRels look x slidePath with
  | none => none
  | some rs =>
    let t := notesTarget rs
    if t = [] then none
    else match notesLookup look (pathDir slidePath) t with
      | none => none
      | some c => if x c = .notes then some c else none

/-- one presented slide with its notes part: `Slide.Index`, content id, notes content id -/
abbrev SlideN := Nat × Nat × Option Nat

/-- one iteration of the `parseSlides` loop, notes included -/
def pptxPartN (look : Str → Option Nat) (x : Docs) (i : Nat) (p : Str) : Option SlideN :=
  match pptxPart look x i p with
  | none => none
  | some (j, c) => some (j, c, slideNotes look x p)

/-- `pptx.Open` up to the slide list, notes included -/
def pptxOpenNL (look : Str → Option Nat) (names : List Str) (x : Docs) : Option (List SlideN) :=
  match pptxDeclared look x with
  | none => none
  | some declared =>
    let paths := if declared = [] then fallbackSlidePaths names else declared
    let parts := loopIdx (pptxPartN look x) 0 paths
    if parts = [] then none else some parts

def pptxOpenN (a : Archive) (x : Docs) : Option (List SlideN) :=
  pptxOpenNL (lookup a) (a.map Prod.fst) x

/-! ### helpers shared by the three readers -/

/-- `for i, v := range l { if i > 0 { write(sep) }; write(v) }` -/
def joinWith (sep : Str) : List Str → Str
  | [] => []
  | [s] => s
  | s :: rest => s ++ sep ++ joinWith sep rest

/-- the selection loop of `TextWithOptions` / `markdown`:
`for _, idx := range sel { if idx >= 0 && idx < len(all) { out = append(out, all[idx]) } }` -/
def selectLoop {α : Type} (all : List α) : List Int → List α
  | [] => []
  | i :: rest =>
    if 0 ≤ i ∧ i < all.length then
      match all[i.toNat]? with
      | some v => v :: selectLoop all rest
      | none => selectLoop all rest
    else selectLoop all rest

/-- `sheets := r.sheets; if len(opts.Sheets) > 0 { sheets = make(…); … }` -/
def selectParts {α : Type} (all : List α) (sel : List Int) : List α :=
  if sel = [] then all else selectLoop all sel

/-- `"\n\n"` -/
def sNL2 : Str := [10, 10]

/-! ### XLSX reader API -/

/-- what `TextWithOptions` reads of a cell -/
structure Cell where
  value : Str
  merged : Bool
  root : Bool
  deriving DecidableEq, Repr

abbrev Grid := List (List Cell)

/-- one element of `r.sheets` -/
structure Sheet where
  index : Nat
  cid : Nat
  name : Str
  rows : Grid
  deriving DecidableEq, Repr

/-- the reader after `Open`: `r.sheets` -/
abbrev XReader := List Sheet

/-- `xlsx.Open`: the part list of `xlsxOpen`, each part with what `parseWorksheet`
makes of its bytes (`grid`, keyed by content id) -/
def xlsxReader (a : Archive) (x : Docs) (grid : Nat → Grid) : Option XReader :=
  (xlsxOpen a x).map fun ps => ps.map fun p => ⟨p.1, p.2.1, p.2.2, grid p.2.1⟩

/-- `xlsx.ExtractOptions` (the fields the code reads) -/
structure XOpts where
  sheets : List Int := []
  headers : Bool := false
  delim : Str := []
  deriving DecidableEq, Repr

/-- for merged cells only the root cell's value is written -/
def cellOut (c : Cell) : Str := if c.merged && !c.root then [] else c.value

/-- one row: cells separated by the delimiter -/
def rowText (d : Str) (row : List Cell) : Str := joinWith d (row.map cellOut)

/-- the rows of one sheet separated by `\n` -/
def sheetBody (d : Str) (rows : Grid) : Str := joinWith [10] (rows.map (rowText d))

/-- `"=== "`, `" ===\n"` -/
def sHdrL : Str := [61, 61, 61, 32]
def sHdrR : Str := [32, 61, 61, 61, 10]

/-- what one sheet contributes to `TextWithOptions` -/
def sheetText (o : XOpts) (s : Sheet) : Str :=
  (if o.headers then sHdrL ++ s.name ++ sHdrR else []) ++
    sheetBody (if o.delim = [] then [9] else o.delim) s.rows

/-- `(*Reader).TextWithOptions` -/
def xlsxText (r : XReader) (o : XOpts) : Str :=
  joinWith sNL2 ((selectParts r o.sheets).map (sheetText o))

/-- the sheets `(*Reader).markdown` renders, in the order it renders them (the table
rendering of a sheet is C15's; here: which sheets, in which order) -/
def xlsxMarkdownParts (r : XReader) (o : XOpts) : List Sheet := selectParts r o.sheets

/-- one page of `(*Reader).Document`: `page.Number`, the sheet it was built from -/
structure XPage where
  number : Nat
  cid : Nat
  rows : Grid
  deriving DecidableEq, Repr

/-- `(*Reader).Document`: each sheet becomes a page, `Number = sheet.Index + 1` -/
def xlsxDocument (r : XReader) : List XPage := r.map fun s => ⟨s.index + 1, s.cid, s.rows⟩

/-- `(*Reader).Sheet(index)` -/
def xlsxSheet (r : XReader) (i : Int) : Option Sheet :=
  if 0 ≤ i ∧ i < r.length then r[i.toNat]? else none

/-- `(*Reader).SheetByName` -/
def xlsxSheetByName (r : XReader) (n : Str) : Option Sheet := r.find? (fun s => s.name = n)

/-- one call on an opened `*xlsx.Reader` -/
inductive XCall where
  | count
  | names
  | sheet (i : Int)
  | byName (n : Str)
  | text (o : XOpts)
  | markdown (o : XOpts)
  | document
  deriving DecidableEq, Repr

/-- what a call returns -/
inductive XOut where
  | num (n : Nat)
  | strs (l : List Str)
  | sheet (s : Option Sheet)
  | str (s : Str)
  | parts (l : List Sheet)
  | pages (l : List XPage)
  deriving DecidableEq, Repr

/-- one call: its result and the reader it leaves behind (no method of `*xlsx.Reader`
assigns to `r.sheets` or to a `*Sheet` after `Open`) -/
def xlsxStep (r : XReader) : XCall → XOut × XReader
  | .count => (.num r.length, r)
  | .names => (.strs (r.map (·.name)), r)
  | .sheet i => (.sheet (xlsxSheet r i), r)
  | .byName n => (.sheet (xlsxSheetByName r n), r)
  | .text o => (.str (xlsxText r o), r)
  | .markdown o => (.parts (xlsxMarkdownParts r o), r)
  | .document => (.pages (xlsxDocument r), r)

/-- a history of calls on one reader: the outputs in order, and the final reader -/
def xlsxRun (r : XReader) : List XCall → List XOut × XReader
  | [] => ([], r)
  | c :: rest =>
    let (o, r') := xlsxStep r c
    let (os, r'') := xlsxRun r' rest
    (o :: os, r'')

/-! ### PPTX reader API -/

structure Para where
  text : Str
  level : Nat
  bullet : Bool
  numbered : Bool
  deriving DecidableEq, Repr

structure Block where
  isTitle : Bool
  placeholder : Str
  paras : List Para
  deriving DecidableEq, Repr

/-- what `parseSlide` makes of a slide part (the fields `TextWithOptions` reads);
a table is its rows of cell texts -/
structure SlideBody where
  title : Str
  blocks : List Block
  tables : List (List (List Str))
  deriving DecidableEq, Repr

/-- one element of `r.slides` -/
structure Slide where
  index : Nat
  cid : Nat
  body : SlideBody
  /-- content id of the notes part, when one was found -/
  notesCid : Option Nat
  notes : Str
  deriving DecidableEq, Repr

abbrev PReader := List Slide

/-- `pptx.Open`: the slide list of `pptxOpenN`, each slide with what `parseSlide` makes
of its bytes and with the text of its notes part -/
def pptxReader (a : Archive) (x : Docs) (body : Nat → SlideBody) (notesText : Nat → Str) : Option PReader :=
  (pptxOpenN a x).map fun ps => ps.map fun p =>
    ⟨p.1, p.2.1, body p.2.1, p.2.2, match p.2.2 with
      | none => []
      | some n => notesText n⟩

/-- `pptx.ExtractOptions` -/
structure POpts where
  notes : Bool := false
  titles : Bool := false
  slides : List Int := []
  exHeaders : Bool := false
  exFooters : Bool := false
  deriving DecidableEq, Repr

/-- `"ftr"`, `"dt"`, `"sldNum"`, `"hdr"` -/
def sFtr : Str := [102, 116, 114]
def sDt : Str := [100, 116]
def sSldNum : Str := [115, 108, 100, 78, 117, 109]
def sHdr : Str := [104, 100, 114]

def isFooterPlaceholder (p : Str) : Bool := p = sFtr || p = sDt || p = sSldNum
def isHeaderPlaceholder (p : Str) : Bool := p = sHdr

/-- `"  "` repeated `n` times -/
def indent : Nat → Str
  | 0 => []
  | n + 1 => 32 :: 32 :: indent n

/-- `"• "` -/
def sBullet : Str := [226, 128, 162, 32]

/-- one paragraph of `TextWithOptions` -/
def paraText (p : Para) : Str :=
  if p.text = [] then []
  else (if p.bullet || p.numbered then indent p.level ++ sBullet else []) ++ p.text ++ [10]

/-- one block (skipped: the title when titles are on, header/footer placeholders on request) -/
def blockText (o : POpts) (b : Block) : Str :=
  if b.isTitle && o.titles then []
  else if o.exFooters && isFooterPlaceholder b.placeholder then []
  else if o.exHeaders && isHeaderPlaceholder b.placeholder then []
  else (b.paras.map paraText).flatten

/-- one table: `\n`, then per row the cell texts separated by tabs and a `\n` -/
def tableText (t : List (List Str)) : Str :=
  10 :: (t.map fun row => joinWith [9] row ++ [10]).flatten

/-- `"\n[Notes: "`, `"]\n"` -/
def sNotesL : Str := [10, 91, 78, 111, 116, 101, 115, 58, 32]
def sNotesR : Str := [93, 10]

/-- what one slide contributes to `TextWithOptions` -/
def slideText (o : POpts) (s : Slide) : Str :=
  (if o.titles && s.body.title ≠ [] then s.body.title ++ sNL2 else []) ++
  (s.body.blocks.map (blockText o)).flatten ++
  (s.body.tables.map tableText).flatten ++
  (if o.notes && s.notes ≠ [] then sNotesL ++ s.notes ++ sNotesR else [])

/-- `(*Reader).TextWithOptions` -/
def pptxText (r : PReader) (o : POpts) : Str :=
  joinWith sNL2 ((selectParts r o.slides).map (slideText o))

/-- the slides `(*Reader).markdown` renders, in order -/
def pptxMarkdownParts (r : PReader) (o : POpts) : List Slide := selectParts r o.slides

structure PPage where
  number : Nat
  cid : Nat
  body : SlideBody
  deriving DecidableEq, Repr

/-- `(*Reader).Document`: each slide becomes a page, `Number = slide.Index + 1`
(notes are not part of the page) -/
def pptxDocument (r : PReader) : List PPage := r.map fun s => ⟨s.index + 1, s.cid, s.body⟩

/-- `(*Reader).Slide(index)` -/
def pptxSlide (r : PReader) (i : Int) : Option Slide :=
  if 0 ≤ i ∧ i < r.length then r[i.toNat]? else none

inductive PCall where
  | count
  | slide (i : Int)
  | text (o : POpts)
  | markdown (o : POpts)
  | document
  deriving DecidableEq, Repr

inductive POut where
  | num (n : Nat)
  | slide (s : Option Slide)
  | str (s : Str)
  | parts (l : List Slide)
  | pages (l : List PPage)
  deriving DecidableEq, Repr

def pptxStep (r : PReader) : PCall → POut × PReader
  | .count => (.num r.length, r)
  | .slide i => (.slide (pptxSlide r i), r)
  | .text o => (.str (pptxText r o), r)
  | .markdown o => (.parts (pptxMarkdownParts r o), r)
  | .document => (.pages (pptxDocument r), r)

def pptxRun (r : PReader) : List PCall → List POut × PReader
  | [] => ([], r)
  | c :: rest =>
    let (o, r') := pptxStep r c
    let (os, r'') := pptxRun r' rest
    (o :: os, r'')

/-! ### EPUB reader API -/

/-- one element of `r.chapters` -/
structure Chapter where
  index : Nat
  cid : Nat
  href : Str
  id : Str
  deriving DecidableEq, Repr

abbrev EReader := List Chapter

def epubReader (a : Archive) (x : Docs) : Option EReader :=
  (epubOpen a x).map fun ps => ps.map fun p => ⟨p.1, p.2.1, p.2.2.1, p.2.2.2⟩

/-- what htmldoc makes of a chapter's bytes (parameters, keyed by content id and by the
raw `NavigationExclusion` int): the text / markdown after `strings.TrimSpace`
(`none`: `OpenReader` or the extraction failed), and the number of pages of the
chapter's `Document()` (`none`: failed) -/
structure HtmlViews where
  text : Nat → Int → Option Str
  md : Nat → Int → Option Str
  pages : Nat → Option Nat

/-- the `for _, chapter := range r.chapters { …; if text != "" { parts = append(parts, text) } }` loop -/
def keepTexts (view : Nat → Option Str) : EReader → List Str
  | [] => []
  | c :: rest =>
    match view c.cid with
    | none => keepTexts view rest
    | some t => if t = [] then keepTexts view rest else t :: keepTexts view rest

/-- `(*Reader).TextWithOptions`: `strings.Join(parts, "\n\n")` -/
def epubText (h : HtmlViews) (r : EReader) (mode : Int) : Str :=
  joinWith sNL2 (keepTexts (fun c => h.text c mode) r)

/-- `"\n\n---\n\n"` -/
def sMdSep : Str := [10, 10, 45, 45, 45, 10, 10]

/-- `(*Reader).MarkdownWithOptions` -/
def epubMarkdown (h : HtmlViews) (r : EReader) (mode : Int) : Str :=
  joinWith sMdSep (keepTexts (fun c => h.md c mode) r)

/-- one page of `(*Reader).Document`: `Number`, the chapter it came from -/
structure EPage where
  number : Nat
  cid : Nat
  deriving DecidableEq, Repr

/-- `(*Reader).Document`: `for i, chapter := range r.chapters`: the pages of the
chapter's own document, each numbered `i+1` (position among the LOADED chapters) -/
def epubDocLoop (h : HtmlViews) : Nat → EReader → List EPage
  | _, [] => []
  | i, c :: rest =>
    match h.pages c.cid with
    | none => epubDocLoop h (i + 1) rest
    | some n => List.replicate n ⟨i + 1, c.cid⟩ ++ epubDocLoop h (i + 1) rest

def epubDocument (h : HtmlViews) (r : EReader) : List EPage := epubDocLoop h 0 r

inductive ECall where
  | count
  | chapters
  | text (mode : Int)
  | markdown (mode : Int)
  | document
  deriving DecidableEq, Repr

inductive EOut where
  | num (n : Nat)
  | chapters (l : List Chapter)
  | str (s : Str)
  | pages (l : List EPage)
  deriving DecidableEq, Repr

def epubStep (h : HtmlViews) (r : EReader) : ECall → EOut × EReader
  | .count => (.num r.length, r)
  | .chapters => (.chapters r, r)
  | .text m => (.str (epubText h r m), r)
  | .markdown m => (.str (epubMarkdown h r m), r)
  | .document => (.pages (epubDocument h r), r)

def epubRun (h : HtmlViews) (r : EReader) : List ECall → List EOut × EReader
  | [] => ([], r)
  | c :: rest =>
    let (o, r') := epubStep h r c
    let (os, r'') := epubRun h r' rest
    (o :: os, r'')

/-! ### the front door: `tabula.Open(f).PageCount()/Text()/Document()`

`Open` only records the file name and the format of its extension; every terminal
operation calls `ensureReader` (format admission by content = C20, then the format's
`Open`) on an extractor of its own. `Pages(…)` is not consulted for these formats;
`ExcludeHeaders()/ExcludeFooters()` are handed to the readers (only PPTX reads them). -/

/-- `Extractor.options` as far as the three branches read them -/
structure FrontOpts where
  exHeaders : Bool := false
  exFooters : Bool := false
  /-- `Pages(…)`: recorded, never read by the XLSX/PPTX/EPUB branches -/
  pages : List Int := []
  deriving DecidableEq, Repr

/-- `PageCount()` -/
def frontCountXlsx (a : Archive) (x : Docs) (grid : Nat → Grid) : Option Nat :=
  (xlsxReader a x grid).map List.length
def frontCountPptx (a : Archive) (x : Docs) (body : Nat → SlideBody) (nt : Nat → Str) : Option Nat :=
  (pptxReader a x body nt).map List.length
def frontCountEpub (a : Archive) (x : Docs) : Option Nat :=
  (epubReader a x).map List.length

/-- `Text()`: XLSX — `TextWithOptions` with no selection, no headers, tab delimiter -/
def frontTextXlsx (a : Archive) (x : Docs) (grid : Nat → Grid) (_o : FrontOpts) : Option Str :=
  (xlsxReader a x grid).map fun r => xlsxText r {}

/-- `Text()`: PPTX — notes and titles on, no selection -/
def frontTextPptx (a : Archive) (x : Docs) (body : Nat → SlideBody) (nt : Nat → Str) (o : FrontOpts) : Option Str :=
  (pptxReader a x body nt).map fun r =>
    pptxText r { notes := true, titles := true, exHeaders := o.exHeaders, exFooters := o.exFooters }

/-- `Text()`: EPUB — `epubReader.Text()` = navigation mode 0 -/
def frontTextEpub (h : HtmlViews) (a : Archive) (x : Docs) (_o : FrontOpts) : Option Str :=
  (epubReader a x).map fun r => epubText h r 0

/-- `Document()` -/
def frontDocXlsx (a : Archive) (x : Docs) (grid : Nat → Grid) : Option (List XPage) :=
  (xlsxReader a x grid).map xlsxDocument
def frontDocPptx (a : Archive) (x : Docs) (body : Nat → SlideBody) (nt : Nat → Str) : Option (List PPage) :=
  (pptxReader a x body nt).map pptxDocument
def frontDocEpub (h : HtmlViews) (a : Archive) (x : Docs) : Option (List EPage) :=
  (epubReader a x).map (epubDocument h)

/-! ### admission: `(*Extractor).validateFormat` before the format reader is opened

`ensureReader` first sniffs the file content (`format.DetectFromReader`, for a ZIP archive
`detectZIPFormat`: model in `Model/Detect.lean`, property C20) and refuses the file when
the content names another format than the extension. The archive is the same member list
the readers see; of a member named `mimetype` the sniffing reads the first bytes
(`mime`, keyed by content id). -/

/-- the archive as `detectZIPFormat` sees it -/
def zipMembers (a : Archive) (mime : Nat → Option Str) : List Detect.Member :=
  a.map fun m => ⟨m.1, if m.1 = Detect.nMimetype then mime m.2 else none⟩

/-- `validateFormat` lets a file through whose extension says `f` and whose content is
this (well-formed) ZIP archive -/
def admitted (f : Detect.Format) (a : Archive) (mime : Nat → Option Str) : Bool :=
  Detect.validateFormat f (some (Detect.detectZip (zipMembers a mime))) == .ok

/-- the front door with admission: `tabula.Open("x.xlsx")` etc. -/
def openCountXlsx (a : Archive) (x : Docs) (mime : Nat → Option Str) (grid : Nat → Grid) : Option Nat :=
  if admitted .xlsx a mime then frontCountXlsx a x grid else none
def openTextXlsx (a : Archive) (x : Docs) (mime : Nat → Option Str) (grid : Nat → Grid) (o : FrontOpts) : Option Str :=
  if admitted .xlsx a mime then frontTextXlsx a x grid o else none
def openDocXlsx (a : Archive) (x : Docs) (mime : Nat → Option Str) (grid : Nat → Grid) : Option (List XPage) :=
  if admitted .xlsx a mime then frontDocXlsx a x grid else none

def openCountPptx (a : Archive) (x : Docs) (mime : Nat → Option Str) (body : Nat → SlideBody) (nt : Nat → Str) : Option Nat :=
  if admitted .pptx a mime then frontCountPptx a x body nt else none
def openTextPptx (a : Archive) (x : Docs) (mime : Nat → Option Str) (body : Nat → SlideBody) (nt : Nat → Str)
    (o : FrontOpts) : Option Str :=
  if admitted .pptx a mime then frontTextPptx a x body nt o else none
def openDocPptx (a : Archive) (x : Docs) (mime : Nat → Option Str) (body : Nat → SlideBody) (nt : Nat → Str) :
    Option (List PPage) :=
  if admitted .pptx a mime then frontDocPptx a x body nt else none

def openCountEpub (a : Archive) (x : Docs) (mime : Nat → Option Str) : Option Nat :=
  if admitted .epub a mime then frontCountEpub a x else none
def openTextEpub (h : HtmlViews) (a : Archive) (x : Docs) (mime : Nat → Option Str) (o : FrontOpts) : Option Str :=
  if admitted .epub a mime then frontTextEpub h a x o else none
def openDocEpub (h : HtmlViews) (a : Archive) (x : Docs) (mime : Nat → Option Str) : Option (List EPage) :=
  if admitted .epub a mime then frontDocEpub h a x else none

end Tabula.PackageApi
