import TabulaModel.Model.Lexer
import TabulaModel.Model.A1
/-
Model of core/object.go (the value types) and core/parser.go (tabula, after
the C06 fixes): `NewParser`, `(*Parser).nextToken`, `ParseObject`,
`parseNumber`, `parseArray`, `parseDict`, `enter` / `maxNestingDepth`.
Core Lean only.

Nesting limit (fix a3fd154): `p.depth` counts the arrays and dictionaries
currently open; `enter()` refuses to open one more when `p.depth >= 500`, and
the deferred `p.depth--` undoes the count on every way out.  Here the count is
the argument `d` of the three mutually recursive functions (a value, so leaving
a container restores it by itself); a top-level `ParseObject` starts at 0.

`strconv.ParseInt(s, 10, 64)` is `Tabula.A1.atoi` (sign, digits, int64 range).
`strconv.ParseFloat` is only ever applied to texts the lexers produce (optional
sign, digits, at most one point); on those it fails iff there is no digit, and
its value is modelled as the exact decimal (the harness only compares decimals
that float64 represents exactly).
-/
namespace Tabula.Pdf
open Tabula.A1 (atoi digitsAcc)

/-- PDF objects. Reals are exact decimals `(-1)^neg · mant / 10^scale`, kept
normalised (no trailing fractional zero, no negative zero) so that equality of
values is equality of terms. Dictionaries are association lists with distinct
keys in first-insertion order (Go map assignment: a later value replaces). -/
inductive Obj
  | null
  | bool (b : Bool)
  | int (i : Int)
  | real (neg : Bool) (mant scale : Nat)
  | str (s : Str)
  | name (s : Str)
  | arr (xs : List Obj)
  | dict (kv : List (Str × Obj))
  | ref (num gen : Int)
  deriving Repr

mutual
/-- nesting depth of an object: 0 for the seven scalar kinds and references, one more than the
deepest element for an array or a dictionary (the number of containers open while the innermost
element is read) -/
def Obj.depth : Obj → Nat
  | .arr xs => 1 + Obj.depthList xs
  | .dict kv => 1 + Obj.depthKV kv
  | _ => 0
def Obj.depthList : List Obj → Nat
  | [] => 0
  | x :: xs => max x.depth (Obj.depthList xs)
def Obj.depthKV : List (Str × Obj) → Nat
  | [] => 0
  | (_, v) :: r => max v.depth (Obj.depthKV r)
end

/-- `maxNestingDepth` of core/parser.go (and, the same constant, of contentstream/parser.go) -/
def maxNestingDepth : Nat := 500

/-- `dict[key] = value` -/
def dictSet : List (Str × Obj) → Str → Obj → List (Str × Obj)
  | [], k, v => [(k, v)]
  | (k', v') :: r, k, v => if k' = k then (k, v) :: r else (k', v') :: dictSet r k v

/-- drop trailing fractional zeros -/
def normReal : Nat → Nat → Nat × Nat
  | m, 0 => (m, 0)
  | m, s + 1 => if m % 10 = 0 then normReal (m / 10) s else (m, s + 1)

/-- `strconv.ParseFloat` on a number text (see the header) -/
def parseReal (s : Str) : Option Obj :=
  let neg := match s with | 45 :: _ => true | _ => false
  let ds := match s with | 45 :: r => r | 43 :: r => r | r => r
  let ip := ds.takeWhile isDigit
  let fp := match ds.dropWhile isDigit with | 46 :: f => f | r => r
  if ip.isEmpty && fp.isEmpty then none else
  match digitsAcc (ip ++ fp) 0 with
  | none => none
  | some m =>
    let p := normReal m fp.length
    some (.real (neg && p.1 != 0) p.1 p.2)

/-- hex digits to bytes: the `TokenHexString` case of `ParseObject` (a missing
last digit is 0) -/
def hexPairs : Str → Str
  | a :: b :: r => (hexValue a * 16 + hexValue b) :: hexPairs r
  | [a] => [hexValue a * 16]
  | [] => []

def kwStream : Str := [115, 116, 114, 101, 97, 109]
def kwNull : Str := [110, 117, 108, 108]
def kwTrue : Str := [116, 114, 117, 101]
def kwFalse : Str := [102, 97, 108, 115, 101]

/-- parser state: `currentToken`, `peekToken`, the lexer's unread input, and
whether a lexer error has been recorded (`p.err != nil`) -/
structure PState where
  cur : Option Token
  peek : Option Token
  inp : Str
  err : Bool
  deriving Repr

/-- the lexer call of `nextToken`: comment tokens are dropped -/
def lexSkip : Nat → Str → Option (Token × Str)
  | 0, _ => none
  | f + 1, inp =>
    match nextToken inp with
    | none => none
    | some (.comment _, r) => lexSkip f r
    | some (t, r) => some (t, r)

/-- `(*Parser).nextToken` -/
def PState.next (s : PState) : PState :=
  if s.peek = some (.keyword kwStream) then
    { cur := s.peek, peek := none, inp := s.inp, err := s.err }
  else if s.err then
    { cur := s.peek, peek := some .eof, inp := s.inp, err := true }
  else
    match lexSkip (s.inp.length + 1) s.inp with
    | none => { cur := s.peek, peek := some .eof, inp := s.inp, err := true }
    | some (t, r) => { cur := s.peek, peek := some t, inp := r, err := false }

/-- `NewParser` -/
def newParser (inp : Str) : PState :=
  (PState.next (PState.next { cur := none, peek := none, inp := inp, err := false }))

inductive PErr
  | eof   -- `io.EOF`
  | err   -- any other error
  deriving DecidableEq, Repr

/-- `(*Parser).parseNumber`; `v` is the text of the current (integer) token -/
def parseNumber (s : PState) (v : Str) : Except PErr (Obj × PState) :=
  match atoi v with
  | none =>
    match parseReal v with
    | none => .error .err
    | some o => .ok (o, s.next)
  | some a =>
    match s.peek with
    | some (.integer v2) =>
      match atoi v2 with
      | some b =>
        let s1 := s.next
        match s1.peek with
        | some .ref => .ok (.ref a b, s1.next.next)
        | _ => .ok (.int a, s1)
      | none => .ok (.int a, s.next)
    | _ => .ok (.int a, s.next)

mutual
/-- `(*Parser).ParseObject` (`skipComments` never finds a comment: `nextToken`
drops them).  First argument: fuel; second: `p.depth`, the number of arrays and
dictionaries open around the object.  The `enter()` check of `parseArray` /
`parseDict` (made on the opening token, before it is consumed) is the `if` in
the two container arms. -/
def parseObject : Nat → Nat → PState → Except PErr (Obj × PState)
  | 0, _, _ => .error .err
  | f + 1, d, s =>
    match s.cur with
    | none => .error .err
    | some .eof => if s.err then .error .err else .error .eof
    | some (.keyword v) =>
      if v = kwNull then .ok (.null, s.next)
      else if v = kwTrue then .ok (.bool true, s.next)
      else if v = kwFalse then .ok (.bool false, s.next)
      else .error .err
    | some (.integer v) => parseNumber s v
    | some (.real v) =>
      match parseReal v with
      | none => .error .err
      | some o => .ok (o, s.next)
    | some (.str v) => .ok (.str v, s.next)
    | some (.hexstr v) => .ok (.str (hexPairs v), s.next)
    | some (.name v) => .ok (.name v, s.next)
    | some .arrStart =>
      if maxNestingDepth ≤ d then .error .err else parseArray f (d + 1) s.next []
    | some .dictStart =>
      if maxNestingDepth ≤ d then .error .err else parseDict f (d + 1) s.next []
    | some _ => .error .err
/-- the loop of `(*Parser).parseArray`; `d` counts this array too -/
def parseArray : Nat → Nat → PState → List Obj → Except PErr (Obj × PState)
  | 0, _, _, _ => .error .err
  | f + 1, d, s, acc =>
    match s.cur with
    | none => .error .err
    | some .arrEnd => .ok (.arr acc, s.next)
    | some .eof => .error .err
    | some _ =>
      match parseObject f d s with
      | .error _ => .error .err
      | .ok (o, s') => parseArray f d s' (acc ++ [o])
/-- the loop of `(*Parser).parseDict`; `d` counts this dictionary too -/
def parseDict : Nat → Nat → PState → List (Str × Obj) → Except PErr (Obj × PState)
  | 0, _, _, _ => .error .err
  | f + 1, d, s, acc =>
    match s.cur with
    | none => .error .err
    | some .dictEnd => .ok (.dict acc, s.next)
    | some .eof => .error .err
    | some (.name k) =>
      match parseObject f d s.next with
      | .error _ => .error .err
      | .ok (o, s') => parseDict f d s' (dictSet acc k o)
    | some _ => .error .err
end

/-- enough fuel for any input: every call consumes a token or descends a level -/
def fuelFor (inp : Str) : Nat := 4 * inp.length + 8

/-- `core.NewParser(r).ParseObject()` -/
def coreParse (inp : Str) : Except PErr (Obj × PState) :=
  parseObject (fuelFor inp) 0 (newParser inp)

/-- `ParseObject()` called again and again until it fails (what the harness
observes): the objects, then `eof` or `err`.  Every call starts with
`p.depth = 0`: the deferred decrements have undone every `enter()`. -/
def coreParseAll (inp : Str) : List Obj × PErr :=
  let rec go : Nat → PState → List Obj → List Obj × Option PErr
    | 0, _, acc => (acc, none)
    | n + 1, s, acc =>
      match parseObject (fuelFor inp) 0 s with
      | .error e => (acc, some e)
      | .ok (o, s') => go n s' (acc ++ [o])
  match go (inp.length + 2) (newParser inp) [] with
  | (os, some e) => (os, e)
  | (os, none) => (os, .err)

end Tabula.Pdf
