import TabulaModel.Model.A1
/-
Byte-level model of cross-reference entries:
  core/xref.go  parseEntry (20-byte lines of a classic table),
                parseXRefStreamEntry / readBigEndianInt (binary entries with /W widths)
and the encoders a conforming writer uses (ISO 32000-1 7.5.4, 7.5.8).  Core Lean only.
-/
namespace Tabula.XrefBytes
open Tabula.A1

/-- `readBigEndianInt(data, width)`: the first `width` bytes (at most 8), big endian -/
def readBE (data : List Nat) (width : Nat) : Nat :=
  (data.take (min width 8)).foldl (fun acc b => acc * 256 + b) 0

/-- entry types -/
inductive Kind | free | inUse | compressed
  deriving Repr, DecidableEq

/-- `parseXRefStreamEntry data w`: (kind, field1, field2) and the bytes consumed; `none` when
the data is too short or the type field is not 0, 1, 2 -/
def parseStreamEntry (data : List Nat) (w0 w1 w2 : Nat) : Option ((Kind × Nat × Nat) × Nat) :=
  let total := w0 + w1 + w2
  if data.length < total then none else
  let t := if w0 > 0 then readBE data w0 else 1
  let f1 := readBE (data.drop w0) w1
  let f2 := readBE (data.drop (w0 + w1)) w2
  match t with
  | 0 => some ((.free, f1, f2), total)
  | 1 => some ((.inUse, f1, f2), total)
  | 2 => some ((.compressed, f1, f2), total)
  | _ => none

/-- big-endian encoding of `v` in `w` bytes (most significant first) -/
def beBytes (v : Nat) : Nat → List Nat
  | 0 => []
  | w + 1 => beBytes (v / 256) w ++ [v % 256]

def kindCode : Kind → Nat
  | .free => 0 | .inUse => 1 | .compressed => 2

/-- what a conforming writer emits for one entry of a cross-reference stream -/
def encodeStreamEntry (k : Kind) (f1 f2 w0 w1 w2 : Nat) : List Nat :=
  beBytes (kindCode k) w0 ++ beBytes f1 w1 ++ beBytes f2 w2

/-! ### classic 20-byte entries -/

def isSpace (c : Nat) : Bool := c = 32 || c = 9 || c = 10 || c = 11 || c = 12 || c = 13

/-- `strings.TrimSpace` on ASCII -/
def trimSpace (s : Str) : Str :=
  ((s.dropWhile isSpace).reverse.dropWhile isSpace).reverse

/-- `parseEntry(line)`: (offset, generation, inUse) -/
def parseEntry (line : Str) : Option (Int × Int × Bool) :=
  if line.length < 18 then none else
  let offsetStr := trimSpace (line.take 10)
  let genStr := trimSpace ((line.drop 10).take 6)
  let flag := trimSpace ((line.drop 16).take 2)
  match atoi offsetStr, atoi genStr with
  | some off, some gen =>
    if flag = [110] then some (off, gen, true)
    else if flag = [102] then some (off, gen, false)
    else none
  | _, _ => none

/-- decimal with leading zeros to width `w` (`%0wd` for a value that fits) -/
def padDec (w n : Nat) : Str := List.replicate (w - (dec n).length) 48 ++ dec n

/-- the 18 significant bytes of an entry as ISO 32000-1 7.5.4 writes it:
`nnnnnnnnnn ggggg n` (the 2-byte end-of-line follows) -/
def fmtEntry (off gen : Nat) (inUse : Bool) : Str :=
  padDec 10 off ++ [32] ++ padDec 5 gen ++ [32] ++ [if inUse then 110 else 102]

end Tabula.XrefBytes

/-! ### `strings.TrimSpace` / `strings.Fields` on arbitrary bytes

Go decodes UTF-8: besides the six ASCII characters, U+0085, U+00A0, U+1680, U+2000–U+200A,
U+2028, U+2029, U+202F, U+205F and U+3000 are white space (`unicode.IsSpace`); an invalid
sequence is U+FFFD (not white space) and one byte long. The lead bytes of these encodings are
never continuation bytes, so looking for the encodings byte by byte is exact. -/
namespace Tabula.XrefBytes
open Tabula.A1

/-- length of the encoding of a white-space character at the head of `s`; 0: none there -/
def uspLen : Str → Nat
  | [] => 0
  | c :: r =>
    if c < 128 then (if isSpace c then 1 else 0)
    else if c = 194 then (match r with | d :: _ => if d = 133 ∨ d = 160 then 2 else 0 | [] => 0)
    else if c = 225 then (match r with | 154 :: 128 :: _ => 3 | _ => 0)
    else if c = 226 then
      (match r with
       | 128 :: d :: _ => if (128 ≤ d ∧ d ≤ 138) ∨ d = 168 ∨ d = 169 ∨ d = 175 then 3 else 0
       | 129 :: 159 :: _ => 3
       | _ => 0)
    else if c = 227 then (match r with | 128 :: 128 :: _ => 3 | _ => 0)
    else 0

/-- the same on the reversed string: length of the encoding of a white-space character that
ends the string (`utf8.DecodeLastRuneInString`) -/
def uspLenRev : Str → Nat
  | [] => 0
  | c :: r =>
    if c < 128 then (if isSpace c then 1 else 0)
    else
      match r with
      | 194 :: _ => if c = 133 ∨ c = 160 then 2 else 0
      | 154 :: 225 :: _ => if c = 128 then 3 else 0
      | 129 :: 226 :: _ => if c = 159 then 3 else 0
      | 128 :: 227 :: _ => if c = 128 then 3 else 0
      | 128 :: 226 :: _ => if (128 ≤ c ∧ c ≤ 138) ∨ c = 168 ∨ c = 169 ∨ c = 175 then 3 else 0
      | _ => 0

def trimLeftU : Nat → Str → Str
  | 0, s => s
  | f + 1, s => if uspLen s = 0 then s else trimLeftU f (s.drop (uspLen s))

def trimRevU : Nat → Str → Str
  | 0, s => s
  | f + 1, s => if uspLenRev s = 0 then s else trimRevU f (s.drop (uspLenRev s))

/-- `strings.TrimSpace` -/
def trimSpaceU (s : Str) : Str :=
  let l := trimLeftU s.length s
  (trimRevU l.length l.reverse).reverse

/-- `strings.Fields` -/
def fieldsAuxU : Nat → Str → Str → List Str
  | 0, _, cur => if cur.isEmpty then [] else [cur.reverse]
  | _ + 1, [], cur => if cur.isEmpty then [] else [cur.reverse]
  | f + 1, c :: r, cur =>
    if uspLen (c :: r) = 0 then fieldsAuxU f r (c :: cur)
    else if cur.isEmpty then fieldsAuxU f ((c :: r).drop (uspLen (c :: r))) []
    else cur.reverse :: fieldsAuxU f ((c :: r).drop (uspLen (c :: r))) []

def fieldsU (s : Str) : List Str := fieldsAuxU (s.length + 1) s []

/-- `parseEntry(line)` on arbitrary bytes: (offset, generation, inUse) -/
def parseEntryU (line : Str) : Option (Int × Int × Bool) :=
  if line.length < 18 then none else
  let offsetStr := trimSpaceU (line.take 10)
  let genStr := trimSpaceU ((line.drop 10).take 6)
  let flag := trimSpaceU ((line.drop 16).take 2)
  match atoi offsetStr, atoi genStr with
  | some off, some gen =>
    if flag = [110] then some (off, gen, true)
    else if flag = [102] then some (off, gen, false)
    else none
  | _, _ => none

end Tabula.XrefBytes
