import TabulaModel.Model.ExportJson
/-
The INVERSE READER of tabula's chunk exports: what a consumer does with the records a standard
parser returns (a JSON object per chunk; a CSV/TSV row under its header) to get chunks back —
`id`, `text` and the eighteen metadata fields of `rag.ChunkMetadata` that `rag/export.go` exports.
This is specification-side code (it mirrors no Go function of tabula); the property "parses back to
the same chunks" is stated with it: `decode (parse (export chunks)) = chunks` up to the projection
the configuration itself asks for (`projectChunk`: text dropped without IncludeText, a metadata
field dropped when IncludeMetadata / MetadataFields exclude it).

Conventions of the formats, as `rag/export.go` fixes them: an absent JSON member / an empty cell /
a missing `meta_` column is the zero value of the field (`omitempty`, "exported only when
positive"); integers are `%d` text; booleans `true`/`false`; the level is its name; lists are JSON
arrays, resp. `[a,b,c]` cells (not invertible when an element contains a comma: finding
C14/csv-field-meta-list).

The readers are STRICT (a non-numeric integer cell, an unknown level name, a member of the wrong
JSON type make the record undecodable) so that the correspondence run can compare them with an
independent decoder in the harness on damaged exports.  Core Lean only.
-/
namespace Tabula.Export
open Tabula.Csv (Str)
open Tabula.Json (J getMember mapOpt)

/-! ## textual conventions -/

/-- decimal digits (all of `s` must be digits), most significant first, onto `acc` -/
def digitsVal : Str → Nat → Option Nat
  | [], acc => some acc
  | c :: r, acc => if 48 ≤ c ∧ c ≤ 57 then digitsVal r (acc * 10 + (c - 48)) else none

/-- one or more decimal digits -/
def readNat (s : Str) : Option Nat :=
  match s with
  | [] => none
  | _ => digitsVal s 0

/-- `%d` text: optional `-`, one or more digits -/
def readInt : Str → Option Int
  | [] => none
  | c :: r =>
    if c = 45 then (readNat r).map (fun (n : Nat) => -(n : Int))
    else (readNat (c :: r)).map (fun (n : Nat) => (n : Int))

/-- inverse of `ChunkLevel.String` on the four level names -/
def levelOfString (s : Str) : Option Int :=
  if s = kDocument then some 0 else if s = kSection then some 1
  else if s = kParagraph then some 2 else if s = kSentence then some 3 else none

/-! ## what an export can carry of a chunk -/

/-- does an export under `cfg` carry metadata field `k`? -/
def keepMeta (cfg : Config) (k : Str) : Bool := cfg.includeMetadata && allowedField cfg k

/-- the part of a chunk an export under `cfg` carries: id, the positional fields (title, pages,
index, section title, the three flags) always; text with IncludeText; every other metadata field
when the configuration exports it.  `pathAlways`: JSON records carry `section_path` at top level
whatever the metadata selection; CSV/TSV rows carry it only as `meta_section_path`. -/
def projectChunk (pathAlways : Bool) (cfg : Config) (c : Chunk) : Chunk :=
  { id := c.id
    text := if cfg.includeText then c.text else []
    md :=
      { documentTitle := c.md.documentTitle
        sectionPath := if pathAlways || keepMeta cfg kSectionPath then c.md.sectionPath else []
        sectionTitle := c.md.sectionTitle
        headingLevel := if keepMeta cfg kHeadingLevel then c.md.headingLevel else 0
        pageStart := c.md.pageStart
        pageEnd := c.md.pageEnd
        chunkIndex := c.md.chunkIndex
        totalChunks := if keepMeta cfg kTotalChunks then c.md.totalChunks else 0
        level := if keepMeta cfg kLevel then c.md.level else 0
        parentID := if keepMeta cfg kParentId then c.md.parentID else []
        childIDs := if keepMeta cfg kChildIds then c.md.childIDs else []
        elementTypes := if keepMeta cfg kElementTypes then c.md.elementTypes else []
        hasTable := c.md.hasTable
        hasList := c.md.hasList
        hasImage := c.md.hasImage
        charCount := if keepMeta cfg kCharCount then c.md.charCount else 0
        wordCount := if keepMeta cfg kWordCount then c.md.wordCount else 0
        estimatedTokens := if keepMeta cfg kEstimatedTokens then c.md.estimatedTokens else 0 } }

/-- the fields that are "exported only when positive" are non-negative and the level is one of
the four `ChunkLevel` constants (assumption of the property: absent = zero) -/
def chunkNormal (c : Chunk) : Bool :=
  decide (0 ≤ c.md.headingLevel) && decide (0 ≤ c.md.totalChunks) && decide (0 ≤ c.md.charCount) &&
  decide (0 ≤ c.md.wordCount) && decide (0 ≤ c.md.estimatedTokens) &&
  decide (0 ≤ c.md.level) && decide (c.md.level ≤ 3)

/-! ## JSON records -/

def jStrOpt : Option J → Option Str
  | none => some []
  | some (.str s) => some s
  | some _ => none

def jIntOpt : Option J → Option Int
  | none => some 0
  | some (.num raw) => readInt raw
  | some _ => none

def jBoolOpt : Option J → Option Bool
  | none => some false
  | some (.bool b) => some b
  | some _ => none

def jStrItems : List J → Option (List Str)
  | [] => some []
  | .str s :: r => (jStrItems r).map (s :: ·)
  | _ :: _ => none

def jStrsOpt : Option J → Option (List Str)
  | none => some []
  | some (.arr l) => jStrItems l
  | some _ => none

def jLevelOpt : Option J → Option Int
  | none => some 0
  | some (.str s) => levelOfString s
  | some _ => none

/-- the members of the `metadata` object of a record (`none` = the member is not an object) -/
def metadataMembers (ms : List (Str × J)) : Option (List (Str × J)) :=
  match getMember kMetadata ms with
  | none => some []
  | some (.obj mm) => some mm
  | some _ => none

/-- one JSON record (an `ExportedChunk` object) back to a chunk: id, text and the positional
fields from the top-level members, the other metadata fields from the `metadata` object -/
def decodeRecord (v : J) : Option Chunk :=
  match v with
  | .obj ms =>
    (metadataMembers ms).bind fun mm =>
    (jStrOpt (getMember kId ms)).bind fun id =>
    (jStrOpt (getMember kText ms)).bind fun text =>
    (jStrOpt (getMember kDocumentTitle ms)).bind fun title =>
    (jStrsOpt (getMember kSectionPath ms)).bind fun path =>
    (jStrOpt (getMember kSectionTitle ms)).bind fun sect =>
    (jIntOpt (getMember kHeadingLevel mm)).bind fun hl =>
    (jIntOpt (getMember kPageStart ms)).bind fun ps =>
    (jIntOpt (getMember kPageEnd ms)).bind fun pe =>
    (jIntOpt (getMember kChunkIndex ms)).bind fun ci =>
    (jIntOpt (getMember kTotalChunks mm)).bind fun tc =>
    (jLevelOpt (getMember kLevel mm)).bind fun lvl =>
    (jStrOpt (getMember kParentId mm)).bind fun parent =>
    (jStrsOpt (getMember kChildIds mm)).bind fun children =>
    (jStrsOpt (getMember kElementTypes mm)).bind fun etypes =>
    (jBoolOpt (getMember kHasTable ms)).bind fun ht =>
    (jBoolOpt (getMember kHasList ms)).bind fun hli =>
    (jBoolOpt (getMember kHasImage ms)).bind fun hi =>
    (jIntOpt (getMember kCharCount mm)).bind fun cc =>
    (jIntOpt (getMember kWordCount mm)).bind fun wc =>
    (jIntOpt (getMember kEstimatedTokens mm)).bind fun et =>
    some { id := id, text := text, md :=
      { documentTitle := title, sectionPath := path, sectionTitle := sect, headingLevel := hl,
        pageStart := ps, pageEnd := pe, chunkIndex := ci, totalChunks := tc, level := lvl,
        parentID := parent, childIDs := children, elementTypes := etypes,
        hasTable := ht, hasList := hli, hasImage := hi,
        charCount := cc, wordCount := wc, estimatedTokens := et } }
  | _ => none

/-- all records of a JSON / JSON Lines export -/
def decodeRecords (rs : List J) : Option (List Chunk) := mapOpt decodeRecord rs

/-! ## CSV / TSV rows -/

/-- the cell of `row` under the first column of `header` named `name`; empty when there is none -/
def cellAt : List Str → List Str → Str → Str
  | h :: hs, c :: cs, name => if h = name then c else cellAt hs cs name
  | _, _, _ => []

/-- integer cell: empty = absent = 0 -/
def readIntCellS (s : Str) : Option Int := if s = [] then some 0 else readInt s

/-- boolean cell of a fixed column (`%t`) -/
def readBoolCellS (s : Str) : Option Bool :=
  if s = kTrue then some true else if s = kFalse then some false else none

/-- level cell: empty = absent = document level -/
def readLevelCellS (s : Str) : Option Int := if s = [] then some 0 else levelOfString s

/-- split at commas -/
def splitCommas : Str → Str → List Str
  | [], cur => [cur]
  | c :: cs, cur => if c = 44 then cur :: splitCommas cs [] else splitCommas cs (cur ++ [c])

/-- list cell `[a,b,c]` (what `formatValue` writes for a `[]string`): empty = absent = no element;
otherwise strip the brackets and split at commas -/
def readListCellS : Str → Option (List Str)
  | [] => some []
  | c :: rest =>
    if c = 91 ∧ rest.getLast? = some 93 then some (splitCommas rest.dropLast []) else none

/-- one CSV/TSV row under its header back to a chunk -/
def decodeRow (cfg : Config) (header row : List Str) : Option Chunk :=
  if header.length ≠ row.length then none else
  let g := fun name => cellAt header row name
  let m := fun key => cellAt header row (kMeta ++ key)
  (readListCellS (m kSectionPath)).bind fun path =>
  (readIntCellS (m kHeadingLevel)).bind fun hl =>
  (readIntCellS (g kPageStart)).bind fun ps =>
  (readIntCellS (g kPageEnd)).bind fun pe =>
  (readIntCellS (g kChunkIndex)).bind fun ci =>
  (readIntCellS (m kTotalChunks)).bind fun tc =>
  (readLevelCellS (m kLevel)).bind fun lvl =>
  (readListCellS (m kChildIds)).bind fun children =>
  (readListCellS (m kElementTypes)).bind fun etypes =>
  (readBoolCellS (g kHasTable)).bind fun ht =>
  (readBoolCellS (g kHasList)).bind fun hli =>
  (readBoolCellS (g kHasImage)).bind fun hi =>
  (readIntCellS (m kCharCount)).bind fun cc =>
  (readIntCellS (m kWordCount)).bind fun wc =>
  (readIntCellS (m kEstimatedTokens)).bind fun et =>
  some { id := g cfg.chunkIDColumnName
         text := if cfg.includeText then g cfg.textColumnName else []
         md :=
          { documentTitle := g kDocumentTitle, sectionPath := path, sectionTitle := g kSectionTitle,
            headingLevel := hl, pageStart := ps, pageEnd := pe, chunkIndex := ci, totalChunks := tc,
            level := lvl, parentID := m kParentId, childIDs := children, elementTypes := etypes,
            hasTable := ht, hasList := hli, hasImage := hi,
            charCount := cc, wordCount := wc, estimatedTokens := et } }

/-- all rows of a CSV/TSV export under its header -/
def decodeTable (cfg : Config) (header : List Str) (rows : List (List Str)) : Option (List Chunk) :=
  mapOpt (decodeRow cfg header) rows

/-! ## the whole way back: standard parser of the format, then the decoder -/

/-- `none` = the text is not well-formed for the format's parser, or a record is not decodable,
or (CSV/TSV without header row) the columns are not known from the text -/
def decodeExport (cfg : Config) (text : Str) : Option (List Chunk) :=
  match cfg.format with
  | .json =>
    (match Tabula.Json.jsonRead text with
     | some (.arr rs) => decodeRecords rs
     | _ => none)
  | .jsonl => (Tabula.Json.jsonlRead text).bind decodeRecords
  | .csv | .tsv =>
    if cfg.includeHeader then
      (match Tabula.Csv.csvRead (delimiter cfg) text with
       | some (h :: rows) => decodeTable cfg h rows
       | _ => none)
    else none
  | .other => none

end Tabula.Export
