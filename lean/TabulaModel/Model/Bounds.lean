/-
Models of the places where tabula sizes an allocation, a slice or a loop from numbers read
from the file, and of the traversals that must not revisit (C02):
  core/xref.go    parseXRefStream  (validation of /W, /Index, entry count against the data)
  xlsx/reader.go  parseWorksheet   (grid size check, maxGridCells)
  pages/pages.go  traversePageNode (every node at most once)
Core Lean only.
-/
namespace Tabula.Bounds

/-! ### cross-reference stream layout -/

/-- the `/W` check: each width in 0..8, not all zero; returns the entry width -/
def checkW (w : List Int) : Option Nat :=
  if w.length ≠ 3 then none
  else if w.any (fun x => x < 0 || x > 8) then none
  else
    let total := (w.map Int.toNat).foldl (· + ·) 0
    if total = 0 then none else some total

/-- the `/Index` loop: pairs, non-negative, and the running total of announced entries never
exceeds what the data can hold; returns the total number of entries -/
def checkIndex (cap : Nat) : List Int → Nat → Option Nat
  | [], total => some total
  | [_], _ => none
  | first :: count :: rest, total =>
    if first < 0 || count < 0 then none
    else if count.toNat > cap - total then none
    else checkIndex cap rest (total + count.toNat)

/-- `parseXRefStream`'s validation: `some (entryWidth, entries)` when the stream is accepted -/
def checkXRefStream (w index : List Int) (dataLen : Nat) : Option (Nat × Nat) :=
  match checkW w with
  | none => none
  | some ew =>
    match checkIndex (dataLen / ew) index 0 with
    | none => none
    | some n => some (ew, n)

/-! ### worksheet grid -/

def maxGridCells : Nat := 8 * 1024 * 1024

/-- a grid may have this many cells for every `<c>` element its part brings (344ff0c) -/
def gridCellsPerElement : Nat := 16

/-- `parseWorksheetPart`'s size check for a fresh part with `elems` cell elements, when
`used` cells of the workbook's budget are already taken: `true` = the grid is allocated -/
def gridAcceptedE (used elems maxRow maxCol : Nat) : Bool :=
  !(maxRow > 0 && maxCol + 1 > (maxGridCells - used + gridCellsPerElement * elems) / maxRow)

/-- the first sheet of a workbook whose part brings one cell (what `c02.grid` writes) -/
def gridAccepted (maxRow maxCol : Nat) : Bool := gridAcceptedE 0 1 maxRow maxCol

/-! ### page tree traversal with a visited set -/

inductive Node
  | page
  | pages (kids : List Nat)
  deriving Repr

/-- the object graph of the page tree: object number ↦ node -/
abbrev Graph := List (Nat × Node)

def Graph.get (g : Graph) (n : Nat) : Option Node :=
  match g.find? (·.1 = n) with
  | some (_, nd) => some nd
  | none => none

structure TState where
  stack : List Nat        -- pending kid references, next first
  visited : List Nat
  out : List Nat          -- page leaves found, in order (reversed)
  deriving Repr

inductive Outcome
  | running (s : TState)
  | done (leaves : List Nat)
  | error
  deriving Repr

/-- one step of the depth-first walk `traversePageNode` performs over `/Kids` references:
a reference already seen is an error, a missing object is an error -/
def tstep (g : Graph) (s : TState) : Outcome :=
  match s.stack with
  | [] => .done s.out.reverse
  | n :: rest =>
    if s.visited.contains n then .error
    else match g.get n with
      | none => .error
      | some .page => .running { stack := rest, visited := n :: s.visited, out := n :: s.out }
      | some (.pages kids) => .running { stack := kids ++ rest, visited := n :: s.visited, out := s.out }

/-- run with fuel; `none` = fuel exhausted (shown impossible for fuel > number of objects) -/
def trun (g : Graph) : Nat → TState → Option (Option (List Nat))
  | 0, _ => none
  | fuel + 1, s =>
    match tstep g s with
    | .done ls => some (some ls)
    | .error => some none
    | .running s' => trun g fuel s'

/-- `loadPages` on a root whose `/Kids` are `kids` -/
def loadPages (g : Graph) (kids : List Nat) : Option (Option (List Nat)) :=
  trun g (g.length + 2) { stack := kids, visited := [], out := [] }

end Tabula.Bounds
