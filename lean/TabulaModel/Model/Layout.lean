/-
Model of the mechanisms of layout analysis through which text can be lost, invented or
duplicated (property C09). Core Lean only; coordinates are `Rat`, texts are UTF-8 byte
lists (`List Nat`), every fragment carries an `id`.

Only the places where fragments are FILTERED, ASSIGNED, MERGED or EMITTED are mirrored:

* `text.(*Extractor).deduplicateFragments`                      → `dedupe`
* `layout.groupFragmentsIntoLines`                              → `bands`
* `layout.(*ColumnDetector).separateSpanningFragments`
  + `filterStraySpanningContent`                                → `separate`
* `layout.(*ColumnDetector).createColumnsFromGaps`              → `createColumns`
* `layout.(*ColumnDetector).validateColumns`                    → `validateColumns`
* `layout.(*ColumnDetector).Detect`                             → `detectColumns`
* `layout.(*LineDetector).groupIntoLines`                       → `groupIntoLines`
* `layout.(*LineDetector).buildLines` / `assembleLineText`      → `buildLines`, `lineText`
* `layout.(*ParagraphDetector).groupIntoParagraphs`,
  `layout.(*BlockDetector).groupLinesIntoBlocks`                → `segment` (one sweep shape)
* `layout.(*BlockDetector).mergeOverlappingBlocks` / `mergeBlocks` / `validateBlocks`
                                                                → `mergeAll`, `validateBlocks`
* `layout.(*Analyzer).buildElementTree` / `paragraphNotShown`   → `elementTree`, `remainingPars`
* `tabula.(*Extractor).assembleText`, `extractPreserveLayout`,
  `extractByColumn`, `extractWithParagraphs`                    → `assembleText`, `preserveLayout`
                                                                  (any padding), `preserveLayoutGo`
                                                                  (the padding as the code bounds
                                                                  it: C02 repair daef69b),
                                                                  `byColumnText`, `joinParagraphsText`

Classification heuristics (which gaps exist, the line tolerance, whether a line spans, whether a
paragraph/block breaks, whether two blocks overlap, what is a heading or a list) are PARAMETERS
of these functions: the theorems of `Props/C09.lean` hold for every value of them. The
instances that mirror the Go code (`isSpanGo`, `keepSpanGo`, `blockBreakGo`, `blocksOverlapGo`,
`bboxOverlaps`) are used by the line-protocol handler for the correspondence run.

The model follows the code after the C09 fixes: the last column is closed on the right and a
fragment outside every interval goes to the outermost column (740a6d9); a too-narrow column is
merged into its neighbour (395abf8); narrow lines and small blocks are dropped only when they
carry no visible text (0432d47, 8996d0b). `validateColumnsOld`/`buildLinesOld` are the
pre-fix versions, kept for the counterexample theorems. `elementTree` follows the repair 8ee0e52
(coverage decided by fragment identity); `elementTreeOld` is the tree before it (paragraph
suppression by box overlap), kept for the pinned counterexamples.
-/
namespace Tabula.Layout

abbrev Str := List Nat

structure Frag where
  id : Nat
  x : Rat
  y : Rat
  w : Rat
  h : Rat
  fs : Rat
  text : Str
deriving DecidableEq, Repr

/-! ## Characters -/

/-- ASCII white space as `unicode.IsSpace` sees it (TAB LF VT FF CR SPACE). The generated
fragments contain no other white space (assumption recorded in props/C09.json). -/
def isSpaceByte (c : Nat) : Bool := c == 32 || (9 ≤ c && c ≤ 13)

/-- the four characters of `layout.isWhitespaceOnly` -/
def isWs4 (c : Nat) : Bool := c == 32 || c == 9 || c == 10 || c == 13

/-- the non-white-space characters of a text: what C09 counts -/
def nonspace (s : Str) : Str := s.filter (fun c => !isSpaceByte c)

/-- `strings.TrimSpace(s) != ""` -/
def visible (s : Str) : Bool := s.any (fun c => !isSpaceByte c)

/-- `!isWhitespaceOnly(s)` -/
def visible4 (s : Str) : Bool := s.any (fun c => !isWs4 c)

/-- all texts of a fragment list, concatenated -/
def textsOf (fs : List Frag) : Str := fs.flatMap (·.text)

/-! ## Arithmetic -/

def absR (x : Rat) : Rat := if x < 0 then -x else x
def maxR (a b : Rat) : Rat := if a > b then a else b
def minR (a b : Rat) : Rat := if a < b then a else b

/-- Go's `int(x)` for a float64: truncation towards zero -/
def truncInt (r : Rat) : Int := if r < 0 then -((-r).floor) else r.floor

def right (f : Frag) : Rat := f.x + f.w
def centre (f : Frag) : Rat := f.x + f.w / 2

def sumR (l : List Rat) : Rat := l.foldl (· + ·) 0

/-- `minX`/`maxX` loops that start from the first element -/
def minOf (d : Rat) : List Rat → Rat
  | [] => d
  | a :: l => l.foldl minR a

def maxOf (d : Rat) : List Rat → Rat
  | [] => d
  | a :: l => l.foldl maxR a

/-- `fragmentsBBox(...).Width` -/
def bboxW (l : List Frag) : Rat := maxOf 0 (l.map right) - minOf 0 (l.map (·.x))
/-- `fragmentsBBox(...).Height` -/
def bboxH (l : List Frag) : Rat := maxOf 0 (l.map fun f => f.y + f.h) - minOf 0 (l.map (·.y))
def bboxX (l : List Frag) : Rat := minOf 0 (l.map (·.x))
def bboxY (l : List Frag) : Rat := minOf 0 (l.map (·.y))

/-! ## Deduplication (`text/extractor.go`) -/

abbrev Key := Int × Int × Str

/-- `fragKey{int(X+0.5), int(Y+0.5), Text}` -/
def keyOf (f : Frag) : Key := (truncInt (f.x + 1/2), truncInt (f.y + 1/2), f.text)

/-- the loop of `deduplicateFragments`; `seen` is the map -/
def dedupeAux : List Key → List Frag → List Frag
  | _, [] => []
  | seen, f :: fs =>
    if seen.contains (keyOf f) then dedupeAux seen fs
    else f :: dedupeAux (keyOf f :: seen) fs

/-- `(*Extractor).deduplicateFragments` -/
def dedupe (fs : List Frag) : List Frag := dedupeAux [] fs

/-! ## The sweep shared by line, paragraph and block grouping

`cur` is the group being built (`currentLine`, `currentLines`, `currentBlock.Lines`); the
decision to close it before `a` may look at the group, at `a` and at what follows. -/

def segment {α : Type} (brk : List α → α → List α → Bool) : List α → List α → List (List α)
  | [], cur => if cur.isEmpty then [] else [cur]
  | a :: rest, cur =>
    if cur.isEmpty then segment brk rest [a]
    else if brk cur a rest then cur :: segment brk rest [a]
    else segment brk rest (cur ++ [a])

/-! ## Line detection (`layout/line.go`) -/

/-- `averageLineY` -/
def avgY (l : List Frag) : Rat := sumR (l.map (·.y)) / (l.length : Rat)

/-- the comparator of the `sort.SliceStable` in `groupIntoLines` -/
def lessY (tol : Rat) (a b : Frag) : Bool := absR (a.y - b.y) > tol && a.y - b.y > 0

/-- a stable sort by a `less` function (what `sort.SliceStable` computes whenever `less` is a
strict weak order) -/
def stableSort {α : Type} (less : α → α → Bool) (l : List α) : List α :=
  l.mergeSort (fun a b => !less b a)

/-- the comparator of the per-line X sort (`xTolerance` = 0.25) -/
def lessX (a b : Frag) : Bool := !(absR (a.x - b.x) < a.fs * (1/4)) && a.x < b.x

/-- the per-line reordering: stream order is kept when `preserve` (shouldPreserveStreamOrder)
says so, otherwise a stable sort by X -/
def orderLine (preserve : List Frag → Bool) (l : List Frag) : List Frag :=
  if preserve l then l else stableSort lessX l

/-- the sweep of `groupIntoLines`: a fragment joins the current line when its Y is within
`tol` of the line's average Y -/
def lineBreak (tol : Rat) (cur : List Frag) (f : Frag) (_ : List Frag) : Bool :=
  !(absR (f.y - avgY cur) ≤ tol)

/-- `(*LineDetector).groupIntoLines`; `tol` is the result of `calculateAdaptiveTolerance` -/
def groupIntoLines (tol : Rat) (preserve : List Frag → Bool) (fs : List Frag) : List (List Frag) :=
  (segment (lineBreak tol) (stableSort (lessY tol) fs) []).map (orderLine preserve)

/-- `assembleLineText`: a space where the gap exceeds a tenth of the height -/
def lineTextAux : Frag → List Frag → Str
  | _, [] => []
  | p, f :: fs => (if f.x - right p > f.h * (1/10) then [32] else []) ++ f.text ++ lineTextAux f fs

def lineText : List Frag → Str
  | [] => []
  | f :: fs => f.text ++ lineTextAux f fs

/-- the filter of `buildLines` after fix 0432d47: an empty group is skipped; a group narrower
than `minW` is skipped unless its text is visible -/
def keepLine (minW : Rat) (l : List Frag) : Bool :=
  !l.isEmpty && !(bboxW l < minW && !visible (lineText l))

def buildLines (minW : Rat) (groups : List (List Frag)) : List (List Frag) :=
  groups.filter (keepLine minW)

/-- `buildLines` before the fix: every narrow group is skipped -/
def buildLinesOld (minW : Rat) (groups : List (List Frag)) : List (List Frag) :=
  groups.filter (fun l => !l.isEmpty && !(bboxW l < minW))

/-- `(*LineDetector).Detect` as far as fragments are concerned -/
def detectLines (tol minW : Rat) (preserve : List Frag → Bool) (fs : List Frag) : List (List Frag) :=
  buildLines minW (groupIntoLines tol preserve fs)

/-! ## Column detection (`layout/columns.go`) -/

structure Gap where
  left : Rat
  right : Rat
deriving DecidableEq, Repr

def Gap.centre (g : Gap) : Rat := (g.left + g.right) / 2

structure Band where
  y : Rat
  frs : List Frag
deriving Repr

/-- the Y tolerance of `groupFragmentsIntoLines`: half the height, at least 2 -/
def bandTol (f : Frag) : Rat := if f.h * (1/2) < 2 then 2 else f.h * (1/2)

/-- first band whose Y is close enough takes the fragment, otherwise a new band -/
def addToBands (f : Frag) : List Band → List Band
  | [] => [⟨f.y, [f]⟩]
  | b :: bs => if absR (f.y - b.y) ≤ bandTol f then ⟨b.y, b.frs ++ [f]⟩ :: bs else b :: addToBands f bs

def bandsUnsorted (fs : List Frag) : List Band := fs.foldl (fun bs f => addToBands f bs) []

/-- `groupFragmentsIntoLines`: bands sorted by Y, highest first (band Ys are pairwise
different, so every sorting algorithm gives this order) -/
def bands (fs : List Frag) : List (List Frag) :=
  ((bandsUnsorted fs).mergeSort (fun a b => a.y ≥ b.y)).map (·.frs)

/-- `separateSpanningFragments` followed by `filterStraySpanningContent`. `isSpan all line`
is the decision "this line spans a gap and is wide enough", `keep regular line` the decision
"this spanning line is clearly separate from the body". -/
def separate (isSpan : List Frag → List Frag → Bool) (keep : List Frag → List Frag → Bool)
    (fs : List Frag) : List Frag × List Frag :=
  let ls := bands fs
  let sp := (ls.filter (isSpan fs)).flatten
  let reg := (ls.filter (fun l => !isSpan fs l)).flatten
  if sp.isEmpty || reg.isEmpty then (reg, sp)
  else
    let sl := bands sp
    (reg ++ (sl.filter (fun l => !keep reg l)).flatten, (sl.filter (keep reg)).flatten)

/-- the column intervals: `[minX, c₀) [c₀, c₁) … [cₖ, maxX)` for gap centres `cᵢ` -/
def boundaries (gaps : List Gap) (minX maxX : Rat) : List (Rat × Rat) :=
  let cs := gaps.map Gap.centre
  (minX :: cs).zip (cs ++ [maxX])

/-- index of the first interval `[l, r)` that contains `c` -/
def findCol (c : Rat) : List (Rat × Rat) → Option Nat
  | [] => none
  | (l, r) :: bs => if l ≤ c && c < r then some 0 else (findCol c bs).map (· + 1)

/-- the column a fragment is assigned to (after fix 740a6d9: outside every interval means the
outermost column on that side) -/
def assignCol (bs : List (Rat × Rat)) (f : Frag) : Nat :=
  match findCol (centre f) bs with
  | some i => i
  | none =>
    match bs with
    | [] => 0
    | (l, _) :: _ => if centre f < l then 0 else bs.length - 1

/-- `columns[i].Fragments = append(columns[i].Fragments, f)` -/
def appendAt : Nat → Frag → List (List Frag) → List (List Frag)
  | _, _, [] => []
  | 0, f, c :: cs => (c ++ [f]) :: cs
  | i + 1, f, c :: cs => c :: appendAt i f cs

/-- `createColumnsFromGaps` (gaps sorted by their left edge); no fragments, no columns -/
def createColumns (gaps : List Gap) (fs : List Frag) : List (List Frag) :=
  if fs.isEmpty then []
  else
    let gs := gaps.mergeSort (fun a b => a.left ≤ b.left)
    let bs := boundaries gs (minOf 0 (fs.map (·.x))) (maxOf 0 (fs.map right))
    fs.foldl (fun cols f => appendAt (assignCol bs f) f cols) (bs.map fun _ => [])

/-- one step of `validateColumns` after fix 395abf8. `vr` is `valid` reversed (its head is
`valid[len(valid)-1]`), `pend` the fragments of narrow columns met before the first valid one. -/
def validateStep (minCW : Rat) (st : List (List Frag) × List Frag) (col : List Frag) :
    List (List Frag) × List Frag :=
  if col.isEmpty then st
  else if bboxW col < minCW then
    match st.1 with
    | last :: r => ((last ++ col) :: r, st.2)
    | [] => ([], st.2 ++ col)
  else ((st.2 ++ col) :: st.1, [])

def validateColumns (minCW : Rat) (cols : List (List Frag)) : List (List Frag) :=
  let st := cols.foldl (validateStep minCW) ([], [])
  st.1.reverse ++ (if st.2.isEmpty then [] else [st.2])

/-- `validateColumns` before the fix: empty and narrow columns are dropped -/
def validateColumnsOld (minCW : Rat) (cols : List (List Frag)) : List (List Frag) :=
  cols.filter (fun c => !c.isEmpty && !(bboxW c < minCW))

/-- `createColumnsFromGaps` before fix 740a6d9: a fragment outside every interval is assigned
nowhere -/
def createColumnsOld (gaps : List Gap) (fs : List Frag) : List (List Frag) :=
  if fs.isEmpty then []
  else
    let gs := gaps.mergeSort (fun a b => a.left ≤ b.left)
    let bs := boundaries gs (minOf 0 (fs.map (·.x))) (maxOf 0 (fs.map right))
    fs.foldl (fun cols f => match findCol (centre f) bs with
      | some i => appendAt i f cols
      | none => cols) (bs.map fun _ => [])

structure ColumnLayout where
  columns : List (List Frag)
  spanning : List Frag
deriving Repr

/-- `(*ColumnDetector).Detect` given the gaps found by `findVerticalGaps` -/
def detectColumns (gaps : List Gap) (minCW : Rat) (isSpan : List Frag → List Frag → Bool)
    (keep : List Frag → List Frag → Bool) (fs : List Frag) : ColumnLayout :=
  if fs.isEmpty then ⟨[], []⟩
  else if gaps.isEmpty then ⟨[fs], []⟩
  else
    let rs := separate isSpan keep fs
    ⟨validateColumns minCW (createColumns gaps rs.1), rs.2⟩

/-- all fragments of a column layout -/
def ColumnLayout.all (c : ColumnLayout) : List Frag := c.columns.flatten ++ c.spanning

/-! ### The Go classification of spanning lines (used by the handler) -/

def nonWs (l : List Frag) : List Frag := l.filter (fun f => visible4 f.text)

/-- `lineLeft, lineRight := 1e9, 0` then min/max over the non-white-space fragments -/
def extent (l : List Frag) : Rat :=
  (l.map right).foldl maxR 0 - (l.map (·.x)).foldl minR 1000000000

def isSpanGo (gaps : List Gap) (thr : Rat) (all line : List Frag) : Bool :=
  let lw := extent (nonWs line)
  let cw := extent all
  let spans := gaps.any fun g => (nonWs line).any fun f => centre f > g.left && centre f < g.right
  spans && lw > cw * thr

def keepSpanGo (regular line : List Frag) : Bool :=
  match line with
  | [] => false
  | f :: _ =>
    let mn := (regular.map (·.y)).foldl minR 1000000000
    let mx := (regular.map (·.y)).foldl maxR 0
    let range := mx - mn
    f.y < mn - 20 || f.y > mx + 20 || (range > 0 && f.y < mn + range * (1/20))

/-! ## Block detection (`layout/block.go`) -/

structure Block where
  frags : List Frag
  lines : List (List Frag)
deriving Repr

/-- `finalizeBlock` -/
def mkBlock (ls : List (List Frag)) : Block := ⟨ls.flatten, ls⟩

/-- `groupLinesIntoBlocks` with the break decision as a parameter -/
def groupBlocks (brk : List (List Frag) → List Frag → List (List Frag) → Bool)
    (lines : List (List Frag)) : List Block :=
  (segment brk lines []).map mkBlock

def lineMaxY (l : List Frag) : Rat := maxOf 0 (l.map fun f => f.y + f.h)
def lineMinY (l : List Frag) : Rat := minOf 0 (l.map (·.y))
/-- `lineHeight`: the average fragment height of a line -/
def lineHeight (l : List Frag) : Rat := if l.isEmpty then 0 else sumR (l.map (·.h)) / (l.length : Rat)
/-- `averageLineHeight`: the average font size of a line -/
def avgFS (l : List Frag) : Rat := if l.isEmpty then 12 else sumR (l.map (·.fs)) / (l.length : Rat)

/-- the break decision of the Go code (thresholds 1.5 and 3.0); `prev` is the last line of
the current block -/
def blockBreakGo (cur : List (List Frag)) (l : List Frag) (_ : List (List Frag)) : Bool :=
  match cur.getLast? with
  | none => false
  | some prev =>
    let gap := lineMinY prev - lineMaxY l
    let thr := (lineHeight prev + lineHeight l) / 2 * (3/2)
    let pl := minOf 0 (prev.map (·.x)); let pr := maxOf 0 (prev.map right)
    let cl := minOf 0 (l.map (·.x)); let cr := maxOf 0 (l.map right)
    let overlapX := pr > cl && cr > pl
    let hgap := if overlapX then 0 else if cl > pr then cl - pr else pl - cr
    gap > thr || !overlapX || hgap > avgFS prev * 3

/-- `mergeBlocks`: fragments appended, lines sorted by their top edge -/
def mergeBlocks (a b : Block) : Block :=
  ⟨a.frags ++ b.frags, (a.lines ++ b.lines).mergeSort (fun x y => lineMaxY x ≥ lineMaxY y)⟩

/-- the inner loop of `mergeOverlappingBlocks`: absorb every later unused block that overlaps
the (growing) current one; returns the merged block and the blocks left unused -/
def mergeInto (ov : Block → Block → Bool) (cur : Block) : List Block → Block × List Block
  | [] => (cur, [])
  | b :: bs =>
    if ov cur b then mergeInto ov (mergeBlocks cur b) bs
    else
      let r := mergeInto ov cur bs
      (r.1, b :: r.2)

theorem mergeInto_length (ov : Block → Block → Bool) (cur : Block) (bs : List Block) :
    (mergeInto ov cur bs).2.length ≤ bs.length := by
  induction bs generalizing cur with
  | nil => simp [mergeInto]
  | cons b bs ih =>
    simp only [mergeInto]
    split
    · exact Nat.le_trans (ih _) (by simp)
    · simp only [List.length_cons]; exact Nat.succ_le_succ (ih _)

/-- `mergeOverlappingBlocks` -/
def mergeAll (ov : Block → Block → Bool) : List Block → List Block
  | [] => []
  | b :: bs =>
    have : (mergeInto ov b bs).2.length < (b :: bs).length :=
      Nat.lt_of_le_of_lt (mergeInto_length ov b bs) (by simp)
    (mergeInto ov b bs).1 :: mergeAll ov (mergeInto ov b bs).2
termination_by l => l.length

/-- `blocksOverlap`: the intersection is more than 30 % of the smaller block -/
def blocksOverlapGo (a b : Block) : Bool :=
  let ax := bboxX a.frags; let ay := bboxY a.frags; let aw := bboxW a.frags; let ah := bboxH a.frags
  let bx := bboxX b.frags; let by_ := bboxY b.frags; let bw := bboxW b.frags; let bh := bboxH b.frags
  let l := maxR ax bx; let r := minR (ax + aw) (bx + bw)
  let bot := maxR ay by_; let top := minR (ay + ah) (by_ + bh)
  if l ≥ r || bot ≥ top then false
  else (r - l) * (top - bot) > minR (aw * ah) (bw * bh) * (3/10)

/-- the filter of `validateBlocks` after fix 8996d0b -/
def keepBlock (minW minH : Rat) (b : Block) : Bool :=
  !b.frags.isEmpty && !((bboxW b.frags < minW || bboxH b.frags < minH) && !b.frags.any (fun f => visible4 f.text))

def validateBlocks (minW minH : Rat) (bs : List Block) : List Block := bs.filter (keepBlock minW minH)

/-- `(*BlockDetector).Detect` from the line groups on (the order of the blocks is not
modelled: `sortBlocksInReadingOrder` is a `sort.Slice` of the block list) -/
def detectBlocks (brk : List (List Frag) → List Frag → List (List Frag) → Bool)
    (ov : Block → Block → Bool) (minW minH : Rat) (lines : List (List Frag)) : List Block :=
  validateBlocks minW minH (mergeAll ov (groupBlocks brk lines))

/-! ## The element tree (`layout/analyzer.go`) -/

structure Box where
  x : Rat
  y : Rat
  w : Rat
  h : Rat
deriving DecidableEq, Repr

/-- `bboxOverlaps`: more than half of the smaller box is covered -/
def bboxOverlaps (a b : Box) : Bool :=
  if a.x + a.w < b.x || b.x + b.w < a.x then false
  else if a.y + a.h < b.y || b.y + b.h < a.y then false
  else
    let ox := minR (a.x + a.w) (b.x + b.w) - maxR a.x b.x
    let oy := minR (a.y + a.h) (b.y + b.h) - maxR a.y b.y
    if ox ≤ 0 || oy ≤ 0 then false
    else ox * oy > minR (a.w * a.h) (b.w * b.h) * (1/2)

/-- a heading, list or paragraph: its box and the ids of the fragments whose text it shows -/
structure Elem where
  box : Box
  ids : List Nat
deriving DecidableEq, Repr

/-- was paragraph `p` suppressed by the tree before the repair? (`consumedParaIndices`) -/
def consumed (ov : Box → Box → Bool) (hs ls : List Elem) (p : Elem) : Bool :=
  (hs ++ ls).any fun e => ov e.box p.box

/-- `buildElementTree` BEFORE the repair 8ee0e52 (kept for the pinned counterexamples): headings,
lists, then the paragraphs that no heading or list box overlaps -/
def elementTreeOld (ov : Box → Box → Bool) (hs ls ps : List Elem) : List Elem :=
  hs ++ ls ++ ps.filter (fun p => !consumed ov hs ls p)

/-- the inner loop of `paragraphNotShown` on fragment ids: `(rest, shown')` - the ids of a
paragraph that the multiset `shown` does not hold, in their order; an id found in `shown` is
taken off it (`shown[f]--`) -/
def notShown : List Nat → List Nat → List Nat × List Nat
  | shown, [] => ([], shown)
  | shown, i :: r =>
    if i ∈ shown then notShown (shown.erase i) r
    else ((notShown shown r).1.cons i, (notShown shown r).2)

/-- the paragraph loop of `buildElementTree` with `paragraphNotShown`: a paragraph that keeps all
its fragments is emitted as it is, one that keeps none is dropped, one that keeps some is emitted
with the remaining ids and the box `rbox p rest` of what remains (an input) -/
def remainingPars (rbox : Elem → List Nat → Box) : List Nat → List Elem → List Elem
  | _, [] => []
  | shown, p :: r =>
    let q := notShown shown p.ids
    if q.1.length == p.ids.length then ⟨p.box, q.1⟩ :: remainingPars rbox q.2 r
    else if q.1.isEmpty then remainingPars rbox q.2 r
    else ⟨rbox p q.1, q.1⟩ :: remainingPars rbox q.2 r

/-- the headings `buildElementTree` emits: not those whose fragments are all shown by a list
(`allFragmentsShown`: the paragraph is an item of that list) -/
def shownHeadings (hs ls : List Elem) : List Elem :=
  hs.filter fun h => h.ids.isEmpty || !(h.ids.all fun i => (ls.flatMap (·.ids)).contains i)

/-- `buildElementTree` before the final reordering (after the repair 8ee0e52): the headings that
are not list items, the lists, then of every paragraph the fragments that none of these shows -/
def elementTree (rbox : Elem → List Nat → Box) (hs ls ps : List Elem) : List Elem :=
  shownHeadings hs ls ++ ls ++
    remainingPars rbox (ls.flatMap (·.ids) ++ (shownHeadings hs ls).flatMap (·.ids)) ps

/-! ## Text assembly (`extractor.go`) -/

/-- the comparator of the `sort.SliceStable` in `assembleText` -/
def asmLess (a b : Frag) : Bool :=
  if absR (a.y - b.y) > a.h * (1/2) then a.y - b.y > 0
  else if absR (a.x - b.x) < a.fs * (1/4) then false
  else a.x < b.x

/-- what `assembleText` writes before fragment `f` -/
def asmSep (lastY lastEndX : Rat) (f : Frag) : Str :=
  let yd := absR (f.y - lastY)
  if yd > f.h * (1/2) then (if yd > f.h * (3/2) then [10, 10] else [10])
  else if f.x - lastEndX > f.fs * (3/10) then [32] else []

def asmEmit : Rat → Rat → List Frag → Str
  | _, _, [] => []
  | ly, lx, f :: fs => asmSep ly lx f ++ f.text ++ asmEmit f.y (right f) fs

/-- `(*Extractor).assembleText` -/
def assembleText (fs : List Frag) : Str :=
  match stableSort asmLess fs with
  | [] => []
  | f :: r => f.text ++ asmEmit f.y (right f) r

/-- the comparator of the sort in `extractPreserveLayout` -/
def plLess (a b : Frag) : Bool :=
  if absR (a.y - b.y) > a.h * (1/2) then a.y - b.y > 0 else a.x < b.x

/-- `extractPreserveLayout`: the fragments in sorted order, each preceded by the line breaks
and blanks the layout calls for. How many is a parameter (`pad`, always white space). -/
def plEmit (pad : List Frag → Frag → Nat × Nat) : List Frag → List Frag → Str
  | _, [] => []
  | done, f :: fs =>
    List.replicate (pad done f).1 10 ++ List.replicate (pad done f).2 32 ++ f.text ++ plEmit pad (done ++ [f]) fs

def preserveLayout (pad : List Frag → Frag → Nat × Nat) (fs : List Frag) : Str :=
  plEmit pad [] (stableSort plLess fs)

/-! ### `extractPreserveLayout` as the code has it after daef69b: how much white space

The lines, the column counter and the two clamps are modelled exactly. What stays a parameter is
the float arithmetic in front of them: `cw` = `charWidth` (0.6 x the average font size, or the
page width over 40 / 80 / 200 columns) and `lh0` = `charWidth * 1.2`, the line height used for a
line whose height is not positive. The conversions `int(x / charWidth)` and
`int(gap/lineHeight + 0.5)` are exact truncations here (the harness compares only where the
float64 computation truncates to the same integer, and where it fits an int64). -/

/-- `maxCharsPerLine = 200`: the target column of a fragment is clamped to it (daef69b) -/
def maxCharsPerLine : Nat := 200
/-- `maxGapLines = 100`: one vertical gap writes at most that many newlines (daef69b) -/
def maxGapLines : Nat := 100

/-- `line.y`: the Y of the first fragment of the line -/
def plLineY : List Frag → Rat
  | [] => 0
  | f :: _ => f.y

/-- `line.height`: the largest height of the line's fragments -/
def plHeight (l : List Frag) : Rat := maxOf 0 (l.map (·.h))

/-- a new line starts unless `abs(frag.Y-currentLine.y) <= currentLine.height*0.5` -/
def plBreak (cur : List Frag) (a : Frag) (_ : List Frag) : Bool :=
  absR (a.y - plLineY cur) > plHeight cur * (1/2)

/-- the lines of `extractPreserveLayout` (a sweep over the sorted fragments) -/
def plLines (sorted : List Frag) : List (List Frag) := segment plBreak sorted []

/-- `targetCol`: `int(frag.X / charWidth)`, raised to 0, then clamped to `maxCharsPerLine`
(`if targetCol > maxCharsPerLine`: 200 itself is kept, 201 becomes 200) -/
def plTargetCol (cw : Rat) (f : Frag) : Nat :=
  let t := truncInt (f.x / cw)
  if t < 0 then 0 else if t > (maxCharsPerLine : Int) then maxCharsPerLine else t.toNat

/-- one line: blanks up to the target column when it lies to the right of `currentCol`, the
text, `currentCol += len(text)` (bytes) -/
def plLineText (cw : Rat) : Nat → List Frag → Str
  | _, [] => []
  | col, f :: fs =>
    if plTargetCol cw f > col then
      List.replicate (plTargetCol cw f - col) 32 ++ f.text ++ plLineText cw (plTargetCol cw f + f.text.length) fs
    else f.text ++ plLineText cw (col + f.text.length) fs

/-- `gapInLines`: `int(verticalGap/lineHeight + 0.5)`, raised to 1, then clamped to
`maxGapLines` (`if gapInLines > maxGapLines`: 100 is kept, 101 becomes 100) -/
def plGapLines (lh0 : Rat) (lastY : Rat) (ln : List Frag) : Nat :=
  let lh := if plHeight ln ≤ 0 then lh0 else plHeight ln
  let g := truncInt ((lastY - plLineY ln) / lh + 1/2)
  if g < 1 then 1 else if g > (maxGapLines : Int) then maxGapLines else g.toNat

/-- the lines after the first: the newlines of the vertical gap, then the line -/
def plEmitLines (cw lh0 : Rat) : Rat → List (List Frag) → Str
  | _, [] => []
  | ly, ln :: rest =>
    List.replicate (plGapLines lh0 ly ln) 10 ++ plLineText cw 0 ln ++ plEmitLines cw lh0 (plLineY ln) rest

/-- `extractPreserveLayout` behind its `sort.SliceStable` -/
def preserveLayoutSorted (cw lh0 : Rat) (sorted : List Frag) : Str :=
  match plLines sorted with
  | [] => []
  | ln :: rest => plLineText cw 0 ln ++ plEmitLines cw lh0 (plLineY ln) rest

/-- `(*Extractor).extractPreserveLayout` -/
def preserveLayoutGo (cw lh0 : Rat) (fs : List Frag) : Str :=
  preserveLayoutSorted cw lh0 (stableSort plLess fs)

/-- ASCII `strings.TrimSpace` -/
def trimLeft : Str → Str
  | [] => []
  | c :: s => if isSpaceByte c then trimLeft s else c :: s

def trimSpace (s : Str) : Str := (trimLeft (trimLeft s).reverse).reverse

/-- lines of one section joined by the separators `sep i` (white space: "\n" or "\n\n") -/
def joinLines (sep : Nat → Str) : Nat → List Str → Str
  | _, [] => []
  | i, t :: ts => (if i = 0 then [] else sep i) ++ trimSpace t ++ joinLines sep (i + 1) ts

/-- `extractByColumn`: sections separated by a blank line (when something was written
before), lines inside a section by `sep`. -/
def byColumnAux (sep : Nat → Nat → Str) : Nat → Str → List (List Str) → Str
  | _, acc, [] => acc
  | si, acc, s :: ss =>
    byColumnAux sep (si + 1) (acc ++ (if si > 0 && !acc.isEmpty then [10, 10] else []) ++ joinLines (sep si) 0 s) ss

def byColumnText (sep : Nat → Nat → Str) (sections : List (List Str)) : Str :=
  byColumnAux sep 0 [] sections

/-- `extractWithParagraphs`: paragraphs separated by a blank line, lines of a paragraph by a blank -/
def joinParagraphsAux : Nat → List (List Str) → Str
  | _, [] => []
  | i, p :: ps =>
    (if i > 0 then [10, 10] else []) ++ joinLines (fun _ => [32]) 0 p ++ joinParagraphsAux (i + 1) ps

def joinParagraphsText (paras : List (List Str)) : Str := joinParagraphsAux 0 paras

end Tabula.Layout
