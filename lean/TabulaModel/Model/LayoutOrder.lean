import TabulaModel.Model.Layout
/-
Model of the reading-order detector (property C09, second layer): the code that
`Model/Layout.lean` left as parameters (`order`, `reorder`, `preserve`, the `sep` of
`extractByColumn`) is mirrored here function by function, so that the ByColumn path is a
closed function of the column layout.

* `layout.shouldPreserveStreamOrder`                         → `preserveGo`
* `layout.reorderLinesByY` (invertedY = false: every path of
  `detectInvertedY` returns false for the default config)   → `reorderLinesByY`
* `layout.(*ReadingOrderDetector).buildSpanningSection` /
  `buildColumnSection` / `buildSections`                     → `mkSection`, `buildSections`
* `layout.(*ReadingOrderDetector).orderSections`             → `sectionLess`, `orderSections`
* `layout.(*ReadingOrderDetector).Detect`                    → `readingOrderOf`, `readingOrder`
* the separator rule of `tabula.(*Extractor).extractByColumn` → `sepGo`, `extractByColumn`
* `layout.(*ReadingOrderResult).GetParagraphs`               → `roParagraphs`

Still parameters: the line tolerance of each section (`tolOf`, the result of
`calculateAdaptiveTolerance` on the section's fragments), the dominant direction `rtl`
(`detectReadingDirection` counts a field the model's fragments do not carry) and the paragraph
break decision `brk`.
-/
namespace Tabula.Layout

/-! ## `shouldPreserveStreamOrder` (`layout/columns.go`) -/

/-- the X steps `fragments[i+1].X - fragments[i].X` -/
def xSteps : List Frag → List Rat
  | a :: b :: l => (b.x - a.x) :: xSteps (b :: l)
  | _ => []

/-- `shouldPreserveStreamOrder`: fewer than 3 fragments never; otherwise more than 3 % of the
steps jump back by more than twice the average font size (of all fragments but the last, at
least 1), or one jump back exceeds 15 pt. -/
def preserveGo (l : List Frag) : Bool :=
  if l.length < 3 then false
  else
    let n1 := l.length - 1
    let avg0 := sumR ((l.take n1).map (·.fs)) / (n1 : Rat)
    let avg := if avg0 < 1 then 1 else avg0
    let back := (xSteps l).filter (fun d => d < -(avg * 2))
    let maxBack := (back.map (fun d => -d)).foldl maxR 0
    ((back.length : Rat) / (n1 : Rat) > 3/100) || maxBack > 15

/-! ## Sections (`layout/reading_order.go`) -/

/-- `reorderLinesByY` for `invertedY = false`: a stable sort of the lines by the bottom edge of
their box, highest first (`Line.BBox.Y` = the least fragment Y). -/
def reorderLinesByY (ls : List (List Frag)) : List (List Frag) :=
  stableSort (fun a b => bboxY a > bboxY b) ls

/-- a `ReadingSection`: its type, its fragments and its lines -/
structure Sec where
  spanning : Bool
  frags : List Frag
  lines : List (List Frag)
deriving Repr

/-- `ReadingSection.BBox`: `fragmentsBBox` of the spanning fragments, `Column.BBox` (which
`createColumnsFromGaps` and `validateColumns` keep equal to `fragmentsBBox` of the column's
fragments) for a column -/
def Sec.x (s : Sec) : Rat := bboxX s.frags
def Sec.y (s : Sec) : Rat := bboxY s.frags
def Sec.h (s : Sec) : Rat := bboxH s.frags

/-- `buildSpanningSection` / `buildColumnSection`: detect the lines of the section's fragments
and reorder them by Y -/
def mkSection (tolOf : List Frag → Rat) (minW : Rat) (preserve : List Frag → Bool)
    (spanning : Bool) (frs : List Frag) : Sec :=
  ⟨spanning, frs, reorderLinesByY (detectLines (tolOf frs) minW preserve frs)⟩

/-- `buildSections`: the spanning section first (if there are spanning fragments), then one
section per non-empty column -/
def buildSections (tolOf : List Frag → Rat) (minW : Rat) (preserve : List Frag → Bool)
    (cl : ColumnLayout) : List Sec :=
  (if cl.spanning.isEmpty then [] else [mkSection tolOf minW preserve true cl.spanning]) ++
    (cl.columns.filter (fun c => !c.isEmpty)).map (mkSection tolOf minW preserve false)

/-- the comparator of the `sort.SliceStable` in `orderSections` (`invertedY = false`) -/
def sectionLess (rtl : Bool) (a b : Sec) : Bool :=
  let av := a.y + a.h
  let bv := b.y + b.h
  if a.spanning && !b.spanning && av ≥ bv - 10 then true
  else if b.spanning && !a.spanning && bv ≥ av - 10 then false
  else
    let overlap := minR av bv - maxR a.y b.y
    let mh := minR a.h b.h
    if mh > 0 && overlap > mh * (1/2) then (if rtl then a.x > b.x else a.x < b.x)
    else av > bv

/-- `orderSections` -/
def orderSections (rtl : Bool) (ss : List Sec) : List Sec := stableSort (sectionLess rtl) ss

/-- `ReadingOrderResult`: the ordered sections, their fragments and their lines, concatenated -/
structure ReadingOrder where
  sections : List Sec
  fragments : List Frag
  lines : List (List Frag)
  columnCount : Nat
deriving Repr

/-- `(*ReadingOrderDetector).Detect` from the column layout on -/
def readingOrderOf (tolOf : List Frag → Rat) (minW : Rat) (preserve : List Frag → Bool) (rtl : Bool)
    (cl : ColumnLayout) : ReadingOrder :=
  let ss := orderSections rtl (buildSections tolOf minW preserve cl)
  ⟨ss, ss.flatMap (·.frags), ss.flatMap (·.lines), cl.columns.length⟩

/-- `(*ReadingOrderDetector).Detect`: no fragments, an empty result -/
def readingOrder (gaps : List Gap) (minCW minW : Rat) (isSpan keep : List Frag → List Frag → Bool)
    (tolOf : List Frag → Rat) (preserve : List Frag → Bool) (rtl : Bool) (fs : List Frag) : ReadingOrder :=
  if fs.isEmpty then ⟨[], [], [], 0⟩
  else readingOrderOf tolOf minW preserve rtl (detectColumns gaps minCW isSpan keep fs)

/-! ## `extractByColumn` (`extractor.go`) as a closed function -/

def lineBoxH (l : List Frag) : Rat := bboxH l

/-- the separator `extractByColumn` writes before line `cur` of a section when `prev` precedes
it: a blank line when the vertical gap exceeds 0.8 of the line's height -/
def sepLines (prev cur : List Frag) : Str :=
  if bboxY prev - (bboxY cur + bboxH cur) > bboxH cur * (4/5) then [10, 10] else [10]

/-- the lines of one section: `TrimSpace(line.Text)` separated by `sepLines` -/
def sectionTextAux : List Frag → List (List Frag) → Str
  | _, [] => []
  | p, l :: ls => sepLines p l ++ trimSpace (lineText l) ++ sectionTextAux l ls

def sectionText : List (List Frag) → Str
  | [] => []
  | l :: ls => trimSpace (lineText l) ++ sectionTextAux l ls

/-- the loop over the sections: a blank line before a section when something was written -/
def sectionsTextAux : Nat → Str → List Sec → Str
  | _, acc, [] => acc
  | si, acc, s :: ss =>
    sectionsTextAux (si + 1) (acc ++ (if si > 0 && !acc.isEmpty then [10, 10] else []) ++ sectionText s.lines) ss

/-- `(*Extractor).extractByColumn` given the reading order -/
def byColumnOf (fs : List Frag) (ro : ReadingOrder) : Str :=
  if fs.isEmpty then []
  else if ro.sections.isEmpty then assembleText fs
  else sectionsTextAux 0 [] ro.sections

/-- `(*Extractor).extractByColumn` -/
def extractByColumn (gaps : List Gap) (minCW minW : Rat) (isSpan keep : List Frag → List Frag → Bool)
    (tolOf : List Frag → Rat) (preserve : List Frag → Bool) (rtl : Bool) (fs : List Frag) : Str :=
  byColumnOf fs (readingOrder gaps minCW minW isSpan keep tolOf preserve rtl fs)

/-! ## `(*ReadingOrderResult).GetParagraphs` and `extractWithParagraphs` -/

/-- `ParagraphDetector.Detect` as far as lines are concerned: no lines, no paragraphs;
otherwise the sweep of `groupIntoParagraphs` with the break decision `brk` -/
def detectParagraphs (brk : List (List Frag) → List Frag → List (List Frag) → Bool)
    (lines : List (List Frag)) : List (List (List Frag)) :=
  segment brk lines []

/-- `GetParagraphs`: with at most one section the paragraphs of all lines, otherwise the
paragraphs of every section that has lines, concatenated. `brkOf s` is the break decision for
the lines of section `s` (the detector computes margins and spacings per call). -/
def roParagraphs (brkOf : List (List Frag) → List (List Frag) → List Frag → List (List Frag) → Bool)
    (ro : ReadingOrder) : List (List (List Frag)) :=
  if ro.lines.isEmpty then []
  else if ro.sections.length ≤ 1 then detectParagraphs (brkOf ro.lines) ro.lines
  else (ro.sections.filter (fun s => !s.lines.isEmpty)).flatMap fun s => detectParagraphs (brkOf s.lines) s.lines

/-- `assembleParagraphText`: the line texts joined by a blank unless the line ends in "-" -/
def paragraphText : List (List Frag) → Str
  | [] => []
  | [l] => lineText l
  | l :: l2 :: ls =>
    lineText l ++ (if (lineText l).getLast? = some 45 then [] else [32]) ++ paragraphText (l2 :: ls)

/-- `(*ParagraphLayout).GetText`: paragraph texts separated by a blank line -/
def paragraphLayoutText : List (List (List Frag)) → Str
  | [] => []
  | [p] => paragraphText p
  | p :: p2 :: ps => paragraphText p ++ [10, 10] ++ paragraphLayoutText (p2 :: ps)

/-- the loop of `extractWithParagraphs`: paragraphs separated by a blank line, the trimmed line
texts of a paragraph by a blank -/
def withParagraphsText (paras : List (List (List Frag))) : Str :=
  joinParagraphsText (paras.map fun p => p.map lineText)

/-- `(*Extractor).extractWithParagraphs` given the reading order: the lines of the reading
order, or (none there) the lines of the line detector on the whole page, or (none there either)
`assembleText` -/
def withParagraphsOf (brkOf : List (List Frag) → List (List Frag) → List Frag → List (List Frag) → Bool)
    (tolOf : List Frag → Rat) (minW : Rat) (preserve : List Frag → Bool)
    (fs : List Frag) (ro : ReadingOrder) : Str :=
  if fs.isEmpty then []
  else
    let lines := if !ro.lines.isEmpty then ro.lines else detectLines (tolOf fs) minW preserve fs
    if lines.isEmpty then assembleText fs
    else withParagraphsText (detectParagraphs (brkOf lines) lines)

/-- `(*Extractor).extractWithParagraphs` -/
def extractWithParagraphs (gaps : List Gap) (minCW minW : Rat) (isSpan keep : List Frag → List Frag → Bool)
    (tolOf : List Frag → Rat) (preserve : List Frag → Bool) (rtl : Bool)
    (brkOf : List (List Frag) → List (List Frag) → List Frag → List (List Frag) → Bool) (fs : List Frag) : Str :=
  withParagraphsOf brkOf tolOf minW preserve fs (readingOrder gaps minCW minW isSpan keep tolOf preserve rtl fs)

end Tabula.Layout
