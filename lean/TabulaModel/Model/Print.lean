import TabulaModel.Model.Parser
/-
The PRINTER side of property C06: every legal spelling of a PDF token, as data.
A spelling is a list of *pieces*; each piece says how one byte of the value (or
a piece of layout that carries no byte) is written.  `render` gives the bytes
written, `bytes`/`value` the value meant, `Valid…` which piece lists are legal
spellings (ISO 32000-1 §7.3.4.2, §7.3.4.3, §7.3.5, §7.3.3).  Quantifying over all
valid piece lists is quantifying over all spellings.  Core Lean only.
-/
namespace Tabula.Pdf

/-- hex digit for the value `v < 16`, upper or lower case -/
def hexDigitChar (upper : Bool) (v : Nat) : Nat :=
  if v < 10 then 48 + v else if upper then 55 + v else 87 + v

/-! ### names (§7.3.5) -/

/-- one byte of a name: as itself, or as `#xx` with a case choice per digit -/
inductive NPiece
  | raw (b : Nat)
  | esc (b : Nat) (u1 u2 : Bool)

def NPiece.byte : NPiece → Nat
  | .raw b => b
  | .esc b _ _ => b

def NPiece.render : NPiece → Str
  | .raw b => [b]
  | .esc b u1 u2 => [35, hexDigitChar u1 (b / 16), hexDigitChar u2 (b % 16)]

/-- `#xx` is legal for every byte; raw only for regular characters other than `#` -/
def NPiece.Ok : NPiece → Prop
  | .raw b => isWs b = false ∧ isDelim b = false ∧ b ≠ 35
  | .esc b _ _ => b < 256

def renderName (ps : List NPiece) : Str := ps.flatMap NPiece.render

/-- the spelling a careful writer uses: `#XX` wherever it is mandatory or
recommended (outside `!`..`~`), the byte itself elsewhere -/
def canonNPiece (b : Nat) : NPiece :=
  if isWs b = false ∧ isDelim b = false ∧ b ≠ 35 ∧ 33 ≤ b ∧ b ≤ 126 then .raw b else .esc b true true

def printName (bs : Str) : Str := 47 :: renderName (bs.map canonNPiece)

/-- what may follow a name (or any token of regular characters): nothing, white
space or a delimiter -/
def Terminated (tail : Str) : Prop :=
  tail = [] ∨ ∃ c r, tail = c :: r ∧ (isWs c || isDelim c) = true

/-! ### hexadecimal strings (§7.3.4.3) -/

def AllWs (w : Str) : Prop := ∀ c ∈ w, isWs c = true

/-- one byte of a hex string: two digits, each with a case choice and preceded
by any amount of white space -/
structure HPiece where
  b : Nat
  u1 : Bool
  u2 : Bool
  w1 : Str
  w2 : Str

def HPiece.render (p : HPiece) : Str :=
  p.w1 ++ [hexDigitChar p.u1 (p.b / 16)] ++ p.w2 ++ [hexDigitChar p.u2 (p.b % 16)]

def HPiece.Ok (p : HPiece) : Prop := p.b < 256 ∧ AllWs p.w1 ∧ AllWs p.w2

/-- an optional last byte written with ONE digit (its low nibble is 0) -/
structure HLast where
  hi : Nat
  u : Bool
  w : Str

def HLast.render (l : HLast) : Str := l.w ++ [hexDigitChar l.u l.hi]
def HLast.Ok (l : HLast) : Prop := l.hi < 16 ∧ AllWs l.w

/-- `<` … `>`: the pieces, the optional single last digit, white space before `>` -/
def renderHexBody (ps : List HPiece) (last : Option HLast) (wEnd : Str) : Str :=
  ps.flatMap HPiece.render ++ (match last with | some l => l.render | none => []) ++ wEnd ++ [62]

def renderHex (ps : List HPiece) (last : Option HLast) (wEnd : Str) : Str :=
  60 :: renderHexBody ps last wEnd

def hexValueOf (ps : List HPiece) (last : Option HLast) : Str :=
  ps.map (·.b) ++ (match last with | some l => [l.hi * 16] | none => [])

/-! ### literal strings (§7.3.4.2) -/

/-- the character after the backslash of a single-character escape -/
def escChar (b : Nat) : Nat :=
  if b = 10 then 110 else if b = 13 then 114 else if b = 9 then 116
  else if b = 8 then 98 else if b = 12 then 102 else b

/-- `k` octal digits of `v` (most significant first) -/
def octDigits : Nat → Nat → Str
  | 0, _ => []
  | k + 1, v => octDigits k (v / 8) ++ [48 + v % 8]

inductive SPiece
  | raw (b : Nat)               -- the byte itself
  | popen                       -- a raw `(` that a later raw `)` closes
  | pclose                      -- a raw `)` closing an earlier raw `(`
  | named (b : Nat)             -- `\n \r \t \b \f \( \) \\`
  | octal (b : Nat) (k : Nat)   -- `\d`, `\dd` or `\ddd`
  | cont (eol : Str)            -- backslash + end of line: writes nothing

def SPiece.bytes : SPiece → Str
  | .raw b => [b]
  | .popen => [40]
  | .pclose => [41]
  | .named b => [b]
  | .octal b _ => [b]
  | .cont _ => []

def SPiece.render : SPiece → Str
  | .raw b => [b]
  | .popen => [40]
  | .pclose => [41]
  | .named b => [92, escChar b]
  | .octal b k => 92 :: octDigits k b
  | .cont eol => 92 :: eol

def renderStrBody (ps : List SPiece) : Str := ps.flatMap SPiece.render
def strBytes (ps : List SPiece) : Str := ps.flatMap SPiece.bytes

/-- Legal spellings of a string body that is followed by the byte `next`
(inside the string: the first byte of the next piece; at the end: the closing
parenthesis) with `d` raw parentheses currently open.  Raw CR is never written
(a raw end of line means LF); a short octal escape must not run into an octal
digit; `\` CR must not run into LF. -/
def ValidStr : Nat → List SPiece → Prop
  | d, [] => d = 0
  | d, p :: ps =>
    let next := (renderStrBody ps).headD 41
    match p with
    | .raw b => b ≠ 40 ∧ b ≠ 41 ∧ b ≠ 92 ∧ b ≠ 13 ∧ ValidStr d ps
    | .popen => ValidStr (d + 1) ps
    | .pclose => 0 < d ∧ ValidStr (d - 1) ps
    | .named b => (b = 10 ∨ b = 13 ∨ b = 9 ∨ b = 8 ∨ b = 12 ∨ b = 40 ∨ b = 41 ∨ b = 92) ∧ ValidStr d ps
    | .octal b k => 1 ≤ k ∧ k ≤ 3 ∧ b < 8 ^ k ∧ b < 256 ∧ (k < 3 → isOctal next = false) ∧ ValidStr d ps
    | .cont eol => (eol = [10] ∨ eol = [13, 10] ∨ (eol = [13] ∧ next ≠ 10)) ∧ ValidStr d ps

/-- `(` body `)` -/
def renderStr (ps : List SPiece) : Str := 40 :: (renderStrBody ps ++ [41])

/-! ### integers (§7.3.3) -/

/-- an integer with an optional `+`, and `zeros` leading zeros -/
def printInt (plus : Bool) (zeros : Nat) (i : Int) : Str :=
  (if i < 0 then [45] else if plus then [43] else []) ++ List.replicate zeros 48 ++ Tabula.A1.dec i.natAbs

/-- what may follow a number: anything but a digit or a point -/
def NumTerminated (tail : Str) : Prop :=
  tail = [] ∨ ∃ c r, tail = c :: r ∧ isDigit c = false ∧ c ≠ 46

/-! ### separators (§7.2.2, §7.2.3) -/

/-- one unit of token separation: a white-space byte, or a comment with its
end-of-line marker -/
inductive SepUnit
  | ws (b : Nat)
  | comment (text : Str) (eol : Str)

def SepUnit.render : SepUnit → Str
  | .ws b => [b]
  | .comment t e => 37 :: (t ++ e)

def SepUnit.Ok : SepUnit → Prop
  | .ws b => isWs b = true
  | .comment t e => (∀ c ∈ t, c ≠ 10 ∧ c ≠ 13) ∧ (e = [10] ∨ e = [13] ∨ e = [13, 10])

def renderSep (us : List SepUnit) : Str := us.flatMap SepUnit.render

end Tabula.Pdf
