/-!
Model of the table grid of `htmldoc` (C15, shared with C19).  Core Lean only.

Go functions mirrored (htmldoc/types.go, htmldoc/reader.go, after fix 72cc329):
* `cellSpan`                       — a colspan/rowspan below 1 or above `maxCellSpan` counts as 1
* `(*ParsedTable).layout(spans)`   — `placeRow` (the cell loop of one row), `layoutRows` (the row
                                     loop with the `covered` slice), `layoutGrid` (the padding loop)
* `(*ParsedTable).grid`            — `grid`: with spans, unless the grid exceeds
                                     `maxTableGridCells` (`overLimit`), then without
* `dropEmptyRows` (parseTable)     — `dropEmptyRows`

The functions are generic in the cell type `α` (C15 uses cells of bytes, C19 its own `Cell`); what
they need of a cell is its `ColSpan` and `RowSpan` (`Int`, any value).
-/
namespace Tabula.HtmlGrid

def maxCellSpan : Nat := 1024

/-- 2^20 -/
def maxTableGridCells : Nat := 1048576

/-- `cellSpan(span)`: the number of grid columns (rows) a colspan (rowspan) stands for -/
def cellSpan (n : Int) : Nat := if n < 1 ∨ n > 1024 then 1 else n.toNat

/-- what `layout` takes for a cell: (columns beyond the first, rows) — with `spans` the bounded
`ColSpan`/`RowSpan`, without every cell is one column and one row -/
def spanOf {α : Type} (colSpan rowSpan : α → Int) (spans : Bool) (c : α) : Nat × Nat :=
  if spans then (cellSpan (colSpan c) - 1, cellSpan (rowSpan c)) else (0, 1)

/-- the cell loop of `layout` for one row.  `cov` is the `covered` slice from the current column
on (`covered[c]` = number of rows, from this one on, in which column `c` belongs to a cell placed
earlier).  A cell goes to the first column that is not covered from above (the columns skipped get
`none`), stands there, and is followed by `none` for the further columns it covers; those columns
are covered for `rows` rows from here on (whatever was there: overlapping cells overwrite).
Result: the line up to the last cell, and the new `covered` values of the columns from the start
column on (columns right of the last cell keep their value). -/
def placeRow {α : Type} (sp : α → Nat × Nat) : List Nat → List α → List (Option α) × List Nat
  | cov, [] => ([], cov)
  | cov, c :: cs =>
    let skip := cov.takeWhile (0 < ·)
    let rest := cov.dropWhile (0 < ·)
    let p := placeRow sp (rest.drop ((sp c).1 + 1)) cs
    (skip.map (fun _ => none) ++ (some c :: List.replicate (sp c).1 none ++ p.1),
     skip ++ (List.replicate ((sp c).1 + 1) (sp c).2 ++ p.2))

/-- the row loop of `layout`: each row is placed against the `covered` slice, which then loses one
row everywhere (`if covered[k] > 0 { covered[k]-- }`).  Result: the lines (not yet padded) and the
final `covered` slice, whose length is the width of the grid. -/
def layoutRows {α : Type} (sp : α → Nat × Nat) : List Nat → List (List α) → List (List (Option α)) × List Nat
  | cov, [] => ([], cov)
  | cov, r :: rs =>
    let p := placeRow sp cov r
    let q := layoutRows sp (p.2.map (· - 1)) rs
    (p.1 :: q.1, q.2)

/-- width of the grid under a span function: `len(covered)` at the end -/
def widthOf {α : Type} (sp : α → Nat × Nat) (t : List (List α)) : Nat := (layoutRows sp [] t).2.length

/-- `layout` when it does not give up: every line padded with `none` to the width -/
def layoutGrid {α : Type} (sp : α → Nat × Nat) (t : List (List α)) : List (List (Option α)) :=
  (layoutRows sp [] t).1.map fun l => l ++ List.replicate (widthOf sp t - l.length) none

/-- `layout(true)` gives up: some `col+cols` (the width only grows, so: the final width) has
`len(t.Rows) > maxTableGridCells/(col+cols)` -/
def overLimit {α : Type} (colSpan rowSpan : α → Int) (t : List (List α)) : Bool :=
  let w := widthOf (spanOf colSpan rowSpan true) t
  decide (0 < w ∧ t.length > maxTableGridCells / w)

/-- the span function `grid` ends up using -/
def gridSpan {α : Type} (colSpan rowSpan : α → Int) (t : List (List α)) : α → Nat × Nat :=
  spanOf colSpan rowSpan (!overLimit colSpan rowSpan t)

/-- `(*ParsedTable).grid`: one line per row, the same number of columns in every line; a cell at
its top-left position, `none` at the other positions it covers and where a short row ends -/
def grid {α : Type} (colSpan rowSpan : α → Int) (t : List (List α)) : List (List (Option α)) :=
  layoutGrid (gridSpan colSpan rowSpan t) t

/-- number of columns of `grid` -/
def gridWidth {α : Type} (colSpan rowSpan : α → Int) (t : List (List α)) : Nat :=
  widthOf (gridSpan colSpan rowSpan t) t

/-- `dropEmptyRows` with its counter `reach` (rows below the current one that a cell seen so far
spans): a row without cells is dropped unless a rowspan from above reaches it -/
def dropEmptyRowsFrom {α : Type} (rowSpan : α → Int) : Nat → List (List α) → List (List α)
  | _, [] => []
  | reach, r :: rs =>
    if r.isEmpty ∧ reach = 0 then dropEmptyRowsFrom rowSpan reach rs
    else
      let reach1 := reach - 1
      let reach2 := r.foldl (fun m c => if cellSpan (rowSpan c) - 1 > m then cellSpan (rowSpan c) - 1 else m) reach1
      r :: dropEmptyRowsFrom rowSpan reach2 rs

def dropEmptyRows {α : Type} (rowSpan : α → Int) (rows : List (List α)) : List (List α) :=
  dropEmptyRowsFrom rowSpan 0 rows

end Tabula.HtmlGrid
