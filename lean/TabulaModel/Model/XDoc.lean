import TabulaModel.Model.GState
/-
Model of the PUBLIC entry points of `text.Extractor` (text/extractor.go, branch agent-C08
at 670f3aa) around the operator semantics of `Model/GState.lean`:

  * `toFloat`, `operandsToMatrix` and the operand checks of every `case` of
    `processOperation` (arity, operand types; what a malformed operation still does);
  * `invokeXObject`: the name lookup in the /XObject sub-dictionary of the CURRENT
    resources (direct or indirect, with the `TrimPrefix(name, "/")` retry), the checks on
    the object found (stream, /Subtype /Form, decodes, non-empty), the budget
    (`xobjectBytes += len(data) + xobjectCallCost; > maxXObjectBytes → stop`), the form's own
    /Resources and `mergeResources`, `/Matrix` (array of 6, non-numbers read as 0), the
    nesting limit, and the restore of resources / depth / graphics state on the way out;
  * `Extract`: `xobjectBytes = 0`, the loop that stops at the first error, and
    `deduplicateFragments`; `GetFragmentsRaw`; a history of `Extract` calls on one extractor.

Forms are *objects in a table* reached through names, so form graphs may share objects and
be cyclic (a form that draws itself); `Model/GState.lean` sees only trees.

External code (parameters): the content-stream parser (a form's content arrives as the
parsed operation list, or `none` when the parser fails), stream decoding (a stream that
fails to decode is `Obj.other`), glyph advances (`adv`), fonts.  Not modelled: operators
outside the set of C08 (they touch nothing that is observed here).

Core Lean only.
-/
namespace Tabula.XDoc
open Tabula Tabula.GState

variable {α : Type}

/-- a PDF name: its bytes -/
abbrev Name := List Nat

/-! ### operations as the content-stream parser delivers them -/

/-- a `core.Object` as far as `processOperation` looks at an operand -/
inductive Operand (α : Type) where
  /-- `core.Int` or `core.Real` -/
  | num (x : α)
  | name (n : Name)
  /-- `core.String`; strings are identified by a number, as in `Op.Tj` -/
  | str (sid : Nat)
  /-- `core.Array`, as far as `showTextArray` looks at it: the elements that are strings or
  numbers, in order (elements of any other type are skipped by its `switch`) -/
  | arr (items : List (TJItem α))
  /-- dictionary, boolean, null -/
  | other
deriving DecidableEq, Repr

/-- `op.Operator` of the `switch` in `processOperation`. `other` stands for every operator
whose case does not touch what is observed here (`w`, `RG`, `rg`, `Tr`) or that has no case
(`re`, `f`, `gs`, …). -/
inductive Opr where
  | q | Q | cm | BT | ET | Tf | Tc | Tw | Tz | TL | Ts | Tm | Td | TD | Tstar | Tj | TJ | quote | dquote | Do
  | other
deriving DecidableEq, Repr

/-- `contentstream.Operation` -/
structure RawOp (α : Type) where
  operator : Opr
  operands : List (Operand α)
deriving DecidableEq, Repr

/-- `toFloat`: `(value, ok)` -/
def toFloat : Operand α → Option α
  | .num x => some x
  | _ => none

section
variable [Lean.Grind.CommRing α]

/-- `x, _ := toFloat(o)`: a non-number reads as 0 -/
def toFloatD (o : Operand α) : α := (toFloat o).getD 0

/-- `operandsToMatrix` on the six values (after `toFloat`): identity unless exactly six;
an element that is not a number reads as 0 -/
def matrixOfNums : List (Option α) → Matrix α
  | [a, b, c, d, e, f] => ⟨a.getD 0, b.getD 0, c.getD 0, d.getD 0, e.getD 0, f.getD 0⟩
  | _ => Matrix.identity

/-- `operandsToMatrix` -/
def operandsToMatrix (ops : List (Operand α)) : Matrix α := matrixOfNums (ops.map toFloat)

/-- what one `case` of `processOperation` does: a (possibly empty) sequence of the typed
operators of `Model/GState.lean`, or an XObject invocation -/
inductive Decoded (α : Type) where
  | ops (l : List (Op α))
  | xobj (name : Name)

/-- the case `"` with three operands: each is used only if it has the right type —
`SetWordSpacing` if the first is a number, `SetCharSpacing` if the second is, `NextLine`
always, `showText` if the third is a string -/
def dquoteOps (w c s : Operand α) : List (Op α) :=
  (match toFloat w with | some aw => [Op.Tw aw] | none => []) ++
  (match toFloat c with | some ac => [Op.Tc ac] | none => []) ++
  [match s with | .str sid => Op.quote sid | _ => Op.Tstar]

/-- the operand checks of `processOperation`, case by case -/
def decodeOp (r : RawOp α) : Decoded α :=
  match r.operator, r.operands with
  | .q, _ => .ops [.q]
  | .Q, _ => .ops [.Q]
  -- `if len(op.Operands) == 6 { e.gs.Transform(operandsToMatrix(op.Operands)) }`
  | .cm, ops => if ops.length = 6 then .ops [.cm (operandsToMatrix ops)] else .ops []
  | .BT, _ => .ops [.BT]
  | .ET, _ => .ops [.ET]
  -- two operands, a name and a number
  | .Tf, [.name _, .num size] => .ops [.Tf size]
  | .Tf, _ => .ops []
  | .Tc, [.num c] => .ops [.Tc c]
  | .Tc, _ => .ops []
  | .Tw, [.num w] => .ops [.Tw w]
  | .Tw, _ => .ops []
  | .Tz, [.num z] => .ops [.Tz z]
  | .Tz, _ => .ops []
  | .TL, [.num l] => .ops [.TL l]
  | .TL, _ => .ops []
  | .Ts, [.num r] => .ops [.Ts r]
  | .Ts, _ => .ops []
  | .Tm, ops => if ops.length = 6 then .ops [.Tm (operandsToMatrix ops)] else .ops []
  -- `tx, _ := toFloat(...)`: two operands of any type
  | .Td, [x, y] => .ops [.Td (toFloatD x) (toFloatD y)]
  | .Td, _ => .ops []
  | .TD, [x, y] => .ops [.TD (toFloatD x) (toFloatD y)]
  | .TD, _ => .ops []
  | .Tstar, _ => .ops [.Tstar]
  | .Tj, [.str sid] => .ops [.Tj sid]
  | .Tj, _ => .ops []
  -- one operand, an array
  | .TJ, [.arr items] => .ops [.TJ items]
  | .TJ, _ => .ops []
  -- `e.gs.NextLine()` comes before the operand check
  | .quote, [.str sid] => .ops [.quote sid]
  | .quote, _ => .ops [.Tstar]
  -- three operands; each of the three is used only if it has the right type
  | .dquote, [.num aw, .num ac, .str sid] => .ops [.dquote aw ac sid]
  | .dquote, [w, c, s] => .ops (dquoteOps w c s)
  | .dquote, _ => .ops []
  | .Do, [.name n] => .xobj n
  | .Do, _ => .ops []
  | .other, _ => .ops []

/-- the well-formed operation a producer writes for a typed operator (`fontName` is the
resource name of `Tf`); `none` for the operators that are not a single operation -/
def encodeOp (fontName : Name) : Op α → Option (RawOp α)
  | .q => some ⟨.q, []⟩
  | .Q => some ⟨.Q, []⟩
  | .cm m => some ⟨.cm, [.num m.a, .num m.b, .num m.c, .num m.d, .num m.e, .num m.f]⟩
  | .BT => some ⟨.BT, []⟩
  | .ET => some ⟨.ET, []⟩
  | .Tf size => some ⟨.Tf, [.name fontName, .num size]⟩
  | .Tm m => some ⟨.Tm, [.num m.a, .num m.b, .num m.c, .num m.d, .num m.e, .num m.f]⟩
  | .Td tx ty => some ⟨.Td, [.num tx, .num ty]⟩
  | .TD tx ty => some ⟨.TD, [.num tx, .num ty]⟩
  | .Tstar => some ⟨.Tstar, []⟩
  | .TL l => some ⟨.TL, [.num l]⟩
  | .Tc c => some ⟨.Tc, [.num c]⟩
  | .Tw w => some ⟨.Tw, [.num w]⟩
  | .Tz z => some ⟨.Tz, [.num z]⟩
  | .Ts r => some ⟨.Ts, [.num r]⟩
  | .Tj sid => some ⟨.Tj, [.str sid]⟩
  | .TJ items => some ⟨.TJ, [.arr items]⟩
  | .quote sid => some ⟨.quote, [.str sid]⟩
  | .dquote aw ac sid => some ⟨.dquote, [.num aw, .num ac, .str sid]⟩
  | .form _ _ => none
  | .line _ _ _ _ => none

end

/-! ### the objects `invokeXObject` looks at -/

/-- a dictionary entry that should hold a dictionary of type `β` -/
inductive Slot (β : Type) where
  /-- no such key (`Get` returns nil) -/
  | missing
  /-- a value of another type -/
  | junk
  /-- an indirect reference (resolved once, by the resolver) -/
  | ref (n : Nat)
  | direct (v : β)
deriving DecidableEq, Repr

/-- an /XObject sub-dictionary: resource name ↦ the object number its value leads to.
(A value that is itself the stream — only possible for dictionaries built in memory — and a
value of a wrong type are represented by the number of a table entry holding that object.)
The first binding of a name counts. -/
abbrev XDict := List (Name × Nat)

/-- a resource dictionary, as far as `Do` is concerned -/
structure Res where
  xobject : Slot XDict
deriving DecidableEq, Repr

/-- a stream with `/Subtype /Form` that decodes -/
structure FormObj (α : Type) where
  /-- `/Matrix` when it is an array: its elements, numbers or not; `none`: absent or not
  an array -/
  matrix : Option (List (Option α))
  resources : Slot Res
  /-- `len(data)` of the decoded content -/
  len : Nat
  /-- the parsed content; `none`: the content-stream parser fails -/
  body : Option (List (RawOp α))

/-- what the resolver (or a direct value) yields -/
inductive Obj (α : Type) where
  | xdict (d : XDict)
  | res (r : Res)
  | form (f : FormObj α)
  /-- anything else: an image, a non-stream, a stream without /Subtype or that fails to
  decode -/
  | other

/-- the resolver; `none` = error -/
abbrev Doc (α : Type) := Nat → Option (Obj α)

/-- `strings.TrimPrefix(name, "/")` -/
def trimSlash : Name → Name
  | 47 :: rest => rest
  | n => n

/-- `xobjectDict.Get(name)`, then `Get(TrimPrefix(name, "/"))` -/
def lookupName (d : XDict) (name : Name) : Option Nat :=
  match d.lookup name with
  | some n => some n
  | none => d.lookup (trimSlash name)

/-- `resolveIfRef` + `.(core.Dict)` on the /XObject entry -/
def resolveXDict (doc : Doc α) : Slot XDict → Option XDict
  | .direct d => some d
  | .ref n => match doc n with
    | some (.xdict d) => some d
    | _ => none
  | _ => none

/-- the form's own /Resources: `resolveIfRef` + `.(core.Dict)`; `none` = `xobjResources == nil` -/
def resolveRes (doc : Doc α) : Slot Res → Option Res
  | .direct r => some r
  | .ref n => match doc n with
    | some (.res r) => some r
    | _ => none
  | _ => none

/-- `mergeResources(parent, child)` on the key /XObject: a key the child lacks keeps the
parent's value; two *direct* dictionaries are merged entry-wise, the child's entries
winning; in every other case the child's value replaces the parent's. -/
def mergeResources (parent child : Res) : Res :=
  match child.xobject with
  | .missing => parent
  | .direct c => match parent.xobject with
    | .direct p => ⟨.direct (c ++ p)⟩
    | _ => child
  | _ => child

/-- `maxXObjectBytes = 64 << 20` -/
def maxXObjectBytes : Nat := 67108864
/-- `xobjectCallCost = 1 << 10` -/
def xobjectCallCost : Nat := 1024

/-- `/Matrix`: applied when it is an array of exactly six elements -/
def formMatrix [Lean.Grind.CommRing α] : Option (List (Option α)) → Option (Matrix α)
  | some arr => if arr.length = 6 then some (matrixOfNums arr) else none
  | none => none

/-- one fragment with the identity of its string (`TextFragment.Text`) -/
structure Frag (α : Type) where
  sid : Nat
  sh : Show α
deriving DecidableEq, Repr

/-- the Form XObject accounting of the `Extractor`: `xobjectBytes`, and two ghosts:
`calls` = forms executed, `work` = the `len(data)` of the forms executed, both since the
extractor was made -/
structure Acct where
  bytes : Nat
  calls : Nat
  work : Nat
deriving DecidableEq, Repr

/-- `e.xobjectBytes += len(data) + xobjectCallCost` for a form that is then executed -/
def Acct.charge (a : Acct) (len : Nat) : Acct :=
  { bytes := a.bytes + len + xobjectCallCost, calls := a.calls + 1, work := a.work + len }

/-- the same charge for a form that is then NOT executed (the budget is exceeded) -/
def Acct.refuse (a : Acct) (len : Nat) : Acct :=
  { a with bytes := a.bytes + len + xobjectCallCost }

/-- the `Extractor`: graphics state (+ `xobjectDepth`), `resources` (`none` when
`resources == nil || resolver == nil`), and the accounting. -/
structure XState (α : Type) where
  gs : State α
  resources : Option Res
  acct : Acct

/-- the strings shown by a text-showing operator, in order -/
def opSids : Op α → List Nat
  | .Tj sid => [sid]
  | .quote sid => [sid]
  | .dquote _ _ sid => [sid]
  | .TJ items => items.filterMap fun | .str sid => some sid | .num _ => none
  | _ => []

/-- the fragments of one operator with the identity of their strings (a fragment beyond
the list of strings — there is none — would get 0) -/
def tagShows : List Nat → List (Show α) → List (Frag α)
  | _, [] => []
  | [], sh :: rest => ⟨0, sh⟩ :: tagShows [] rest
  | sid :: sids, sh :: rest => ⟨sid, sh⟩ :: tagShows sids rest

section
variable [Lean.Grind.CommRing α] [DecidableEq α] [LT α] [DecidableLT α]

/-- the typed operators of one `case`, in order; the error flag is that of `Q` -/
def stepOps (adv : Adv α) : List (Op α) → State α → State α × List (Frag α) × Bool
  | [], s => (s, [], false)
  | op :: rest, s =>
    let r := stepBasic adv op s
    let r2 := stepOps adv rest r.1
    (r2.1, tagShows (opSids op) r.2.1 ++ r2.2.1, r.2.2 || r2.2.2)

/-- `processOperation`; `invoke` is `invokeXObject` (whose error is dropped) -/
def processOperation (adv : Adv α) (invoke : Name → XState α → XState α × List (Frag α))
    (op : RawOp α) (x : XState α) : XState α × List (Frag α) × Bool :=
  match decodeOp op with
  | .ops l =>
    let r := stepOps adv l x.gs
    ({ x with gs := r.1 }, r.2.1, r.2.2)
  | .xobj name =>
    let r := invoke name x
    (r.1, r.2, false)

/-- the loop of `invokeXObject` over the form's operations ("Continue processing despite
errors") -/
def formLoop (adv : Adv α) (invoke : Name → XState α → XState α × List (Frag α)) :
    List (RawOp α) → XState α → XState α × List (Frag α)
  | [], x => (x, [])
  | op :: rest, x =>
    let r := processOperation adv invoke op x
    let r2 := formLoop adv invoke rest r.1
    (r2.1, r.2.1 ++ r2.2)

/-- the checks of `invokeXObject` between the name and the decoded content: the /XObject
entry of the current resources is (or resolves to) a dictionary, the name (or the name
without a leading slash) is bound, the value resolves to a stream with /Subtype /Form that
decodes. `none`: the `Do` is skipped. -/
def lookupForm (doc : Doc α) (res : Res) (name : Name) : Option (FormObj α) :=
  match resolveXDict doc res.xobject with
  | none => none
  | some d => match lookupName d name with
    | none => none
    | some id => match doc id with
      | some (.form f) => some f
      | _ => none

/-- `e.resources` while the form's content runs: merged with the form's own /Resources
when it has (and they resolve to) a dictionary, unchanged otherwise -/
def formResources (doc : Doc α) (res : Res) (f : FormObj α) : Res :=
  match resolveRes doc f.resources with
  | some own => mergeResources res own
  | none => res

/-- the operations run for a form; a content stream that does not parse runs nothing (the
state is restored at once) -/
def formBody (f : FormObj α) : List (RawOp α) :=
  match f.body with
  | some ops => ops
  | none => []

/-- the extractor on entry to a form's content: the charge, `Save`, `xobjectDepth++`, the
resources, `/Matrix` -/
def enterForm (doc : Doc α) (res : Res) (f : FormObj α) (x : XState α) : XState α :=
  { gs := formEnter (formMatrix f.matrix) x.gs, resources := some (formResources doc res f),
    acct := x.acct.charge f.len }

/-- on the way out: `e.resources = oldResources`, `xobjectDepth--`, `Restore()` -/
def leaveForm (x y : XState α) : XState α :=
  { y with gs := formExit y.gs, resources := x.resources }

/-- `invokeXObject(name)`. The first argument bounds the recursion for Lean only: the
nesting check of the code is the comparison with `maxXObjectDepth` below, and
`Extract` starts with `maxXObjectDepth` levels, which that check never lets run out. -/
def invokeXObject (adv : Adv α) (doc : Doc α) : Nat → Name → XState α → XState α × List (Frag α)
  | 0, _, x => (x, [])
  | fuel + 1, name, x =>
    match x.resources with
    | none => (x, [])                                        -- no resource context
    | some res =>
      if x.gs.xdepth ≥ maxXObjectDepth then (x, [])           -- nesting too deep
      else match lookupForm doc res name with
        | none => (x, [])                                    -- not a form
        | some f =>
          if f.len = 0 then (x, [])                          -- empty content
          else if x.acct.bytes + f.len + xobjectCallCost > maxXObjectBytes then
            ({ x with acct := x.acct.refuse f.len }, [])        -- over budget
          else
            let r := formLoop adv (invokeXObject adv doc fuel) (formBody f) (enterForm doc res f x)
            (leaveForm x r.1, r.2)

/-- the loop of `Extract`: the first error stops it. Returns the state reached, the
fragments appended so far (`GetFragmentsRaw`) and whether an error occurred. -/
def extractLoop (adv : Adv α) (doc : Doc α) : List (RawOp α) → XState α → XState α × List (Frag α) × Bool
  | [], x => (x, [], false)
  | op :: rest, x =>
    let r := processOperation adv (invokeXObject adv doc maxXObjectDepth) op x
    if r.2.2 then (r.1, r.2.1, true)
    else
      let r2 := extractLoop adv doc rest r.1
      (r2.1, r.2.1 ++ r2.2.1, r2.2.2)

/-- `Extract` before deduplication: `e.fragments = …[:0]`, `e.xobjectBytes = 0`, the loop -/
def extractRaw (adv : Adv α) (doc : Doc α) (ops : List (RawOp α)) (x : XState α) :
    XState α × List (Frag α) × Bool :=
  extractLoop adv doc ops { x with acct := { x.acct with bytes := 0 } }

end

/-! ### `deduplicateFragments` -/

/-- keep the first fragment of every key (`seen` map) -/
def dedupBy {β κ : Type} [DecidableEq κ] (key : β → κ) : List β → List κ → List β
  | [], _ => []
  | f :: rest, seen =>
    if key f ∈ seen then dedupBy key rest seen
    else f :: dedupBy key rest (key f :: seen)

/-- `int(x + 0.5)` for a float in the range of `int`: truncation toward zero -/
def roundHalf (x : Rat) : Int :=
  let y := x + 1/2
  if y < 0 then -((-y).floor) else y.floor

/-- the key of `deduplicateFragments`: position rounded to integers, and the text -/
def fragKey (f : Frag Rat) : Int × Int × Nat := (roundHalf f.sh.x, roundHalf f.sh.y, f.sid)

section
variable [Lean.Grind.CommRing α] [DecidableEq α] [LT α] [DecidableLT α]

/-- `Extract`: `nil, err` on error, otherwise the deduplicated fragments -/
def extract {κ : Type} [DecidableEq κ] (key : Frag α → κ) (adv : Adv α) (doc : Doc α)
    (ops : List (RawOp α)) (x : XState α) : XState α × Option (List (Frag α)) :=
  let r := extractRaw adv doc ops x
  (r.1, if r.2.2 then none else some (dedupBy key r.2.1 []))

/-- `text.NewExtractor()` followed by `SetResourceContext(resources, resolver)` (or not) -/
def newExtractor (resources : Option Res) : XState α :=
  { gs := init, resources := resources, acct := ⟨0, 0, 0⟩ }

/-- a history of `Extract` calls on one extractor: the graphics state, the stack and the
resources carry over, `xobjectBytes` starts again -/
def extractAll {κ : Type} [DecidableEq κ] (key : Frag α → κ) (adv : Adv α) (doc : Doc α) :
    List (List (RawOp α)) → XState α → XState α × List (Option (List (Frag α)))
  | [], x => (x, [])
  | p :: rest, x =>
    let r := extract key adv doc p x
    let r2 := extractAll key adv doc rest r.1
    (r2.1, r.2 :: r2.2)

end
end Tabula.XDoc
