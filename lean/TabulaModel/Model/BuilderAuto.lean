import TabulaModel.Model.Builder
/-
The life cycle of ONE extractor as a state machine, and the error an operation reports.

`Model/Builder.lean` has the store of readers and extractor records that `ensureReader`,
`Close` and the frames of the terminal / non-terminal operations of extractor.go act on.  This
file abstracts every record to the three states its life-cycle fields can be in and follows
the same Go functions on that abstraction:

* `LS` — `idle` (`reader == nil`, `ownsReader == false`, `readerOpened == false`), `holding`
  (the extractor opened its file itself: all three set), `borrowed` (a reader handed in through
  `FromReader`, or copied by `clone` from such an extractor: opened, not owned);
* `lsEnsure` (`ensureReader`), `lsClose` (`Close`), `lsMismatch` (the failing path of
  `ensurePDFReader` with its deferred `Close`), `lsTerm` / `lsNonTerm` (the frames), `LS.cloned`
  (`clone`);
* `lifeRun` — the states of all extractors of a family after a history, computed from the
  calls alone (no store, no reader ids): the configuration an operation looks at (`e.err`,
  `e.format`, `e.filename != ""`) is that of the chain of calls that built the receiver.

Second part: WHICH error an operation returns (extractor.go returns on the first failing
test, so the order of the tests is the order here): the builder error carried from the first
inverted `PageRange` through every `clone` (`deriveErr`, `chainErr`), the errors of
`validateFormat` / the format switch of `ensureReader` (`openErrOf`), `ensurePDFReader`,
`resolvePages` (the first page of the list, in call order, outside the document: `firstBad`),
"no pages to process".  Core Lean only.
-/
namespace Tabula.BuilderAuto
open Tabula.PageSel Tabula.Builder

/-! ## the life cycle of one extractor -/

inductive LS where
  | idle | holding | borrowed
  deriving DecidableEq, Repr

/-- the state a record is in (`readerOpened`, `ownsReader`) -/
def lsOf (e : Ext) : LS :=
  if e.opened then (if e.owns then .holding else .borrowed) else .idle

def LS.hasReader : LS → Bool
  | .idle => false | _ => true
def LS.owns : LS → Bool
  | .holding => true | _ => false
def LS.opened : LS → Bool
  | .idle => false | _ => true

/-- `(*Extractor).clone`: `if e.readerOpened && !(e.ownsReader && e.filename != "")` the copy
shares the reader and the flags; an owning extractor has a file name, so only a borrowed reader
is handed on -/
def LS.cloned : LS → LS
  | .borrowed => .borrowed
  | _ => .idle

/-- `(*Extractor).Close`: `if e.ownsReader { close; reader = nil; ownsReader = false;
readerOpened = false }` -/
def lsClose : LS → LS
  | .holding => .idle
  | l => l

/-- `(*Extractor).ensureReader` (where it fails the state stays what it was) -/
def lsEnsure (w : World) (e : Ext) : LS → LS
  | .idle => if e.hasFile && w.openOk then .holding else .idle
  | l => l

/-- the failing `ensurePDFReader`: `if e.format != PDF && e.filename != "" { defer e.Close() }`
around `ensureReader` -/
def lsMismatch (w : World) (e : Ext) (l : LS) : LS :=
  if e.hasFile then lsClose (lsEnsure w e l) else lsEnsure w e l

/-- the frame of a terminal operation -/
def lsTerm (w : World) (k : Term) (e : Ext) (l : LS) : LS :=
  if k.checksErr e.format && e.err then l
  else if k.pdfOnly && e.format != .pdf then lsMismatch w e l
  else lsClose (lsEnsure w e l)

/-- the frame of `PageCount` / `IsMultiColumn` / `IsCharacterLevel` -/
def lsNonTerm (w : World) (k : NonTerm) (e : Ext) (l : LS) : LS :=
  if e.err then l
  else if k.pdfOnly && e.format != .pdf then lsMismatch w e l
  else lsEnsure w e l

/-- what one operation does to the state of its receiver, whose configuration is `e` -/
def lsLocal (w : World) (e : Ext) (l : LS) : Op → LS
  | .derive _ _ => l
  | .term _ k => lsTerm w k e l
  | .nonTerm _ k => lsNonTerm w k e l
  | .close _ => lsClose l

/-- one operation on the states of all extractors (`C` = their configurations): a configuration
method adds the state `clone` gives the copy, everything else moves its receiver only -/
def lsStep (w : World) (C : List Ext) (S : List LS) : Op → List LS
  | .derive i _ =>
    match S[i]? with
    | some l => S ++ [l.cloned]
    | none => S
  | .term i k =>
    match S[i]?, C[i]? with
    | some l, some e => S.set i (lsTerm w k e l)
    | _, _ => S
  | .nonTerm i k =>
    match S[i]?, C[i]? with
    | some l, some e => S.set i (lsNonTerm w k e l)
    | _, _ => S
  | .close i =>
    match S[i]? with
    | some l => S.set i (lsClose l)
    | none => S

/-- the configurations of the extractors of a family: the chains of calls that built them,
applied to the base -/
def cfgs (e0 : Ext) (L : List (List BCall)) : List Ext := L.map (chainFrom e0)

/-- the states of all extractors after a history, from the calls alone -/
def lifeRun (w : World) (e0 : Ext) : List (List BCall) → List LS → List Op → List LS
  | _, S, [] => S
  | L, S, op :: ops => lifeRun w e0 (lineage L [op]) (lsStep w (cfgs e0 L) S op) ops

/-- the same, recording the states after every operation -/
def lifeTrace (w : World) (e0 : Ext) : List (List BCall) → List LS → List Op → List (List LS)
  | _, _, [] => []
  | L, S, op :: ops =>
    let S' := lsStep w (cfgs e0 L) S op
    S' :: lifeTrace w e0 (lineage L [op]) S' ops

/-- the operations of a history that act on extractor `i` (configuration methods only read it) -/
def ownOps (i : Nat) (ops : List Op) : List Op :=
  ops.filter fun op => op.mutates && op.target == i

/-- every operation names an extractor that exists when it is called (`n` exist before the
history): what a Go program can write -/
def wellScoped : Nat → List Op → Bool
  | _, [] => true
  | n, .derive i _ :: ops => decide (i < n) && wellScoped (n + 1) ops
  | n, op :: ops => decide (op.target < n) && wellScoped n ops

/-- does the operation leave a file-based receiver with configuration `e` holding a reader?
(a `PageCount` / `IsMultiColumn` / `IsCharacterLevel` that got through `ensureReader`) -/
def opensReader (w : World) (e : Ext) : Op → Bool
  | .nonTerm _ k => !e.err && !(k.pdfOnly && e.format != .pdf) && e.hasFile && w.openOk
  | _ => false

/-- does the last of its own operations leave extractor `i` holding a reader? -/
def holdsAtEnd (w : World) (e : Ext) (own : List Op) : Bool :=
  match own.getLast? with
  | some op => opensReader w e op
  | none => false

/-! ## which error -/

/-- the ways `ensureReader` fails for a file name -/
inductive OpenErr where
  | missing       -- validateFormat: "failed to open file"
  | detect        -- validateFormat: "failed to detect file format"
  | mismatch      -- validateFormat: "file format mismatch"
  | unsupported   -- the `default` of `switch e.format`: "unsupported file format"
  | parse         -- "failed to open PDF / DOCX / …"
  deriving DecidableEq, Repr

/-- `validateFormat`, then the `switch e.format` of `ensureReader`, in the order of the code -/
def openErrOf (f : FileFacts) (fmt : Fmt) : Option OpenErr :=
  if !f.present then some .missing
  else match f.detected with
    | none => some .detect
    | some d =>
      if d != .unknown && d != fmt then some .mismatch
      else if fmt == .unknown then some .unsupported
      else if !f.parseOk then some .parse
      else none

inductive EClass where
  | builder (s t : Int)        -- "invalid page range s-t: start is after end"
  | noFile                     -- "no filename specified"
  | opening (o : OpenErr)
  | pdfOnly                    -- "operation is only supported for PDF documents"
  | count                      -- "failed to get page count"
  | range (p : Int) (n : Nat)  -- "page p out of range (1-n)"
  | noPages                    -- "no pages to process"
  | other
  deriving DecidableEq, Repr

/-- `e.err` as a value through one configuration method: `clone` copies it, `PageRange` sets
it `if newExt.err == nil` only -/
def deriveErr (err : Option (Int × Int)) : BCall → Option (Int × Int)
  | .pageRange s t => if s > t then (if err.isNone then some (s, t) else err) else err
  | _ => err

/-- … through a chain of them -/
def chainErr (err : Option (Int × Int)) (cs : List BCall) : Option (Int × Int) :=
  cs.foldl deriveErr err

/-- the first inverted `PageRange` of a chain -/
def firstInverted : List BCall → Option (Int × Int)
  | [] => none
  | .pageRange s t :: cs => if s > t then some (s, t) else firstInverted cs
  | _ :: cs => firstInverted cs

/-- the page `resolvePages` complains about: the first of the list, in call order, outside
`1..n` -/
def firstBad (n : Nat) : List Int → Option Int
  | [] => none
  | p :: ps => if p < 1 ∨ p > (n : Int) then some p else firstBad n ps

/-- the error of the body of a terminal operation once the reader is open -/
def bodyErr (w : World) (k : Term) (e : Ext) : Option EClass :=
  match w.pageCount with
  | none => some (if e.format = .pdf then .count else .other)
  | some n =>
    if e.format = .pdf then
      if e.opts.pages.isEmpty then (if k.needsPages && n == 0 then some .noPages else none)
      else match firstBad n e.opts.pages with
        | some p => some (.range p n)
        | none => none
    else none

/-- does the operation look at `e.err` first?  `ToMarkdownWithOptions` does not for the six
formats that have a reader of their own; for a PDF AND for an unknown format it falls through to
`Chunks` → `Document`, which does.  (`Builder.Term.checksErr` says "not for an unknown format
either"; the two models agree on every answer, because a file of unknown format never opens —
`err_class_consistent` — but they name different errors, which `c10.ecls` showed.) -/
def checksErrE (k : Term) (f : Fmt) : Bool := !(k == .toMarkdown && f != .pdf && f != .unknown)

/-- the error a terminal operation returns on an extractor with configuration `e` whose builder
error (if any) is `inv`; `oe` is how opening the file fails when it does (`none` = it opens) -/
def termErr (w : World) (oe : OpenErr) (k : Term) (e : Ext) (inv : Option (Int × Int)) : Option EClass :=
  if checksErrE k e.format && e.err then
    some (match inv with | some (s, t) => .builder s t | none => .other)
  else if e.hasFile && !w.openOk then some (.opening oe)
  else if k.pdfOnly && e.format != .pdf then some .pdfOnly
  else bodyErr w k e

def nonTermErr (w : World) (oe : OpenErr) (k : NonTerm) (e : Ext) (inv : Option (Int × Int)) : Option EClass :=
  if e.err then some (match inv with | some (s, t) => .builder s t | none => .other)
  else if e.hasFile && !w.openOk then some (.opening oe)
  else if k.pdfOnly && e.format != .pdf then some .pdfOnly
  else match w.pageCount with
    | none => some .other
    | some n =>
      match k with
      | .pageCount => none
      | _ => if n = 0 then some .other else none

/-- the error (if any) of every operation of a history, from each receiver's chain of calls;
`none` also for operations on an extractor that does not exist -/
def errAnswer (w : World) (oe : OpenErr) (e0 : Ext) (L : List (List BCall)) : Op → Option EClass
  | .term i k => (L[i]?).bind fun cs => termErr w oe k (chainFrom e0 cs) (firstInverted cs)
  | .nonTerm i k => (L[i]?).bind fun cs => nonTermErr w oe k (chainFrom e0 cs) (firstInverted cs)
  | _ => none

def errRun (w : World) (oe : OpenErr) (e0 : Ext) : List (List BCall) → List Op → List (Option EClass)
  | _, [] => []
  | L, op :: ops => errAnswer w oe e0 L op :: errRun w oe e0 (lineage L [op]) ops

end Tabula.BuilderAuto
