import TabulaModel.Model.Xref
import TabulaModel.Model.CSParser
import TabulaModel.Model.Filters
import TabulaModel.Model.FontDecode
import TabulaModel.Model.PdfDoc
/-!
# End-to-end model of the PDF reader on an abstract file

The file is given at the level of "objects and cross-reference sections" (`AbsFile`): what
the bytes contain, but not how the bytes are found (`startxref` discovery, the text of a
classic table or the binary records of a cross-reference stream, `N G obj … endobj` framing,
the `/Length`-driven read of stream data). `readPages` is what

    tabula.Open(file).PageCount();  tabula.Open(file).Pages(i).Fragments()   (i = 1 … count)

report as text: for every page, in page order, the decoded strings in show order.

It composes the models of the neighbouring properties through their entry points:

* `Xref.parseAllXRefs`, `Xref.mergeTables`, `Xref.getLast` (C04) — `/Prev` chain, merge, newest entry;
* `Pdf.coreParse` / `Pdf.coreParseAll` (C06) — object bodies, object-stream headers and members;
* `Filters.streamDecode` (C05) — `(*core.Stream).Decode`, zlib inflate being a parameter;
* `PdfDoc.flatten`, `PdfDoc.joinContents` (C01) — page-tree inheritance, content join;
* `Pdf.CS.csParse` (C06) — content-stream operations;
* `FontDecode.decodeString`, `CMap.parseCMapData` (C07) — code → Unicode, NFC being a parameter.

Go functions followed: reader/reader.go `GetObject`, `getUncompressedObject`,
`getCompressedObject`, `getObjectStream`, `GetCatalog`, `ensurePageTree`, `Resolve`,
`extractTextWithFragments`; core/objstm.go `NewObjectStream`, `parseHeader`,
`GetObjectByIndex`; core/stream.go `Decode`, `paramsObjToDict`, `dictToParams`;
internal/filters/flate.go `getIntParam`; pages/pages.go `Count`, `loadPages`,
`traversePageNode`, `withInherited`, `Page.Resources`, `Page.Contents`; text/extractor.go
`RegisterFontsFromResources`, `processOperation`, `showText`, `showTextArray`;
font/type1.go `NewType1Font`, `parseEncoding`, `applyEncodingDifferences`,
`parseEncodingDifferences` (fix b3a0e07), `parseWidths`; font/truetype.go `NewTrueTypeFont`,
`parseEncoding`; font/cidfont.go `NewType0Font`, `parseDescendantFont`, `NewCIDFont`,
`parseCIDSystemInfo`; extractor.go `Fragments`, `resolvePages`.

Resource bounds of the code (repairs made for property C02) that this model carries, with the
code's constants and comparisons:
* `PdfDoc.maxPageTreeDepth = 10000` (86b42aa): `buildNode` is entered with the depth of the
  node and answers an error at `dep ≥ 10000`, before it looks at the node;
* the visited set also records the object number of an indirect `/Kids` array (cd93b07,
  `visitKidsRef`): an array reached a second time is an error;
* `PdfDoc.maxPageContentBytes = 64 MiB` (36a165b): `contentBytes` joins the decoded parts with
  `PdfDoc.joinBounded`, which refuses `len(allData)+len(data) > 64 MiB`;
* `Pdf.maxNestingDepth = 500` (a3fd154) is inside C06's `coreParse` / `csParse`.
Not carried: `maxNestedLoads = 16` (129dd3d) limits how many `GetObject` calls may be in
progress inside each other. Loads nest through `getObjectStream` (one level: `loadObjStm`
below, which does not recurse) and through an indirect `/Length` resolved while a stream is
being parsed — and that read is not part of this model (the abstract file carries each
stream's data). `getObject` below nests two loads at most, so the bound is never reached.

Not modelled (the model answers `Err.unsupported`, so no theorem speaks about these inputs):
a `/Kids` element that is a direct dictionary (ISO 32000-1 requires indirect references;
tabula recurses into it without its visited check), the `Do` operator when the page has an
`/XObject` resource dictionary (Form XObjects), a `/Prev` that names no recorded section.
Fragment de-duplication by position (`deduplicateFragments`) needs positions and is C08's
business: the model lists every shown string.  The object cache and the object-stream cache
do not change answers (C04 `getObject_refines`); the model is cache-free.
Core Lean only.
-/
namespace Tabula.Reader
open Tabula.Pdf (Obj coreParse coreParseAll)

abbrev Str := List Nat
abbrev Dict := List (Str × Obj)

/-- `err`: tabula returns an error; `unsupported`: outside the modelled fragment (see the
header); `fuel`: the page-tree walk did not finish within its bound (see `fuelOf`) — proved
impossible for `readPages` (Lemmas/ReaderBounds.lean `readPages_never_fuel`). -/
inductive Err
  | err
  | unsupported
  | fuel
  deriving DecidableEq, Repr

/-- the external functions: zlib inflate (and x/image/ccitt) of `Filters.Ext`, and x/text's NFC -/
structure Ext where
  filt : Filters.Ext
  nfc : List Nat → List Nat

/-! ## the abstract file -/

/-- what stands between `obj` and `endobj`: the text of a non-stream object, or the text of a
stream's dictionary together with the stream's data (the bytes between `stream` EOL and
`endstream`; the Go parser finds them through `/Length`, possibly an indirect one) -/
inductive RawBody
  | plain (body : Str)
  | stream (dict : Str) (data : Str)
  deriving Repr, DecidableEq

/-- one cross-reference section: its entries in the order they are read, `/Prev`, and the
object number named by the trailer's `/Root` reference (`none`: no such reference) -/
structure XSec where
  entries : Xref.Section
  prev : Option Nat
  root : Option Nat
  deriving Repr

structure AbsFile where
  /-- file offset ↦ (object number in the `N G obj` header, body) -/
  objs : List (Nat × (Nat × RawBody))
  /-- file offset ↦ cross-reference section -/
  secs : List (Nat × XSec)
  /-- the offset after the last `startxref` -/
  start : Nat
  deriving Repr

/-! ## names -/

/-- `Type` -/
def kType : Str := [84, 121, 112, 101]
/-- `Pages` -/
def kPages : Str := [80, 97, 103, 101, 115]
/-- `Page` -/
def kPage : Str := [80, 97, 103, 101]
/-- `Kids` -/
def kKids : Str := [75, 105, 100, 115]
/-- `Count` -/
def kCount : Str := [67, 111, 117, 110, 116]
/-- `Resources` -/
def kResources : Str := [82, 101, 115, 111, 117, 114, 99, 101, 115]
/-- `Contents` -/
def kContents : Str := [67, 111, 110, 116, 101, 110, 116, 115]
/-- `Font` -/
def kFont : Str := [70, 111, 110, 116]
/-- `Subtype` -/
def kSubtype : Str := [83, 117, 98, 116, 121, 112, 101]
/-- `Type1` -/
def kType1 : Str := [84, 121, 112, 101, 49]
/-- `TrueType` -/
def kTrueType : Str := [84, 114, 117, 101, 84, 121, 112, 101]
/-- `Type0` -/
def kType0 : Str := [84, 121, 112, 101, 48]
/-- `Encoding` -/
def kEncoding : Str := [69, 110, 99, 111, 100, 105, 110, 103]
/-- `BaseEncoding` -/
def kBaseEncoding : Str := [66, 97, 115, 101, 69, 110, 99, 111, 100, 105, 110, 103]
/-- `Differences` -/
def kDifferences : Str := [68, 105, 102, 102, 101, 114, 101, 110, 99, 101, 115]
/-- `Widths` -/
def kWidths : Str := [87, 105, 100, 116, 104, 115]
/-- `ToUnicode` -/
def kToUnicode : Str := [84, 111, 85, 110, 105, 99, 111, 100, 101]
/-- `DescendantFonts` -/
def kDescendantFonts : Str := [68, 101, 115, 99, 101, 110, 100, 97, 110, 116, 70, 111, 110, 116, 115]
/-- `CIDSystemInfo` -/
def kCIDSystemInfo : Str := [67, 73, 68, 83, 121, 115, 116, 101, 109, 73, 110, 102, 111]
/-- `CIDFontType0` -/
def kCIDFontType0 : Str := [67, 73, 68, 70, 111, 110, 116, 84, 121, 112, 101, 48]
/-- `CIDFontType2` -/
def kCIDFontType2 : Str := [67, 73, 68, 70, 111, 110, 116, 84, 121, 112, 101, 50]
/-- `StandardEncoding` -/
def kStandardEncoding : Str := [83, 116, 97, 110, 100, 97, 114, 100, 69, 110, 99, 111, 100, 105, 110, 103]
/-- `WinAnsiEncoding` -/
def kWinAnsiEncoding : Str := [87, 105, 110, 65, 110, 115, 105, 69, 110, 99, 111, 100, 105, 110, 103]
/-- `Identity-H` -/
def kIdentityH : Str := [73, 100, 101, 110, 116, 105, 116, 121, 45, 72]
/-- `Filter` -/
def kFilter : Str := [70, 105, 108, 116, 101, 114]
/-- `DecodeParms` -/
def kDecodeParms : Str := [68, 101, 99, 111, 100, 101, 80, 97, 114, 109, 115]
/-- `Predictor` -/
def kPredictor : Str := [80, 114, 101, 100, 105, 99, 116, 111, 114]
/-- `Columns` -/
def kColumns : Str := [67, 111, 108, 117, 109, 110, 115]
/-- `Colors` -/
def kColors : Str := [67, 111, 108, 111, 114, 115]
/-- `BitsPerComponent` -/
def kBitsPerComponent : Str := [66, 105, 116, 115, 80, 101, 114, 67, 111, 109, 112, 111, 110, 101, 110, 116]
/-- `ObjStm` -/
def kObjStm : Str := [79, 98, 106, 83, 116, 109]
/-- `N` -/
def kN : Str := [78]
/-- `First` -/
def kFirst : Str := [70, 105, 114, 115, 116]
/-- `Extends` -/
def kExtends : Str := [69, 120, 116, 101, 110, 100, 115]
/-- `XObject` -/
def kXObject : Str := [88, 79, 98, 106, 101, 99, 116]
/-- `q` -/
def opq : Str := [113]
/-- `Q` -/
def opQ : Str := [81]
/-- `Tf` -/
def opTf : Str := [84, 102]
/-- `Tj` -/
def opTj : Str := [84, 106]
/-- `TJ` -/
def opTJ : Str := [84, 74]
/-- `'` -/
def opQuote : Str := [39]
/-- `"` -/
def opDQuote : Str := [34]
/-- `Do` -/
def opDo : Str := [68, 111]

/-- `Dict.Get`: the value stored under the key (`none` = Go `nil`; a stored `null` is a value) -/
def dget : Dict → Str → Option Obj
  | [], _ => none
  | (k, v) :: r, key => if k = key then some v else dget r key

/-! ## layer A: object number ↦ object (reader.GetObject) -/

/-- a parsed indirect object: `core.Object` or `*core.Stream` -/
inductive PVal
  | obj (o : Obj)
  | stream (dict : Dict) (data : Str)
  deriving Repr

/-- `ParseIndirectObject` on the body: the value is parsed by `ParseObject` (the C06 model);
what follows `stream` is the data the abstract file records. `N G obj`/`endobj` framing and
the `/Length` read are not part of this model. -/
def parseBody : RawBody → Except Err PVal
  | .plain b =>
    match coreParse b with
    | .ok (o, _) => .ok (.obj o)
    | .error _ => .error .err
  | .stream d data =>
    match coreParse d with
    | .ok (.dict kv, _) => .ok (.stream kv data)
    | _ => .error .err

/-- the cross-reference sections oldest first (`ParseAllXRefs`; C04's model of the chain) -/
def sections (f : AbsFile) : List Xref.Section :=
  Xref.parseAllXRefs (f.secs.map fun s => (s.1, (s.2.entries, s.2.prev))) f.start

/-- `MergeXRefTables` -/
def xref (f : AbsFile) : Xref.Section := Xref.mergeTables (sections f)

/-- the newest entry of object `n` -/
def entry (f : AbsFile) (n : Nat) : Option Xref.Entry := Xref.getLast (xref f) n

/-- `getUncompressedObject`: the object at the offset must carry the number asked for -/
def objectAt (f : AbsFile) (n off : Nat) : Except Err PVal :=
  match Xref.getLast f.objs off with
  | none => .error .err
  | some (num, b) => if num = n then parseBody b else .error .err

/-- `getIntParam` after `dictToParams`: an Int, or a Real truncated (`int(float64)`); anything
else (absent, another type) is the default, which `Filters.Params` expresses by `none` -/
def intParam (kv : Dict) (key : Str) : Option Int :=
  match dget kv key with
  | some (.int i) => some i
  | some (.real neg m s) => some (if neg then -((m / 10 ^ s : Nat) : Int) else ((m / 10 ^ s : Nat) : Int))
  | _ => none

/-- `dictToParams` restricted to the four keys the predictors read -/
def paramsOf (kv : Dict) : Filters.Params :=
  { predictor := intParam kv kPredictor, columns := intParam kv kColumns,
    colors := intParam kv kColors, bpc := intParam kv kBitsPerComponent }

def pobjOf : Option Obj → Filters.PObj
  | none => .absent
  | some .null => .null
  | some (.dict kv) => .dict (paramsOf kv)
  | some _ => .other

def fobjOf : Obj → Filters.FObj
  | .name n => .name n
  | _ => .other

/-- the `/Filter` entry as `Decode` sees it -/
def filterOf (kv : Dict) : Filters.Filter :=
  match dget kv kFilter with
  | none => .absent
  | some (.arr xs) => .array (xs.map fobjOf)
  | some o => .one (fobjOf o)

/-- the `/DecodeParms` entry as `Decode` sees it -/
def dparmsOf (kv : Dict) : Filters.DParms :=
  match dget kv kDecodeParms with
  | some (.arr xs) => .array (xs.map fun o => pobjOf (some o))
  | o => .one (pobjOf o)

/-- `(*core.Stream).Decode` -/
def decodeStream (ext : Ext) (kv : Dict) (data : Str) : Option Str :=
  Filters.streamDecode ext.filt (filterOf kv) (dparmsOf kv) data

/-- What a resolved reference is to the layers above: an object, or a stream together with
the result of its `Decode()` (`none` = error). Nothing above the object layer reads a
stream's dictionary (Form XObjects are not modelled). -/
inductive SVal
  | obj (o : Obj)
  | stream (dec : Option Str)
  deriving Repr

def toSVal (ext : Ext) : PVal → SVal
  | .obj o => .obj o
  | .stream kv data => .stream (decodeStream ext kv data)

/-- a decoded object stream (`core.ObjectStream` after `decode()`) -/
structure ObjStm where
  first : Nat
  offsets : List (Int × Nat)
  decoded : Str
  deriving Repr

/-- the loop of `parseHeader` over the objects `ParseObject` yields from the header bytes:
`n` pairs (object number, offset), both integers, the offset within `0..len` -/
def headerPairs (len : Nat) : Nat → List Obj → Option (List (Int × Nat))
  | 0, _ => some []
  | n + 1, .int a :: .int b :: r =>
    if b < 0 ∨ b > (len : Int) then none
    else (headerPairs len n r).map fun ps => (a, b.toNat) :: ps
  | _ + 1, _ => none

/-- `NewObjectStream` + `decode` + `parseHeader`. (`/Extends` is type-asserted to a pointer
type that the parser never produces: any `/Extends` entry is an error.) -/
def mkObjStm (ext : Ext) (kv : Dict) (data : Str) : Except Err ObjStm :=
  match dget kv kType, dget kv kN, dget kv kFirst with
  | some (.name t), some (.int n), some (.int first) =>
    if t ≠ kObjStm ∨ n < 0 ∨ first < 0 ∨ (dget kv kExtends).isSome then .error .err
    else
      match decodeStream ext kv data with
      | none => .error .err
      | some dec =>
        if first.toNat > dec.length then .error .err
        else
          match headerPairs dec.length n.toNat (coreParseAll (dec.take first.toNat)).1 with
          | none => .error .err
          | some ps => .ok { first := first.toNat, offsets := ps, decoded := dec }
  | _, _, _ => .error .err

/-- the stream object of an object stream, read at `off`, as an `ObjStm` -/
def objStmAt (f : AbsFile) (ext : Ext) (stm off : Nat) : Except Err ObjStm :=
  match objectAt f stm off with
  | .ok (.stream kv data) => mkObjStm ext kv data
  | _ => .error .err

/-- `getObjectStream` without its cache (the stream object is read at the first field of its
entry, whether the entry is in use or free; a compressed entry is refused) -/
def loadObjStm (f : AbsFile) (ext : Ext) (stm : Nat) : Except Err ObjStm :=
  match entry f stm with
  | none => .error .err
  | some (.inStm _ _) => .error .err
  | some (.at off) => objStmAt f ext stm off
  | some (.free next) => objStmAt f ext stm next

/-- the header pair and the bytes of member `idx`, as `GetObjectByIndex` cuts them: from the
member's offset to the next member's offset, or to the end of the data when there is no
next member or the next offset is not usable -/
def memberSlice (os : ObjStm) (idx : Nat) : Option (Int × Str) :=
  match os.offsets[idx]? with
  | none => none
  | some (num, rel) =>
    let offset := os.first + rel
    let endOffset0 :=
      match os.offsets[idx + 1]? with
      | some (_, rel') => os.first + rel'
      | none => os.decoded.length
    if offset ≥ os.decoded.length then none
    else
      let endOffset := if endOffset0 > os.decoded.length ∨ endOffset0 < offset then os.decoded.length else endOffset0
      some (num, (os.decoded.drop offset).take (endOffset - offset))

/-- `GetObjectByIndex` + the number check of `getCompressedObject` -/
def memberAt (os : ObjStm) (n idx : Nat) : Except Err Obj :=
  match memberSlice os idx with
  | none => .error .err
  | some (num, bytes) =>
    match coreParse bytes with
    | .error _ => .error .err
    | .ok (o, _) => if num = (n : Int) then .ok o else .error .err

/-- `(*Reader).GetObject` (cache-free) followed by what the caller can see of the result -/
def getObject (f : AbsFile) (ext : Ext) (n : Nat) : Except Err SVal :=
  match entry f n with
  | none => .error .err
  | some (.free _) => .error .err
  | some (.at off) =>
    match objectAt f n off with
    | .ok v => .ok (toSVal ext v)
    | .error e => .error e
  | some (.inStm stm idx) =>
    match loadObjStm f ext stm with
    | .error e => .error e
    | .ok os =>
      match memberAt os n idx with
      | .ok o => .ok (.obj o)
      | .error e => .error e

/-! ## layer B: from a resolver to the pages -/

/-- what the upper layers need of the file: object number ↦ object -/
abbrev Res := Nat → Except Err SVal

/-- `(*Reader).Resolve` / `resolveIfRef` (the generation number is not looked at) -/
def resolve (res : Res) : Obj → Except Err SVal
  | .ref n _ => if n < 0 then .error .err else res n.toNat
  | o => .ok (.obj o)

/-- the page tree with references resolved: every node keeps its own dictionary -/
inductive RTree
  | leaf (d : Dict)
  | node (d : Dict) (kids : List RTree)
  deriving Repr

/-- the visited check `traversePageNode` makes on a `/Kids` entry that is an indirect
reference (cd93b07): the object number of the array is recorded in `PageTree.visited` like
that of a node, and reaching it a second time is an error (`none`). A direct array is not
recorded. (A negative number is never recorded twice in the model: `resolve` fails on it.) -/
def visitKidsRef (vis : List Nat) : Obj → Option (List Nat)
  | .ref n _ =>
    if n < 0 then some vis
    else if vis.contains n.toNat then none
    else some (n.toNat :: vis)
  | _ => some vis

mutual
/-- `traversePageNode` as far as it walks the object graph. `vis` is `PageTree.visited`, `dep`
is `PageTree.depth` when the call is entered (0 for the root): the call starts with
`if t.depth >= maxPageTreeDepth { return error }` (86b42aa), before the node's `/Type` is
looked at. Fuel: every call consumes one unit (see `fuelOf`). -/
def buildNode (res : Res) : Nat → Nat → List Nat → Dict → Except Err (RTree × List Nat)
  | 0, _, _, _ => .error .fuel
  | fuel + 1, dep, vis, d =>
    if dep ≥ PdfDoc.maxPageTreeDepth then .error .err
    else
    match dget d kType with
    | some (.name t) =>
      if t = kPages then
        match dget d kKids with
        | none => .error .err
        | some k =>
          match visitKidsRef vis k with
          | none => .error .err
          | some vis0 =>
            match resolve res k with
            | .error e => .error e
            | .ok (.obj (.arr kids)) =>
              match buildKids res fuel (dep + 1) vis0 kids with
              | .error e => .error e
              | .ok (ts, vis') => .ok (.node d ts, vis')
            | .ok _ => .error .err
      else if t = kPage then .ok (.leaf d, vis)
      else .error .err
    | _ => .error .err
/-- the `for i, kidObj := range kids` loop; `dep` is the depth the kids are entered with -/
def buildKids (res : Res) : Nat → Nat → List Nat → List Obj → Except Err (List RTree × List Nat)
  | 0, _, _, _ => .error .fuel
  | _ + 1, _, vis, [] => .ok ([], vis)
  | fuel + 1, dep, vis, k :: ks =>
    match k with
    | .ref n _ =>
      if n < 0 then .error .err
      else if vis.contains n.toNat then .error .err
      else
        match res n.toNat with
        | .error e => .error e
        | .ok (.obj (.dict kd)) =>
          match buildNode res fuel dep (n.toNat :: vis) kd with
          | .error e => .error e
          | .ok (t, vis1) =>
            match buildKids res fuel dep vis1 ks with
            | .error e => .error e
            | .ok (ts, vis2) => .ok (t :: ts, vis2)
        | .ok _ => .error .err
    | .dict _ => .error .unsupported
    | _ => .error .err
end

/-- `GetCatalog` + `ensurePageTree` + `PageTree.Count`'s check of `/Count` + `loadPages` -/
def pageTree (res : Res) (fuel : Nat) (root : Option Nat) : Except Err RTree :=
  match root with
  | none => .error .err
  | some r =>
    match res r with
    | .error e => .error e
    | .ok (.obj (.dict cat)) =>
      match dget cat kPages with
      | none => .error .err
      | some p =>
        match resolve res p with
        | .error e => .error e
        | .ok (.obj (.dict pd)) =>
          match dget pd kCount with
          | some (.int _) =>
            match buildNode res fuel 0 [] pd with
            | .error e => .error e
            | .ok (t, _) => .ok t
          | _ => .error .err
        | .ok _ => .error .err
    | .ok _ => .error .err

/-- the inheritable attributes of a node as `PdfDoc` sees them: only `/Resources` matters for
text (`/MediaBox`, `/CropBox`, `/Rotate` are positions: C08) -/
def attrsOf (d : Dict) : PdfDoc.AttrsOf Obj := { res := dget d kResources }

mutual
def toPTree : RTree → PdfDoc.PTreeOf Obj
  | .leaf d => .leaf (attrsOf d)
  | .node d kids => .node (attrsOf d) (toPTreeList kids)
def toPTreeList : List RTree → List (PdfDoc.PTreeOf Obj)
  | [] => []
  | t :: ts => toPTree t :: toPTreeList ts
end

mutual
/-- the dictionaries of the `/Page` leaves, left to right -/
def leafDicts : RTree → List Dict
  | .leaf d => [d]
  | .node _ kids => leafDictsList kids
def leafDictsList : List RTree → List Dict
  | [] => []
  | t :: ts => leafDicts t ++ leafDictsList ts
end

/-- the pages: each leaf's `/Contents` entry with its effective `/Resources` (`withInherited`
down the tree, then `Page.Resources`: own entry, else the parent's view) — `PdfDoc.flatten`.
Nothing else of a leaf decides its text. -/
def pageSpecs (t : RTree) : List (Option Obj × Option Obj) :=
  ((leafDicts t).map fun d => dget d kContents).zip ((PdfDoc.flatten (toPTree t) {}).map (·.res))

/-! ### fonts -/

def isNum : Obj → Bool
  | .int _ => true
  | .real _ _ _ => true
  | _ => false

/-- `extractName` -/
def extractName : Option Obj → Str
  | some (.name n) => n
  | some (.str s) => s
  | _ => []

/-- the encoding name an `/Encoding` dictionary leaves in `Font.Encoding`: its `/BaseEncoding`
name; `std` when there is no `/BaseEncoding`; and what `NewFont` preset (`WinAnsiEncoding`)
when `/BaseEncoding` is not a name -/
def baseEncoding (ed : Dict) (std : Str) : Str :=
  match dget ed kBaseEncoding with
  | some (.name n) => n
  | some _ => kWinAnsiEncoding
  | none => std

/-- `Font.Encoding` of a Type0 font: `extractName` of the entry, `Identity-H` when absent -/
def type0Encoding (fd : Dict) : Str :=
  match dget fd kEncoding with
  | some e => extractName (some e)
  | none => kIdentityH

/-- the loop of `parseEncodingDifferences` (font/type1.go, fix b3a0e07; ISO 32000-1 9.6.6.1):
an integer sets the current code, a name redefines the current code - if it is a byte - and
advances it: `differences[code] = r` when `glyphNameToUnicode` knows the name,
`delete(differences, code)` when it does not (the base encoding stays in charge); anything
else is an error (`none`). Go's `int` is 64 bits wide and wraps around; a wrapped code is far
outside 0..255 on either side, so the unbounded `Int` decides the same. -/
def parseDiffsLoop : List Obj → Int → FontDecode.Diffs → Option FontDecode.Diffs
  | [], _, acc => some acc
  | .int v :: rest, _, acc => parseDiffsLoop rest v acc
  | .name n :: rest, code, acc =>
    parseDiffsLoop rest (code + 1)
      (if 0 ≤ code ∧ code ≤ 255 then (code.toNat, GlyphNames.glyphRune n) :: acc else acc)
  | _ :: _, _, _ => none

/-- `parseEncodingDifferences(diffs)` -/
def parseDifferences (xs : List Obj) : Option FontDecode.Diffs := parseDiffsLoop xs 0 []

/-- `parseEncoding` of Type1 (`std = StandardEncoding`, `strict`: an unresolvable
`/Differences` reference or an array holding anything but integers and names fails the font)
and of TrueType (`std = WinAnsiEncoding`; a `/Differences` entry that cannot be read is
ignored, as the whole entry was before b3a0e07): the base encoding name left in
`Font.Encoding` and `Font.Differences`; `none` = error, the font is not registered. `NewFont`
presets `WinAnsiEncoding`, which a non-name `/BaseEncoding` leaves in place. -/
def simpleEncoding (res : Res) (fd : Dict) (std : Str) (strict : Bool) : Option (Str × FontDecode.Diffs) :=
  match dget fd kEncoding with
  | none => some (std, [])
  | some e =>
    match resolve res e with
    | .ok (.obj (.name n)) => some (n, [])
    | .ok (.obj (.dict ed)) =>
      let enc := baseEncoding ed std
      match dget ed kDifferences with
      | none => some (enc, [])
      | some dobj =>
        match resolve res dobj with
        | .error _ => if strict then none else some (enc, [])
        | .ok (.obj (.arr xs)) =>
          match parseDifferences xs with
          | some ds => some (enc, ds)
          | none => if strict then none else some (enc, [])
        | .ok _ => some (enc, [])
    | _ => none

/-- `parseWidths`: a `/Widths` entry must resolve to an array of numbers -/
def widthsOk (res : Res) (fd : Dict) : Bool :=
  match dget fd kWidths with
  | none => true
  | some w =>
    match resolve res w with
    | .ok (.obj (.arr xs)) => xs.all isNum
    | _ => false

/-- the `/ToUnicode` block: a reference to a stream whose data decodes -/
def toUnicodeOf (res : Res) (fd : Dict) : Option CMap.CMap :=
  match dget fd kToUnicode with
  | some (.ref n g) =>
    match resolve res (.ref n g) with
    | .ok (.stream (some d)) => some (CMap.parseCMapData d)
    | _ => none
  | _ => none

/-- `parseDescendantFont` + the failing parts of `NewCIDFont` -/
def descendantOk (res : Res) (fd : Dict) : Bool :=
  match dget fd kDescendantFonts with
  | none => false
  | some d =>
    match resolve res d with
    | .ok (.obj (.arr (x :: _))) =>
      match resolve res x with
      | .ok (.obj (.dict cd)) =>
        let st := extractName (dget cd kSubtype)
        if st = kCIDFontType0 ∨ st = kCIDFontType2 then
          match dget cd kCIDSystemInfo with
          | none => false
          | some si =>
            match resolve res si with
            | .ok (.obj (.dict _)) => true
            | _ => false
        else false
      | _ => false
    | _ => false

/-- one iteration of the loop of `RegisterFontsFromResources`: the `font.Font` registered
for a font object, as far as `DecodeString` reads it (`none`: nothing is registered) -/
def parseFont (res : Res) (o : Obj) : Option FontDecode.Font :=
  match resolve res o with
  | .ok (.obj (.dict fd)) =>
    match dget fd kSubtype with
    | some (.name st) =>
      if st = kType1 then
        match simpleEncoding res fd kStandardEncoding true with
        | some (enc, ds) => if widthsOk res fd then some ⟨toUnicodeOf res fd, enc, ds⟩ else none
        | none => none
      else if st = kTrueType then
        match simpleEncoding res fd kWinAnsiEncoding false with
        | some (enc, ds) => if widthsOk res fd then some ⟨toUnicodeOf res fd, enc, ds⟩ else none
        | none => none
      else if st = kType0 then
        if descendantOk res fd then some ⟨toUnicodeOf res fd, type0Encoding fd, []⟩ else none
      else none
    | _ => none
  | _ => none

/-- `e.fonts[name]` after `RegisterFontsFromResources fonts`: the font stored under the key
itself, else (the "/"-prefixed alias) the font stored under the key without its leading
slash, provided that key does not itself start with a slash -/
def registered (res : Res) (fonts : Dict) (name : Str) : Option FontDecode.Font :=
  match dget fonts name with
  | some o => parseFont res o
  | none =>
    match name with
    | 47 :: k => if k.head? = some 47 then none else (dget fonts k).bind (parseFont res)
    | _ => none

/-- `Page.Resources()` as a dictionary (`none`: error or absent) -/
def resourcesDict (res : Res) (effRes : Option Obj) : Option Dict :=
  match effRes with
  | none => none
  | some r =>
    match resolve res r with
    | .ok (.obj (.dict rd)) => some rd
    | _ => none

/-- the `/Font` dictionary of the resources (`none`: no fonts are registered) -/
def fontsOf (res : Res) (rd : Option Dict) : Option Dict :=
  match rd with
  | none => none
  | some rd =>
    match dget rd kFont with
    | none => none
    | some fo =>
      match resolve res fo with
      | .ok (.obj (.dict fd)) => some fd
      | _ => none

/-- the font `Tf` registers for a name nothing is registered under -/
def defaultFont : FontDecode.Font := ⟨none, kWinAnsiEncoding, []⟩

/-! ### content interpretation -/

/-- `showText` as far as the text goes. `cur` is `gs.Text.FontName`: initially empty, after
`Tf` a name that starts with `/` and under which a font is registered (by the resources or
by `Tf` itself). -/
def decodeShown (res : Res) (ext : Ext) (fonts : Option Dict) (cur : Str) (data : Str) : Except Err Str :=
  match fonts.bind fun fd => registered res fd cur with
  | some f =>
    match FontDecode.decodeString ext.nfc f data with
    | some s => .ok s
    | none => .error .unsupported
  | none =>
    if cur = [] then .ok (FontDecode.showTextNoFont ext.nfc data)
    else
      match FontDecode.decodeString ext.nfc defaultFont data with
      | some s => .ok s
      | none => .error .unsupported

/-- `showText` before fix b3a0e07: the same registration, but `DecodeString` used the base
encoding alone (`FontDecode.decodeStringOld`: the `/Differences` the font dictionary carries
were parsed and dropped). Kept for `C01R.font_differences_pinned_counterexample`. -/
def decodeShownOld (res : Res) (ext : Ext) (fonts : Option Dict) (cur : Str) (data : Str) : Except Err Str :=
  match fonts.bind fun fd => registered res fd cur with
  | some f =>
    match FontDecode.decodeStringOld ext.nfc f data with
    | some s => .ok s
    | none => .error .unsupported
  | none =>
    if cur = [] then .ok (FontDecode.showTextNoFont ext.nfc data)
    else
      match FontDecode.decodeStringOld ext.nfc defaultFont data with
      | some s => .ok s
      | none => .error .unsupported

/-- the part of the extractor's state that decides text: current font name, the `q` stack of
font names, the strings shown so far -/
structure IState where
  cur : Str := []
  stack : List Str := []
  out : List Str := []
  deriving Repr

/-- what a page's interpretation depends on besides its operations -/
structure Env where
  res : Res
  ext : Ext
  rdict : Option Dict
  fonts : Option Dict

def showOne (env : Env) (st : IState) (data : Str) : Except Err IState :=
  match decodeShown env.res env.ext env.fonts st.cur data with
  | .ok s => .ok { st with out := st.out ++ [s] }
  | .error e => .error e

/-- `showTextArray`: the strings of the array in order (numbers only move the position) -/
def showArray (env : Env) : IState → List Obj → Except Err IState
  | st, [] => .ok st
  | st, .str s :: r =>
    match showOne env st s with
    | .ok st' => showArray env st' r
    | .error e => .error e
  | st, _ :: r => showArray env st r

/-- `processOperation`, text-deciding operators only -/
def step (env : Env) (st : IState) (op : Pdf.CS.Operation) : Except Err IState :=
  if op.op = opq then .ok { st with stack := st.cur :: st.stack }
  else if op.op = opQ then
    match st.stack with
    | [] => .error .err
    | c :: r => .ok { st with cur := c, stack := r }
  else if op.op = opTf then
    match op.operands with
    | [.name n, sz] =>
      if isNum sz then .ok { st with cur := if n.head? = some 47 then n else 47 :: n } else .ok st
    | _ => .ok st
  else if op.op = opTj ∨ op.op = opQuote then
    match op.operands with
    | [.str s] => showOne env st s
    | _ => .ok st
  else if op.op = opTJ then
    match op.operands with
    | [.arr xs] => showArray env st xs
    | _ => .ok st
  else if op.op = opDQuote then
    match op.operands with
    | [_, _, .str s] => showOne env st s
    | _ => .ok st
  else if op.op = opDo then
    match op.operands with
    | [.name _] =>
      match env.rdict with
      | none => .ok st
      | some rd => if (dget rd kXObject).isSome then .error .unsupported else .ok st
    | _ => .ok st
  else .ok st

/-- `Extract`: the operations in order -/
def run (env : Env) : IState → List Pdf.CS.Operation → Except Err IState
  | st, [] => .ok st
  | st, op :: ops =>
    match step env st op with
    | .ok st' => run env st' ops
    | .error e => .error e

/-- the elements of a `/Contents` array, resolved (`Page.Contents`) -/
def resolveAll (res : Res) : List Obj → Except Err (List SVal)
  | [] => .ok []
  | o :: r =>
    match resolve res o with
    | .error e => .error e
    | .ok v =>
      match resolveAll res r with
      | .error e => .error e
      | .ok vs => .ok (v :: vs)

/-- the decoded data of the streams among the contents (anything else is skipped); an
undecodable stream is an error -/
def decodedParts : List SVal → Except Err (List Str)
  | [] => .ok []
  | .stream (some d) :: r =>
    match decodedParts r with
    | .ok ps => .ok (d :: ps)
    | .error e => .error e
  | .stream none :: _ => .error .err
  | .obj _ :: r => decodedParts r

/-- the join of the decoded parts under the limit of 64 MiB (`PdfDoc.joinLoop`, 36a165b):
the loop of `extractTextWithFragments` decodes and checks part by part, so a part that does not
decode and a part that exceeds the limit both end it with an error, whichever comes first -/
def joinParts (ps : List Str) : Except Err (Option Str) :=
  match PdfDoc.joinBounded ps with
  | some content => .ok (some content)
  | none => .error .err

/-- `Page.Contents` + the decoding loop of `extractTextWithFragments`: the joined content
(`none`: the page has no `/Contents`) -/
def contentBytes (res : Res) (contents : Option Obj) : Except Err (Option Str) :=
  match contents with
  | none => .ok none
  | some c =>
    match resolve res c with
    | .error e => .error e
    | .ok (.stream dec) =>
      match decodedParts [.stream dec] with
      | .ok ps => joinParts ps
      | .error e => .error e
    | .ok (.obj (.arr xs)) =>
      match resolveAll res xs with
      | .error e => .error e
      | .ok vs =>
        match decodedParts vs with
        | .ok ps => joinParts ps
        | .error e => .error e
    | .ok _ => .error .err

/-- the strings a content stream shows under the given resources:
`ExtractFromBytes` (parse, then interpret) -/
def showStrings (res : Res) (ext : Ext) (effRes : Option Obj) (content : Str) : Except Err (List Str) :=
  match Pdf.CS.csParse content with
  | none => .error .err
  | some ops =>
    let rd := resourcesDict res effRes
    match run { res := res, ext := ext, rdict := rd, fonts := fontsOf res rd } {} ops with
    | .ok st => .ok st.out
    | .error e => .error e

/-- `ExtractTextFragments(page)`, texts only -/
def pageStrings (res : Res) (ext : Ext) (contents effRes : Option Obj) : Except Err (List Str) :=
  match contentBytes res contents with
  | .error e => .error e
  | .ok none => .ok []
  | .ok (some content) => if content = [] then .ok [] else showStrings res ext effRes content

def pagesOfSpecs (res : Res) (ext : Ext) : List (Option Obj × Option Obj) → Except Err (List (List Str))
  | [] => .ok []
  | (d, r) :: rest =>
    match pageStrings res ext d r with
    | .error e => .error e
    | .ok p =>
      match pagesOfSpecs res ext rest with
      | .error e => .error e
      | .ok ps => .ok (p :: ps)

def pagesOfTree (res : Res) (ext : Ext) (t : RTree) : Except Err (List (List Str)) :=
  pagesOfSpecs res ext (pageSpecs t)

/-- everything above the object layer -/
def readWith (res : Res) (ext : Ext) (fuel : Nat) (root : Option Nat) : Except Err (List (List Str)) :=
  match pageTree res fuel root with
  | .error e => .error e
  | .ok t => pagesOfTree res ext t

/-! ## the whole reader -/

/-- the largest object number that has a cross-reference entry -/
def maxKey : Xref.Section → Nat
  | [] => 0
  | (k, _) :: r => max k (maxKey r)

/-- Fuel of the page-tree walk. `buildNode`/`buildKids` spend one unit per call, so a run
needs as much fuel as its longest chain of nested calls. On such a chain every `buildKids`
step except the last handles one `/Kids` element, and every `buildNode` step except the
first is entered from such an element. An element that does not stop the walk is a reference
to a number that was not visited before and has a cross-reference entry, i.e. one of the at
most `maxKey + 1` numbers `0..maxKey`, each at most once in the whole walk (indirect `/Kids`
arrays use up numbers too). So a chain has at most `maxKey + 2` `buildKids` steps and
`maxKey + 2` `buildNode` steps: `2 * (maxKey + 2)` would do; the model takes twice that.
Proved: Lemmas/ReaderBounds.lean `build_fuel`, `pageTree_fuel_enough`. -/
def fuelOf (f : AbsFile) : Nat := 4 * (maxKey (xref f) + 2)

/-- `ParsePrevXRef` fails when `/Prev` names an offset where no section is recorded; C04's
chain model stops there instead. Such files are outside the model. -/
def prevDangling (f : AbsFile) : Bool :=
  f.secs.any fun s =>
    match s.2.prev with
    | some p => (Xref.getLast f.secs p).isNone
    | none => false

/-- the trailer in force is the one of the newest section (`MergeXRefTables` keeps the last) -/
def rootOf (f : AbsFile) : Option Nat :=
  match Xref.getLast f.secs f.start with
  | some s => s.root
  | none => none

/-- **the reader**: for every page in page order, the decoded strings in show order -/
def readPages (f : AbsFile) (ext : Ext) : Except Err (List (List Str)) :=
  if prevDangling f then .error .unsupported
  else readWith (getObject f ext) ext (fuelOf f) (rootOf f)

end Tabula.Reader
