import TabulaModel.Model.Detect
import TabulaModel.Model.Drm
import TabulaModel.Model.Admit
import TabulaModel.Model.EncXml
import TabulaModel.Model.Overlap
/-
BYTE-EXACT model of the text functions the C20 mechanisms run on file names, file fronts,
"mimetype" members and cipher references: `strings.ToLower`, `strings.ToUpper` and
`strings.TrimSpace` as they act on ARBITRARY byte strings (ill-formed UTF-8 and non-ASCII
characters included), and the functions of format/detect.go, epubdoc/drm.go and
epubdoc/reader.go on top of them:

  format.Detect                       detectB
  format.detectHTMLMagic              detectHTMLMagicB
  format.DetectFromMagic              detectFromMagicB
  format.detectZIPFormat (mimetype)   mimeVerdictB, firstMimeB, detectZipB
  format.DetectFromReader             detectFromReaderB
  epubdoc.isContentFile               isContentFileB
  epubdoc.hasEncryptedContent (loop)  hasEncryptedContentB
  epubdoc.(*Reader).validateMimetype  validateMimetypeB
  extractor.go validateFormat + the switch of ensureReader + epubdoc.Open   admitFileB

`Model/Detect.lean` / `Model/Drm.lean` model the same functions with the three string
functions restricted to ASCII (a byte-wise case map, ASCII white space); they are exact on
ASCII input only.  Here `strings.Map` is modelled rune by rune on the UTF-8 decoding Go
uses (`Split.charLen` / `Overlap.codePoint`: an ill-formed byte is U+FFFD of width 1 and is
written back as EF BF BD) and `strings.TrimSpace` is `Split.trimSpace` (all of
`unicode.IsSpace`).  The case tables of package `unicode` outside ASCII are a parameter
(`CaseTable`; the harness sends the pairs for the runes that occur); the theorems need
only one fact about them: no non-ASCII rune is mapped to an ASCII letter other than
`I`/`S` (upper: U+0131, U+017F) and `i`/`k` (lower: U+0130, U+212A).

Core Lean only.
-/
namespace Tabula.DetectB
open Tabula.Detect Tabula.Drm Tabula.Admit Tabula.EncXml

/-- `unicode.ToUpper` / `unicode.ToLower` on the runes from U+0080 -/
abbrev CaseTable := Nat → Nat

/-- `unicode.ToUpper` -/
def upperR (up : CaseTable) (r : Nat) : Nat := if r < 128 then upperB r else up r
/-- `unicode.ToLower` -/
def lowerR (lo : CaseTable) (r : Nat) : Nat := if r < 128 then lowerB r else lo r

/-- `strings.Map(f, s)` for an `f` that drops nothing: the runes of `s` as
`utf8.DecodeRuneInString` delivers them (an ill-formed byte = U+FFFD, width 1), each mapped
and written back with `utf8.AppendRune`.  `skip` = bytes of the current character still
to be passed over. -/
def mapRunes (f : Nat → Nat) : Nat → Str → Str
  | _, [] => []
  | skip + 1, _ :: rest => mapRunes f skip rest
  | 0, a :: rest =>
    Overlap.encodeRune (f (Overlap.codePoint (a :: rest))) ++ mapRunes f (Split.runeLen (a :: rest) - 1) rest

/-- `strings.ToUpper` -/
def goUpper (up : CaseTable) (s : Str) : Str := mapRunes (upperR up) 0 s
/-- `strings.ToLower` -/
def goLower (lo : CaseTable) (s : Str) : Str := mapRunes (lowerR lo) 0 s

/-! ### format/detect.go -/

/-- `format.Detect`: `strings.ToLower(filepath.Ext(filename))` through the table -/
def detectB (lo : CaseTable) (name : Str) : Format := extTable (goLower lo (ext name))

/-- `format.detectHTMLMagic` -/
def detectHTMLMagicB (up : CaseTable) (data : Str) : Bool :=
  let d := data.dropWhile isMagicWS
  if d.isEmpty then false
  else
    let u := goUpper up d
    if isHTMLDoctype u then true
    else if sHtmlTag.isPrefixOf u then true
    else if sXmlDecl.isPrefixOf u && hasSub sHtmlTag (u.take 500) then true
    else false

/-- `format.DetectFromMagic` -/
def detectFromMagicB (up : CaseTable) (data : Str) : Format :=
  if data.length < 4 then .unknown
  else if sPdfMagic.isPrefixOf data then .pdf
  else if sZipMagic.isPrefixOf data then .unknown
  else if detectHTMLMagicB up data then .html
  else .unknown

/-- what `detectZIPFormat` makes of the bytes one `Read` of 256 returned from a member named
"mimetype": `strings.TrimSpace` as it is (all of `unicode.IsSpace`), ODT by substring first,
EPUB by equality -/
def mimeClassB (d : Str) : Option Format :=
  let t := Split.trimSpace (d.take 256)
  if hasSub odtMime t then some .odt
  else if t = epubMime then some .epub
  else none

/-- body of the first loop of `detectZIPFormat` for one member -/
def mimeVerdictB (m : Member) : Option Format :=
  if m.name = nMimetype then
    match m.data with
    | none => none
    | some d => mimeClassB d
  else none

/-- first loop of `detectZIPFormat` -/
def firstMimeB : List Member → Option Format
  | [] => none
  | m :: ms =>
    match mimeVerdictB m with
    | some f => some f
    | none => firstMimeB ms

/-- `format.detectZIPFormat` after `zip.NewReader` succeeded -/
def detectZipB (ms : List Member) : Format :=
  match firstMimeB ms with
  | some f => f
  | none =>
    if hasMember nContainer ms then .epub
    else if hasMember nWordDoc ms then .docx
    else if hasMember nXlWorkbook ms then .xlsx
    else if hasMember nPptPres ms then .pptx
    else if hasDir pWord ms then .docx
    else if hasDir pXl ms then .xlsx
    else if hasDir pPpt ms then .pptx
    else .unknown

/-- `format.DetectFromReader` -/
def detectFromReaderB (up : CaseTable) (file : Str) (zip : Option (List Member)) : Option Format :=
  let magic := file.take 512
  if sPdfMagic.isPrefixOf magic then some .pdf
  else if sZipMagic.isPrefixOf magic then
    match zip with
    | none => none
    | some ms => some (detectZipB ms)
  else if detectHTMLMagicB up magic then some .html
  else some .unknown

/-! ### epubdoc -/

/-- `epubdoc.isContentFile` -/
def isContentFileB (lo : CaseTable) (uri : Str) : Bool :=
  let u := goLower lo uri
  if hasSuffix u sfxXhtml || hasSuffix u sfxHtml || hasSuffix u sfxHtm || hasSuffix u sfxXml then true
  else if hasSuffix u sfxCss then true
  else false

/-- the loop of `epubdoc.hasEncryptedContent` (the reference is lower-cased before
`isContentFile` lower-cases it again) -/
def hasEncryptedContentB (lo : CaseTable) : List Entry → Bool
  | [] => false
  | ed :: rest =>
    let uri := goLower lo ed.uri
    if isFontObfuscation ed.algorithm then hasEncryptedContentB lo rest
    else if isContentFileB lo uri then true
    else hasEncryptedContentB lo rest

/-- `epubdoc.(*Reader).validateMimetype` -/
def validateMimetypeB : List XMember → MimeCheck
  | [] => .invalid
  | m :: ms =>
    if m.name = nMimetype then
      match m.data with
      | none => .readErr
      | some d => if Split.trimSpace d = epubMime then .ok else .invalid
    else validateMimetypeB ms

/-- the `switch f.Name` of `epubdoc.checkForDRM` with `hasEncryptedContent` on the member's
content -/
def checkForDRMB (lo : CaseTable) : List XMember → Bool
  | [] => false
  | m :: rest =>
    if m.name = nRights then true
    else if m.name = nEncryption then
      match encEntries m.doc with
      | none => true
      | some es => if hasEncryptedContentB lo es then true else checkForDRMB lo rest
    else checkForDRMB lo rest

/-- `epubdoc.Open`: mimetype check (verdict dropped), DRM gate, then the structure -/
def epubOpenB (lo : CaseTable) (zip : Option (List XMember)) (rest : Bool) : EpubOpen :=
  match zip with
  | none => .invalidArchive
  | some ms =>
    match validateMimetypeB ms with
    | _ =>
      if checkForDRMB lo ms then .drm
      else if rest then .ok
      else .structure

/-! ### the file behind a name, byte-exact -/

/-- the pair of case tables -/
structure Tables where
  up : CaseTable
  lo : CaseTable

/-- the member as `format.detectZIPFormat` sees it -/
def XMember.toMember (m : XMember) : Member := { name := m.name, data := m.data }

/-- a regular file: its bytes (the sniffer reads the first 512), what `archive/zip` makes
of them with the encryption metadata untouched by `xml.Unmarshal`, and which format
readers accept the bytes past tabula's own gates -/
structure FileB where
  head : Str
  zip : Option (List XMember)
  accepts : Format → Bool

/-- what is stored under a name -/
inductive FileStateB where
  | missing
  | unreadable
  | file (f : FileB)

/-- `validateFormat` followed by the `switch e.format` of `ensureReader`, on the bytes -/
def admitFileB (t : Tables) (extF : Format) : FileStateB → Except Outcome Format
  | .missing => .error .openFailed
  | .unreadable => .error .detectFailed
  | .file f =>
    match Detect.ensureReader extF (detectFromReaderB t.up f.head (f.zip.map (·.map XMember.toMember))) with
    | .detectFailed => .error .detectFailed
    | .mismatch => .error .mismatch
    | .unsupported => .error .unsupported
    | .proceed g =>
      if g = .epub then
        match epubOpenB t.lo f.zip (f.accepts .epub) with
        | .ok => .ok g
        | .drm => .error .drm
        | _ => .error .readerFailed
      else if f.accepts g then .ok g
      else .error .readerFailed

/-! ### the abstraction to the API model (`Model/Admit.lean`)

The API model looks at a file through three observations only: what the sniffer answers,
the archive's members (names, what the mimetype member says, the parsed entries), and
which readers accept the bytes.  `absFile` maps the byte-exact description to a
`FileState` on which the ASCII model makes the same observations: the encryption metadata is
put through `xml.Unmarshal`, the content of a mimetype member is replaced by the canonical
content of its class (ODT, EPUB, neither), and the file front by the canonical front of its
class unless it starts with the PDF or ZIP signature.  `admitFileB` above does NOT go through
the abstraction; `Props/C20Bytes.lean` proves that the two agree. -/

/-- the canonical front of an HTML file: `<html` -/
def repHtml : Str := [60, 104, 116, 109, 108]

/-- the front as the ASCII sniffer must see it -/
def absHead (up : CaseTable) (head : Str) : Str :=
  let magic := head.take 512
  if sPdfMagic.isPrefixOf magic || sZipMagic.isPrefixOf magic then head
  else if detectHTMLMagicB up magic then repHtml
  else []

/-- canonical mimetype content of a class -/
def repMime : Option Format → Str
  | some .odt => odtMime
  | some .epub => epubMime
  | _ => []

/-- the member as the ASCII model must see it -/
def absMember (m : XMember) : AMember :=
  { name := m.name, data := m.data.map fun d => repMime (mimeClassB d), enc := encEntries m.doc }

/-- the abstraction -/
def absFile (t : Tables) : FileStateB → FileState
  | .missing => .missing
  | .unreadable => .unreadable
  | .file f => .file (absHead t.up f.head) (f.zip.map (·.map absMember)) f.accepts

/-- `tabula.Open(name).<op>()` on the bytes: the extractor of the API model, its format
decided by `detectB`, its file looked at through `absFile` -/
def openAndRunB (t : Tables) (name : Str) (fs : FileStateB) (k : TKind) : Res :=
  (({ name := name, format := detectB t.lo name } : Ext).run (absFile t fs) k).2

end Tabula.DetectB
