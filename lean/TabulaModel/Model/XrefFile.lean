import TabulaModel.Model.Reader
import TabulaModel.Model.XrefBytes
/-!
# Byte-level model of cross-reference loading and object lookup

The file is a list of bytes. Followed function by function:

* core/xref.go `FindXRef` (`findXRef`), `scanPDFLines` under `bufio.Scanner` (`splitLine`,
  `scanLines`), `isXRefStream` + `ParseXRef` (`parseXRef`), `parseTraditionalXRef`
  (`parseClassic`, `classicLoop`), `parseTrailer` (`trailerText`, `parseTrailer`),
  `parseXRefStream` (`xrefStreamBody`, `parseXRefStream`), `parseXRefStreamEntry` /
  `readBigEndianInt` (`streamEntry`: the int64 wrap of an 8-byte field is modelled),
  `ParsePrevXRef` + `ParseAllXRefs` (`prevOf`, `allXRefs`), `MergeXRefTables` (`List.flatten`:
  every entry of every table assigned in order);
* reader/reader.go `loadXRef` (`loadXRef`), `GetObject`, `getUncompressedObject`,
  `getCompressedObject`, `getObjectStream` without their caches (`getObjectB`; the `loading`
  guard against an object whose loading leads back to itself is the `loading` list, and the
  limit of `maxNestedLoads` = 16 objects being loaded inside each other is the check on its
  length);
* core/parser.go `ParseIndirectObject`, `parseStream` and core/lexer.go `SkipStreamEOL`,
  `ReadBytes` (`parseIndirect`, `parseStreamData`, `skipStreamEOL`) on top of the C06 model of
  `ParseObject` (`Pdf.parseObject`);
* core/objstm.go through the C01 model (`Reader.mkObjStm`, `Reader.memberSlice`).

External code that stays a parameter: zlib inflate (`Reader.Ext`).  `bufio.Scanner`'s token
limit (a line must fit in 64 KiB together with its end-of-line marker) is modelled (`fits`).
`strings.TrimSpace` / `strings.Fields` are the UTF-8 aware `XrefBytes.trimSpaceU` / `fieldsU`.
Core Lean only.
-/
namespace Tabula.XrefFile
open Tabula.Pdf (Obj Token PState parseObject newParser fuelFor coreParse nextToken kwStream)
open Tabula.A1 (atoi)
open Tabula.XrefBytes (Kind trimSpaceU fieldsU parseEntryU readBE)
open Tabula.Reader (Dict dget PVal)

abbrev Str := List Nat

/-- tabula returns an error -/
inductive XErr
  | err
  deriving DecidableEq, Repr

abbrev Res := Except XErr

/-- one entry as `core.XRefEntry` holds it: Type, Offset (int64), Generation (int) -/
structure RawEntry where
  kind : Kind
  f1 : Int
  f2 : Int
  deriving DecidableEq, Repr

/-- a cross-reference table in assignment order (`table.Set`; a later assignment wins) -/
abbrev RawSection := List (Int × RawEntry)

/-- map lookup after a sequence of assignments -/
def getLastI {α : Type} : List (Int × α) → Int → Option α
  | [], _ => none
  | (k, v) :: rest, n =>
    match getLastI rest n with
    | some w => some w
    | none => if k = n then some v else none

/-- Go's `int`/`int64` arithmetic wraps -/
def wrap64 (x : Int) : Int := (x + 9223372036854775808) % 18446744073709551616 - 9223372036854775808

/-! ## `bufio.Scanner` with `scanPDFLines` -/

inductive Term | lf | cr | eof
  deriving DecidableEq, Repr

/-- one call of `scanPDFLines` on all the remaining data: the line, how it ended (`cr`: a CR or
CR LF), and the data after the end-of-line marker; `none`: no data left -/
def splitLine : Str → Option (Str × Term × Str)
  | [] => none
  | c :: r =>
    if c = 10 then some ([], .lf, r)
    else if c = 13 then
      match r with
      | 10 :: r' => some ([], .cr, r')
      | _ => some ([], .cr, r)
    else
      match splitLine r with
      | none => some ([c], .eof, [])
      | some (t, k, r') => some (c :: t, k, r')

/-- the Scanner's buffer holds at most 65536 bytes: an LF must be among them; after a CR the
next byte must be visible too (or the input must end before the buffer is full); a last line
without end-of-line marker must leave the buffer not full -/
def fits (t : Str) : Term → Bool
  | .lf => t.length ≤ 65535
  | .cr => t.length ≤ 65534
  | .eof => t.length ≤ 65535

/-- every line `scanner.Scan()` delivers, and whether the scanner then stops with
`ErrTooLong` (`false`: it stops at the end of the data) -/
def scanLines : Nat → Str → List Str × Bool
  | 0, _ => ([], false)
  | f + 1, data =>
    match splitLine data with
    | none => ([], false)
    | some (t, k, r) =>
      if fits t k then
        let p := scanLines f r
        (t :: p.1, p.2)
      else ([], true)

def linesOf (data : Str) : List Str × Bool := scanLines (data.length + 1) data

/-! ## key words -/
/-- `xref` -/
def kwXref : Str := [120, 114, 101, 102]
/-- `trailer` -/
def kwTrailer : Str := [116, 114, 97, 105, 108, 101, 114]
/-- `startxref` -/
def kwStartxref : Str := [115, 116, 97, 114, 116, 120, 114, 101, 102]
/-- `obj` -/
def kwObj : Str := [111, 98, 106]
/-- `endobj` -/
def kwEndobj : Str := [101, 110, 100, 111, 98, 106]
/-- `endstream` -/
def kwEndstream : Str := [101, 110, 100, 115, 116, 114, 101, 97, 109]
/-- `Prev` -/
def kPrev : Str := [80, 114, 101, 118]
/-- `Length` -/
def kLength : Str := [76, 101, 110, 103, 116, 104]
/-- `Type` -/
def kType : Str := [84, 121, 112, 101]
/-- `XRef` -/
def kXRef : Str := [88, 82, 101, 102]
/-- `Size` -/
def kSize : Str := [83, 105, 122, 101]
/-- `Index` -/
def kIndex : Str := [73, 110, 100, 101, 120]
/-- `W` -/
def kW : Str := [87]

/-! ## `FindXRef` -/

/-- what follows the last occurrence of `pat` (`strings.LastIndex` + slicing) -/
def afterLast (pat : Str) : Str → Option Str
  | [] => none
  | c :: r =>
    match afterLast pat r with
    | some t => some t
    | none => if pat.isPrefixOf (c :: r) then some ((c :: r).drop pat.length) else none

/-- `ReplaceAll(s, "\r\n", "\n")` then `ReplaceAll(s, "\r", "\n")`: every CR becomes LF and
an LF right after a CR disappears -/
def normEolAux : Bool → Str → Str
  | _, [] => []
  | afterCR, c :: r =>
    if c = 13 then 10 :: normEolAux true r
    else if c = 10 ∧ afterCR = true then normEolAux false r
    else c :: normEolAux false r

def normEol (s : Str) : Str := normEolAux false s

/-- `(*XRefParser).FindXRef`: the number on the line after the last `startxref` in the last
1024 bytes -/
def findXRef (file : Str) : Res Int :=
  let buf := file.drop (file.length - 1024)
  match afterLast kwStartxref buf with
  | none => .error .err
  | some after =>
    match (normEol after).dropWhile (· ≠ 10) with
    | [] => .error .err
    | _ :: rest =>
      match atoi (trimSpaceU (rest.takeWhile (· ≠ 10))) with
      | some v => .ok v
      | none => .error .err

/-! ## classic tables -/

def containsGtGt : Str → Bool
  | 62 :: 62 :: _ => true
  | _ :: r => containsGtGt r
  | [] => false

/-- the loop of `parseTrailer`: the lines up to and including the first one containing `>>`,
each followed by LF; and whether the lines ran out first -/
def trailerText : List Str → Str × Bool
  | [] => ([], true)
  | l :: ls =>
    if containsGtGt l then (l ++ [10], false)
    else
      let p := trailerText ls
      (l ++ 10 :: p.1, p.2)

/-- `parseTrailer`, then the `scanner.Err()` check of `parseTraditionalXRef` (`tooLong`: the
scanner stopped with `ErrTooLong` after the lines given) -/
def parseTrailer (ls : List Str) (tooLong : Bool) : Res Dict :=
  let p := trailerText ls
  match coreParse p.1 with
  | .ok (.dict kv, _) => if p.2 && tooLong then .error .err else .ok kv
  | _ => .error .err

def entryOf (e : Int × Int × Bool) : RawEntry :=
  { kind := if e.2.2 then .inUse else .free, f1 := e.1, f2 := e.2.1 }

/-- the loops of `parseTraditionalXRef` after the `xref` line. `pending`: entries still due in
the current subsection; `num`: the object number of the next entry. -/
def classicLoop (tooLong : Bool) : List Str → Nat → Int → RawSection → Res (RawSection × Dict)
  | [], _, _, _ => .error .err
  | l :: ls, pending + 1, num, acc =>
    match parseEntryU l with
    | none => .error .err
    | some e => classicLoop tooLong ls pending (wrap64 (num + 1)) (acc ++ [(num, entryOf e)])
  | l :: ls, 0, _, acc =>
    let line := trimSpaceU l
    if line = [] then classicLoop tooLong ls 0 0 acc
    else if line = kwTrailer then
      match parseTrailer ls tooLong with
      | .ok kv => .ok (acc, kv)
      | .error e => .error e
    else
      match fieldsU line with
      | [a, b] =>
        match atoi a, atoi b with
        | some first, some count => classicLoop tooLong ls count.toNat first acc
        | _, _ => .error .err
      | _ => .error .err

/-- `parseTraditionalXRef` on the scanner's lines -/
def parseClassic (ls : List Str) (tooLong : Bool) : Res (RawSection × Dict) :=
  match ls with
  | [] => .error .err
  | l :: rest =>
    if trimSpaceU l = kwXref then classicLoop tooLong rest 0 0 []
    else .error .err

/-! ## indirect objects (`ParseIndirectObject`) -/

/-- `SkipStreamEOL` -/
def skipStreamEOL : Str → Option Str
  | [] => none
  | c :: r =>
    if c = 13 then (match r with | 10 :: r' => some r' | _ => some r)
    else if c = 10 then some r
    else none

/-- `parseStream` from the `stream` keyword on: the data and the parser reloaded behind
`endstream`. `lenOf` resolves an indirect `/Length` (`none`: no resolver, an error, or not an
integer). -/
def parseStreamData (kv : Dict) (s : PState) (lenOf : Int → Option Int) : Option (Str × PState) :=
  let len? : Option Int :=
    match dget kv kLength with
    | some (.int v) => some v
    | some (.ref n _) => lenOf n
    | _ => none
  match len? with
  | none => none
  | some len =>
    if len < 0 then none
    else
      match skipStreamEOL s.inp with
      | none => none
      | some r =>
        if r.length < len.toNat then none
        else
          match nextToken (r.drop len.toNat) with
          | some (.keyword k, r') =>
            if k = kwEndstream then
              some (r.take len.toNat,
                (PState.next (PState.next { cur := none, peek := none, inp := r', err := s.err })))
            else none
          | _ => none

/-- `ParseIndirectObject` behind the `obj` keyword: the value, a stream's data, `endobj` -/
def indirectBody (fuel : Nat) (num gen : Int) (s : PState) (lenOf : Int → Option Int) :
    Option (Int × Int × PVal) :=
  match parseObject fuel 0 s with
  | .error _ => none
  | .ok (o, s4) =>
    if s4.cur = some (.keyword kwStream) then
      match o with
      | .dict kv =>
        match parseStreamData kv s4 lenOf with
        | none => none
        | some (data, s5) =>
          if s5.cur = some (.keyword kwEndobj) then some (num, gen, .stream kv data) else none
      | _ => none
    else if s4.cur = some (.keyword kwEndobj) then some (num, gen, .obj o)
    else none

/-- `ParseIndirectObject`: (object number, generation, value) -/
def parseIndirect (inp : Str) (lenOf : Int → Option Int) : Option (Int × Int × PVal) :=
  let s0 := newParser inp
  match s0.cur with
  | some (.integer v) =>
    match atoi v with
    | none => none
    | some num =>
      let s1 := s0.next
      match s1.cur with
      | some (.integer v2) =>
        match atoi v2 with
        | none => none
        | some gen =>
          let s2 := s1.next
          if s2.cur = some (.keyword kwObj) then indirectBody (fuelFor inp) num gen s2.next lenOf
          else none
      | _ => none
  | _ => none

/-! ## cross-reference streams -/

/-- int64 reading of an unsigned 64-bit value (`readBigEndianInt` shifts into an int64) -/
def toInt64 (v : Nat) : Int := wrap64 (v : Int)

/-- `parseXRefStreamEntry`: the entry and nothing else (it always consumes `w0+w1+w2` bytes) -/
def streamEntry (data : Str) (w0 w1 w2 : Nat) : Option RawEntry :=
  if data.length < w0 + w1 + w2 then none
  else
    let t : Int := if w0 > 0 then toInt64 (readBE data w0) else 1
    let f1 := toInt64 (readBE (data.drop w0) w1)
    let f2 := toInt64 (readBE (data.drop (w0 + w1)) w2)
    if t = 0 then some { kind := .free, f1 := f1, f2 := f2 }
    else if t = 1 then some { kind := .inUse, f1 := f1, f2 := f2 }
    else if t = 2 then some { kind := .compressed, f1 := f1, f2 := f2 }
    else none

def intsOf : List Obj → Option (List Int)
  | [] => some []
  | .int i :: r => (intsOf r).map (i :: ·)
  | _ :: _ => none

/-- the checks on `/Index` against the data: pairs (first, count), all non-negative, the counts
together no more than the data holds; result: the pairs -/
def indexPairs (avail : Nat) : List Int → Nat → Option (List (Int × Nat))
  | [], _ => some []
  | [_], _ => none
  | a :: b :: r, total =>
    if a < 0 ∨ b < 0 then none
    else if b.toNat > avail - total then none
    else (indexPairs avail r (total + b.toNat)).map ((a, b.toNat) :: ·)

/-- the entry loop of one subsection -/
def streamRun (w0 w1 w2 : Nat) : Nat → Int → Str → RawSection → Option (RawSection × Str)
  | 0, _, data, acc => some (acc, data)
  | n + 1, num, data, acc =>
    match streamEntry data w0 w1 w2 with
    | none => none
    | some e => streamRun w0 w1 w2 n (wrap64 (num + 1)) (data.drop (w0 + w1 + w2)) (acc ++ [(num, e)])

def streamRuns (w0 w1 w2 : Nat) : List (Int × Nat) → Str → RawSection → Option RawSection
  | [], _, acc => some acc
  | (first, count) :: r, data, acc =>
    match streamRun w0 w1 w2 count first data acc with
    | none => none
    | some (acc', data') => streamRuns w0 w1 w2 r data' acc'

/-- `parseXRefStream` from the decoded data on: `/Size`, `/Index`, `/W`, their validation, and
the entries -/
def xrefStreamBody (kv : Dict) (data : Str) : Option RawSection :=
  match dget kv kSize with
  | some (.int size) =>
    let index? : Option (List Int) :=
      match dget kv kIndex with
      | none => some [0, size]
      | some (.arr xs) => intsOf xs
      | some _ => none
    match index?, dget kv kW with
    | some index, some (.arr [.int a, .int b, .int c]) =>
      if a < 0 ∨ a > 8 ∨ b < 0 ∨ b > 8 ∨ c < 0 ∨ c > 8 then none
      else
        let w0 := a.toNat; let w1 := b.toNat; let w2 := c.toNat
        if w0 + w1 + w2 = 0 then none
        else if index.length % 2 ≠ 0 then none
        else
          match indexPairs (data.length / (w0 + w1 + w2)) index 0 with
          | none => none
          | some pairs => streamRuns w0 w1 w2 pairs data []
    | _, _ => none
  | _ => none

/-- `parseXRefStream`: the object at the current position must be a stream of `/Type /XRef`
(an indirect `/Length` cannot be resolved here: the parser has no resolver) -/
def parseXRefStream (ext : Reader.Ext) (data : Str) : Res (RawSection × Dict) :=
  match parseIndirect data (fun _ => none) with
  | some (_, _, .stream kv raw) =>
    match dget kv kType with
    | some (.name t) =>
      if t ≠ kXRef then .error .err
      else
        match Reader.decodeStream ext kv raw with
        | none => .error .err
        | some dec =>
          match xrefStreamBody kv dec with
          | none => .error .err
          | some sec => .ok (sec, kv)
    | _ => .error .err
  | _ => .error .err

/-! ## `ParseXRef`, the `/Prev` chain, `loadXRef` -/

def isPrefix (p s : Str) : Bool := p.isPrefixOf s

/-- `ParseXRef(offset)`: `isXRefStream` on the first line, then one of the two parsers -/
def parseXRef (ext : Reader.Ext) (file : Str) (off : Int) : Res (RawSection × Dict) :=
  if off < 0 then .error .err
  else
    let data := file.drop off.toNat
    let p := linesOf data
    match p.1 with
    | [] => .error .err
    | l0 :: _ =>
      let line := trimSpaceU l0
      if line = kwXref then parseClassic p.1 p.2
      else
        match fieldsU line with
        | _ :: _ :: c :: _ =>
          if c = kwObj ∨ isPrefix (kwObj ++ [60]) c then parseXRefStream ext data
          else .error .err
        | _ => .error .err

inductive Prev
  | absent
  | at (off : Int)
  | bad
  deriving DecidableEq, Repr

/-- the `/Prev` entry as `ParsePrevXRef` / `ParseAllXRefs` see it -/
def prevOf (kv : Dict) : Prev :=
  match dget kv kPrev with
  | none => .absent
  | some (.int p) => .at p
  | some _ => .bad

/-- the loop of `ParseAllXRefs`: `acc` holds the tables read so far, oldest first; `visited`
the offsets already read. Every round reads a section at an offset not yet visited, which is
an offset inside the file: `fuel` = file length + 1 is never used up. -/
def allXRefsLoop (ext : Reader.Ext) (file : Str) : Nat → List Int → Dict → List RawSection → Res (List RawSection)
  | 0, _, _, _ => .error .err
  | fuel + 1, visited, trailer, acc =>
    match prevOf trailer with
    | .absent => .ok acc
    | .bad => .error .err
    | .at p =>
      if visited.contains p then .ok acc
      else
        match parseXRef ext file p with
        | .error e => .error e
        | .ok (sec, tr) => allXRefsLoop ext file fuel (p :: visited) tr (sec :: acc)

/-- `ParseAllXRefs`: the sections oldest first -/
def allXRefs (ext : Reader.Ext) (file : Str) : Res (List RawSection) :=
  match findXRef file with
  | .error e => .error e
  | .ok start =>
    match parseXRef ext file start with
    | .error e => .error e
    | .ok (sec, tr) => allXRefsLoop ext file (file.length + 1) [start] tr [sec]

/-- `(*Reader).loadXRef` with `MergeXRefTables`: the merged table in assignment order -/
def loadXRef (ext : Reader.Ext) (file : Str) : Res RawSection :=
  match findXRef file with
  | .error e => .error e
  | .ok start =>
    match parseXRef ext file start with
    | .error e => .error e
    | .ok (sec, tr) =>
      match dget tr kPrev with
      | none => .ok sec
      | some _ =>
        match allXRefs ext file with
        | .error e => .error e
        | .ok ts => .ok ts.flatten

/-! ## object lookup on the bytes (no caches) -/

/-- `getUncompressedObject`: the indirect object at `off` must carry the number asked for -/
def uncompressedAt (file : Str) (n off : Int) (lenOf : Int → Option Int) : Option PVal :=
  if off < 0 then none
  else
    match parseIndirect (file.drop off.toNat) lenOf with
    | some (num, _, v) => if num = n then some v else none
    | none => none

/-- `GetObjectByIndex` + the number check of `getCompressedObject` -/
def memberAtI (os : Reader.ObjStm) (n idx : Int) : Option Obj :=
  if idx < 0 then none
  else
    match Reader.memberSlice os idx.toNat with
    | none => none
    | some (num, bytes) =>
      match coreParse bytes with
      | .error _ => none
      | .ok (o, _) => if num = n then some o else none

/-- `maxNestedLoads` of reader/reader.go (repair 129dd3d): how many objects may be in the middle
of being loaded at once -/
def maxNestedLoads : Nat := 16

/-- `(*Reader).GetObject` without `objCache` / `objStmCache`. `loading`: the objects whose
lookup is in progress (`r.loading`, a set: every nested lookup is of a number not yet in it, so
the list has no duplicates and its length is `len(r.loading)`). After the entry checks and the
self-reference check comes the code's `len(r.loading) >= maxNestedLoads` check: the seventeenth
object to be loaded inside sixteen others is an error. `fuel` only makes the recursion
structural: one per nested `GetObject`; `maxNestedLoads + 1 - loading.length` is never used
up (`Lemmas/XrefNest.lean: getObjectB_fuel`). -/
def getObjectB (ext : Reader.Ext) (file : Str) (x : RawSection) : Nat → List Int → Int → Option PVal
  | 0, _, _ => none
  | fuel + 1, loading, n =>
    match getLastI x n with
    | none => none
    | some e =>
      if e.kind = .free then none
      else if loading.contains n then none
      else if loading.length ≥ maxNestedLoads then none
      else
        let lenOf : Int → Option Int := fun m =>
          match getObjectB ext file x fuel (n :: loading) m with
          | some (.obj (.int i)) => some i
          | _ => none
        if e.kind = .inUse then uncompressedAt file n e.f1 lenOf
        else
          match getLastI x e.f1 with
          | none => none
          | some se =>
            if se.kind = .compressed then none
            else
              match uncompressedAt file e.f1 se.f1 lenOf with
              | some (.stream kv data) =>
                match Reader.mkObjStm ext kv data with
                | .ok os => (memberAtI os n e.f2).map .obj
                | .error _ => none
              | _ => none

/-- `(*Reader).parseHeader`: the first eight bytes are `%PDF-` and a version in which the
regular expression `(\d+)\.(\d+)` finds a match, i.e. digit, point, digit -/
def headerOk (file : Str) : Bool :=
  match file with
  | 37 :: 80 :: 68 :: 70 :: 45 :: a :: 46 :: b :: _ => Pdf.isDigit a && Pdf.isDigit b
  | _ => false

/-- `reader.Open`: header, then the merged cross-reference table -/
def openFile (ext : Reader.Ext) (file : Str) : Res RawSection :=
  if headerOk file then loadXRef ext file else .error .err

/-- `reader.Open(file)` then `GetObject(n)` on the fresh reader -/
def lookup (ext : Reader.Ext) (file : Str) (n : Int) : Res (Option PVal) :=
  match openFile ext file with
  | .error e => .error e
  | .ok x => .ok (getObjectB ext file x (maxNestedLoads + 1) [] n)

/-! ## `core.ObjectStream` as a state machine (its lazy decode and its per-index cache) -/

/-- the mutable part of `core.ObjectStream`: `decoded`/`offsets` (set together, only by a
`decode()` that succeeded — after the fix of c469dd4 a failed header parse leaves both unset)
and the `objects` cache, index ↦ parsed object -/
structure OSState where
  decoded : Option Reader.ObjStm := none
  objects : List (Nat × Obj) := []

/-- `(*ObjectStream).decode`; `dec` is what decoding the stream and parsing its header yields
(a function of the stream alone: `Reader.mkObjStm`) -/
def osDecode (dec : Except Reader.Err Reader.ObjStm) (st : OSState) : Option Reader.ObjStm × OSState :=
  match st.decoded with
  | some os => (some os, st)
  | none =>
    match dec with
    | .ok os => (some os, { st with decoded := some os })
    | .error _ => (none, st)

/-- `(*ObjectStream).GetObjectByIndex`: (object number of the header pair, object) -/
def osGetByIndex (dec : Except Reader.Err Reader.ObjStm) (st : OSState) (idx : Int) :
    Option (Int × Obj) × OSState :=
  match osDecode dec st with
  | (none, st') => (none, st')
  | (some os, st') =>
    if idx < 0 then (none, st')
    else
      match os.offsets[idx.toNat]? with
      | none => (none, st')
      | some (num, _) =>
        match Xref.getLast st'.objects idx.toNat with
        | some o => (some (num, o), st')
        | none =>
          match Reader.memberSlice os idx.toNat with
          | none => (none, st')
          | some (_, bytes) =>
            match coreParse bytes with
            | .error _ => (none, st')
            | .ok (o, _) => (some (num, o), { st' with objects := st'.objects ++ [(idx.toNat, o)] })

/-- what index `idx` of the stream means, with no state at all -/
def osSpec (dec : Except Reader.Err Reader.ObjStm) (idx : Int) : Option (Int × Obj) :=
  match dec with
  | .error _ => none
  | .ok os =>
    if idx < 0 then none
    else
      match Reader.memberSlice os idx.toNat with
      | none => none
      | some (num, bytes) =>
        match coreParse bytes with
        | .error _ => none
        | .ok (o, _) => some (num, o)

/-- a sequence of `GetObjectByIndex` calls on one `ObjectStream` -/
def osRun (dec : Except Reader.Err Reader.ObjStm) : OSState → List Int → List (Option (Int × Obj))
  | _, [] => []
  | st, i :: is => (osGetByIndex dec st i).1 :: osRun dec (osGetByIndex dec st i).2 is

/-! ### the same object as the code has it since c437385: the header error is KEPT

`decode()` now stores the decoded data before it parses the header and, when the header does
not parse, drops the pairs read so far and keeps the error in `headerErr`; `os.decoded != nil`
then answers `headerErr` on every later access. `OSState`/`osDecode` above say "a failed decode
leaves the object undecoded" (the earlier repair c469dd4). The two are different state machines
with the same answers (`Props/C04Hist.lean: objstm_header_error_kept_equivalent`). -/

/-- `decoded`/`offsets`, `headerErr != nil`, and the `objects` cache -/
structure OSStateK where
  decoded : Option Reader.ObjStm := none
  headerErr : Bool := false
  objects : List (Nat × Obj) := []

/-- `decode()` of c437385. `keep`: the failure is one the object remembers (the header did not
parse and the decoded data is not `nil`); `false`: `Stream.Decode()` itself failed, or the
decoded data is `nil`, and the next access starts again -/
def osDecodeK (keep : Bool) (dec : Except Reader.Err Reader.ObjStm) (st : OSStateK) :
    Option Reader.ObjStm × OSStateK :=
  if st.headerErr then (none, st)
  else
    match st.decoded with
    | some os => (some os, st)
    | none =>
      match dec with
      | .ok os => (some os, { st with decoded := some os })
      | .error _ => (none, { st with headerErr := keep })

/-- `GetObjectByIndex` behind `decode()`: the answer and the per-index cache afterwards -/
def osAnswer (os : Reader.ObjStm) (objects : List (Nat × Obj)) (idx : Int) :
    Option (Int × Obj) × List (Nat × Obj) :=
  if idx < 0 then (none, objects)
  else
    match os.offsets[idx.toNat]? with
    | none => (none, objects)
    | some (num, _) =>
      match Xref.getLast objects idx.toNat with
      | some o => (some (num, o), objects)
      | none =>
        match Reader.memberSlice os idx.toNat with
        | none => (none, objects)
        | some (_, bytes) =>
          match coreParse bytes with
          | .error _ => (none, objects)
          | .ok (o, _) => (some (num, o), objects ++ [(idx.toNat, o)])

def osGetByIndexK (keep : Bool) (dec : Except Reader.Err Reader.ObjStm) (st : OSStateK) (idx : Int) :
    Option (Int × Obj) × OSStateK :=
  match osDecodeK keep dec st with
  | (none, st') => (none, st')
  | (some os, st') => ((osAnswer os st'.objects idx).1, { st' with objects := (osAnswer os st'.objects idx).2 })

/-- a sequence of `GetObjectByIndex` calls on one `ObjectStream` (the code since c437385) -/
def osRunK (keep : Bool) (dec : Except Reader.Err Reader.ObjStm) : OSStateK → List Int → List (Option (Int × Obj))
  | _, [] => []
  | st, i :: is => (osGetByIndexK keep dec st i).1 :: osRunK keep dec (osGetByIndexK keep dec st i).2 is

end Tabula.XrefFile
