import TabulaModel.Model.Overlap
/-
Model of the sentence packing of `rag/chunker.go` and of `Chunker.Chunk` /
`Chunker.ChunkWithOverlapEnabled` on documents whose layout consists of paragraphs
(no headings, lists or tables), chunk texts only:

`splitIntoSentences`, `(*Chunker).splitBySentences`, `splitSectionByParagraphs` with its
`flushChunk` closure (orphan merging), `chunkSection`, `chunkByParagraphs`, `Chunk`,
`ChunkWithOverlapEnabled`.

`unicode.IsLower` of non-ASCII runes is a parameter (class table, supplied by the harness from
the Go tables).  `unicode.IsUpper(rune(b))` / `unicode.IsSpace(rune(b))` of a single BYTE `b`
(the code converts bytes of the builder to runes, i.e. reads them as Latin-1) are the
Latin-1 rows of the tables, written out.  Core Lean only.
-/
set_option linter.unusedVariables false
namespace Tabula.Sentences
open Tabula.Split Tabula.Overlap

/-- `unicode.IsLower` -/
def isLower (cl : Classes) (cp : Nat) : Bool :=
  if cp < 0x80 then 97 ≤ cp && cp ≤ 122 else match lookup cl cp with | some c => c.isLower | none => false

/-- `unicode.IsUpper(rune(b))` for a byte `b` (Latin-1: A–Z, À–Ö, Ø–Þ) -/
def isUpperLatin1 (b : Nat) : Bool :=
  (65 ≤ b && b ≤ 90) || (192 ≤ b && b ≤ 214) || (216 ≤ b && b ≤ 222)

/-- `unicode.IsSpace(rune(b))` for a byte `b` (Latin-1: \t \n \v \f \r, space, U+0085, U+00A0) -/
def isSpaceLatin1 (b : Nat) : Bool :=
  (9 ≤ b && b ≤ 13) || b == 32 || b == 0x85 || b == 0xA0

/-- `sentence := strings.TrimSpace(current.String()); if sentence != "" { append }`;
`acc` is the list of sentences so far, reversed -/
def emitTrim (acc : List Str) (cur : Str) : List Str :=
  if trimSpace cur = [] then acc else trimSpace cur :: acc

/-- "skip if preceded by single capital letter": `cur` is the builder content reversed
(its head is the punctuation just written) -/
def afterCapital (i : Nat) (cur : Str) : Bool :=
  decide (i > 0) && match cur with
    | _ :: p :: tl =>
      isUpperLatin1 p && (decide (i < 2) || match tl with | [] => true | q :: _ => isSpaceLatin1 q)
    | _ => false

/-- the loop of `splitIntoSentences` (chunker.go): `rs` = `runes[i:]`, `cur` = the builder
content reversed, `acc` = sentences so far, reversed -/
def sentLoop (cl : Classes) : List Nat → Nat → Str → List Str → List Str
  | [], _, cur, acc => (emitTrim acc cur.reverse).reverse
  | r :: rest, i, cur, acc =>
    let cur := (encodeRune r).reverse ++ cur
    if r == 46 || r == 33 || r == 63 then
      if (match rest with | next :: _ => isLower cl next | [] => false) then sentLoop cl rest (i + 1) cur acc
      else if afterCapital i cur then sentLoop cl rest (i + 1) cur acc
      else sentLoop cl rest (i + 1) [] (emitTrim acc cur.reverse)
    else sentLoop cl rest (i + 1) cur acc

/-- `splitIntoSentences` (chunker.go) -/
def splitIntoSentences (cl : Classes) (text : Str) : List Str :=
  sentLoop cl (decodeRunes text) 0 [] []

/-- the loop of `(*Chunker).splitBySentences`: `cur` = `currentText`, `acc` = chunk texts so
far, reversed -/
def packLoop (max : Nat) : List Str → Str → List Str → List Str
  | [], cur, acc => (if cur ≠ [] then cur :: acc else acc).reverse
  | s :: rest, cur, acc =>
    if cur.length + (s.length + (if cur ≠ [] then 1 else 0)) > max ∧ cur ≠ [] then
      packLoop max rest s (cur :: acc)
    else packLoop max rest ((if cur ≠ [] then cur ++ [32] else cur) ++ s) acc

/-- `(*Chunker).splitBySentences` (chunk texts) -/
def splitBySentences (cl : Classes) (max : Nat) (text : Str) : List Str :=
  packLoop max (splitIntoSentences cl text) [] []

/-- state of `splitSectionByParagraphs`: the chunk texts of this call, `currentText` -/
structure PState where
  chunks : List Str
  cur : Str
  deriving Repr

/-- the `flushChunk` closure -/
def flushChunk (max min : Nat) (s : PState) : PState :=
  if trimSpace s.cur = [] then s
  else match s.chunks.getLast? with
    | some prev =>
      if s.cur.length < min ∧ prev.length + s.cur.length + 2 ≤ max then
        { chunks := s.chunks.dropLast ++ [prev ++ [10, 10] ++ s.cur], cur := [] }
      else { chunks := s.chunks ++ [s.cur], cur := [] }
    | none => { chunks := s.chunks ++ [s.cur], cur := [] }

/-- one paragraph element in the main loop of `splitSectionByParagraphs` (no atomic blocks, no
list introductions: the content consists of paragraphs) -/
def paraStep (cl : Classes) (max min : Nat) (s : PState) (e : Str) : PState :=
  let s := if s.cur.length + (e.length + (if s.cur ≠ [] then 2 else 0)) > max ∧ s.cur ≠ []
           then flushChunk max min s else s
  if e.length > max then
    let s := if s.cur ≠ [] then flushChunk max min s else s
    { s with chunks := s.chunks ++ splitBySentences cl max e }
  else { s with cur := (if s.cur ≠ [] then s.cur ++ [10, 10] else s.cur) ++ e }

/-- `splitSectionByParagraphs` -/
def splitSectionByParagraphs (cl : Classes) (max min : Nat) (paras : List Str) : List Str :=
  (flushChunk max min (paras.foldl (paraStep cl max min) { chunks := [], cur := [] })).chunks

/-- `chunkSection` -/
def chunkSection (cl : Classes) (max min : Nat) (paras : List Str) : List Str :=
  let text := joinParagraphs paras
  if trimSpace text = [] then []
  else if text.length ≤ max then [text]
  else splitSectionByParagraphs cl max min paras

/-- `Chunker.Chunk` on a document of paragraphs: `buildSections` makes one preamble section of
them; if that yields no chunk, `chunkByParagraphs` runs `splitSectionByParagraphs` on them -/
def chunkParagraphDoc (cl : Classes) (max min : Nat) (paras : List Str) : List Str :=
  if paras = [] then []
  else
    let cs := chunkSection cl max min paras
    if cs = [] then splitSectionByParagraphs cl max min paras else cs

/-- `Chunker.ChunkWithOverlapEnabled` on a document of paragraphs (section titles are empty) -/
def chunkWithOverlapEnabled (cl : Classes) (max min overlapSize : Nat) (sentences ctx : Bool)
    (paras : List Str) : List OverlapOut :=
  applyOverlapToChunks cl (chunkerOverlapConfig overlapSize sentences ctx)
    (chunkParagraphDoc cl max min paras) []

end Tabula.Sentences
