import TabulaModel.Model.Nav
import TabulaModel.Model.HtmlGrid
/-
Model of htmldoc/reader.go (as it is after the C19 fixes): getTextContent,
getDirectTextContent, isBlockContainer / isBlockLevel, isInlineContent, emitInlineRun,
shouldSkipElement, parseTable / parseTableRows / parseTableRow / dropEmptyRows (fix 72cc329: a
row without cells is kept where a rowspan from above reaches it), traverseNodeFiltered
with its list context and the child loop of a p/div block container (fix 75d57dc: the
inline runs between the other children become paragraphs; `travM`),
extractBodyWithMode, TextWithOptions and the element list of DocumentWithOptions;
plus the compositional specification `atoms`. The traversal before fix 75d57dc is kept
in Model/HtmlOld.lean. Core Lean only.
-/
namespace Tabula.Html

/-- `shouldSkipElement` -/
def isSkip (tag : Str) : Bool :=
  tag == T.script || tag == T.style || tag == T.noscript || tag == T.template || tag == T.svg ||
  tag == T.math || tag == T.iframe || tag == T.object || tag == T.embed

/-- tags after which `getTextContentRecursive` writes a space -/
def spaceAfter (tag : Str) : Bool :=
  tag == T.p || tag == T.div || tag == T.li || tag == T.h1 || tag == T.h2 || tag == T.h3 ||
  tag == T.h4 || tag == T.h5 || tag == T.h6 || tag == T.tr

mutual
/-- `getTextContentRecursive` -/
def textRec : Dom → Str
  | .text s => s
  | .elem tag _ kids =>
    if isSkip tag then []
    else (if tag = T.br then [10] else []) ++ textRecL kids ++ (if spaceAfter tag then [32] else [])
  | .other kids => textRecL kids
def textRecL : List Dom → Str
  | [] => []
  | k :: ks => textRec k ++ textRecL ks
end

/-- `getTextContent` -/
def getTextContent (n : Dom) : Str := trim (textRec n)

/-- one child's contribution in `getDirectTextContent` -/
def directPiece : Dom → Str
  | .text s => s
  | .elem tag attrs kids =>
    if tag = T.ul ∨ tag = T.ol then []
    else if tag = T.div ∨ tag = T.p ∨ tag = T.table ∨ tag = T.blockquote then
      let t := getTextContent (.elem tag attrs kids)
      if t = [] then [] else [32] ++ t ++ [32]
    else getTextContent (.elem tag attrs kids)
  | .other _ => []

/-- `getDirectTextContent` (of a node with these children) -/
def getDirectTextContent (kids : List Dom) : Str := trim (kids.flatMap directPiece)

/-- `isBlockLevel`: the tag list of `isBlockContainer` -/
def isBlockTag (tag : Str) : Bool :=
  tag == T.div || tag == T.p || tag == T.ul || tag == T.ol || tag == T.table || tag == T.h1 || tag == T.h2 ||
  tag == T.h3 || tag == T.h4 || tag == T.h5 || tag == T.h6 || tag == T.blockquote || tag == T.pre ||
  tag == T.article || tag == T.section || tag == T.main || tag == T.header || tag == T.footer ||
  tag == T.nav || tag == T.aside

/-- `isBlockContainer` (of a node with these children) -/
def isBlockContainer (kids : List Dom) : Bool :=
  kids.any fun | .elem tag _ _ => isBlockTag tag | _ => false

mutual
/-- `isInlineContent`: the node neither is nor contains an element `traverseNodeFiltered` handles
itself (a block-level element, `li`, `code`); a skipped element (script, style, …) counts as
inline, it contributes no text -/
def isInline : Dom → Bool
  | .text _ => true
  | .other kids => isInlineL kids
  | .elem tag _ kids =>
    if isSkip tag then true
    else if isBlockTag tag || tag == T.li || tag == T.code then false
    else isInlineL kids
def isInlineL : List Dom → Bool
  | [] => true
  | k :: ks => isInline k && isInlineL ks
end

/-! ### tables -/

structure Cell where
  text : Str
  isHeader : Bool
  rowSpan : Int
  colSpan : Int
  deriving DecidableEq, Repr

def isDigit (c : Nat) : Bool := 48 ≤ c && c ≤ 57

/-- `(*ss).SkipSpace` of package fmt for Sscanf (newline is not space): `none` = error -/
def scanSkipSpace : Str → Option Str
  | [] => some []
  | c :: cs => if c = 10 then none else if isSpace c then scanSkipSpace cs else some (c :: cs)

def maxInt64 : Nat := 9223372036854775807

/-- `fmt.Sscanf(s, "%d", &v)`: `none` = v is left unchanged -/
def scanInt (s : Str) : Option Int :=
  match scanSkipSpace s with
  | none => none
  | some r =>
    let (neg, r1) := match r with
      | 43 :: t => (false, t)
      | 45 :: t => (true, t)
      | _ => (false, r)
    let ds := r1.takeWhile fun c => isDigit c || c == 95
    if ds = [] then none
    else if ds.any (· == 95) then none
    else
      let v := ds.foldl (fun a d => a * 10 + (d - 48)) 0
      if neg then (if v ≤ maxInt64 + 1 then some (-(v : Int)) else none)
      else (if v ≤ maxInt64 then some (v : Int) else none)

/-- the attribute loop of `parseTableRow` -/
def applySpans : List (Str × Str) → Cell → Cell
  | [], c => c
  | (k, v) :: rest, c =>
    let c1 :=
      if k = A.rowspan then (match scanInt v with | some n => { c with rowSpan := n } | none => c)
      else if k = A.colspan then (match scanInt v with | some n => { c with colSpan := n } | none => c)
      else c
    applySpans rest c1

/-- `parseTableRow` -/
def parseTableRow (isHeader : Bool) (kids : List Dom) : List Cell :=
  kids.filterMap fun
    | .elem tag attrs ks =>
      if tag = T.td ∨ tag = T.th then
        some (applySpans attrs
          { text := trim (getTextContent (.elem tag attrs ks)), isHeader := isHeader || tag == T.th, rowSpan := 1, colSpan := 1 })
      else none
    | _ => none

/-- `parseTableRows` (rows of one thead/tbody/tfoot): every `tr`, with or without cells -/
def parseTableRows (isHeader : Bool) (kids : List Dom) : List (List Cell) :=
  kids.filterMap fun
    | .elem tag _ ks => if tag = T.tr then some (parseTableRow isHeader ks) else none
    | _ => none

/-- the child loop of `parseTable`: rows in document order, and whether a thead was seen -/
def tableSections : List Dom → List (List Cell) × Bool
  | [] => ([], false)
  | .elem tag _ ks :: rest =>
    let (rows, hd) := tableSections rest
    if tag = T.thead then (parseTableRows true ks ++ rows, true)
    else if tag = T.tbody ∨ tag = T.tfoot then (parseTableRows false ks ++ rows, hd)
    else if tag = T.tr then (parseTableRow false ks :: rows, hd)
    else (rows, hd)
  | _ :: rest => tableSections rest

/-- `dropEmptyRows` (since fix 72cc329; Model/HtmlGrid.lean): a row without cells is dropped
unless a cell of a row above reaches into it with its rowspan — then it is a row of the table's
grid, all of whose positions are covered -/
def dropEmptyRows (rows : List (List Cell)) : List (List Cell) :=
  HtmlGrid.dropEmptyRows Cell.rowSpan rows

/-- `parseTable` as it was before fix 72cc329: every row without cells was dropped, also where a
rowspan from above covers all its positions (the rows below it then moved up) -/
def dropEmptyRowsOld (rows : List (List Cell)) : List (List Cell) := rows.filter fun r => !r.isEmpty

/-- `parseTable`: (rows, HasHeader) -/
def parseTable (kids : List Dom) : List (List Cell) × Bool :=
  let (rows0, hd) := tableSections kids
  let rows := dropEmptyRows rows0
  let hasHeader := hd || (match rows with | [] => false | r :: _ => r.any (·.isHeader))
  (rows, hasHeader)

/-! ### elements and the list context -/

/-- `listItem`: `Ordered` is the kind of the list the item was met in (nested lists may
differ from the root); only the Markdown view reads it -/
structure Item where
  text : Str
  level : Nat
  ordered : Bool := false
  deriving DecidableEq, Repr

/-- `parsedElement` -/
inductive Element where
  | heading (level : Nat) (text : Str)
  | para (text : Str)
  | list (ordered : Bool) (items : List Item)
  | table (hasHeader : Bool) (rows : List (List Cell))
  | code (text : Str)
  | quote (text : Str)
  deriving DecidableEq, Repr

/-- `parseContext` plus the output slice -/
structure St where
  inList : Bool := false
  ordered : Bool := false
  level : Nat := 0
  items : List Item := []
  out : List Element := []
  deriving DecidableEq, Repr

def St.emit (s : St) (e : Element) : St := { s with out := s.out ++ [e] }

/-- `(*parseContext).flushList` -/
def flushList (s : St) : St :=
  if s.inList && s.items != [] then { s with out := s.out ++ [.list s.ordered s.items], items := [] } else s

/-- the cases of the switch in `traverseNodeFiltered` -/
inductive TagK where
  | heading (level : Nat) | pdiv (isP : Bool) | list (ordered : Bool) | li | table | code | quote | void | other
  deriving DecidableEq, Repr

def classify (tag : Str) : TagK :=
  if tag = T.h1 then .heading 1 else if tag = T.h2 then .heading 2 else if tag = T.h3 then .heading 3
  else if tag = T.h4 then .heading 4 else if tag = T.h5 then .heading 5 else if tag = T.h6 then .heading 6
  else if tag = T.p then .pdiv true else if tag = T.div then .pdiv false
  else if tag = T.ul then .list false else if tag = T.ol then .list true
  else if tag = T.li then .li
  else if tag = T.table then .table
  else if tag = T.pre ∨ tag = T.code then .code
  else if tag = T.blockquote then .quote
  else if tag = T.br ∨ tag = T.hr then .void
  else .other

def isListElem : Dom → Bool
  | .elem tag _ _ => tag == T.ul || tag == T.ol
  | _ => false

/-- the part of the `li` case after the list context is known to be open -/
def liHead (kids : List Dom) (s : St) : St :=
  let text := getDirectTextContent kids
  let s1 := if text != [] then { s with items := s.items ++ [{ text := text, level := s.level, ordered := s.ordered }] } else s
  { s1 with level := s1.level + 1 }

/-- `ul`/`ol` case before the child loop: a list that starts at level 0 while items are
pending flushes them; then the list context is opened (or kept, when nested) -/
def listEnter (ord : Bool) (s : St) : St :=
  let s1 := if s.level == 0 then flushList s else s
  { s1 with inList := true, ordered := ord,
            items := if s1.inList then s1.items else [],
            level := if s1.inList then s1.level else 0 }

/-- `ul`/`ol` case after the child loop; `s` is the state at entry (prevInList,
prevOrdered, prevLevel), `s3` the state after the children -/
def listExit (s s3 : St) : St :=
  let s4 := if s.inList then s3
    else { (if s3.items != [] then s3.emit (.list s3.ordered s3.items) else s3) with inList := false, items := [] }
  { s4 with ordered := s.ordered, level := s.level }

/-- `ctx.listLevel--` -/
def liExit (s : St) : St := { s with level := s.level - 1 }

/-- an `li` outside any list opens a list of its own -/
def strayEnter (s : St) : St := { s with inList := true, ordered := false, level := 0, items := [] }

/-- … and closes it again -/
def strayExit (s : St) : St := { flushList s with inList := false, items := [] }

/-- `emitInlineRun`: the inline content collected between two block-level children of a block
container becomes a paragraph, unless it is blank -/
def emitRun (run : Str) (s : St) : St :=
  if trim run != [] then (flushList s).emit (.para (trim run)) else s

mutual
/-- `traverseNodeFiltered`; `p` is `ctx.checker.shouldExclude` (constantly false when the checker is nil),
`w` says whether body has a single top-level wrapper, `pos` where the node sits -/
def trav (p : Pos → Dom → Bool) (w : Bool) (pos : Pos) : Dom → St → St
  | .text _, s => s
  | .other kids, s => travL p w (pos.kid w []) kids s
  | .elem tag attrs kids, s =>
    if isSkip tag then s
    else if p pos (.elem tag attrs kids) then s
    else
      let kp := pos.kid w tag
      match classify tag with
      | .heading lvl =>
        let s1 := flushList s
        let t := trim (getTextContent (.elem tag attrs kids))
        if t != [] then s1.emit (.heading lvl t) else s1
      | .pdiv isP =>
        let s1 := if isP then flushList s else s
        let t := trim (getTextContent (.elem tag attrs kids))
        if t != [] && !isBlockContainer kids then (flushList s1).emit (.para t)
        else travM p w kp kids [] s1
      | .list ord => listExit s (travL p w kp kids (listEnter ord s))
      | .li =>
        if s.inList then liExit (travLi p w kp kids (liHead kids s))
        else strayExit (liExit (travLi p w kp kids (liHead kids (strayEnter s))))
      | .table =>
        let s1 := flushList s
        let (rows, hd) := parseTable kids
        if rows != [] then s1.emit (.table hd rows) else s1
      | .code =>
        let t := getTextContent (.elem tag attrs kids)
        if t != [] then (flushList s).emit (.code t) else s
      | .quote =>
        let t := trim (getTextContent (.elem tag attrs kids))
        if t != [] then (flushList s).emit (.quote t) else s
      | .void => s
      | .other => travL p w kp kids s
/-- the child loop -/
def travL (p : Pos → Dom → Bool) (w : Bool) (kp : Pos) : List Dom → St → St
  | [], s => s
  | k :: ks, s => travL p w kp ks (trav p w kp k s)
/-- the child loop of the `li` case: only nested ul/ol are visited -/
def travLi (p : Pos → Dom → Bool) (w : Bool) (kp : Pos) : List Dom → St → St
  | [], s => s
  | k :: ks, s => travLi p w kp ks (if isListElem k then trav p w kp k s else s)
/-- the child loop of a p/div block container (fix 75d57dc): the text of inline children is
collected in `run` (`getTextContentRecursive(c, &run)`); before any other child is traversed,
and at the end, the run is emitted as a paragraph (`emitInlineRun`) -/
def travM (p : Pos → Dom → Bool) (w : Bool) (kp : Pos) : List Dom → Str → St → St
  | [], run, s => emitRun run s
  | k :: ks, run, s =>
    if isInline k then travM p w kp ks (run ++ textRec k) s
    else travM p w kp ks [] (trav p w kp k (emitRun run s))
end

/-- `extractBodyWithMode` started at `body` with exclusion predicate `p` -/
def extractWith (p : Pos → Dom → Bool) (body : Dom) : List Element :=
  (flushList (trav p (hasWrapper body) .root body {})).out

/-- `getElements(mode)` on a fresh reader -/
def extract (m : Mode) (body : Dom) : List Element := extractWith (excluded m) body

/-! ### the specification: atoms in document order -/

inductive Atom where
  | heading (level : Nat) (text : Str)
  | para (text : Str)
  | item (level : Nat) (text : Str)
  | cell (c : Cell)
  | code (text : Str)
  | quote (text : Str)
  deriving DecidableEq, Repr

/-- list context of the specification: inside a list?, nesting level of its items -/
structure LC where
  inList : Bool
  level : Nat
  deriving DecidableEq, Repr

def LC.enter (lc : LC) : LC := if lc.inList then lc else ⟨true, 0⟩

/-- the paragraph an inline run becomes -/
def runAtoms (run : Str) : List Atom := if trim run != [] then [.para (trim run)] else []

mutual
/-- document-order sequence of content atoms of the non-skipped, non-excluded part of a subtree -/
def atoms (p : Pos → Dom → Bool) (w : Bool) (pos : Pos) (lc : LC) : Dom → List Atom
  | .text _ => []
  | .other kids => atomsL p w (pos.kid w []) lc kids
  | .elem tag attrs kids =>
    if isSkip tag then []
    else if p pos (.elem tag attrs kids) then []
    else
      let kp := pos.kid w tag
      match classify tag with
      | .heading lvl =>
        let t := trim (getTextContent (.elem tag attrs kids))
        if t != [] then [.heading lvl t] else []
      | .pdiv _ =>
        let t := trim (getTextContent (.elem tag attrs kids))
        if t != [] && !isBlockContainer kids then [.para t] else atomsM p w kp lc kids []
      | .list _ => atomsL p w kp lc.enter kids
      | .li =>
        let text := getDirectTextContent kids
        (if text != [] then [Atom.item lc.enter.level text] else []) ++
          atomsLi p w kp ⟨true, lc.enter.level + 1⟩ kids
      | .table => (parseTable kids).1.flatten.map .cell
      | .code =>
        let t := getTextContent (.elem tag attrs kids)
        if t != [] then [.code t] else []
      | .quote =>
        let t := trim (getTextContent (.elem tag attrs kids))
        if t != [] then [.quote t] else []
      | .void => []
      | .other => atomsL p w kp lc kids
def atomsL (p : Pos → Dom → Bool) (w : Bool) (kp : Pos) (lc : LC) : List Dom → List Atom
  | [] => []
  | k :: ks => atoms p w kp lc k ++ atomsL p w kp lc ks
def atomsLi (p : Pos → Dom → Bool) (w : Bool) (kp : Pos) (lc : LC) : List Dom → List Atom
  | [] => []
  | k :: ks => (if isListElem k then atoms p w kp lc k else []) ++ atomsLi p w kp lc ks
/-- the children of a p/div block container: a maximal run of inline children is one paragraph
(if it is not blank), the other children contribute by their own rules, all in document order;
`run` is the text of the inline children met since the last other child -/
def atomsM (p : Pos → Dom → Bool) (w : Bool) (kp : Pos) (lc : LC) : List Dom → Str → List Atom
  | [], run => runAtoms run
  | k :: ks, run =>
    if isInline k then atomsM p w kp lc ks (run ++ textRec k)
    else runAtoms run ++ atoms p w kp lc k ++ atomsM p w kp lc ks []
end

/-- the atoms of one parsed element -/
def Element.atoms : Element → List Atom
  | .heading l t => [.heading l t]
  | .para t => [.para t]
  | .list _ items => items.map fun i => .item i.level i.text
  | .table _ rows => rows.flatten.map .cell
  | .code t => [.code t]
  | .quote t => [.quote t]

def flatten (els : List Element) : List Atom := els.flatMap Element.atoms

/-- what the specification says a whole document returns under predicate `p` -/
def atomsOf (p : Pos → Dom → Bool) (body : Dom) : List Atom :=
  atoms p (hasWrapper body) .root ⟨false, 0⟩ body

/-! ### rendering (TextWithOptions, DocumentWithOptions) -/

def sep (acc : Str) : Str := if acc = [] then [] else [10, 10]

def spaces : Nat → Str
  | 0 => []
  | n + 1 => 32 :: 32 :: spaces n

def renderItems : List Item → Bool → Str
  | [], _ => []
  | i :: rest, first =>
    (if first then [] else [10]) ++ spaces i.level ++ [0x2022, 32] ++ i.text ++ renderItems rest false

def renderRow : List Cell → Bool → Str
  | [], _ => [10]
  | c :: rest, first => (if first then [] else [9]) ++ c.text ++ renderRow rest false

/-- `TextWithOptions` -/
def renderText : List Element → Str → Str
  | [], acc => acc
  | e :: rest, acc =>
    let acc1 := match e with
      | .heading _ t => acc ++ sep acc ++ t
      | .para t => acc ++ sep acc ++ t
      | .code t => acc ++ sep acc ++ t
      | .quote t => acc ++ sep acc ++ t
      | .list _ items => acc ++ sep acc ++ renderItems items true
      | .table _ rows => if rows = [] then acc else acc ++ sep acc ++ rows.flatMap (renderRow · true)
    renderText rest acc1

/-- per-mode element cache of `Reader.getElements`: mode None is answered from the
elements parsed at open time, other modes are computed once and stored by mode -/
structure Reader where
  body : Dom
  cache : List (Mode × List Element) := []

def lookup : List (Mode × List Element) → Mode → Option (List Element)
  | [], _ => none
  | (k, v) :: rest, m => if k = m then some v else lookup rest m

/-- `getElements`: result and new reader state -/
def getElements (r : Reader) (m : Mode) : List Element × Reader :=
  if m = .none then (extract .none r.body, r)
  else match lookup r.cache m with
    | some v => (v, r)
    | none => let v := extract m r.body; (v, { r with cache := (m, v) :: r.cache })

end Tabula.Html
