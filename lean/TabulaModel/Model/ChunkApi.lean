import TabulaModel.Model.ChunkLayout
/-!
# RAG chunking (property C12), part 5: the glue around the two chunkers

* `updateSectionPath` (`rag/document_integration.go`): the heading-stack step for a caller that
  knows only the level of the innermost open heading;
* `Document.AddPage` (`model/document.go`): how page numbers come about;
* the configuration the constructors `NewChunker` / `NewChunkerWithConfig` hand to `Chunk`
  (`rag/chunker.go`), with the two configurations the library names.
-/
namespace Tabula.ChunkApi
open Tabula.Chunk Tabula.ChunkLayout

/-! ## `updateSectionPath` -/

/-- the levels `updateSectionPath` takes the open headings to have: one apart, the innermost
at `cur` (`levels[i] = currentLevel - (len-1-i)`); the stack innermost first -/
def assumedStack : List Str → Int → List H
  | [], _ => []
  | t :: rest, cur => (cur, t) :: assumedStack rest (cur - 1)

/-- `updateSectionPath(sectionPath, currentLevel, newLevel, headingText)`: the new path
(outermost first) and the new current level -/
def updateSectionPath (path : List Str) (cur : Int) (lvl : Int) (text : Str) : List Str × Int :=
  ((pushSection (assumedStack path.reverse cur) lvl text).reverse.map (·.2), lvl)

/-- a sequence of calls, as a caller walking the headings of a document makes them -/
def runUpdate : List Str → Int → List (Int × Str) → List Str × Int
  | path, cur, [] => (path, cur)
  | path, cur, (l, t) :: hs =>
    let r := updateSectionPath path cur l t
    runUpdate r.1 r.2 hs

/-! ## `Document.AddPage` -/

/-- `AddPage`: a page whose `Number` is 0 gets its 1-based position, a preset number is kept;
`nums` are the numbers of the pages already in the document -/
def addPage (nums : List Int) (n : Int) : List Int :=
  nums ++ [if n == 0 then (nums.length : Int) + 1 else n]

/-- building a document by `AddPage` from pages with the given `Number` fields -/
def addPages (nums : List Int) : List Int → List Int
  | [] => nums
  | n :: ns => addPages (addPage nums n) ns

/-! ## the chunker's configuration -/

/-- `DefaultChunkerConfig()` as `NewChunker()` / `NewChunkerWithConfig` hand it to `Chunk`:
MaxChunkSize, MinChunkSize, MinHeadingLevel, PreserveListCoherence (→ the boundary detector's
KeepListsIntact), IDPrefix -/
def defaultCfg : Cfg := ⟨2000, 100, 3, true, ofString "chunk"⟩

/-- `RAGOptimizedOptions().ChunkerConfig`: only the sizes are set; every other field has Go's
zero value (MinHeadingLevel 0: no heading opens a section; lists not atomic; empty id prefix) -/
def ragOptimizedCfg : Cfg := ⟨1000, 100, 0, false, []⟩

def namedCfg : String → Option Cfg
  | "default" => some defaultCfg
  | "new-chunker" => some defaultCfg
  | "rag-optimized" => some ragOptimizedCfg
  | _ => none

end Tabula.ChunkApi
