/-
Model of xlsx/cell.go: ColumnToIndex, IndexToColumn, ParseCellRef, CellRef,
ParseRangeRef.  Core Lean only.  Strings are `Str` (the Go code works on
ASCII bytes; the harness only sends ASCII).  Characters are their byte values
(`Nat`), which keeps every proof inside `omega`.
-/
namespace Tabula.A1

abbrev Str := List Nat

def isLetter (c : Nat) : Bool := (65 ≤ c && c ≤ 90) || (97 ≤ c && c ≤ 122)

def upper (c : Nat) : Nat := if 97 ≤ c && c ≤ 122 then c - 32 else c

/-- `maxColumnNumber` of xlsx/cell.go (`1 << 40`): the largest column number (1-indexed)
`ColumnToIndex` converts -/
def maxColumnNumber : Nat := 1099511627776

/-- the loop of `ColumnToIndex`: `none` = the Go code returned -1 inside the loop — at a
character that is no letter, or (since the fix "ColumnToIndex rejects column letters that
overflow") as soon as the accumulated number exceeds `maxColumnNumber`.  The accumulator never
exceeds `26 * maxColumnNumber + 26` before the test, so the Go `int` does not wrap and the
natural number is exact. -/
def colAcc : Str → Nat → Option Nat
  | [], acc => some acc
  | c :: cs, acc =>
    let u := upper c
    if 65 ≤ u && u ≤ 90 then
      (if acc * 26 + (u - 65) + 1 > maxColumnNumber then none
       else colAcc cs (acc * 26 + (u - 65) + 1))
    else none

/-- `xlsx.ColumnToIndex` -/
def columnToIndex (s : Str) : Int :=
  match colAcc s 0 with
  | some r => (r : Int) - 1
  | none => -1

/-- loop of `IndexToColumn` on the 1-indexed value -/
def toColAux : Nat → Str → Str
  | 0, acc => acc
  | n + 1, acc => toColAux (n / 26) ((65 + n % 26) :: acc)
decreasing_by omega

/-- `xlsx.IndexToColumn` -/
def indexToColumn (i : Int) : Str :=
  if i < 0 then [] else toColAux (i.toNat + 1) []

/-- decimal printing of a natural number (what `%d` does for non-negative ints) -/
def decAux : Nat → Str → Str
  | n, acc =>
    if h : n < 10 then (48 + n) :: acc
    else decAux (n / 10) ((48 + n % 10) :: acc)
decreasing_by omega

def dec (n : Nat) : Str := decAux n []

def decInt (i : Int) : Str := if i < 0 then 45 :: dec i.natAbs else dec i.natAbs

/-- `xlsx.CellRef` -/
def cellRef (col row : Int) : Str := indexToColumn col ++ decInt (row + 1)

def digitsAcc : Str → Nat → Option Nat
  | [], acc => some acc
  | c :: cs, acc => if 48 ≤ c && c ≤ 57 then digitsAcc cs (acc * 10 + (c - 48)) else none

def maxInt64 : Nat := 9223372036854775807

/-- `strconv.Atoi` (base 10, optional sign, no underscores, int64 range) -/
def atoi (s : Str) : Option Int :=
  let (neg, ds) := match s with
    | 43 :: r => (false, r)
    | 45 :: r => (true, r)
    | r => (false, r)
  if ds.isEmpty then none else
  match digitsAcc ds 0 with
  | none => none
  | some v =>
    if neg then (if v ≤ maxInt64 + 1 then some (-(v : Int)) else none)
    else (if v ≤ maxInt64 then some (v : Int) else none)

inductive RefErr | empty | noCol | noRow | badCol | badRow | badRange
  deriving Repr, DecidableEq

/-- `xlsx.ParseCellRef`; result is (col,row), 0-indexed -/
def parseCellRef (ref : Str) : Except RefErr (Int × Int) :=
  if ref.isEmpty then .error .empty else
  let colPart := ref.takeWhile isLetter
  let rowPart := ref.dropWhile isLetter
  if colPart.isEmpty then .error .noCol
  else if rowPart.isEmpty then .error .noRow
  else
    let col := columnToIndex colPart
    if col < 0 then .error .badCol else
    match atoi rowPart with
    | none => .error .badRow
    | some rowNum => if rowNum < 1 then .error .badRow else .ok (col, rowNum - 1)

def splitOnColon : Str → Str → List Str
  | [], cur => [cur.reverse]
  | c :: cs, cur => if c = 58 then cur.reverse :: splitOnColon cs [] else splitOnColon cs (c :: cur)

/-- `xlsx.ParseRangeRef`: (startCol,startRow,endCol,endRow) -/
def parseRangeRef (ref : Str) : Except RefErr (Int × Int × Int × Int) :=
  match splitOnColon ref [] with
  | [a, b] =>
    match parseCellRef a with
    | .error e => .error e
    | .ok (sc, sr) =>
      match parseCellRef b with
      | .error e => .error e
      | .ok (ec, er) => .ok (sc, sr, ec, er)
  | _ => .error .badRange

end Tabula.A1
